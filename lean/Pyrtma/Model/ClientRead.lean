/-!
# M3 — `Client.read_message` / `Client._read_message` (src/pyrtma/client.py)

Executable model, core Lean only, at the level of **bytes on a socket**.

* The socket is the byte string still to be delivered plus what happens when it runs out
  (`End`: the peer is merely idle, has closed = FIN, or has reset = RST).  The contract assumed of
  CPython's `socket` (DESIGN.md section 4): `recv_into(.., n, MSG_WAITALL)` / `recv(n, MSG_WAITALL)`
  return short only at FIN, raise `ConnectionError` at RST, and would block on an idle peer.
  After a short read or a reset nothing is left to read (`⟨[], fin⟩`).
* The header is `cfg.hsize` bytes (48, or 56 with the timecode fields); the three fields the read path
  looks at are little-endian at fixed offsets: `msg_type` int32 @0, `num_data_bytes` int32 @32,
  `reserved`/version uint32 @44.
* The local definition table maps a type id to `(type_size, type_hash)` (`pyrtma.message._msg_defs`).
  v1 definitions (`type_size == -1`) are not modelled.

`readRaw` is `_read_message`, `readLoop`/`readMessage` is `read_message` (with `requires_connection`).
Exceptions are explicit outcomes.  The model is of the code **with the C08 fixes applied**
(`ConnectionError` paths set `_connected = False`; a reset while draining an undecodable frame is
`ConnectionLost`).  One quirk of the code is kept: FIN inside the *drained* payload of an undecodable frame
yields the decode error; the loss is reported by the next call.
-/
namespace Pyrtma.ClientRead

abbrev Bytes := List UInt8

/-- little-endian value of a byte string -/
def le (bs : Bytes) : Nat := bs.foldr (fun b acc => b.toNat + 256 * acc) 0

def u32At (h : Bytes) (off : Nat) : Nat := le ((h.drop off).take 4)

def i32At (h : Bytes) (off : Nat) : Int :=
  let n := u32At h off
  if n < 2147483648 then (n : Int) else (n : Int) - 4294967296

/-- `header.msg_type` -/
def hType (h : Bytes) : Int := i32At h 0
/-- `header.num_data_bytes` -/
def hLen (h : Bytes) : Int := i32At h 32
/-- `header.version` (= `reserved`) -/
def hVer (h : Bytes) : Nat := u32At h 44

structure Def where
  ty : Int
  size : Nat
  hash : Nat
deriving Repr, DecidableEq, Inhabited

structure Cfg where
  hsize : Nat            -- `header.size`
  defs : List Def        -- `_msg_defs`
  ack : Int              -- `MT_ACKNOWLEDGE`
deriving Repr, Inhabited

def Cfg.lookup (c : Cfg) (t : Int) : Option Def := c.defs.find? (fun d => d.ty == t)

/-- what happens when the byte string runs out -/
inductive End where
  | idle | fin | rst
deriving Repr, DecidableEq, Inhabited

structure Sock where
  data : Bytes
  tail : End
deriving Repr, DecidableEq, Inhabited

/-- the socket after the peer is known to be gone -/
def Sock.dead : Sock := ⟨[], .fin⟩

inductive Recv where
  | full (b : Bytes) (s : Sock)     -- all `n` bytes
  | short (b : Bytes)               -- FIN before `n` bytes: returns what there was
  | reset                           -- RST before `n` bytes: `ConnectionError`
  | block                           -- idle peer: the call would not return
deriving Repr, DecidableEq

/-- `recv(n, MSG_WAITALL)` -/
def recv (s : Sock) (n : Nat) : Recv :=
  if n ≤ s.data.length then .full (s.data.take n) { s with data := s.data.drop n }
  else match s.tail with
    | .fin => .short s.data
    | .rst => .reset
    | .idle => .block

/-- the `timeout` argument, by the branch it selects -/
inductive Tmo where
  | none     -- `timeout is None`: no select, blocking recv
  | zero     -- `timeout == 0`
  | pos      -- `timeout > 0`
  | neg      -- `timeout < 0` (default -1): blocking select
deriving Repr, DecidableEq, Inhabited

/-- what `select` reports: data pending, or a closed/reset peer -/
def readable (s : Sock) : Bool := !s.data.isEmpty || s.tail != .idle

/-- outcome of one call -/
inductive Res where
  | msg (hdr payload : Bytes)
  | none
  | unknownType (hdr raw : Bytes)   -- `UnknownMessageType(text, header, raw)`
  | invalidDef                      -- `InvalidMessageDefinition` (size or version)
  | lost                            -- `ConnectionLost`
  | notConnected                    -- `NotConnectedError`
  | blocked                         -- the call would hang (idle peer, blocking read)
  | crash                           -- an exception the code does not document (`ValueError` on a negative length)
deriving Repr, DecidableEq, Inhabited

/-- why a frame cannot be decoded -/
inductive Kind where
  | good | unknown | wrongSize | wrongVersion
deriving Repr, DecidableEq, Inhabited

/-- classification of a header against the local definitions (the checks of `_read_message`, in its order) -/
def kind (cfg : Cfg) (sync : Bool) (h : Bytes) : Kind :=
  match cfg.lookup (hType h) with
  | none => .unknown
  | some d =>
    if (d.size : Int) ≠ hLen h then .wrongSize
    else if sync && hVer h != 0 && hVer h != d.hash then .wrongVersion
    else .good

/-- the `recv(header.num_data_bytes, MSG_WAITALL)` that drains an undecodable frame, then raises `err` -/
def drain (s : Sock) (n : Int) (err : Bytes → Res) : Res × Sock :=
  if n < 0 then (.crash, s)
  else match recv s n.toNat with
    | .full raw s' => (err raw, s')
    | .short raw => (err raw, Sock.dead)          -- quirk: the short read is not looked at
    | .reset => (.lost, Sock.dead)
    | .block => (.blocked, s)

/-- `_read_message` (after `requires_connection`) -/
def readRaw (cfg : Cfg) (tmo : Tmo) (sync : Bool) (s : Sock) : Res × Sock :=
  if tmo != .none && !readable s then
    (if tmo == .neg then (.blocked, s) else (.none, s))
  else match recv s cfg.hsize with
    | .block => (.blocked, s)
    | .short _ => (.lost, Sock.dead)
    | .reset => (.lost, Sock.dead)
    | .full h s1 =>
      match kind cfg sync h with
      | .unknown => drain s1 (hLen h) (fun raw => .unknownType h raw)
      | .wrongSize => drain s1 (hLen h) (fun _ => .invalidDef)
      | .wrongVersion => drain s1 (hLen h) (fun _ => .invalidDef)
      | .good =>
        if hLen h = 0 then (.msg h [], s1)
        else match recv s1 (hLen h).toNat with
          | .full p s2 => (.msg h p, s2)
          | .short _ => (.lost, Sock.dead)
          | .reset => (.lost, Sock.dead)
          | .block => (.blocked, s1)

/-- the subscription filter of `read_message` -/
structure Sub where
  subAll : Bool
  subs : List Int
deriving Repr, DecidableEq, Inhabited

/-- a message of type `t` is handed to the caller -/
def wanted (cfg : Cfg) (sub : Sub) (ack : Bool) (t : Int) : Bool :=
  sub.subAll || sub.subs.contains t || (ack && t == cfg.ack)

/-- the `while M and M.header.msg_type not in self.subscribed_types` loop; `fuel` bounds the number of frames
    (never exhausted when `fuel > s.data.length`, theorem `C08.fuel_irrelevant`) -/
def readLoop (cfg : Cfg) (sub : Sub) (tmo : Tmo) (ack sync : Bool) : Nat → Sock → Res × Sock
  | 0, s => (.blocked, s)
  | fuel + 1, s =>
    match readRaw cfg tmo sync s with
    | (.msg h p, s') =>
      if wanted cfg sub ack (hType h) then (.msg h p, s')
      else if tmo == .zero then (.none, s')
      else readLoop cfg sub tmo ack sync fuel s'
    | r => r

structure St where
  sock : Sock
  connected : Bool
  sub : Sub
deriving Repr, DecidableEq, Inhabited

/-- what a caller (and the harness, through the fake socket) can see of one call -/
structure Obs where
  res : Res
  consumed : Nat         -- bytes taken from the socket by this call
  connected : Bool       -- `Client.connected` afterwards
deriving Repr, DecidableEq, Inhabited

/-- `Client.read_message(timeout, ack, sync_check)` -/
def readMessage (cfg : Cfg) (tmo : Tmo) (ack sync : Bool) (st : St) : Obs × St :=
  if !st.connected then (⟨.notConnected, 0, false⟩, st)
  else
    let r := readLoop cfg st.sub tmo ack sync (st.sock.data.length + 1) st.sock
    let c := r.1 != .lost
    (⟨r.1, st.sock.data.length - r.2.data.length, c⟩, { st with sock := r.2, connected := c })

/-- one step of a history: a read, a change of the subscription state between reads, or a change of the local
definition table between reads (`pyrtma.message._msg_defs`: a type id registered again with another layout through
`@message_def`, a definition added for a type that had none, a definition removed) — every read looks its frame's
type up in the table *as it is at the time of the read* (`get_msg_cls` is a plain dictionary lookup) -/
inductive Call where
  | read (tmo : Tmo) (ack sync : Bool)
  | setSub (sub : Sub)
  | setDefs (defs : List Def)
deriving Repr, DecidableEq, Inhabited

def runCalls : Cfg → List Call → St → List Obs
  | _, [], _ => []
  | cfg, .read tmo ack sync :: cs, st =>
    let r := readMessage cfg tmo ack sync st
    r.1 :: runCalls cfg cs r.2
  | cfg, .setSub sub :: cs, st => runCalls cfg cs { st with sub := sub }
  | cfg, .setDefs defs :: cs, st => runCalls { cfg with defs := defs } cs st

end Pyrtma.ClientRead
