/-!
# SHA-256 (FIPS 180-4) as an executable function over bytes — the `hashlib.sha256(raw.encode()).hexdigest()` of
# `parser.py: handle_signal / handle_struct / handle_message_def`

Core Lean only.  Words are `Nat`s kept below 2^32 (`Nat.land / lor / xor / shiftLeft / shiftRight` are evaluated by
the kernel with GMP, so the NIST vectors are theorems by `decide +kernel`, see `Proofs/Sha256.lean`); every function
is structurally recursive (no well-founded recursion), bytes are `Nat`s below 256.

Layout of the computation (section numbers of FIPS 180-4):
* `pad`  (5.1.1): message ‖ 0x80 ‖ 0x00 … ‖ 64-bit big-endian bit length, a multiple of 64 bytes;
* `blocks` / `wordsOf` (5.2.1): 64-byte blocks of sixteen big-endian 32-bit words;
* `compress` (6.2.2): 64 rounds; the message schedule is a sliding window of sixteen words
  (`W[t+16] = σ1(W[t+14]) + W[t+9] + σ0(W[t+1]) + W[t]`), produced in the same loop that consumes `W[t]`;
* `digestWords`: the eight words `H0 … H7`; `hexDigest`: 64 lower-case hex digits (`hexdigest()`);
  `word0`: `H0` = `int(hexdigest()[:8], 16)` — what the four back ends print and what `send_message` stamps into
  `header.version`.
-/
namespace Pyrtma.Sha256

def two32 : Nat := 4294967296

@[inline] def add32 (a b : Nat) : Nat := (a + b) % two32
@[inline] def rotr (x n : Nat) : Nat := ((x >>> n) ||| (x <<< (32 - n))) % two32
@[inline] def not32 (x : Nat) : Nat := x ^^^ 4294967295

@[inline] def ch (x y z : Nat) : Nat := (x &&& y) ^^^ (not32 x &&& z)
@[inline] def maj (x y z : Nat) : Nat := (x &&& y) ^^^ (x &&& z) ^^^ (y &&& z)
@[inline] def bsig0 (x : Nat) : Nat := rotr x 2 ^^^ rotr x 13 ^^^ rotr x 22
@[inline] def bsig1 (x : Nat) : Nat := rotr x 6 ^^^ rotr x 11 ^^^ rotr x 25
@[inline] def ssig0 (x : Nat) : Nat := rotr x 7 ^^^ rotr x 18 ^^^ (x >>> 3)
@[inline] def ssig1 (x : Nat) : Nat := rotr x 17 ^^^ rotr x 19 ^^^ (x >>> 10)

/-- the 64 round constants (4.2.2) -/
def K : List Nat := [
  0x428a2f98, 0x71374491, 0xb5c0fbcf, 0xe9b5dba5, 0x3956c25b, 0x59f111f1, 0x923f82a4, 0xab1c5ed5,
  0xd807aa98, 0x12835b01, 0x243185be, 0x550c7dc3, 0x72be5d74, 0x80deb1fe, 0x9bdc06a7, 0xc19bf174,
  0xe49b69c1, 0xefbe4786, 0x0fc19dc6, 0x240ca1cc, 0x2de92c6f, 0x4a7484aa, 0x5cb0a9dc, 0x76f988da,
  0x983e5152, 0xa831c66d, 0xb00327c8, 0xbf597fc7, 0xc6e00bf3, 0xd5a79147, 0x06ca6351, 0x14292967,
  0x27b70a85, 0x2e1b2138, 0x4d2c6dfc, 0x53380d13, 0x650a7354, 0x766a0abb, 0x81c2c92e, 0x92722c85,
  0xa2bfe8a1, 0xa81a664b, 0xc24b8b70, 0xc76c51a3, 0xd192e819, 0xd6990624, 0xf40e3585, 0x106aa070,
  0x19a4c116, 0x1e376c08, 0x2748774c, 0x34b0bcb5, 0x391c0cb3, 0x4ed8aa4a, 0x5b9cca4f, 0x682e6ff3,
  0x748f82ee, 0x78a5636f, 0x84c87814, 0x8cc70208, 0x90befffa, 0xa4506ceb, 0xbef9a3f7, 0xc67178f2]

/-- the initial hash value (5.3.3) -/
structure H8 where
  a : Nat
  b : Nat
  c : Nat
  d : Nat
  e : Nat
  f : Nat
  g : Nat
  h : Nat
deriving Repr, DecidableEq, Inhabited

def H0 : H8 :=
  ⟨0x6a09e667, 0xbb67ae85, 0x3c6ef372, 0xa54ff53a, 0x510e527f, 0x9b05688c, 0x1f83d9ab, 0x5be0cd19⟩

/-- one round: `k` the round constant, `w` the schedule word -/
@[inline] def round (s : H8) (k w : Nat) : H8 :=
  let t1 := add32 (add32 (add32 (add32 s.h (bsig1 s.e)) (ch s.e s.f s.g)) k) w
  let t2 := add32 (bsig0 s.a) (maj s.a s.b s.c)
  ⟨add32 t1 t2, s.a, s.b, s.c, add32 s.d t1, s.e, s.f, s.g⟩

/-- the next window: drop `W[t]`, append `W[t+16]`; windows shorter than 16 words (never produced by `wordsOf`
of a full block) are padded with zeros by `getD` -/
def nextWindow (w : List Nat) : List Nat :=
  let n := add32 (add32 (add32 (ssig1 (w.getD 14 0)) (w.getD 9 0)) (ssig0 (w.getD 1 0))) (w.getD 0 0)
  w.drop 1 ++ [n]

/-- the 64 rounds, one per round constant -/
def rounds : List Nat → H8 → List Nat → H8
  | [], s, _ => s
  | k :: ks, s, w => rounds ks (round s k (w.getD 0 0)) (nextWindow w)

/-- 6.2.2 for one block given as sixteen words -/
def compress (h : H8) (w : List Nat) : H8 :=
  let s := rounds K h w
  ⟨add32 h.a s.a, add32 h.b s.b, add32 h.c s.c, add32 h.d s.d, add32 h.e s.e, add32 h.f s.f, add32 h.g s.g,
   add32 h.h s.h⟩

/-- big-endian words of a byte list (a trailing group of fewer than four bytes is dropped: never happens after `pad`) -/
def wordsOf : List Nat → List Nat
  | a :: b :: c :: d :: r => (((a * 256 + b) * 256 + c) * 256 + d) :: wordsOf r
  | _ => []

/-- big-endian bytes of `n`, exactly `k` of them (`n` is reduced mod 256^k) -/
def beBytes : Nat → Nat → List Nat
  | 0, _ => []
  | k + 1, n => (n / 256 ^ k) % 256 :: beBytes k n

/-- 5.1.1: the number of zero bytes after 0x80 -/
def zeroPad (len : Nat) : Nat := (119 - len % 64) % 64

def pad (msg : List Nat) : List Nat :=
  msg ++ 128 :: (List.replicate (zeroPad msg.length) 0 ++ beBytes 8 (8 * msg.length))

/-- fold `compress` over the 16-word blocks; `n` = number of blocks (structural fuel) -/
def blocksFold : Nat → H8 → List Nat → H8
  | 0, h, _ => h
  | n + 1, h, ws => blocksFold n (compress h (ws.take 16)) (ws.drop 16)

def digestWords (msg : List Nat) : List Nat :=
  let p := pad msg
  let h := blocksFold (p.length / 64) H0 (wordsOf p)
  [h.a, h.b, h.c, h.d, h.e, h.f, h.g, h.h]

def hexDigit (n : Nat) : Char := if n < 10 then Char.ofNat (48 + n) else Char.ofNat (87 + n)

/-- eight lower-case hex digits of a 32-bit word -/
def hex8 (w : Nat) : List Char :=
  [hexDigit (w / 268435456 % 16), hexDigit (w / 16777216 % 16), hexDigit (w / 1048576 % 16), hexDigit (w / 65536 % 16),
   hexDigit (w / 4096 % 16), hexDigit (w / 256 % 16), hexDigit (w / 16 % 16), hexDigit (w % 16)]

/-- `hashlib.sha256(bytes).hexdigest()` -/
def hexDigest (msg : List Nat) : List Char := (digestWords msg).flatMap hex8

/-- `int(hashlib.sha256(bytes).hexdigest()[:8], 16)` -/
def word0 (msg : List Nat) : Nat := (digestWords msg).getD 0 0

/-! ### `str.encode()` — UTF-8 -/

def utf8Char (c : Char) : List Nat :=
  let n := c.toNat
  if n < 128 then [n]
  else if n < 2048 then [192 + n / 64, 128 + n % 64]
  else if n < 65536 then [224 + n / 4096, 128 + n / 64 % 64, 128 + n % 64]
  else [240 + n / 262144, 128 + n / 4096 % 64, 128 + n / 64 % 64, 128 + n % 64]

def utf8 (s : List Char) : List Nat := s.flatMap utf8Char

end Pyrtma.Sha256
