import Pyrtma.Model.ClientSub
/-!
# M2, second layer — the session life cycle of one `Client` object against the manager (C02, C06)

`Model/ClientSub.lean` is ONE connected session.  This file puts the life cycle around it, for one `Client`
object from its construction on, against the manager's connection table:

* Client (src/pyrtma/client.py): `__init__` (`_module_id`, `_dynamic_id = (module_id == 0)`, empty sets, not
  connected), `connect` (`if self.connected: self.disconnect()`, `_socket_connect`, `_connect_helper`: dynamic ⇒
  `_module_id = 0`, CONNECT_V2 carrying `self.module_id`, CONNECT, wait for the ACK, `if self._module_id == 0:
  self._module_id = ack.dest_mod_id`, reset of the three subscription fields, `send_module_ready`), `disconnect`
  (DISCONNECT only when `_connected`, then `_connected = False` and the reset — `_module_id` is kept),
  `requires_connection` (`NotConnectedError`, nothing touched), and the `ConnectionLost` paths of `_sendall` /
  `_read_message` (`_connected = False` and *nothing else*: the three subscription fields and `_module_id` keep
  their values until the next `disconnect()` / accepted `connect()`).
* Manager (src/pyrtma/manager.py): `run()` accepting a connection (`Module(...)`: `mod_id 0`, `connected False`,
  `unique True`, `subs` empty), `connect_module` for the CONNECT_V2 of the handshake (id 0 ⇒ `assign_module_id`: the
  rotating cursor, skipping every id any module record holds; explicit id ⇒ range check, then refusal if another
  record holds the id and either side is unique; names are not modelled: the harness connects with the empty
  name), the following CONNECT ignored (`module.connected`), one ACK carrying `module.mod_id`, `remove_module`
  on refusal / DISCONNECT / EOF, and the subscription tables of every record (`mgrRun` of the first layer).

A connection the client has lost may or may not have been noticed by the manager (`noticed`): an unnoticed one
stays in the table with its id and its subscriptions until the manager reads EOF on it (`mgrNotices`) — this is
where a stale dynamic id or a stale subscription set would do harm.  `connectLate` is a handshake the manager answers
only after the client's 3 s are over (`AcknowledgementTimeout`): since fix 5d9f32d (finding C02-F4) the object ends
disconnected, so it is an operation like the others and the theorems hold for every history.

Everything is executable; exceptions are explicit statuses.
-/
namespace Pyrtma.ClientSub

/-- `DYN_MOD_ID_START`, `MAX_MODULES` (core_defs); the harness sends the real values -/
structure IdCfg where
  dynStart : Int := 100
  maxModules : Int := 200
deriving Repr, DecidableEq, Inhabited

def IdCfg.maxDyn (cfg : IdCfg) : Nat := (cfg.maxModules - cfg.dynStart).toNat

/-! ### the client object -/

structure Cl where
  created : Int        -- the `module_id` given to `Client(...)`; `_dynamic_id = (created == 0)`
  modId : Int          -- `_module_id` (what `Client.module_id` reports)
  connected : Bool     -- `_connected`
  conn : Nat           -- which TCP connection `_sock` is (0: none yet)
  sub : CState         -- `_sub_all`, `_subscribed_types`, `_paused_types`
deriving Repr, DecidableEq, Inhabited

/-- `Client(module_id=created)` -/
def Cl.new (created : Int) : Cl := ⟨created, created, false, 0, CState.init⟩

/-! ### the manager's connection table -/

/-- one `Module` record -/
structure MConn where
  cid : Nat            -- the TCP connection (key of `MessageManager.modules`)
  own : Bool           -- a connection made by the client object under study (the others belong to other programs)
  modId : Int          -- `Module.mod_id`
  unique : Bool        -- `Module.unique`
  live : Bool          -- `Module.connected`
  m : MState           -- `Module.subs` and the reverse index
deriving Repr, DecidableEq, Inhabited

structure Mgr where
  conns : List MConn   -- `MessageManager.modules`, in insertion order
  cursor : Nat         -- `next_dynamic_mod_id_offset`
  next : Nat           -- the number the next accepted connection gets
deriving Repr, DecidableEq, Inhabited

def Mgr.find (g : Mgr) (cid : Nat) : Option MConn := g.conns.find? (fun r => r.cid == cid)

/-- `remove_module` -/
def Mgr.drop (g : Mgr) (cid : Nat) : Mgr := { g with conns := g.conns.filter (fun r => r.cid != cid) }

def Mgr.upd (g : Mgr) (cid : Nat) (f : MConn → MConn) : Mgr :=
  { g with conns := g.conns.map (fun r => if r.cid == cid then f r else r) }

/-- the subscription tables of connection `cid` replaced -/
def Mgr.setM (g : Mgr) (cid : Nat) (m : MState) : Mgr := g.upd cid (fun r => { r with m := m })

/-- `listen_socket.accept()` + `Module(uid, conn, address, header_cls)` -/
def Mgr.accept (g : Mgr) (own : Bool) : Mgr × Nat :=
  ({ g with conns := g.conns ++ [⟨g.next, own, 0, true, false, MState.init⟩], next := g.next + 1 }, g.next)

/-- `assign_module_id`: `n` probes left, cursor at `off`; returns the id and the new cursor -/
def assignLoop (ds : Int) (md : Nat) (used : List Int) : Nat → Nat → Option (Int × Nat)
  | 0, _ => none
  | n + 1, off =>
    let id := ds + (off : Int)
    let off' := if off + 1 == md then 0 else off + 1
    if used.contains id then assignLoop ds md used n off' else some (id, off')

/-- `connect_module` for the CONNECT_V2 of connection `cid` asking for id `req` with `allow_multiple = allow`
(empty name).  `some id`: accepted, the ACK carries `id`; `none`: refused, the record is removed (the client reads
EOF). -/
def Mgr.hello (cfg : IdCfg) (g : Mgr) (cid : Nat) (req : Int) (allow : Bool) : Mgr × Option Int :=
  if req != 0 then
    if req < 1 || req > cfg.dynStart then (g.drop cid, none)
    else if g.conns.any (fun r => r.cid != cid && r.modId == req && (r.unique || !allow)) then (g.drop cid, none)
    else (g.upd cid (fun r => { r with modId := req, unique := !allow, live := true }), some req)
  else
    match assignLoop cfg.dynStart cfg.maxDyn (g.conns.map (·.modId)) cfg.maxDyn g.cursor with
    | some (id, off) =>
      ({ g.upd cid (fun r => { r with modId := id, unique := !allow, live := true }) with cursor := off }, some id)
    | none => ({ g.drop cid with cursor := g.cursor }, none)

/-! ### the two-party system over several sessions -/

structure LSys where
  cl : Cl
  mg : Mgr
deriving Repr, DecidableEq, Inhabited

inductive LStatus where
  | ok
  | refused          -- `InvalidSubscription`
  | notConnected     -- `NotConnectedError`
  | lost             -- `ConnectionLost`
  | ackTimeout       -- `AcknowledgementTimeout` (only `connectLate`)
deriving Repr, DecidableEq, Inhabited

/-- one phase of an API call as the model sees it -/
structure LPhase where
  cl : Cl
  frames : List Frame        -- subscription control frames that reached the wire
  status : LStatus
  req : Option Int           -- `connect`: the `mod_id` field of the CONNECT_V2 it wrote
  ack : Option Int           -- `connect`: the `dest_mod_id` of the ACK the manager answered with
deriving Repr, DecidableEq, Inhabited

inductive LOp where
  | sub (op : Op)                                   -- a subscription call (first layer)
  | connect (allow : Bool)                          -- `Client.connect(..., allow_multiple=allow)`, in whatever state
  | disconnect                                      -- `Client.disconnect()`
  | lostRead (noticed : Bool)                       -- the connection dies; a `read_message` raises `ConnectionLost`
  | lostSend (noticed : Bool)                       -- the connection dies; a `send_signal` raises `ConnectionLost`
  | ctlLost (k : Ctl) (l : List Int) (noticed : Bool)  -- the connection dies just before a subscription call
  | mgrNotices                                      -- the manager reads EOF on every connection the client has left
  | connectLate (allow : Bool)                      -- `connect()` whose handshake the manager answers too late (> 3 s)
deriving Repr, DecidableEq, Inhabited


def okPhase (cl : Cl) : LPhase := ⟨cl, [], .ok, none, none⟩
def ncPhase (cl : Cl) : LPhase := ⟨cl, [], .notConnected, none, none⟩

def toL : Status → LStatus
  | .ok => .ok
  | .refused => .refused

/-- `Client.disconnect()` -/
def disconnectOp (s : LSys) : LPhase × Mgr :=
  (okPhase { s.cl with connected := false, sub := CState.init },
   if s.cl.connected then s.mg.drop s.cl.conn else s.mg)

/-- `_socket_connect` + `_connect_helper` (+ `send_module_ready`, which touches nothing modelled here) -/
def handshake (cfg : IdCfg) (cl : Cl) (g : Mgr) (allow : Bool) : LPhase × Mgr :=
  -- `_socket_connect`: a new TCP connection, accepted by the manager
  let a := g.accept true
  -- `_connect_helper`: `if self._dynamic_id: self._module_id = 0`
  let cl1 : Cl := { cl with conn := a.2, connected := true, modId := if cl.created == 0 then 0 else cl.modId }
  let req := cl1.modId          -- `msg2.mod_id = self.module_id`
  match a.1.hello cfg a.2 req allow with
  | (g', some id) =>
    -- `if self._module_id == 0: self._module_id = ack_msg.header.dest_mod_id`, then the reset of the three fields
    (⟨{ cl1 with modId := if cl1.modId == 0 then id else cl1.modId, sub := CState.init }, [], .ok, some req, some id⟩, g')
  | (g', none) =>
    -- the manager closed the connection: `_wait_for_acknowledgement` reads EOF, `_connected = False`, nothing else
    (⟨{ cl1 with connected := false }, [], .lost, some req, none⟩, g')

/-- `Client.connect(server, False, False, allow)` -/
def connectOp (cfg : IdCfg) (s : LSys) (allow : Bool) : LPhase × Mgr :=
  -- `if self.connected: self.disconnect()`
  let d := if s.cl.connected then disconnectOp s else (okPhase s.cl, s.mg)
  handshake cfg d.1.cl d.2 allow

/-- `Client.connect(...)` when the manager gets to the new connection only after `_wait_for_acknowledgement` has given
up: `AcknowledgementTimeout` escapes from `connect()`.  `_connect_helper` has reset `_module_id` (dynamic) and sent the
handshake; the failed wait closes the socket and sets `_connected = False` (fix 5d9f32d for finding C02-F4: before it the
object stayed "connected" with the old sets); the reset of the three subscription fields, which follows the ACK,
does not happen — harmless on a disconnected client, the next accepted connect does it.  The manager then processes
the CONNECT_V2 as usual and keeps the record until it notices that the connection is dead. -/
def connectLateOp (cfg : IdCfg) (s : LSys) (allow : Bool) : LPhase × Mgr :=
  let d := if s.cl.connected then disconnectOp s else (okPhase s.cl, s.mg)
  let a := d.2.accept true
  let cl1 : Cl := { d.1.cl with conn := a.2, connected := false, modId := if d.1.cl.created == 0 then 0 else d.1.cl.modId }
  let r := a.1.hello cfg a.2 cl1.modId allow
  (⟨cl1, [], .ackTimeout, some cl1.modId, r.2⟩, r.1)

/-- the connection of a connected client dies and the client finds out (`_connected = False`, nothing else) -/
def loseConn (s : LSys) (noticed : Bool) : LPhase × Mgr :=
  (⟨{ s.cl with connected := false }, [], .lost, none, none⟩, if noticed then s.mg.drop s.cl.conn else s.mg)

/-- a subscription call of a connected client: the phases of the first layer against the record of the current
connection (`none`: the manager has no such record; cannot happen, theorem `C02.connected_is_known`) -/
def subPhases (s : LSys) (op : Op) : List (LPhase × Mgr) :=
  match s.mg.find s.cl.conn with
  | some r =>
    (sysStep ⟨s.cl.sub, r.m⟩ op).map
      (fun x => (⟨{ s.cl with sub := x.1.st }, x.1.frames, toL x.1.status, none, none⟩, s.mg.setM s.cl.conn x.2))
  | none =>
    (runOp s.cl.sub op).map (fun p => (⟨{ s.cl with sub := p.st }, p.frames, toL p.status, none, none⟩, s.mg))

/-- one API call (or event): its phases, each with the manager's state after it -/
def lstep (cfg : IdCfg) (s : LSys) : LOp → List (LPhase × Mgr)
  | .sub .reconnect =>
    let d := disconnectOp s
    [d, connectOp cfg ⟨d.1.cl, d.2⟩ false]
  | .sub op => if s.cl.connected then subPhases s op else [(ncPhase s.cl, s.mg)]
  | .connect allow => [connectOp cfg s allow]
  | .disconnect => [disconnectOp s]
  | .lostRead n => if s.cl.connected then [loseConn s n] else [(ncPhase s.cl, s.mg)]
  | .lostSend n => if s.cl.connected then [loseConn s n] else [(ncPhase s.cl, s.mg)]
  | .ctlLost k l n =>
    if s.cl.connected then
      let p := control s.cl.sub k l
      if p.frames.isEmpty then subPhases s (.ctl k l)      -- nothing to send: the call does not touch the socket
      else
        -- the sets are updated first, the first `send_message` raises
        [(⟨{ s.cl with sub := p.st, connected := false }, [], .lost, none, none⟩,
          if n then s.mg.drop s.cl.conn else s.mg)]
    else [(ncPhase s.cl, s.mg)]
  | .mgrNotices =>
    [(okPhase s.cl,
      { s.mg with conns := s.mg.conns.filter (fun r => !r.own || (s.cl.connected && r.cid == s.cl.conn)) })]
  | .connectLate allow => [connectLateOp cfg s allow]

def lafter (s : LSys) : List (LPhase × Mgr) → LSys
  | [] => s
  | [x] => ⟨x.1.cl, x.2⟩
  | _ :: r => lafter s r

def lrun (cfg : IdCfg) (s : LSys) : List LOp → LSys
  | [] => s
  | op :: ops => lrun cfg (lafter s (lstep cfg s op)) ops

/-- the initial system: the client object just constructed; `others` are the records of other programs -/
def mkOthers : Nat → List (Int × Bool) → List MConn
  | _, [] => []
  | i, (id, u) :: r => ⟨i, false, id, u, true, MState.init⟩ :: mkOthers (i + 1) r

def LSys.init (created : Int) (others : List (Int × Bool)) (cursor : Nat) : LSys :=
  ⟨Cl.new created, ⟨mkOthers 1 others, cursor, others.length + 1⟩⟩

end Pyrtma.ClientSub
