/-!
# M1 — the message manager (`src/pyrtma/manager.py`, after the `fix:` commits)

Executable model, core Lean only.  One `step` per *round* of `MessageManager.run()`'s loop: optional `accept`,
the write-readiness sample, one frame per readable connection in service order, then the periodic
TIMING / TRAFFIC / ACTIVE_CLIENTS sends.  Everything the manager writes, every close and every failed write
is appended to `State.out` in the order it happens.

Conventions
* connections are named by the `uid` the manager gives them (accept order, starting at 1; 0 is the manager itself);
* the environment (`fail`: sockets whose next write fails, at the header or between header and payload;
  `wlist`: the writable set sampled by `select`) is part of the state;
* Python `set` iteration order is the parameter `Cfg.order` (the driver uses insertion order or its reverse,
  the theorems quantify over it);
* recursion (`forward → remove_module → send_client_close → forward`, `… → send_failed_message → forward`,
  `… → logger.error → forward`) goes through a fuel argument: `forward (fuel+1)` hands `forward fuel` to the
  per-recipient loop as a function value, so every definition is structurally recursive; running out of fuel
  sets `crashed` (never a silent default) and `Props` show the fuel the driver uses is enough;
* an exception nothing in the code catches is `crashed := some reason`; afterwards every operation is a no-op.
* log forwarding (`RTMALogHandler.emit` → `send_message` → `forward_message`) is modelled for every `self.logger.*`
  call of `manager.py` on the `run()` path: ERROR, WARNING, INFO and the ten DEBUG points (`send_client_close`,
  `send_client_info`, `send_active_clients`, `send_traffic`, `add/remove_subscription`, the `SET_NAME` line inside
  `connect_module`'s loop, `FORWARD`), each as `logAt cfg fwd <level>` at the place of the call; with
  `Cfg.logLevel` above a call's level it is the identity, exactly like the handler's level filter.
-/
namespace Pyrtma.Mgr

/-! ## Static configuration (constants come from the source tree at run time / from `Gen/Consts.lean` in theorems) -/

structure Cfg where
  maxModules : Int := 200
  dynStart : Int := 100
  maxHosts : Int := 5
  maxTypes : Int := 10000
  trafficSize : Nat := 64
  maxActive : Nat := 256
  allTypes : Int := 2147483647
  bufMax : Int := 1048576
  pTiming : Nat := 900             -- `min_timing_message_period`, `TRAFFIC_INTERVAL`, `INFO_INTERVAL` in milliseconds (read
  pTraffic : Nat := 1000           -- from the manager object at run time: no property fixes their values)
  pInfo : Nat := 5000
  logLevel : Nat := 100            -- a log call of level `l` is forwarded iff `l ≥ logLevel`
  timing : Bool := true            -- `send_msg_timing`
  mmPid : Int := 4242
  szInfo : Nat := 80
  szFailed : Nat := 64
  szTiming : Nat := 20808
  szTraffic : Nat := 408
  szActive : Nat := 1552
  szLog : Nat := 1936
  -- message type ids
  mtAck : Int := 2
  mtConnectV2 : Int := 4
  mtFailed : Int := 8
  mtConnect : Int := 13
  mtDisconnect : Int := 14
  mtSubscribe : Int := 15
  mtUnsubscribe : Int := 16
  mtModuleReady : Int := 26
  mtTraffic : Int := 30
  mtActive : Int := 31
  mtInfo : Int := 32
  mtClosed : Int := 33
  mtSetName : Int := 34
  mtLog : Int := 40               -- RTMA_LOG, then CRITICAL 41, ERROR 42, WARNING 43, INFO 44, DEBUG 45
  mtTiming : Int := 80
  mtPause : Int := 85
  mtResume : Int := 86
  order : List Nat → List Nat := id   -- iteration order of a Python `set` of modules
  fuel : Nat := 0                  -- 0 = automatic (`3 * live modules + 6`)

/-! ## Frames and output events -/

inductive Body where
  | data (k : Nat)                                  -- byte-identical copy (but `msg_count`) of input frame `k`
  | ack
  | info (uid : Nat) (pid modId : Int) (isLogger unique : Bool) (name : List Nat)
  | closed (uid : Nat) (pid modId : Int) (isLogger unique : Bool) (name : List Nat)
  | failed (destMod : Int) (mtype src dest : Int)   -- FAILED_MESSAGE: subscriber id, embedded header fields
  | timing (counts : List (Int × Nat)) (pids : List (Int × Int))
  | traffic (seqno sub : Nat) (types : List Int) (counts : List Nat)
  | active (num : Int) (ids pids : List Int)
  | log (level : Nat)
deriving Repr, DecidableEq, Inhabited

structure Frame where
  mtype : Int
  src : Int
  dest : Int
  destHost : Int
  nbytes : Nat
  body : Body
deriving Repr, DecidableEq, Inhabited

inductive Ev where
  | send (uid : Nat) (count : Nat) (f : Frame)      -- a whole frame written to `uid`, stamped `msg_count = count`
  | partialW (uid : Nat)                              -- header written, payload write failed
  | wfail (uid : Nat)                                -- a write to `uid` raised
  | close (uid : Nat)                                -- the manager closed `uid`'s socket
  | rd (uid : Nat)                                   -- the manager starts reading a frame from `uid`
deriving Repr, DecidableEq, Inhabited

/-! ## State -/

structure Module where
  uid : Nat
  modId : Int := 0
  pid : Int := 0
  name : List Nat := []            -- bytes before the first NUL
  subs : List Int := []
  connected : Bool := false
  isLogger : Bool := false
  isDaemon : Bool := false
  unique : Bool := true
  drops : Nat := 0
  msgCount : Nat := 0
  closed : Bool := false           -- socket closed (module is in the middle of `remove_module`)
deriving Repr, DecidableEq, Inhabited

inductive FailMode where
  | hdr | pay
deriving Repr, DecidableEq, Inhabited

/-- ghost history of the statistics (never read by the model): one mark per frame `forward_message` handles, one per
    reporting tick -/
inductive Mark where
  | fwd (t : Int) (stats : Bool)   -- `forward_message` handled a frame of type `t`; `stats` = inside a statistics send
  | timingTick                      -- a TIMING_MESSAGE report was made (`message_counts` starts afresh)
  | trafficTick                     -- a MESSAGE_TRAFFIC interval was reported (`traffic_counter` starts afresh)
deriving Repr, DecidableEq, Inhabited

structure State where
  mods : List Module := []                  -- `self.modules` in dict order; uid 0 = the manager's own entry
  idx : List (Int × List Nat) := []         -- `self.subscriptions`: type ↦ ordered set of uids
  loggers : List Nat := []                  -- `self.logger_modules`
  nextDyn : Nat := 0
  nextUid : Nat := 0
  wlist : List Nat := []
  fail : List (Nat × FailMode) := []        -- environment: sockets whose writes fail
  buf : List Nat := []                      -- first 48 bytes of `data_buffer`
  counts : List (Int × Nat) := []           -- `message_counts`
  traffic : List (Int × Nat) := []          -- `traffic_counter`
  trafficSeq : Nat := 1
  inTraffic : Bool := false                 -- `sending_traffic`
  tTiming : Nat := 0
  tTraffic : Nat := 0
  tInfo : Nat := 0
  now : Nat := 0                            -- ms
  out : List Ev := []                       -- newest LAST
  crashed : Option String := none
  hist : List Mark := []                    -- ghost: frames handled by `forward_message` and report ticks, newest FIRST
deriving Repr, Inhabited

def bufLen : Nat := 48

/-! ### small table helpers -/

def State.find (s : State) (u : Nat) : Option Module := s.mods.find? (·.uid == u)

def State.upd (s : State) (u : Nat) (f : Module → Module) : State :=
  { s with mods := s.mods.map (fun m => if m.uid == u then f m else m) }

def State.emit (s : State) (e : Ev) : State := { s with out := s.out ++ [e] }

def State.crash (s : State) (why : String) : State :=
  match s.crashed with
  | some _ => s
  | none => { s with crashed := some why }

/-- ordered-set insert -/
def setAdd (l : List Nat) (u : Nat) : List Nat := if u ∈ l then l else l ++ [u]

def idxGet (idx : List (Int × List Nat)) (t : Int) : List Nat :=
  match idx.find? (·.1 == t) with
  | some p => p.2
  | none => []

def idxAdd (idx : List (Int × List Nat)) (t : Int) (u : Nat) : List (Int × List Nat) :=
  if idx.any (·.1 == t) then idx.map (fun p => if p.1 == t then (p.1, setAdd p.2 u) else p)
  else idx ++ [(t, [u])]

def idxDiscard (idx : List (Int × List Nat)) (t : Int) (u : Nat) : List (Int × List Nat) :=
  idx.map (fun p => if p.1 == t then (p.1, p.2.filter (· != u)) else p)

/-- `Counter[t] += 1` (insertion ordered) -/
def ctrInc (c : List (Int × Nat)) (t : Int) : List (Int × Nat) :=
  if c.any (·.1 == t) then c.map (fun p => if p.1 == t then (p.1, p.2 + 1) else p) else c ++ [(t, 1)]

def failOf (s : State) (u : Nat) : Option FailMode := (s.fail.find? (·.1 == u)).map (·.2)

/-! ## Frames the manager builds -/

def mgrFrame (t : Int) (dest : Int) (n : Nat) (b : Body) : Frame :=
  { mtype := t, src := 0, dest := dest, destHost := 0, nbytes := n, body := b }

def logType (cfg : Cfg) (lvl : Nat) : Int :=
  if lvl == 50 then cfg.mtLog + 1 else if lvl == 40 then cfg.mtLog + 2 else if lvl == 30 then cfg.mtLog + 3
  else if lvl == 20 then cfg.mtLog + 4 else if lvl == 10 then cfg.mtLog + 5 else cfg.mtLog

def logFrame (cfg : Cfg) (lvl : Nat) : Frame := mgrFrame (logType cfg lvl) 0 cfg.szLog (.log lvl)

def infoFrame (cfg : Cfg) (m : Module) : Frame :=
  mgrFrame cfg.mtInfo 0 cfg.szInfo (.info m.uid m.pid m.modId m.isLogger m.unique m.name)

def closedFrame (cfg : Cfg) (m : Module) : Frame :=
  mgrFrame cfg.mtClosed 0 cfg.szInfo (.closed m.uid m.pid m.modId m.isLogger m.unique m.name)

def failedFrame (cfg : Cfg) (destMod : Int) (f : Frame) : Frame :=
  mgrFrame cfg.mtFailed 0 cfg.szFailed (.failed destMod f.mtype f.src f.dest)

def ackFrame (cfg : Cfg) (dest : Int) : Frame := mgrFrame cfg.mtAck dest 0 .ack

/-- the recursion guard of `send_failed_message` -/
def inGuard (cfg : Cfg) (t : Int) : Bool :=
  t == cfg.mtFailed || (cfg.mtLog ≤ t && t ≤ cfg.mtLog + 5)

/-! ## Writing one frame to one connection (`Module.send_message`) -/

/-- Returns the new state and whether the write succeeded (`false` = `ConnectionError`). -/
def sendRaw (s : State) (u : Nat) (f : Frame) : State × Bool :=
  match s.find u with
  | none => (s.crash "send to a module that is not in the table", false)
  | some m =>
    if m.closed then (s.crash "OSError: write on a closed socket", false)
    else
      let s := s.upd u (fun m => { m with msgCount := m.msgCount + 1 })
      match failOf s u with
      | some .hdr => (s.emit (.wfail u), false)
      | some .pay => ((s.emit (.partialW u)).emit (.wfail u), false)
      | none => (s.emit (.send u (m.msgCount + 1) f), true)

abbrev Fwd := State → Frame → State

/-- a manager log call of level `lvl` -/
def logAt (cfg : Cfg) (fwd : Fwd) (lvl : Nat) (s : State) : State :=
  if lvl ≥ cfg.logLevel then fwd s (logFrame cfg lvl) else s

/-- the first half of `remove_module`: drop the subscriptions, leave the logger set, close the socket -/
def removePrep (s : State) (u : Nat) (m : Module) : State :=
  let s := { s with idx := m.subs.foldl (fun i t => idxDiscard i t u) s.idx,
                    loggers := s.loggers.filter (· != u) }
  let s := if m.closed then s else s.emit (.close u)
  s.upd u (fun m => { m with closed := true, connected := false })

/-- `remove_module` -/
def removeModule (cfg : Cfg) (fwd : Fwd) (s : State) (u : Nat) : State :=
  match s.find u with
  | none => s                                -- `if module.conn not in self.modules: return`
  | some m =>
    let s := logAt cfg fwd 10 (removePrep s u m)       -- `send_client_close`: `logger.debug("CLIENT_CLOSE")`
    let s := fwd s (closedFrame cfg { m with connected := false })
    { s with mods := s.mods.filter (·.uid != u) }

/-- `send_failed_message` -/
def failedMsg (cfg : Cfg) (fwd : Fwd) (s : State) (destMod : Int) (f : Frame) : State :=
  if inGuard cfg f.mtype then s else fwd s (failedFrame cfg destMod f)

/-- the `try: module.send_message(...) except ConnectionError:` block shared by forward_message,
    send_to_loggers and send_ack -/
def trySend (cfg : Cfg) (fwd : Fwd) (s : State) (u : Nat) (f : Frame) : State :=
  let modId := match s.find u with | some m => m.modId | none => 0
  let (s1, ok) := sendRaw s u f
  if ok then s1.upd u (fun m => { m with drops := 0 })
  else if s1.crashed.isSome then s1
  else
    let s2 := removeModule cfg fwd s1 u
    let s3 := logAt cfg fwd 40 s2
    failedMsg cfg fwd s3 modId f

/-- one iteration of the per-recipient loop of `forward_message` -/
def deliverOne (cfg : Cfg) (fwd : Fwd) (f : Frame) (s : State) (u : Nat) : State :=
  match s.find u with
  | none => s                                  -- removed while this message was being delivered
  | some m =>
    if u ∈ s.wlist then
      if f.dest == 0 || m.modId == f.dest || m.isLogger then trySend cfg fwd s u f else s
    else if m.isLogger then trySend cfg fwd s u f
    else failedMsg cfg fwd (s.upd u (fun m => { m with drops := m.drops + 1 })) m.modId f

/-- the per-recipient loop of `forward_message` over the snapshot `rs` -/
def deliver (cfg : Cfg) (fwd : Fwd) (f : Frame) : List Nat → State → State
  | [], s => s
  | u :: rest, s => deliver cfg fwd f rest (deliverOne cfg fwd f s u)

def recipients (cfg : Cfg) (s : State) (t : Int) : List Nat :=
  cfg.order (idxGet s.idx t) ++ cfg.order (idxGet s.idx cfg.allTypes)

def countMsg (cfg : Cfg) (s : State) (t : Int) : State :=
  if s.inTraffic then { s with hist := .fwd t true :: s.hist }
  else { s with counts := if cfg.timing then ctrInc s.counts t else s.counts, traffic := ctrInc s.traffic t,
                hist := .fwd t false :: s.hist }

/-- `forward_message` -/
def forward (cfg : Cfg) : Nat → State → Frame → State
  | 0, s, _ => s.crash "out of fuel"
  | fuel + 1, s, f =>
    if s.crashed.isSome then s else
    let s := countMsg cfg s f.mtype
    if f.dest < 0 || f.dest > cfg.maxModules then logAt cfg (forward cfg fuel) 40 s
    else if f.destHost < 0 || f.destHost > cfg.maxHosts then logAt cfg (forward cfg fuel) 40 s
    else deliver cfg (forward cfg fuel) f (recipients cfg s f.mtype) s

def autoFuel (s : State) : Nat := 3 * s.mods.length + 6

def fuelOf (cfg : Cfg) (s : State) : Nat := if cfg.fuel == 0 then autoFuel s else cfg.fuel

/-- top-level forward (fresh fuel) -/
def fwdTop (cfg : Cfg) : Fwd := fun s f => forward cfg (fuelOf cfg s) s f

/-- one iteration of `send_to_loggers` -/
def loggerOne (cfg : Cfg) (f : Frame) (s : State) (u : Nat) : State :=
  match s.find u with
  | none => s
  | some _ => trySend cfg (fwdTop cfg) s u f

/-- `send_to_loggers` over the snapshot `ls` -/
def toLoggers (cfg : Cfg) (f : Frame) : List Nat → State → State
  | [], s => s
  | u :: rest, s => toLoggers cfg f rest (loggerOne cfg f s u)

/-- `MessageManager.send_ack` -/
def sendAck (cfg : Cfg) (s : State) (u : Nat) : State :=
  match s.find u with
  | none => s                                -- `if src_module.conn not in self.modules: return`
  | some m =>
    let f := ackFrame cfg m.modId
    let s := trySend cfg (fwdTop cfg) s u f
    toLoggers cfg f (cfg.order s.loggers) s

/-! ## Connection handling -/

def lookupMod (s : State) (u : Nat) : Module := (s.find u).getD { uid := u }

/-- `assign_module_id`: probe at most `n` candidates -/
def assignLoop (dynStart : Int) (maxDyn : Nat) (used : List Int) : Nat → Nat → Option (Int × Nat)
  | 0, _ => none
  | n + 1, off =>
    let id := dynStart + (off : Int)
    let off' := if off + 1 == maxDyn then 0 else off + 1
    if used.contains id then assignLoop dynStart maxDyn used n off' else some (id, off')

def maxDyn (cfg : Cfg) : Nat := (cfg.maxModules - cfg.dynStart).toNat

def assignId (cfg : Cfg) (s : State) : Option (Int × Nat) :=
  assignLoop cfg.dynStart (maxDyn cfg) (s.mods.map (·.modId)) (maxDyn cfg) s.nextDyn

/-- one iteration of the `for m in self.modules.values()` check; `true` = refuse -/
def clash (me other : Module) : Bool :=
  (other.modId == me.modId && (other.unique || me.unique)) ||
  (!me.name.isEmpty && (other.unique || me.unique) && other.name == me.name)

def i16 (lo hi : Nat) : Int :=
  let v := lo + 256 * hi
  if v ≥ 32768 then (v : Int) - 65536 else v

def i32 (b0 b1 b2 b3 : Nat) : Int :=
  let v := b0 + 256 * b1 + 65536 * b2 + 16777216 * b3
  if v ≥ 2147483648 then (v : Int) - 4294967296 else v

def byteAt (buf : List Nat) (i : Nat) : Nat := buf.getD i 0

def bufI16 (buf : List Nat) (o : Nat) : Int := i16 (byteAt buf o) (byteAt buf (o + 1))
def bufI32 (buf : List Nat) (o : Nat) : Int :=
  i32 (byteAt buf o) (byteAt buf (o + 1)) (byteAt buf (o + 2)) (byteAt buf (o + 3))

/-- bytes of a `char[n]` field up to the first NUL; `none` when a byte ≥ 0x80 occurs before it (ascii decode fails) -/
def cstr (buf : List Nat) (o n : Nat) : Option (List Nat) :=
  let raw := ((buf.drop o).take n).takeWhile (· != 0)
  if raw.all (· < 128) then some raw else none

structure Hdr where
  k : Nat := 0            -- serial number of the input frame (provenance)
  mtype : Int := 0
  src : Int := 0
  dest : Int := 0
  destHost : Int := 0
  nbytes : Int := 0
deriving Repr, DecidableEq, Inhabited

/-- what CONNECT_V2 (all of id, uniqueness, pid) or CONNECT (the header's source id) writes into the module record
    before anything is checked -/
def setReq (cfg : Cfg) (buf : List Nat) (h : Hdr) (x : Module) : Module :=
  if h.mtype == cfg.mtConnectV2 then
    { x with modId := bufI16 buf 6, unique := bufI16 buf 4 == 0, pid := bufI32 buf 8 }
  else { x with modId := h.src }

/-- …plus the fields common to both versions, and the decoded name -/
def setAll (cfg : Cfg) (buf : List Nat) (h : Hdr) (nm : List Nat) (x : Module) : Module :=
  { setReq cfg buf h x with name := nm, isLogger := bufI16 buf 0 == 1, isDaemon := bufI16 buf 2 == 1 }

/-- the `for m in list(self.modules.values())` loop of `connect_module` over the snapshot of the *other* modules:
    stops at the first clash (`true`); an iteration that passes logs `SET_NAME …` at DEBUG level when the newcomer has a
    name (the forward of that log message may drop modules; the snapshot is not affected) -/
def clashLoop (cfg : Cfg) (me : Module) : List Module → State → State × Bool
  | [], s => (s, false)
  | o :: rest, s =>
    if clash me o then (s, true)
    else clashLoop cfg me rest (if me.name.isEmpty then s else logAt cfg (fwdTop cfg) 10 s)

/-- `connect_module`; returns the state and whether the module was accepted -/
def connectModule (cfg : Cfg) (s : State) (u : Nat) (h : Hdr) : State × Bool :=
  let m := lookupMod s u
  if m.connected then (s, false) else
  let fwd := fwdTop cfg
  let v2 := h.mtype == cfg.mtConnectV2
  -- fields taken from the frame
  let nameR : Option (List Nat) := if v2 then cstr s.buf 12 32 else some m.name
  match nameR with
  | none =>
    let s := s.upd u (setReq cfg s.buf h)
    let s := logAt cfg fwd 40 s
    (removeModule cfg fwd s u, false)
  | some nm =>
    let m2 := setAll cfg s.buf h nm m
    let s := s.upd u (setAll cfg s.buf h nm)
    if m2.modId != 0 then
      if m2.modId < 1 || m2.modId > cfg.dynStart then
        let s := logAt cfg fwd 40 s
        (removeModule cfg fwd s u, false)
      else
        let (s, clashed) := clashLoop cfg m2 (s.mods.filter (·.uid != u)) s
        if clashed then
          let s := logAt cfg fwd 40 s
          (removeModule cfg fwd s u, false)
        else
          let s := s.upd u (fun m => { m with connected := true })
          ({ s with loggers := if m2.isLogger then setAdd s.loggers u else s.loggers }, true)
    else
      match assignId cfg s with
      | none =>
        let s := logAt cfg fwd 40 s
        (removeModule cfg fwd s u, false)
      | some (id, off) =>
        let s := { s with nextDyn := off }
        let s := s.upd u (fun m => { m with modId := id, connected := true })
        ({ s with loggers := if m2.isLogger then setAdd s.loggers u else s.loggers }, true)

/-- the fields of the connecting `Module` *object* once `connect_module` has accepted it (the object outlives its table
    entry: `send_client_info(src_module)` describes it even if a log or ACK write removed it in the meantime) -/
def connectRecord (cfg : Cfg) (s : State) (u : Nat) (h : Hdr) : Module :=
  let m := lookupMod s u
  let nm := if h.mtype == cfg.mtConnectV2 then (cstr s.buf 12 32).getD [] else m.name
  let m2 := setAll cfg s.buf h nm m
  if m2.modId != 0 then { m2 with connected := true }
  else match assignId cfg (s.upd u (setAll cfg s.buf h nm)) with
    | some (id, _) => { m2 with modId := id, connected := true }
    | none => m2

/-- replace module `u`'s `subs` -/
def State.setSubs (s : State) (u : Nat) (l : List Int) : State := s.upd u (fun m => { m with subs := l })

/-- the table update of `add_subscription` / `resume_subscription` (after the fix: clear first, then add) -/
def addSubCore (cfg : Cfg) (s : State) (u : Nat) (t : Int) : State :=
  let m := lookupMod s u
  if t == cfg.allTypes then
    ({ s with idx := idxAdd (m.subs.foldl (fun i t' => idxDiscard i t' u) s.idx) t u }).setSubs u [t]
  else if m.subs.contains cfg.allTypes then s
  else
    ({ s with idx := idxAdd s.idx t u }).setSubs u (if m.subs.contains t then m.subs else m.subs ++ [t])

/-- a (un)subscription request is logged at DEBUG level unless it is ignored (single type while subscribed to all) -/
def subLogs (cfg : Cfg) (m : Module) (t : Int) : Bool := t == cfg.allTypes || !m.subs.contains cfg.allTypes

/-- `add_subscription` / `resume_subscription`: the update, then `logger.debug("SUBSCRIBE- …")` -/
def addSub (cfg : Cfg) (s : State) (u : Nat) (t : Int) : State :=
  if subLogs cfg (lookupMod s u) t then logAt cfg (fwdTop cfg) 10 (addSubCore cfg s u t) else addSubCore cfg s u t

/-- the table update of `remove_subscription` / `pause_subscription` -/
def removeSubCore (cfg : Cfg) (s : State) (u : Nat) (t : Int) : State :=
  let m := lookupMod s u
  if t == cfg.allTypes then
    ({ s with idx := m.subs.foldl (fun i t' => idxDiscard i t' u) (idxDiscard s.idx t u) }).setSubs u []
  else if m.subs.contains cfg.allTypes then s
  else
    ({ s with idx := idxDiscard s.idx t u }).setSubs u (m.subs.filter (· != t))

/-- `remove_subscription` / `pause_subscription`: the update, then `logger.debug("UNSUBSCRIBE- …")` -/
def removeSub (cfg : Cfg) (s : State) (u : Nat) (t : Int) : State :=
  if subLogs cfg (lookupMod s u) t then logAt cfg (fwdTop cfg) 10 (removeSubCore cfg s u t) else removeSubCore cfg s u t

/-- `send_client_info(module)` for a module object whose record is `m`: `logger.debug("CLIENT_INFO")`, then the frame -/
def infoOf (cfg : Cfg) (s : State) (m : Module) : State :=
  fwdTop cfg (logAt cfg (fwdTop cfg) 10 s) (infoFrame cfg m)

def sendInfo (cfg : Cfg) (s : State) (u : Nat) : State :=
  match s.find u with
  | none => s
  | some m => infoOf cfg s m

/-- `process_message` for the frame whose header is `h` and whose payload is already in `s.buf` -/
def processMessage (cfg : Cfg) (s : State) (u : Nat) (h : Hdr) : State :=
  let t := h.mtype
  if t == cfg.mtConnect || t == cfg.mtConnectV2 then
    let m := connectRecord cfg s u h
    let (s, ok) := connectModule cfg s u h
    if ok then
      let s := sendAck cfg s u
      -- send_client_info(src_module) uses the Module object even if the ACK write just removed it
      let s := infoOf cfg s m
      logAt cfg (fwdTop cfg) 20 s
    else s
  else if t == cfg.mtDisconnect then
    logAt cfg (fwdTop cfg) 20 (removeModule cfg (fwdTop cfg) s u)
  else if t == cfg.mtSubscribe || t == cfg.mtResume then
    sendAck cfg (addSub cfg s u (bufI32 s.buf 0)) u
  else if t == cfg.mtUnsubscribe || t == cfg.mtPause then
    sendAck cfg (removeSub cfg s u (bufI32 s.buf 0)) u
  else if t == cfg.mtSetName then
    match cstr s.buf 0 32 with
    | none =>
      let s := logAt cfg (fwdTop cfg) 40 s
      removeModule cfg (fwdTop cfg) s u
    | some nm =>
      let s := s.upd u (fun m => { m with name := nm })
      -- `send_client_info(src_module)`: the object is described even if the INFO log line just removed it
      let m := lookupMod s u
      let s := logAt cfg (fwdTop cfg) 20 s
      infoOf cfg s m
  else if t == cfg.mtModuleReady then
    sendInfo cfg (s.upd u (fun m => { m with pid := bufI32 s.buf 0 })) u
  else
    -- `logger.debug("FORWARD - …")`, then the frame
    fwdTop cfg (logAt cfg (fwdTop cfg) 10 s)
      { mtype := t, src := h.src, dest := h.dest, destHost := h.destHost,
        nbytes := h.nbytes.toNat, body := .data h.k }

/-! ## Reading -/

structure Read where
  uid : Nat
  hdrErr : Bool := false        -- ConnectionError at the header recv
  hdrOk : Bool := true          -- a full header arrived
  h : Hdr := {}
  payErr : Bool := false        -- ConnectionError at the payload recv
  avail : Nat := 0              -- payload bytes that arrive before EOF
  pay : List Nat := []          -- the first `min avail 48` of them
deriving Repr, Inhabited

def bufWrite (buf : List Nat) (pay : List Nat) (n : Nat) : List Nat :=
  let k := min n bufLen
  let p := (pay ++ List.replicate k 0).take k
  p ++ ((buf ++ List.replicate bufLen 0).take bufLen).drop k

/-- one iteration of `for client_socket in rlist` -/
def readOne (cfg : Cfg) (s : State) (r : Read) : State :=
  if s.crashed.isSome then s else
  match s.find r.uid with
  | none => s                                      -- `if src:` — already removed in this round
  | some _ =>
    let fwd := fwdTop cfg
    let s := s.emit (.rd r.uid)
    if r.hdrErr then logAt cfg fwd 40 (removeModule cfg fwd s r.uid)
    else if !r.hdrOk then logAt cfg fwd 30 (removeModule cfg fwd s r.uid)
    else if r.h.nbytes < 0 || r.h.nbytes > cfg.bufMax then logAt cfg fwd 30 (removeModule cfg fwd s r.uid)
    else if r.h.nbytes > 0 then
      if r.payErr then logAt cfg fwd 40 (removeModule cfg fwd s r.uid)
      else if r.avail < r.h.nbytes.toNat then
        let s := { s with buf := bufWrite s.buf r.pay r.avail }
        logAt cfg fwd 30 (removeModule cfg fwd s r.uid)
      else
        let s := { s with buf := bufWrite s.buf r.pay r.h.nbytes.toNat }
        processMessage cfg s r.uid r.h
    else processMessage cfg s r.uid r.h

/-! ## Periodic messages -/

def u16 (n : Nat) : Nat := n % 65536

/-- `data.timing[mt] = count` for in-range types: the non-zero entries (in counter order; the driver sorts them by
    index for printing, which is how they sit in the array) -/
def timingEntries (cfg : Cfg) (c : List (Int × Nat)) : List (Int × Nat) :=
  ((c.filter (fun p => 0 ≤ p.1 && p.1 < cfg.maxTypes)).map (fun p => (p.1, u16 p.2))).filter (fun p => p.2 != 0)

def insertSortedI (p : Int × Int) : List (Int × Int) → List (Int × Int)
  | [] => [p]
  | q :: r => if p.1 < q.1 then p :: q :: r else if p.1 == q.1 then p :: r else q :: insertSortedI p r

/-- `data.ModulePID[mod.mod_id] = mod.pid` in dict order (later entries overwrite), as index-sorted non-zero entries -/
def pidEntries (ms : List Module) : List (Int × Int) :=
  (ms.foldl (fun acc m => insertSortedI (m.modId, m.pid) acc) []).filter (fun p => p.2 != 0)

def sendTiming (cfg : Cfg) (s : State) : State :=
  let body := Body.timing (timingEntries cfg s.counts) (pidEntries s.mods)
  let s := { s with counts := [], inTraffic := true }
  let s := fwdTop cfg s (mgrFrame cfg.mtTiming 0 cfg.szTiming body)
  { s with inTraffic := false, hist := .timingTick :: s.hist }

/-- split the counter into full chunks and the rest -/
def chunks (n : Nat) (l : List (Int × Nat)) : Nat → List (List (Int × Nat))
  | 0 => []
  | fuel + 1 => if l.length ≤ n ∨ n = 0 then (if l.isEmpty then [] else [l]) else l.take n :: chunks n (l.drop n) fuel

def trafficBody (cfg : Cfg) (seqno sub : Nat) (prev : List (Int × Nat)) (c : List (Int × Nat)) : Body :=
  -- a full chunk overwrites every slot; the last (short) chunk pads types with -1 and counts with 0
  let _ := prev
  let pad := cfg.trafficSize - c.length
  .traffic seqno sub (c.map (·.1) ++ List.replicate pad (-1)) (c.map (fun p => u16 p.2) ++ List.replicate pad 0)

def enumFrom1 : Nat → List (List (Int × Nat)) → List (Nat × List (Int × Nat))
  | _, [] => []
  | i, c :: r => (i, c) :: enumFrom1 (i + 1) r

/-- the MESSAGE_TRAFFIC sub-messages of one reporting interval -/
def trafficFrames (cfg : Cfg) (seqno : Nat) (c : List (Int × Nat)) : List Frame :=
  (enumFrom1 1 (chunks cfg.trafficSize c (c.length + 1))).map
    (fun p => mgrFrame cfg.mtTraffic 0 cfg.szTraffic (trafficBody cfg seqno p.1 [] p.2))

def sendTraffic (cfg : Cfg) (s : State) : State :=
  let s := { s with inTraffic := true }
  let s := logAt cfg (fwdTop cfg) 10 s                 -- `logger.debug("MESSAGE_TRAFFIC")`, inside the statistics context
  let s := (trafficFrames cfg s.trafficSeq s.traffic).foldl (fwdTop cfg) s
  { s with inTraffic := false, traffic := [], tTraffic := s.now, trafficSeq := s.trafficSeq + 1,
           hist := .trafficTick :: s.hist }

def trimZeros (l : List Int) : List Int := (l.reverse.dropWhile (· == 0)).reverse

def infoAll (cfg : Cfg) : List Module → State → State
  | [], s => s
  | m :: rest, s => infoAll cfg rest (infoOf cfg s ((s.find m.uid).getD m))

def sendActive (cfg : Cfg) (s : State) : State :=
  let s := logAt cfg (fwdTop cfg) 10 s                 -- `logger.debug("ACTIVE_CLIENTS")`
  let snap := s.mods
  let s := infoAll cfg snap s
  let first := snap.take cfg.maxActive
  let body := Body.active ((s.mods.length : Int) - 1) (trimZeros (first.map (·.modId))) (trimZeros (first.map (·.pid)))
  let s := fwdTop cfg s (mgrFrame cfg.mtActive 0 cfg.szActive body)
  { s with tInfo := s.now }

/-! ## One round of `run()` -/

structure Round where
  dt : Nat := 0                               -- ms the clock advances before this round's `select` returns
  accept : Bool := false
  writable : List Nat := []
  reads : List Read := []
  failSet : List (Nat × Option FailMode) := []   -- environment changes taking effect at the start of the round
deriving Repr, Inhabited

def setFail (fl : List (Nat × FailMode)) (u : Nat) (m : Option FailMode) : List (Nat × FailMode) :=
  let fl := fl.filter (·.1 != u)
  match m with
  | some x => fl ++ [(u, x)]
  | none => fl

def readAll (cfg : Cfg) : List Read → State → State
  | [], s => s
  | r :: rest, s => readAll cfg rest (readOne cfg s r)

/-- clock and environment changes at the start of a round -/
def envStep (s : State) (r : Round) : State :=
  -- a failure mode can only be given to a connection that exists when the round starts
  { s with now := s.now + r.dt,
           fail := (r.failSet.filter (·.1 ≤ s.nextUid)).foldl (fun fl p => setFail fl p.1 p.2) s.fail }

/-- `accept()`: the log line comes before the new table entry -/
def acceptStep (cfg : Cfg) (s : State) : State :=
  let s := logAt cfg (fwdTop cfg) 20 s
  { s with nextUid := s.nextUid + 1, mods := s.mods ++ [{ uid := s.nextUid + 1 }] }

/-- the `if len(rlist) > 0:` block -/
def ioStep (cfg : Cfg) (s : State) (accept : Bool) (writable : List Nat) (reads : List Read) : State :=
  if accept || !reads.isEmpty then
    let s := if accept then acceptStep cfg s else s
    let live := s.mods.map (·.uid)
    readAll cfg reads { s with wlist := if reads.isEmpty then [] else writable.filter (live.contains ·) }
  else s

/-- the periodic messages at the end of every round -/
def ticks (cfg : Cfg) (s : State) : State :=
  let s := if cfg.timing && s.now - s.tTiming > cfg.pTiming then { sendTiming cfg s with tTiming := s.now } else s
  let s := if s.now - s.tTraffic > cfg.pTraffic then sendTraffic cfg s else s
  if s.now - s.tInfo > cfg.pInfo then sendActive cfg s else s

def step (cfg : Cfg) (s : State) (r : Round) : State :=
  if s.crashed.isSome then s else
  let s := envStep s r
  -- only connections that are in the table when `select` is called can be reported readable
  let reads := r.reads.filter (fun rd => (s.find rd.uid).isSome)
  ticks cfg (ioStep cfg s r.accept r.writable reads)

def init (cfg : Cfg) : State :=
  let s : State := { mods := [{ uid := 0, name := "message_manager".toList.map (·.toNat), pid := cfg.mmPid,
                                connected := true }] }
  -- `self.logger.info("Message Manager Initialized.")` at the end of `__init__`
  logAt cfg (fwdTop cfg) 20 s

def run (cfg : Cfg) (rs : List Round) : State := rs.foldl (step cfg) (init cfg)

end Pyrtma.Mgr
