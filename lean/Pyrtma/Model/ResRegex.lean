import Pyrtma.Model.Registry
/-!
# The `_RESERVED_` range syntax as `re` executes it (parser.py `handle_reserve`)

    m = re.search(r"\s*(?P<start>[0-9]+)\s*(\-|to)\s*(?P<end>[0-9]+)\s*", e)
    start = int(m.groupdict()["start"]);  end = int(m.groupdict()["end"])

`Model/Registry.lean: rangeSearch` is a hand-derived deterministic scan.  This file models the regular expression
itself — the pattern as a list of items and a **backtracking** matcher with the semantics of CPython's `sre` for
the constructs that occur: greedy single-character repeats that give characters back one at a time
(`SRE_OP_REPEAT_ONE` / `MAX_UNTIL`), ordered alternation of literals, named groups, and `search` = the first start
position (left to right, the end of the string included) at which a match exists.  `Proofs/ResRegex.lean` proves
that the two agree on every string, so the backtracking never changes the answer.

Nothing after the match is looked at (`search`, not `fullmatch`): trailing text is ignored, which is why
`"7 8 10-12-99"` reserves 10 … 12.
-/
namespace Pyrtma.ResRegex
open Pyrtma.Registry

/-- the two character classes of the pattern: `\s` and `[0-9]` -/
inductive Cls where
  | space | digit
deriving Repr, DecidableEq, Inhabited

def Cls.test : Cls → Char → Bool
  | .space => isWs
  | .digit => isDigit

/-- the constructs of the pattern -/
inductive Item where
  | star (c : Cls)                       -- `c*`, greedy
  | plusCap (g : Nat) (c : Cls)          -- `(?P<g>c+)`, greedy, captured as group `g`
  | alts (ws : List (List Char))         -- `(w₁|w₂|…)`: literal words, tried in order
deriving Repr, DecidableEq, Inhabited

abbrev Caps := List (Nat × List Char)

/-- length of the longest prefix made of characters of the class (what a greedy repeat takes first) -/
def run (c : Cls) (s : List Char) : Nat := (s.takeWhile c.test).length

/-- `f (lo+k)`, `f (lo+k-1)`, …, `f lo`: first success (a greedy repeat giving back one character at a time) -/
def tryDown (f : Nat → Option α) (lo : Nat) : Nat → Option α
  | 0 => f lo
  | k + 1 => match f (lo + k + 1) with
    | some r => some r
    | none => tryDown f lo k

def stripPrefix : List Char → List Char → Option (List Char)
  | [], s => some s
  | _ :: _, [] => none
  | w :: ws, c :: cs => if w == c then stripPrefix ws cs else none

/-- ordered alternation: the first word that matches *and* lets the rest of the pattern match -/
def firstAlt (k : List Char → Option Caps) (s : List Char) : List (List Char) → Option Caps
  | [] => none
  | w :: ws =>
    match (stripPrefix w s).bind k with
    | some r => some r
    | none => firstAlt k s ws

/-- match the items at the head of `s`; the match may end anywhere (no `$`).  Captures of the successful path. -/
def matchHere : List Item → List Char → Caps → Option Caps
  | [], _, caps => some caps
  | .star c :: rest, s, caps => tryDown (fun n => matchHere rest (s.drop n) caps) 0 (run c s)
  | .plusCap g c :: rest, s, caps =>
    if run c s = 0 then none
    else tryDown (fun n => matchHere rest (s.drop n) (caps ++ [(g, s.take n)])) 1 (run c s - 1)
  | .alts ws :: rest, s, caps => firstAlt (fun s' => matchHere rest s' caps) s ws

/-- `re.search`: the leftmost start position with a match (the empty suffix is a start position too) -/
def search (items : List Item) : List Char → Option Caps
  | [] => matchHere items [] []
  | c :: cs => match matchHere items (c :: cs) [] with
    | some r => some r
    | none => search items cs

def group (caps : Caps) (g : Nat) : List Char :=
  match caps.find? (·.1 == g) with
  | some p => p.2
  | none => []

/-- `\s*(?P<start>[0-9]+)\s*(\-|to)\s*(?P<end>[0-9]+)\s*`  (group 0 = `start`, group 1 = `end`) -/
def rangeRe : List Item :=
  [.star .space, .plusCap 0 .digit, .star .space, .alts [['-'], ['t', 'o']], .star .space, .plusCap 1 .digit, .star .space]

/-- `int(m.groupdict()["start"]), int(m.groupdict()["end"])` -/
def capsVal (caps : Caps) : Nat × Nat := (digitsVal (group caps 0), digitsVal (group caps 1))

/-- the two numbers `handle_reserve` reads out of a string entry; `none`: `re.search` returned `None` -/
def reRange (s : List Char) : Option (Nat × Nat) := (search rangeRe s).map capsVal

end Pyrtma.ResRegex
