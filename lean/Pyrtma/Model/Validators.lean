/-!
# M4 — field validation and stores (`pyrtma/validators.py`)

Executable model of every descriptor's `__set__` / `__setitem__`:

    setField en ty old key v  =  (field bytes afterwards, exception raised if any)

`validate` is the Python-level check done by the validators when `_VALIDATION_ENABLED` is true
(`validate_one`, `validate_many`, `validate_array` and the value conversions done by `Byte` / `ByteArray` /
`String`); `store` is what ctypes does with the value it is then handed (`setattr(obj, "_name", value)` or
`ctypes_array[key] = value`).  The ctypes store writes sequence elements one at a time and **can fail half way**
(that is how the model is written: `storeMany` returns the partially written bytes together with the error), so
"a refused assignment leaves every byte unchanged" is a theorem about `validate` (everything it lets through is
storable), not something true by construction.

Floats cross as IEEE-754 bit patterns (`Nat`); `roundMag` is round-to-nearest-even into a format, `narrow` the
C cast `(float)double`, `ofInt` is `PyLong_AsDouble`.

The model mirrors the code *with the proposed fixes C09-F1, C09-F2, C10-F1 applied* (element-wise float check,
`try/finally` in the disable block, NUL padding of string stores).
-/
namespace Pyrtma.Validators

abbrev Bytes := List Nat

/-! ## kinds -/
inductive IK | i8 | i16 | i32 | i64 | u8 | u16 | u32 | u64
  deriving DecidableEq, Repr, Inhabited
inductive FK | f32 | f64
  deriving DecidableEq, Repr, Inhabited

def IK.size : IK → Nat
  | .i8 | .u8 => 1 | .i16 | .u16 => 2 | .i32 | .u32 => 4 | .i64 | .u64 => 8
def IK.signed : IK → Bool
  | .i8 | .i16 | .i32 | .i64 => true | _ => false
/-- `_min` of the validator class -/
def IK.lo (k : IK) : Int := if k.signed then -(2 ^ (8 * k.size - 1) : Int) else 0
/-- `_max` of the validator class -/
def IK.hi (k : IK) : Int := if k.signed then 2 ^ (8 * k.size - 1) - 1 else 2 ^ (8 * k.size) - 1
def FK.size : FK → Nat | .f32 => 4 | .f64 => 8

/-- identity of a ctypes simple class (`c_int8 is c_byte`, `c_uint8 is c_ubyte`, `c_int64 is c_long`), or of the array
class `c_char * n` (the `_ctype` of `String(n)`: `String.__set__` hands an instance of exactly that class to ctypes
unvalidated - where the char-array setter refuses it) -/
inductive CT | int (k : IK) | flt (k : FK) | char | chars (n : Nat)
  deriving DecidableEq, Repr, Inhabited

inductive PyErr | typeError | valueError | overflowError | indexError | attributeError
  deriving DecidableEq, Repr, Inhabited

/-- Python values that can occur as a sequence element / scalar right-hand side -/
inductive Scalar
  | int (n : Int) | bool (b : Bool) | flt (bits : Nat) | str (cs : List Nat) | bytes (bs : List Nat)
  | other                                   -- None, object(), a nested list ...: no number, no str, not iterable here
  | cdata (t : CT) (raw : Bytes)            -- instance of a ctypes simple class
  | strct (tid : Nat) (raw : Bytes)         -- instance of MessageBase subclass number `tid`
  deriving DecidableEq, Repr, Inhabited

/-- list / tuple / ctypes array are sized and re-iterable; a generator is neither -/
inductive SeqK | list | tuple | carray | gen
  deriving DecidableEq, Repr, Inhabited

inductive ArrCls | intArray | floatArray | byteArray | structArray
  deriving DecidableEq, Repr, Inhabited

/-- identity of the element validator of an array descriptor -/
inductive VK | int (k : IK) | flt (k : FK) | byte | strct (tid : Nat) (size : Nat)
  deriving DecidableEq, Repr, Inhabited

inductive PyVal
  | sc (s : Scalar)
  | seq (k : SeqK) (xs : List Scalar)
  /-- an `ArrayField` / `StructArray` object, bound to a message (raw bytes of that field) or not -/
  | arr (cls : ArrCls) (vk : VK) (n : Nat) (bound : Option Bytes)
  deriving DecidableEq, Repr, Inhabited

inductive Key
  | whole                                        -- `msg.field = v`
  | idx (i : Int)                                -- `msg.field[i] = v`
  | slice (start stop step : Option Int)         -- `msg.field[a:b:c] = v`
  | bad                                          -- `msg.field["x"] = v`
  deriving DecidableEq, Repr, Inhabited

/-- field descriptors -/
inductive FTy
  | int (k : IK) | flt (k : FK) | char | byte | str (n : Nat)
  | arr (cls : ArrCls) (vk : VK) (n : Nat)
  | strct (tid : Nat) (size : Nat)
  deriving DecidableEq, Repr, Inhabited

def VK.esize : VK → Nat
  | .int k => k.size | .flt k => k.size | .byte => 1 | .strct _ sz => sz

def FTy.size : FTy → Nat
  | .int k => k.size | .flt k => k.size | .char => 1 | .byte => 1 | .str n => n
  | .arr _ vk n => vk.esize * n | .strct _ sz => sz

/-! ## little-endian integers -/
def toLE : Nat → Nat → Bytes
  | 0, _ => []
  | n + 1, u => (u % 256) :: toLE n (u / 256)

def fromLE : Bytes → Nat
  | [] => 0
  | b :: bs => b + 256 * fromLE bs

/-- what ctypes writes for an int (no range check: wraps) -/
def encInt (k : IK) (n : Int) : Bytes := toLE k.size (n % (2 ^ (8 * k.size) : Int)).toNat

def decInt (k : IK) (bs : Bytes) : Int :=
  let u := fromLE bs
  if k.signed && decide (u ≥ 2 ^ (8 * k.size - 1)) then (u : Int) - 2 ^ (8 * k.size) else u

/-! ## IEEE-754 -/
structure Fmt where
  p : Nat        -- precision including the hidden bit
  ebits : Nat
def fmt32 : Fmt := ⟨24, 8⟩
def fmt64 : Fmt := ⟨53, 11⟩
def Fmt.mbits (f : Fmt) : Nat := f.p - 1
def Fmt.infPat (f : Fmt) : Nat := (2 ^ f.ebits - 1) * 2 ^ f.mbits
/-- exponent of the least significant bit of a subnormal: -149 / -1074 -/
def Fmt.emin (f : Fmt) : Int := 3 - (2 ^ (f.ebits - 1) : Nat) - f.p
def Fmt.sign (f : Fmt) : Nat := 2 ^ (f.ebits + f.mbits)

/-- number of binary digits; structural on a fuel argument (`Nat.log2` is defined by well-founded recursion, which
neither the kernel nor `whnf` can unfold on open terms) -/
def bitLenAux : Nat → Nat → Nat
  | 0, _ => 0
  | f + 1, n => if n = 0 then 0 else bitLenAux f (n / 2) + 1
@[irreducible] def bitLen (n : Nat) : Nat := bitLenAux n n

/-- `num / 2^t` rounded to nearest, ties to even -/
@[irreducible] def rne (num t : Nat) : Nat :=
  if t = 0 then num else
    let q := num / 2 ^ t
    let r := num % 2 ^ t
    let h := 2 ^ (t - 1)
    if r > h || (r == h && q % 2 == 1) then q + 1 else q

/-- magnitude bit pattern of `m * 2^e` rounded into `f` (a result `≥ f.infPat` means overflow).
Uses that for IEEE formats the pattern of a finite value is `s * 2^mbits + mantissa` where `s` is the number of
bits shifted out beyond the subnormal position.

Declared `opaque`: the compiled driver runs this body, but for the kernel (and so for every theorem) the rounding
function is an uninterpreted parameter - what is proved holds for *any* rounding, and what is specific to
round-to-nearest-even is checked on every case against ctypes (bit for bit) and against the Spec's `isNearestMag`.
(Besides being the honest reading of "ctypes supplies the rounding", this keeps `2^1074`-sized arithmetic on open
terms away from the kernel's and the elaborator's `whnf`.) -/
opaque roundMag (f : Fmt) (m : Nat) (e : Int) : Nat :=
  let num := m * 2 ^ (e - f.emin).toNat
  let sh0 := (f.emin - e).toNat
  let s := bitLen (num / 2 ^ sh0) - f.p
  s * 2 ^ f.mbits + rne num (sh0 + s)

inductive FV | nan | inf | fin (m : Nat) (e : Int)
  deriving DecidableEq, Repr

def decodeMag (f : Fmt) (pat : Nat) : FV :=
  let E := pat / 2 ^ f.mbits
  let M := pat % 2 ^ f.mbits
  if E ≥ 2 ^ f.ebits - 1 then (if M == 0 then .inf else .nan)
  else if E == 0 then .fin M f.emin else .fin (M + 2 ^ f.mbits) (f.emin + E - 1)

/-- `(float)x` for a double bit pattern -/
@[irreducible] def narrow (b : Nat) : Nat :=
  let sgn := b / 2 ^ 63 % 2
  let mag := b % 2 ^ 63
  sgn * 2 ^ 31 +
    match decodeMag fmt64 mag with
    | .nan => 0x7fc00000 + (mag % 2 ^ 51) / 2 ^ 29
    | .inf => fmt32.infPat
    | .fin m e => min (roundMag fmt32 m e) fmt32.infPat

/-- `(double)f` for a float bit pattern (exact) -/
@[irreducible] def widen (b : Nat) : Nat :=
  let sgn := b / 2 ^ 31 % 2
  let mag := b % 2 ^ 31
  sgn * 2 ^ 63 +
    match decodeMag fmt32 mag with
    | .nan => 0x7ff8000000000000 + (mag % 2 ^ 22) * 2 ^ 29
    | .inf => fmt64.infPat
    | .fin m e => roundMag fmt64 m e

/-- `PyLong_AsDouble`: `none` = OverflowError -/
@[irreducible] def ofInt (n : Int) : Option Nat :=
  let mag := roundMag fmt64 n.natAbs 0
  if mag ≥ fmt64.infPat then none else some ((if n < 0 then 2 ^ 63 else 0) + mag)

def isInf64 (b : Nat) : Bool := b % 2 ^ 63 == fmt64.infPat
def isInf32 (b : Nat) : Bool := b % 2 ^ 31 == fmt32.infPat
def isNaN64 (b : Nat) : Bool := b % 2 ^ 63 > fmt64.infPat

/-- the Python float a value is converted to by `c_float(v)` / `c_double(v)` / the ctypes setter -/
def toDouble : Scalar → Except PyErr Nat
  | .flt b => .ok b
  | .int n => match ofInt n with | some b => .ok b | none => .error .overflowError
  | .bool b => .ok (if b then 0x3ff0000000000000 else 0)
  | _ => .error .typeError

/-- bytes ctypes writes for the double `b` into a field of kind `k` -/
def encFlt (k : FK) (b : Nat) : Bytes :=
  match k with | .f64 => toLE 8 b | .f32 => toLE 4 (narrow b)

/-- `math.isinf(self._ctype(v).value)` -/
def infAfter (k : FK) (b : Nat) : Bool :=
  match k with | .f64 => isInf64 b | .f32 => isInf32 (narrow b)

/-! ## Python slices (`PySlice_Unpack` + `PySlice_AdjustIndices`) -/
def adjust (len : Int) (step : Int) (x : Int) : Int :=
  if x < 0 then (if x + len < 0 then (if step < 0 then -1 else 0) else x + len)
  else if x ≥ len then (if step < 0 then len - 1 else len) else x

/-- the element indices selected by `[start:stop:step]` on a sequence of length `len`, in assignment order -/
def sliceIndices (len : Nat) (start stop step : Option Int) : Except PyErr (List Nat) :=
  let st := step.getD 1
  if st == 0 then .error .valueError else
    let l : Int := len
    let a := match start with | some x => adjust l st x | none => if st < 0 then l - 1 else 0
    let b := match stop with | some x => adjust l st x | none => if st < 0 then -1 else l
    let cnt : Nat :=
      if st < 0 then (if b < a then ((a - b - 1) / (-st) + 1).toNat else 0)
      else (if a < b then ((b - a - 1) / st + 1).toNat else 0)
    .ok ((List.range cnt).map fun (i : Nat) => (a + (i : Int) * st).toNat)

/-! ## validation (Python level) -/

def validateOne (vk : VK) (s : Scalar) : Except PyErr Unit :=
  match vk with
  | .int k =>
    match s with
    | .cdata (.int k') _ => if k' = k then .ok () else .error .typeError
    | .int n => if k.lo ≤ n ∧ n ≤ k.hi then .ok () else .error .valueError
    | .bool _ => .ok ()
    | _ => .error .typeError
  | .flt k =>
    match s with
    | .cdata (.flt k') _ => if k' = k then .ok () else .error .typeError
    | .flt _ | .int _ | .bool _ =>
      match toDouble s with
      | .error e => .error e
      | .ok b => if infAfter k b then .error .valueError else .ok ()
    | _ => .error .typeError
  | .byte =>
    match s with
    | .cdata (.int .u8) _ => .ok ()
    | .int n => if 0 ≤ n ∧ n ≤ 255 then .ok () else .error .valueError
    | .bool _ => .ok ()
    | .bytes bs => if bs.length = 1 then .ok () else .error .valueError
    | _ => .error .typeError
  | .strct tid _ =>
    match s with
    | .strct t _ => if t = tid then .ok () else .error .typeError
    | _ => .error .typeError

def isIntLike : Scalar → Bool
  | .int _ | .bool _ => true | _ => false
def intVal : Scalar → Int
  | .int n => n | .bool b => if b then 1 else 0 | _ => 0

/-- Python's `max` / `min` over ints (left fold with strict comparison) -/
def pyMax : Int → List Int → Int
  | m, [] => m
  | m, x :: xs => pyMax (if x > m then x else m) xs
def pyMin : Int → List Int → Int
  | m, [] => m
  | m, x :: xs => pyMin (if x < m then x else m) xs

/-- `IntValidatorBase.validate_many` / `Byte.validate_many` on the iterated items -/
def intMany (lo hi : Int) (oneShot : Bool) (xs : List Scalar) : Except PyErr Unit :=
  if xs.any (fun x => !isIntLike x) then .error .typeError
  else if oneShot then .error .valueError          -- `max()` of the exhausted generator
  else match xs.map intVal with
    | [] => .error .valueError                     -- `max()` of an empty sequence
    | y :: ys => if pyMax y ys > hi ∨ pyMin y ys < lo then .error .valueError else .ok ()

/-- patched `FloatValidatorBase.validate_many`: every element individually, first failure wins -/
def fltMany (k : FK) : List Scalar → Except PyErr Unit
  | [] => .ok ()
  | x :: xs =>
    match toDouble x with
    | .error e => .error e
    | .ok b => if infAfter k b then .error .valueError else fltMany k xs

def strctMany (tid : Nat) (xs : List Scalar) : Except PyErr Unit :=
  if xs.any (fun x => match x with | .strct t _ => t != tid | _ => true) then .error .typeError else .ok ()

def chunks (sz : Nat) : Nat → Bytes → List Bytes
  | 0, _ => []
  | n + 1, bs => bs.take sz :: chunks sz n (bs.drop sz)

/-- what iterating a bound array object yields -/
def decodeItems (vk : VK) (n : Nat) (raw : Bytes) : List Scalar :=
  (chunks vk.esize n raw).map fun c =>
    match vk with
    | .int k => .int (decInt k c)
    | .flt .f64 => .flt (fromLE c)
    | .flt .f32 => .flt (widen (fromLE c))
    | .byte => .bytes c
    | .strct tid _ => .strct tid c

def iterable : PyVal → Bool
  | .sc (.str _) | .sc (.bytes _) => true
  | .sc _ => false
  | _ => true

/-- the items `for x in value` yields (`AttributeError` for an unbound array object) -/
def items : PyVal → Except PyErr (List Scalar)
  | .sc (.str cs) => .ok (cs.map fun c => .str [c])
  | .sc (.bytes bs) => .ok (bs.map fun (b : Nat) => .int (b : Int))
  | .sc _ => .ok []
  | .seq _ xs => .ok xs
  | .arr _ vk n (some raw) => .ok (decodeItems vk n raw)
  | .arr _ _ _ none => .error .attributeError

def oneShot : PyVal → Bool
  | .seq .gen _ => true | _ => false

/-- has `__len__` and `__getitem__` (what a ctypes slice assignment needs) -/
def sized : PyVal → Bool
  | .sc (.str _) | .sc (.bytes _) => true
  | .sc _ => false
  | .seq .gen _ => false
  | _ => true

def validateMany (vk : VK) (v : PyVal) : Except PyErr Unit :=
  match vk, v with
  | .byte, .sc (.bytes _) => .ok ()
  | _, _ =>
    match items v with
    | .error e => .error e
    | .ok xs =>
      match vk with
      | .int k => intMany k.lo k.hi (oneShot v) xs
      | .byte => intMany 0 255 (oneShot v) xs
      | .flt k => fltMany k xs
      | .strct tid _ => strctMany tid xs

/-- `ArrayField.validate_array` / `StructArray.validate_array` -/
def validateArray (cls : ArrCls) (vk : VK) (n : Nat) (vcls : ArrCls) (vvk : VK) (vn : Nat) (bound : Bool) :
    Except PyErr Unit :=
  if vcls ≠ cls then .error .typeError
  else if vvk ≠ vk then .error .typeError
  else if vn ≠ n then .error .valueError
  else if !bound then .error .valueError else .ok ()

def isArrayField : ArrCls → Bool
  | .structArray => false | _ => true

/-! ## ctypes stores -/

/-- one element / one scalar field: the ctypes setter -/
def elemStore (vk : VK) (x : Scalar) : Except PyErr Bytes :=
  match vk with
  | .int k =>
    match x with
    | .int n => .ok (encInt k n)
    | .bool b => .ok (encInt k (if b then 1 else 0))
    | .cdata (.int k') raw => if k' = k then .ok raw else .error .typeError
    | _ => .error .typeError
  | .byte =>
    match x with
    | .int n => .ok (encInt .u8 n)
    | .bool b => .ok (encInt .u8 (if b then 1 else 0))
    | .cdata (.int .u8) raw => .ok raw
    | _ => .error .typeError
  | .flt k =>
    match x with
    | .cdata (.flt k') raw => if k' = k then .ok raw else .error .typeError
    | .flt _ | .int _ | .bool _ =>
      match toDouble x with
      | .error e => .error e
      | .ok b => .ok (encFlt k b)
    | _ => .error .typeError
  | .strct tid _ =>
    match x with
    | .strct t raw => if t = tid then .ok raw else .error .typeError
    | _ => .error .typeError

def writeAt (cur : Bytes) (i esz : Nat) (new : Bytes) : Bytes :=
  cur.take (i * esz) ++ new ++ cur.drop (i * esz + esz)

/-- ctypes slice assignment: elements are written one after the other; the first failing element stops the
loop and everything written before it stays written -/
def storeMany (vk : VK) : Bytes → List Nat → List Scalar → Bytes × Option PyErr
  | cur, i :: is, x :: xs =>
    match elemStore vk x with
    | .error e => (cur, some e)
    | .ok b => storeMany vk (writeAt cur i vk.esize b) is xs
  | cur, _, _ => (cur, none)

/-- outcome of a store that either fails before writing anything or succeeds completely -/
def lift (old : Bytes) : Except PyErr Bytes → Bytes × Option PyErr
  | .error e => (old, some e)
  | .ok b => (b, none)

/-- the checks ctypes makes before a slice assignment writes anything: which elements, which items -/
def slicePrep (n : Nat) (start stop step : Option Int) (v : PyVal) : Except PyErr (List Nat × List Scalar) :=
  match sliceIndices n start stop step with
  | .error e => .error e
  | .ok idxs =>
    if !sized v then .error .valueError
    else match items v with
      | .error e => .error e
      | .ok xs => if xs.length ≠ idxs.length then .error .valueError else .ok (idxs, xs)

/-- `ctypes_array[key] = v` for a slice key -/
def storeSlice (vk : VK) (n : Nat) (old : Bytes) (start stop step : Option Int) (v : PyVal) :
    Bytes × Option PyErr :=
  match slicePrep n start stop step v with
  | .error e => (old, some e)
  | .ok (idxs, xs) => storeMany vk old idxs xs

def storeIdx (vk : VK) (n : Nat) (old : Bytes) (i : Int) (v : PyVal) : Except PyErr Bytes :=
  let j := if i < 0 then i + n else i
  if j < 0 ∨ j ≥ n then .error .indexError
  else match v with
    | .sc s =>
      match elemStore vk s with
      | .error e => .error e
      | .ok b => .ok (writeAt old j.toNat vk.esize b)
    | _ => .error .typeError

/-- `ByteArray.__setitem__` converts `bytes` right-hand sides (only while validation is on) -/
def byteConv : PyVal → PyVal
  | .sc (.bytes [b]) => .sc (.int (b : Int))
  | .sc (.bytes bs) => .seq .list (bs.map fun (b : Nat) => .int (b : Int))
  | v => v

/-- the Python-level check of `ArrayField.__setitem__` / `ByteArray.__setitem__` / (patched) `StructArray.__setitem__` -/
def itemCheck (vk : VK) (key : Key) (v : PyVal) : Except PyErr Unit :=
  let one : Except PyErr Unit := match v with | .sc s => validateOne vk s | _ => .error .typeError
  match vk with
  | .strct _ _ =>
    -- (patched) `StructArray.__setitem__` chooses by the key
    (match key with
     | .slice _ _ _ | .whole => if iterable v then validateMany vk v else .error .typeError
     | _ => one)
  | _ => if iterable v then validateMany vk v else one

/-- `__setitem__`: check (if enabled), convert, hand to ctypes -/
def setItem (en : Bool) (vk : VK) (n : Nat) (old : Bytes) (key : Key) (v : PyVal) : Bytes × Option PyErr :=
  match (if en then itemCheck vk key v else .ok ()) with
  | .error e => (old, some e)
  | .ok _ =>
    let v' := if en && vk == .byte then byteConv v else v
    match key with
    | .bad => (old, some .typeError)
    | .idx i => lift old (storeIdx vk n old i v')
    | .slice a b c => storeSlice vk n old a b c v'
    | .whole => storeSlice vk n old none none none v'

/-- C string: prefix up to the first NUL (`strlen`) -/
def upToNul : List Nat → List Nat
  | [] => []
  | c :: cs => if c == 0 then [] else c :: upToNul cs

/-- `String.validate_one` / `Char.validate_one` (`n = 1` is `Char`) -/
def strCheck (n : Nat) (s : Scalar) : Except PyErr Unit :=
  let maxLen := if n = 1 then 1 else n - 1
  match s with
  | .str cs =>
    if cs.length > maxLen then .error .valueError
    else if cs.any (· ≥ 128) then .error .typeError else .ok ()
  | _ => .error .typeError

/-- `value.encode("ascii")` handed to ctypes' char / char-array setter, which copies `strlen(data)` characters and
one NUL; the (patched) descriptor then clears the rest of the field -/
def strStore (n : Nat) (s : Scalar) : Except PyErr Bytes :=
  match s with
  | .str cs =>
    if cs.any (· ≥ 128) then .error .valueError                     -- UnicodeEncodeError
    else if n = 1 then
      (if cs.length = 1 then .ok cs else .error .typeError)          -- c_char setter
    else
      let data := upToNul cs
      if data.length > n then .error .valueError                     -- "bytes too long"
      else .ok (data ++ List.replicate (n - data.length) 0)
  | _ => .error .attributeError                                     -- `value.encode`

/-- `String.__set__` / `Char.__set__` after the ctypes-instance shortcut -/
def setStr (en : Bool) (n : Nat) (s : Scalar) : Except PyErr Bytes :=
  match (if en then strCheck n s else .ok ()) with
  | .error e => .error e
  | .ok _ => strStore n s

/-- scalar numeric / byte / struct fields: `validate_one`, conversion (`Byte`: `bytes` of length 1), ctypes setter -/
def setScalar (en : Bool) (vk : VK) (s : Scalar) : Except PyErr Bytes :=
  match (if en then validateOne vk s else .ok ()) with
  | .error e => .error e
  | .ok _ =>
    let s' := match en, vk, s with | true, .byte, .bytes [b] => Scalar.int (b : Int) | _, _, _ => s
    elemStore vk s'

/-- `ArrayField.__set__` / `StructArray.__set__` with another array object on the right -/
def setArrObj (en : Bool) (cls : ArrCls) (vk : VK) (n : Nat) (vcls : ArrCls) (vvk : VK) (vn : Nat)
    (bound : Option Bytes) : Except PyErr Bytes :=
  match (if en then validateArray cls vk n vcls vvk vn bound.isSome else .ok ()) with
  | .error e => .error e
  | .ok _ =>
    match bound with
    | none => .error .attributeError
    | some raw =>
      -- ctypes field store: the array *type* must be the same ctypes class
      let same := match vk, vvk with
        | .strct t _, .strct t' _ => t == t'
        | .int .u8, .byte | .byte, .int .u8 | .byte, .byte => true
        | .int a, .int b => a == b
        | .flt a, .flt b => a == b
        | _, _ => false
      if same && vn == n then .ok raw else .error .typeError

/-- every descriptor's `__set__` (key `whole`) and the array descriptors' `__setitem__` -/
def setField (en : Bool) (ty : FTy) (old : Bytes) (key : Key) (v : PyVal) : Bytes × Option PyErr :=
  match ty with
  | .int k =>
    (match key, v with
     | .whole, .sc s => lift old (setScalar en (.int k) s)
     | _, _ => (old, some .typeError))
  | .flt k =>
    (match key, v with
     | .whole, .sc s => lift old (setScalar en (.flt k) s)
     | _, _ => (old, some .typeError))
  | .byte =>
    (match key, v with
     | .whole, .sc s => lift old (setScalar en .byte s)
     | _, _ => (old, some .typeError))
  | .strct tid sz =>
    (match key, v with
     | .whole, .sc s => lift old (setScalar en (.strct tid sz) s)
     | _, _ => (old, some .typeError))
  | .char =>
    (match key, v with
     | .whole, .sc (.cdata .char raw) => (raw, none)
     | .whole, .sc s => lift old (setStr en 1 s)
     | _, _ => (old, some .typeError))
  | .str n =>
    (match key, v with
     | .whole, .sc (.cdata (.chars m) raw) =>
       -- `if isinstance(value, self._ctype): setattr(obj, self._private_name, value); return` - an instance of the
       -- field's own array class `c_char * n` is handed to ctypes without validation, and the setter of a char-array
       -- field refuses it ("expected bytes, c_char_Array_n found"): TypeError, validation on or off.  Of any other
       -- length it is no `str` (validation on: TypeError; off: `value.encode` - AttributeError)
       if m = n then (old, some .typeError) else lift old (setStr en n (.cdata (.chars m) raw))
     | .whole, .sc s => lift old (setStr en n s)
     | _, _ => (old, some .typeError))
  | .arr cls vk n =>
    (match key, v with
     | .whole, .arr vcls vvk vn bound =>
       if (isArrayField cls && isArrayField vcls) || (cls == .structArray && vcls == .structArray) then
         lift old (setArrObj en cls vk n vcls vvk vn bound)
       else setItem en vk n old .whole v
     | _, _ => setItem en vk n old key v)

/-! ## the validation switch (`disable_message_validation`, with `try/finally`) -/

inductive CtxEv
  | enter (ignore : Bool)    -- `with disable_message_validation(ignore):`
  | exitNormal               -- the block's body ran to its end
  | exitExc                  -- the block is left by an exception
  deriving DecidableEq, Repr, Inhabited

/-- state: the context variable and, per open block, the token to restore (`none` for `ignore=True`) -/
structure Ctx where
  enabled : Bool := true
  stack : List (Option Bool) := []
  deriving DecidableEq, Repr, Inhabited

def Ctx.step (c : Ctx) : CtxEv → Ctx
  | .enter true => { c with stack := none :: c.stack }
  | .enter false => { enabled := false, stack := some c.enabled :: c.stack }
  | .exitNormal | .exitExc =>
    match c.stack with
    | [] => c
    | none :: st => { c with stack := st }
    | some old :: st => { enabled := old, stack := st }

def Ctx.run (c : Ctx) (evs : List CtxEv) : Ctx := evs.foldl Ctx.step c

/-- the flag after every event -/
def Ctx.trace : Ctx → List CtxEv → List Bool
  | _, [] => []
  | c, e :: es => (c.step e).enabled :: Ctx.trace (c.step e) es

end Pyrtma.Validators
