import Pyrtma.Model.Layout
/-!
# M9 — from the definition items to what each back end prints (src/pyrtma/parser.py, compilers/*.py)

Executable model, core Lean only.  Two halves:

* `elaborate` — the part of `Parser.parse_text` that builds the registries the back ends print from:
  `handle_alias` (resolution through other aliases / structs), `add_fields` (type lookup in the order
  native → alias → struct → message, array length check, field-list reuse), `validate_msg_def`
  (= M6 `Layout.checkAlignment`, whose result supplies the inserted padding fields), the `get_ctype_cls`
  key lookups of the final size assert, the 65535 limit.  The input is the closure *flattened in parse
  order* (imports first, sections in the parser's fixed order); identifiers are interned numbers.
  Name conflict detection (C12) and the hash text (C13) are NOT modelled (hashes are data); of the id checks only
  `validate_msg_id` is (range and duplicate message / signal / reserved ids, across files, in either order).
* `emit` — `PyDefCompiler / CDefCompiler / JSDefCompiler / MatlabDefCompiler .generate` as lists of abstract
  statements in output order, each with the back end's own table lookups and quirks
  (Python prints native `T[1]` as a scalar and resolves aliases in place; C omits everything that came from
  `core_defs/`; JS prints `char[n>1]` as a string; aliases are printed before structs, structs before
  messages — the emission order that C15-F3/F4 are about), and `loads` — the evaluation discipline of each
  target language over such a program (Python/C/MATLAB: every reference must already be defined; JS:
  name spaces must be initialised before they are written, factories resolve references when called).

Exceptions of the code that are not a `ParserError` are the explicit outcome `Err.internal`.
-/
namespace Pyrtma.Emit
open Pyrtma.Layout (Fld)

abbrev Name := Nat

inductive Cls where
  | char | sint | uint | flt
deriving DecidableEq, Repr, Inhabited

/-- denotation of a native type in some language: byte width and class -/
structure Den where
  width : Nat
  cls : Cls
deriving DecidableEq, Repr, Inhabited

inductive Lang where
  | py | c | js | m
deriving DecidableEq, Repr, Inhabited

/-- The native-type tables (parameters of the model; the real ones are regenerated from the source into
`Gen/TypeTables.lean` and sent to the driver by the harness). -/
structure Tables where
  /-- `supported_types`: key ↦ (`NativeType.name`, size) -/
  natives : List (Name × Name × Nat)
  /-- keys of `Parser.get_ctype_cls.type_map` -/
  parserCt : List Name
  pyCt : List (Name × Den)
  pyDesc : List (Name × Den)
  c : List (Name × Den)
  /-- javascript `type_map`: key ↦ "default value is a string" -/
  js : List (Name × Bool)
  m : List (Name × Den)
  /-- the interned names `char` (padding type) and `RTMA_MSG_HEADER` (MATLAB trailer) -/
  charName : Name
  hdrName : Name
  /-- `MAX_MESSAGE_TYPES` (imported by the parser from `core_defs.py`): the largest message id `validate_msg_id` accepts -/
  maxMsgId : Nat := 10000
deriving Repr, Inhabited

def assoc {β} (l : List (Name × β)) (k : Name) : Option β := (l.find? (fun p => p.1 == k)).map (·.2)

inductive Err where
  | alignment | tooLarge | syntax | internal
deriving DecidableEq, Repr, Inhabited

/-! ## Input: the flattened closure -/

inductive Val where
  | int (v : Int)
  | flt (bits : Nat)
deriving DecidableEq, Repr, Inhabited

/-- `fields:` of a struct / message: a mapping (name, type name, evaluated length) or the name of another definition -/
inductive FieldsSpec where
  | list (fs : List (Name × Name × Option Int))
  | reuse (n : Name)
deriving DecidableEq, Repr, Inhabited

inductive Item where
  | const (n : Name) (v : Val)
  | strConst (n : Name) (s : Nat)
  | alias (n : Name) (target : Name)
  | hostId (n : Name) (v : Int)
  | moduleId (n : Name) (v : Int)
  | struct (n : Name) (hash : Nat) (f : FieldsSpec)
  | message (n : Name) (id : Int) (hash : Nat) (f : FieldsSpec)
  | signal (n : Name) (id : Int) (hash : Nat)
  /-- one id of a `_RESERVED_` block (`handle_reserve` turns each into the signal `_RESERVED_<id>`); a kind of its
  own because the combined YAML keeps the block as one entry of `message_defs` (see `Model/Combined.lean`) -/
  | reserved (n : Name) (id : Int) (hash : Nat)
deriving DecidableEq, Repr, Inhabited

/-! ## The registries -/

inductive Kind where
  | native | alias | struct | message
deriving DecidableEq, Repr, Inhabited

structure FieldR where
  name : Name
  ty : Name              -- `Field.type_name`
  kind : Kind            -- class of `Field.type_obj`
  len : Option Nat       -- `Field.length`
  align : Nat
  esize : Nat
  isPad : Bool := false
deriving DecidableEq, Repr, Inhabited

structure AliasR where
  name : Name
  target : Name          -- resolved `type_name`: a native key or a struct name
  isStruct : Bool
  align : Nat
  esize : Nat
  core : Bool
deriving DecidableEq, Repr, Inhabited

structure DefR where
  name : Name
  id : Option Int        -- `none` for a struct
  hash : Nat
  fields : List FieldR
  align : Nat
  size : Nat
  core : Bool
deriving DecidableEq, Repr, Inhabited

structure Reg where
  consts : List (Name × Val × Bool) := []
  strs : List (Name × Nat × Bool) := []
  aliases : List AliasR := []
  hosts : List (Name × Int × Bool) := []
  mods : List (Name × Int × Bool) := []
  msgIds : List (Name × Int × Bool) := []
  structs : List DefR := []
  msgs : List DefR := []
deriving Repr, Inhabited

def findAlias (R : Reg) (n : Name) : Option AliasR := R.aliases.find? (·.name == n)
def findStruct (R : Reg) (n : Name) : Option DefR := R.structs.find? (·.name == n)
def findMsg (R : Reg) (n : Name) : Option DefR := R.msgs.find? (·.name == n)

/-- names of the padding fields `padding_<k>_` -/
def padBase : Nat := 1000000
def padName (k : Nat) : Name := padBase + k

/-! ## `handle_alias` -/

def elabAlias (T : Tables) (R : Reg) (n target : Name) (core : Bool) : Except Err Reg :=
  match assoc T.natives target with
  | some (_, sz) =>
    .ok { R with aliases := R.aliases ++ [{ name := n, target, isStruct := false, align := sz, esize := sz, core }] }
  | none =>
    match findStruct R target with
    | some s =>
      .ok { R with aliases := R.aliases ++ [{ name := n, target, isStruct := true, align := s.align, esize := s.size, core }] }
    | none =>
      match findAlias R target with
      | some a =>   -- second trip of the `while n < 10` loop: `a.type_name` is a native key or a struct
        .ok { R with aliases := R.aliases ++ [{ a with name := n, core }] }
      | none => .error .syntax

/-! ## `add_fields` -/

/-- type lookup of one field spec: native → alias → struct → message -/
def lookupTy (T : Tables) (R : Reg) (ty : Name) : Option (Kind × Nat × Nat × Bool) :=
  match assoc T.natives ty with
  | some (_, sz) => some (.native, sz, sz, false)
  | none =>
    match findAlias R ty with
    | some a => some (.alias, a.align, a.esize, false)
    | none =>
      match findStruct R ty with
      | some s => some (.struct, s.align, s.size, false)
      | none =>
        match findMsg R ty with
        | some d => some (.message, d.align, d.size, d.fields.isEmpty)
        | none => none

def elabField (T : Tables) (R : Reg) (f : Name × Name × Option Int) : Except Err FieldR :=
  match lookupTy T R f.2.1 with
  | none => .error .syntax
  | some (k, al, es, isSignal) =>
    if isSignal then .error .internal          -- `assert len(...fields) != 0`
    else match f.2.2 with
      | none => .ok { name := f.1, ty := f.2.1, kind := k, len := none, align := al, esize := es }
      | some l =>
        if l < 1 then .error .syntax           -- array lengths must be positive (C04-F2 repair)
        else .ok { name := f.1, ty := f.2.1, kind := k, len := some l.toNat, align := al, esize := es }

def elabFields (T : Tables) (R : Reg) : List (Name × Name × Option Int) → Except Err (List FieldR)
  | [] => .ok []
  | f :: fs =>
    match elabField T R f with
    | .error e => .error e
    | .ok x => match elabFields T R fs with
      | .error e => .error e
      | .ok xs => .ok (x :: xs)

def FieldR.toFld (f : FieldR) : Fld := { align := f.align, esize := f.esize, len := f.len, isPad := false }

/-- the key `get_ctype_cls` looks up for this field (`None` for struct-typed fields: recursion) -/
def ctKey (T : Tables) (R : Reg) (f : FieldR) : Option Name :=
  match f.kind with
  | .native => (assoc T.natives f.ty).map (·.1)
  | .alias =>
    match findAlias R f.ty with
    | some a => if a.isStruct then none else (assoc T.natives a.target).map (·.1)
    | none => none
  | _ => none

def ctOk (T : Tables) (R : Reg) (fs : List FieldR) : Bool :=
  fs.all (fun f => match ctKey T R f with | some k => T.parserCt.contains k | none => true)

/-- put the user's fields back around the padding `check_alignment` inserted -/
def rebuild (T : Tables) : List (Fld × Nat) → List FieldR → Nat → List FieldR
  | [], _, _ => []
  | (fl, _) :: r, us, k =>
    if fl.isPad then
      { name := padName k, ty := T.charName, kind := .native, len := fl.len, align := 1, esize := 1, isPad := true }
        :: rebuild T r us (k + 1)
    else match us with
      | u :: us' => u :: rebuild T r us' k
      | [] => rebuild T r [] k

/-- `validate_msg_def` on an elaborated field list -/
def layoutDef (T : Tables) (R : Reg) (autoPad : Bool) (fs : List FieldR) : Except Err (List FieldR × Nat × Nat) :=
  if fs.isEmpty then .error .internal          -- `assert len(mdf.fields) > 0`
  else match Layout.checkAlignment autoPad (fs.map FieldR.toFld) with
    | .error .alignment => .error .alignment
    | .error _ => .error .internal
    | .ok o =>
      if !ctOk T R fs || !T.parserCt.contains (T.charName) then .error .internal   -- KeyError inside the size assert
      else if o.size > 65535 then .error .tooLarge
      else .ok (rebuild T o.fields fs 0, o.align, o.size)

def specFields (T : Tables) (R : Reg) : FieldsSpec → Except Err (List FieldR)
  | .list fs => elabFields T R fs
  | .reuse n =>
    match findMsg R n with
    | some d => .ok d.fields
    | none => match findStruct R n with
      | some d => .ok d.fields
      | none => .error .syntax

/-- `validate_msg_id`: the id is in `[0, MAX_MESSAGE_TYPES]` and no message, signal or reserved id parsed so far (in
this or any other file of the closure, in either order) has the same value -/
def idOk (T : Tables) (R : Reg) (id : Int) : Bool :=
  decide (0 ≤ id) && decide (id ≤ (T.maxMsgId : Int)) && !(R.msgIds.any (fun m => m.2.1 == id))

def elabItem (T : Tables) (autoPad : Bool) (core : Bool) (R : Reg) : Item → Except Err Reg
  | .const n v => .ok { R with consts := R.consts ++ [(n, v, core)] }
  | .strConst n s => .ok { R with strs := R.strs ++ [(n, s, core)] }
  | .alias n t => elabAlias T R n t core
  | .hostId n v => .ok { R with hosts := R.hosts ++ [(n, v, core)] }
  | .moduleId n v => .ok { R with mods := R.mods ++ [(n, v, core)] }
  | .struct n h f =>
    match specFields T R f with
    | .error e => .error e
    | .ok fs => match layoutDef T R autoPad fs with
      | .error e => .error e
      | .ok (fs', al, sz) =>
        .ok { R with structs := R.structs ++ [{ name := n, id := none, hash := h, fields := fs', align := al, size := sz, core }] }
  | .message n id h f =>
    if !idOk T R id then .error .syntax       -- `validate_msg_id` runs before `add_fields`
    else match specFields T R f with
    | .error e => .error e
    | .ok fs => match layoutDef T R autoPad fs with
      | .error e => .error e
      | .ok (fs', al, sz) =>
        .ok { R with msgIds := R.msgIds ++ [(n, id, core)],
                     msgs := R.msgs ++ [{ name := n, id := some id, hash := h, fields := fs', align := al, size := sz, core }] }
  | .signal n id h =>
    if !idOk T R id then .error .syntax else
    .ok { R with msgIds := R.msgIds ++ [(n, id, core)],
                 msgs := R.msgs ++ [{ name := n, id := some id, hash := h, fields := [], align := 8, size := 0, core }] }
  | .reserved n id h =>
    if !idOk T R id then .error .syntax else
    .ok { R with msgIds := R.msgIds ++ [(n, id, core)],
                 msgs := R.msgs ++ [{ name := n, id := some id, hash := h, fields := [], align := 8, size := 0, core }] }

/-- the whole parse: items with their "came from core_defs/" flag, in parse order -/
def elaborate (T : Tables) (autoPad : Bool) : List (Bool × Item) → Reg → Except Err Reg
  | [], R => .ok R
  | (core, it) :: r, R =>
    match elabItem T autoPad core R it with
    | .error e => .error e
    | .ok R' => elaborate T autoPad r R'

/-! ## Abstract statements -/

inductive Space where
  | alias | sdf | mdf
deriving DecidableEq, Repr, Inhabited

inductive TyS where
  | nat (d : Den)                      -- a native type, by what the printed type name denotes
  | jsNat (n : Name)                   -- `type_map.<name>` (JS has no types: the native key itself)
  | jsStr                              -- `type_map.string(n)`
  | ref (sp : Space) (n : Name)
  | bad                                -- the back end raises (`RuntimeError` / `KeyError`): not a ParserError
deriving DecidableEq, Repr, Inhabited

structure FieldS where
  name : Name
  ty : TyS
  len : Option Nat
  fresh : Bool := true                 -- JS arrays: one factory call per element
deriving DecidableEq, Repr, Inhabited

inductive Stmt where
  | const (n : Name) (v : Val)
  | strConst (n : Name) (s : Nat)
  | aliasN (n : Name) (d : Den)
  | aliasJ (n : Name) (target : Name) (callable : Bool)
  | aliasR (n : Name) (sp : Space) (target : Name)
  | host (n : Name) (v : Int)
  | mod (n : Name) (v : Int)
  | mt (n : Name) (v : Int)
  | defn (sp : Space) (n : Name) (id : Option Int) (hash : Option Nat) (size : Option Nat) (fields : List FieldS)
  | hash (n : Name) (h : Nat)
  | init (sp : Space)
  | use (sp : Space) (n : Name)
  | bad                                -- the back end raises while printing this line
deriving DecidableEq, Repr, Inhabited

def noCore {α} (l : List α) (core : α → Bool) : List α := l.filter (fun x => !core x)

/-- the `elif` chain every back end uses after its own table: message → struct → alias -/
def refTy (R : Reg) (ty : Name) : TyS :=
  if (findMsg R ty).isSome then .ref .mdf ty
  else if (findStruct R ty).isSome then .ref .sdf ty
  else if (findAlias R ty).isSome then .ref .alias ty
  else .bad

def tblTy (tbl : List (Name × Den)) (R : Reg) (ty : Name) : TyS :=
  match assoc tbl ty with
  | some d => .nat d
  | none => refTy R ty

/-- `generate_type_alias` of c99 / javascript / matlab after the table lookup: alias → struct → message -/
def refAlias (R : Reg) (a : AliasR) : Stmt :=
  if (findAlias R a.target).isSome then .aliasR a.name .alias a.target
  else if (findStruct R a.target).isSome then .aliasR a.name .sdf a.target
  else if (findMsg R a.target).isSome then .aliasR a.name .mdf a.target
  else .bad

def tblAlias (tbl : List (Name × Den)) (R : Reg) (a : AliasR) : Stmt :=
  match assoc tbl a.target with
  | some d => .aliasN a.name d
  | none => refAlias R a

/-! ### Python (`compilers/python.py`) -/

/-- `get_descriptor(ftype, flen)` without its alias branch -/
def pyDescBase (T : Tables) (R : Reg) (ty : Name) (flen : Nat) : Option (TyS × Option Nat) :=
  match assoc T.pyCt ty with
  | some _ =>
    match assoc T.pyDesc ty with
    | some d => some (.nat d, if flen ≤ 1 then none else some flen)
    | none => some (.bad, none)
  | none =>
    if (findMsg R ty).isSome then some (.ref .mdf ty, if flen = 0 then none else some flen)
    else if (findStruct R ty).isSome then some (.ref .sdf ty, if flen = 0 then none else some flen)
    else none

/-- `get_descriptor(ftype, flen)`: an alias is replaced by its (already resolved) target -/
def pyDescriptor (T : Tables) (R : Reg) (flen : Nat) : Nat → Name → TyS × Option Nat
  | 0, ty => (pyDescBase T R ty flen).getD (.bad, none)
  | fuel + 1, ty =>
    match pyDescBase T R ty flen with
    | some r => r
    | none =>
      match findAlias R ty with
      | some a => pyDescriptor T R flen fuel a.target
      | none => (.bad, none)

def pyField (T : Tables) (R : Reg) (f : FieldR) : FieldS :=
  let r := pyDescriptor T R (f.len.getD 0) 2 f.ty
  { name := f.name, ty := r.1, len := r.2 }

def pyDef (T : Tables) (R : Reg) (sp : Space) (d : DefR) : Stmt :=
  .defn sp d.name d.id (some d.hash) (some d.size) (d.fields.map (pyField T R))

def pyAlias (T : Tables) (a : AliasR) : Stmt :=
  match assoc T.pyCt a.target with
  | some d => .aliasN a.name d
  | none => .aliasR a.name .sdf a.target

def emitPy (T : Tables) (R : Reg) : List Stmt :=
  R.consts.map (fun c => .const c.1 c.2.1) ++ R.strs.map (fun c => .strConst c.1 c.2.1) ++
  R.aliases.map (pyAlias T) ++ R.hosts.map (fun c => .host c.1 c.2.1) ++
  R.mods.map (fun c => .mod c.1 c.2.1) ++ R.msgIds.map (fun c => .mt c.1 c.2.1) ++
  R.structs.map (pyDef T R .sdf) ++ R.msgs.map (pyDef T R .mdf)

/-! ### C (`compilers/c99.py`): nothing that came from `core_defs/` is printed -/

def cField (T : Tables) (R : Reg) (f : FieldR) : FieldS :=
  { name := f.name, ty := tblTy T.c R f.ty, len := f.len }

/-- `generate_struct`; a signal is only a comment -/
def cDef (T : Tables) (R : Reg) (sp : Space) (d : DefR) : List Stmt :=
  if d.fields.isEmpty then [] else [.defn sp d.name none none none (d.fields.map (cField T R))]

def emitC (T : Tables) (R : Reg) : List Stmt :=
  (noCore R.consts (·.2.2)).map (fun c => .const c.1 c.2.1) ++
  (noCore R.strs (·.2.2)).map (fun c => .strConst c.1 c.2.1) ++
  (noCore R.aliases (·.core)).map (tblAlias T.c R) ++
  (noCore R.hosts (·.2.2)).map (fun c => .host c.1 c.2.1) ++
  (noCore R.mods (·.2.2)).map (fun c => .mod c.1 c.2.1) ++
  (noCore R.msgIds (·.2.2)).map (fun c => .mt c.1 c.2.1) ++
  ((noCore R.structs (·.core)).map (cDef T R .sdf)).flatten ++
  ((noCore R.msgs (·.core)).map (cDef T R .mdf)).flatten ++
  (noCore R.msgs (·.core)).map (fun d => .hash d.name d.hash)

/-! ### JavaScript (`compilers/javascript.py`) -/

def jsTy (T : Tables) (R : Reg) (ty : Name) : TyS :=
  match assoc T.js ty with
  | some _ => .jsNat ty
  | none => refTy R ty

def jsField (T : Tables) (R : Reg) (f : FieldR) : FieldS :=
  match f.len with
  | some l =>
    if f.ty == T.charName && l > 1 then { name := f.name, ty := .jsStr, len := some l }
    else { name := f.name, ty := jsTy T R f.ty, len := some l }
  | none => { name := f.name, ty := jsTy T R f.ty, len := none }

def jsDef (T : Tables) (R : Reg) (sp : Space) (d : DefR) : Stmt :=
  .defn sp d.name none none none (d.fields.map (jsField T R))

def jsAlias (T : Tables) (R : Reg) (a : AliasR) : Stmt :=
  match assoc T.js a.target with
  | some _ => .aliasJ a.name a.target true
  | none => refAlias R a

def emitJs (T : Tables) (R : Reg) : List Stmt :=
  R.consts.map (fun c => .const c.1 c.2.1) ++ R.strs.map (fun c => .strConst c.1 c.2.1) ++
  [.init .alias] ++ R.aliases.map (jsAlias T R) ++ R.hosts.map (fun c => .host c.1 c.2.1) ++
  R.mods.map (fun c => .mod c.1 c.2.1) ++ R.msgIds.map (fun c => .mt c.1 c.2.1) ++
  [.init .sdf] ++ R.structs.map (jsDef T R .sdf) ++ [.init .mdf] ++ R.msgs.map (jsDef T R .mdf) ++
  R.msgs.map (fun d => .hash d.name d.hash)

/-! ### MATLAB (`compilers/matlab.py`) -/

def mField (T : Tables) (R : Reg) (f : FieldR) : FieldS :=
  { name := f.name, ty := tblTy T.m R f.ty, len := f.len }

def mDef (T : Tables) (R : Reg) (sp : Space) (d : DefR) : Stmt :=
  .defn sp d.name none none none (d.fields.map (mField T R))

def emitM (T : Tables) (R : Reg) : List Stmt :=
  R.consts.map (fun c => .const c.1 c.2.1) ++ R.strs.map (fun c => .strConst c.1 c.2.1) ++
  R.aliases.map (tblAlias T.m R) ++
  R.hosts.map (fun c => .host c.1 c.2.1) ++ R.mods.map (fun c => .mod c.1 c.2.1) ++
  R.msgIds.map (fun c => .mt c.1 c.2.1) ++ R.structs.map (mDef T R .sdf) ++ R.msgs.map (mDef T R .mdf) ++
  R.msgs.map (fun d => .hash d.name d.hash) ++ [.use .sdf T.hdrName]

def emit (T : Tables) (R : Reg) : Lang → List Stmt
  | .py => emitPy T R
  | .c => emitC T R
  | .js => emitJs T R
  | .m => emitM T R

def FieldS.isBad (f : FieldS) : Bool := f.ty == .bad

/-- the back end raised somewhere (an exception that is not a `ParserError`) -/
def progBad (prog : List Stmt) : Bool :=
  prog.any (fun s => match s with
    | .bad => true
    | .defn _ _ _ _ _ fs => fs.any FieldS.isBad
    | _ => false)

/-! ## Loading a program: the evaluation discipline of each language -/

/-- Outside JS, structs and aliases live in one name space (Python module / C typedefs / `RTMA.typedefs`);
messages are set apart by their `MDF_` prefix (`RTMA.MDF` in MATLAB). -/
def sameSlot (l : Lang) (a b : Space × Name) : Bool :=
  a.2 == b.2 && (a.1 == b.1 || (l != .js && a.1 != .mdf && b.1 != .mdf))

def isDef (l : Lang) (defs : List (Space × Name)) (r : Space × Name) : Bool := defs.any (sameSlot l r)

def fieldRefs (fs : List FieldS) : List (Space × Name) :=
  fs.filterMap (fun f => match f.ty with | .ref sp n => some (sp, n) | _ => none)

/-- eager languages (Python module body, C translation unit, MATLAB script): a statement may only mention what an
earlier statement defined.  Returns the first offending reference. -/
def loadEager (l : Lang) : List Stmt → List (Space × Name) → Option (Space × Name)
  | [], _ => none
  | s :: r, defs =>
    match s with
    | .aliasN n _ => loadEager l r ((.alias, n) :: defs)
    | .aliasJ n _ _ => loadEager l r ((.alias, n) :: defs)
    | .aliasR n sp t => if isDef l defs (sp, t) then loadEager l r ((.alias, n) :: defs) else some (sp, t)
    | .defn sp n _ _ _ fs =>
      match (fieldRefs fs).find? (fun x => !isDef l defs x) with
      | some x => some x
      | none => loadEager l r ((sp, n) :: defs)
    | .use sp n => if isDef l defs (sp, n) then loadEager l r defs else some (sp, n)
    | _ => loadEager l r defs

/-- JS module body: `RTMA.<space> = {}` must run before anything is stored in or read from that space;
an alias-of-definition line also reads its target at load time. -/
def loadJs : List Stmt → List Space → List (Space × Name) → Option (Space × Name)
  | [], _, _ => none
  | s :: r, inits, defs =>
    match s with
    | .init sp => loadJs r (sp :: inits) defs
    | .aliasJ n _ _ => if inits.contains .alias then loadJs r inits ((.alias, n) :: defs) else some (.alias, n)
    | .aliasN n _ => if inits.contains .alias then loadJs r inits ((.alias, n) :: defs) else some (.alias, n)
    | .aliasR n sp _ =>
      -- `RTMA.<sp>.<n> = RTMA.<sp>.<t>`: stores under the *target's* space (an undefined target reads as `undefined`)
      if inits.contains sp then loadJs r inits ((sp, n) :: defs) else some (sp, n)
    | .defn sp n _ _ _ _ => if inits.contains sp then loadJs r inits ((sp, n) :: defs) else some (sp, n)
    | _ => loadJs r inits defs

/-- what a JS name is bound to after loading: a factory (callable) or a plain value -/
def jsCallable (prog : List Stmt) (r : Space × Name) : Bool :=
  prog.any (fun s => match s with
    | .defn sp n _ _ _ _ => sp == r.1 && n == r.2
    | .aliasJ n _ c => r.1 == .alias && n == r.2 && c
    | .aliasR n sp t => sp == r.1 && n == r.2 && prog.any (fun s' => match s' with
        | .defn sp' n' _ _ _ _ => sp' == sp && n' == t | _ => false)
    | _ => false)

/-- every factory can be called: each referenced name is bound to a callable -/
def jsFactoriesOk (prog : List Stmt) : Bool :=
  prog.all (fun s => match s with
    | .defn _ _ _ _ _ fs => (fieldRefs fs).all (jsCallable prog)
    | _ => true)

def fieldFreshOk (f : FieldS) : Bool :=
  match f.ty, f.len with
  | .ref _ _, some _ => f.fresh
  | _, _ => true

def stmtFresh : Stmt → Bool
  | .defn _ _ _ _ _ fs => fs.all fieldFreshOk
  | _ => true

/-- arrays of objects are built with one factory call per element -/
def jsFresh (prog : List Stmt) : Bool := prog.all stmtFresh

/-- `pre`: what is defined before the program starts (C: the core definitions come from RTMA.h) -/
def loads (l : Lang) (prog : List Stmt) (pre : List (Space × Name) := []) : Bool :=
  match l with
  | .js => (loadJs prog [] []).isNone && jsFactoriesOk prog
  | _ => (loadEager l prog pre).isNone

end Pyrtma.Emit
