import Pyrtma.Model.DataLog
/-!
# M10f — the data logger at the granularity CPython guarantees

Same code as `Model/DataLog.lean` (`data_collection.py`, `data_set.py`, `data_formatter.py`,
`formatters/*.py`), but one step is now ONE access to an object that both threads can reach:

* `Event.set / clear / is_set / wait`, `Thread.is_alive()`;
* a read or a write of one of the `DataSet` attributes that one thread writes and the other one reads or
  writes during a session: `wbuf`, `subdivide_flag`, `collection_stopped`, `formatter`, `fd`;
* one operation on a list object (`append`, `clear`, one `__next__` of a list iterator);
* one file-system operation (`write`, one element of `writelines`, `seek`, `close`, `open`,
  `NamedTemporaryFile()`, `shutil.copyfileobj`), each of which may raise (`Cfg.fault`, numbered globally:
  disk full) and raises `ValueError` on a closed file.

The two threads may interleave between any two steps (`run` takes an arbitrary list over `{R, W}`).  Nothing
is assumed atomic that a lock does not make atomic — there is no lock in this code: mutual exclusion is
by the two events alone, and that it suffices is a theorem (`Proofs/DataLogFine.lean`), not an assumption.

Objects with identity are modelled as such: every data set has a heap of list objects (`lists`, `rbuf`
and `wbuf` are *references* `rb`, `wb`; a thread that has loaded `self.wbuf` keeps its reference while the
attribute may be re-bound) and a heap of file objects (`files`; formatter `k` is the one constructed on
file `k`; `fd` / `fmt` are what the attributes `ds.fd` / `ds.formatter` point to).

Thread-local code is part of the step that precedes it.  Local means: only one thread touches it during a
session (`start(); operations; stop()`): `DataCollection._paused/_recording/next_write/ref_time/…`,
`DataSet.rbuf` (the *attribute*; the list object is on the heap), `next_subdivide`, `sub_index`, `file_path`,
`msg_types`, the formatter's own counters (a formatter is only reachable through `ds.formatter`).  The
harness audits this claim on every run (`harness/datalog_fine.py`: an attribute set by one thread and touched
by the other one must be in the gated set).  `self.rbuf = []` directly follows `self.wbuf = self.rbuf` in
`stage_for_write`; since only the recording thread ever reads the attribute `rbuf`, the two stores are one
step (the fresh list gets the next free heap index).

`Cfg.aliveCheck = false` is the code as it is: `stop()` spins on `write_finished.wait()` for ever when the
writer thread has died (C17-F3, `Props/C17.lean: stop_hangs_after_writer_death`).  `true` is the proposed
patch (the wait loop of `stop()` looks at `write_thread.is_alive()` and raises).
-/
namespace Pyrtma.DataLog.Fine


/-- formatter class: `plain` = raw / json (constructor writes nothing), `csv` = msg_header (constructor
writes the column line), `ql` = quicklogger (two passes over the batch, header rewritten in place, payloads
to a temp file, two `finalize` paths) -/
inductive Kind where | plain | csv | ql
deriving Repr, DecidableEq, Inhabited

inductive IoOp where
  | write | seek | close | opn | twrite | tseek | tclose | topen | copy
deriving Repr, DecidableEq, Inhabited

def IoOp.label : IoOp → String
  | .write => "write" | .seek => "seek" | .close => "close" | .opn => "open" | .twrite => "twrite"
  | .tseek => "tseek" | .tclose => "tclose" | .topen => "topen" | .copy => "copy"

/-- which formatter method is running: `write`, or `finalize` on the path `num_writes > 0` (`finMulti`)
resp. `num_writes == 0` (`finDirect`; also stands for the plain formatters' `finalize`) -/
inductive CallKind where | write | finMulti | finDirect
deriving Repr, DecidableEq, Inhabited

/-- file-system operations between the first and the second pass over the batch -/
def ioA : Kind → CallKind → List IoOp
  | .ql, .finDirect => [.seek, .write, .seek, .write]     -- update_file_header; write_offsets
  | .ql, _ => [.seek, .write, .seek]                       -- update_file_header
  | _, _ => []

/-- file-system operations after the last pass -/
def ioB : Kind → CallKind → List IoOp
  | .ql, .finMulti => [.write, .tseek, .copy, .tclose]     -- write_offsets; copy_data; data_tmp.close()
  | .ql, .finDirect => [.tclose]
  | _, _ => []

def twoPass : Kind → Bool
  | .ql => true
  | _ => false

/-- where the payloads of the second pass go: the temp file, or the file itself (direct `finalize`) -/
def emit1Op : CallKind → IoOp
  | .finDirect => .write
  | _ => .twrite

/-- file-system operations of the formatter's constructor -/
def ctorOps : Kind → List IoOp
  | .plain => []
  | .csv => [.write]
  | .ql => [.topen, .write]

/-- a file object together with the formatter constructed on it -/
structure FileObj where
  log0 : List Msg := []       -- what the first pass wrote (frames / lines / message headers)
  log1 : List Msg := []       -- what the second pass wrote (quicklogger payloads)
  closed : Bool := false
  tclosed : Bool := false     -- `data_tmp` closed
  nWrites : Nat := 0          -- `QLFormatter.num_writes`
  finalized : Bool := false   -- `finalize` has returned
deriving Repr, DecidableEq, Inhabited

/-- position inside a formatter method -/
inductive FPc where
  | next0                   -- `next()` of the first iterator over the batch
  | emit0 (m : Msg)         -- `fd.write(format_message(m))`
  | ioA (k : Nat)
  | next1
  | emit1 (m : Msg)
  | ioB (k : Nat)
deriving Repr, DecidableEq, Inhabited

/-- a running formatter method: the formatter (= file) and the list object it was called with -/
structure Call where
  f : Nat := 0
  l : Nat := 0
  idx : Nat := 0
  ck : CallKind := .write
  pc : FPc := .next0
deriving Repr, DecidableEq, Inhabited

structure Ds where
  lists : Nat → List Msg := fun _ => []
  rb : Nat := 1                 -- `self.rbuf` refers to `lists rb`
  wb : Nat := 0                 -- `self.wbuf` refers to `lists wb`
  files : Nat → FileObj := fun _ => {}
  fd : Nat := 0                 -- `self.fd`
  fmt : Nat := 0                -- `self.formatter`
  sub : Nat := 0                -- `sub_index` (writer-local; bumped in the step that opens the next file)
  subFlag : Bool := false
  nextSub : Option Nat := none  -- recorder-local
  stopped : Bool := false

def upd {α} (f : Nat → α) (i : Nat) (x : α) : Nat → α := fun j => if j = i then x else f j

/-- `self.wbuf = self.rbuf; self.rbuf = []` -/
def Ds.stage (d : Ds) : Ds := { d with wb := d.rb, rb := d.rb + 1, lists := upd d.lists (d.rb + 1) [] }

def Ds.setFile (d : Ds) (k : Nat) (f : FileObj) : Ds := { d with files := upd d.files k f }

inductive CallRes where
  | cont (d : Ds) (c : Call)
  | ret (d : Ds)
  | exc
deriving Inhabited

/-- is the file object usable for this operation? (`ValueError: I/O operation on closed file`) -/
def ioOk (fo : FileObj) : IoOp → Bool
  | .write | .seek => !fo.closed
  | .twrite | .tseek => !fo.tclosed
  | .copy => !fo.closed && !fo.tclosed
  | _ => true

def ioEffect (fo : FileObj) : IoOp → FileObj
  | .tclose => { fo with tclosed := true }
  | .close => { fo with closed := true }
  | _ => fo

def afterB (_k : Kind) (d : Ds) (c : Call) : CallRes :=
  let fo := d.files c.f
  .ret (d.setFile c.f { fo with finalized := fo.finalized || (c.ck != .write) })

def afterPass1 (k : Kind) (d : Ds) (c : Call) : CallRes :=
  let fo := d.files c.f
  let d := if k = .ql ∧ c.ck ≠ .finDirect then d.setFile c.f { fo with nWrites := fo.nWrites + 1 } else d
  if (ioB k c.ck).isEmpty then afterB k d c else .cont d { c with pc := .ioB 0 }

def afterA (k : Kind) (d : Ds) (c : Call) : CallRes :=
  if twoPass k then .cont d { c with pc := .next1, idx := 0 } else afterPass1 k d c

def afterPass0 (k : Kind) (d : Ds) (c : Call) : CallRes :=
  if (ioA k c.ck).isEmpty then afterA k d c else .cont d { c with pc := .ioA 0 }

def Call.isIo (c : Call) : Bool :=
  match c.pc with
  | .next0 | .next1 => false
  | _ => true

/-- one step of a formatter method of a formatter of class `k`; `fail` = the fault oracle's verdict for
this file-system operation (ignored by the iterator steps) -/
def callStep (k : Kind) (fail : Bool) (d : Ds) (c : Call) : CallRes :=
  let fo := d.files c.f
  match c.pc with
  | .next0 =>
    match (d.lists c.l)[c.idx]? with
    | some m => .cont d { c with pc := .emit0 m, idx := c.idx + 1 }
    | none => afterPass0 k d c
  | .emit0 m =>
    if !ioOk fo .write || fail then .exc
    else .cont (d.setFile c.f { fo with log0 := fo.log0 ++ [m] }) { c with pc := .next0 }
  | .ioA j =>
    match (ioA k c.ck)[j]? with
    | none => .exc          -- unreachable
    | some op =>
      if !ioOk fo op || fail then .exc
      else
        let d := d.setFile c.f (ioEffect fo op)
        if j + 1 < (ioA k c.ck).length then .cont d { c with pc := .ioA (j + 1) } else afterA k d c
  | .next1 =>
    match (d.lists c.l)[c.idx]? with
    | some m => .cont d { c with pc := .emit1 m, idx := c.idx + 1 }
    | none => afterPass1 k d c
  | .emit1 m =>
    if !ioOk fo (emit1Op c.ck) || fail then .exc
    else .cont (d.setFile c.f { fo with log1 := fo.log1 ++ [m] }) { c with pc := .next1 }
  | .ioB j =>
    match (ioB k c.ck)[j]? with
    | none => .exc          -- unreachable
    | some op =>
      if !ioOk fo op || fail then .exc
      else
        let d := d.setFile c.f (ioEffect fo op)
        if j + 1 < (ioB k c.ck).length then .cont d { c with pc := .ioB (j + 1) } else afterB k d c

/-- `finalize` looks at `num_writes` first (formatter-local) -/
def finKind (k : Kind) (fo : FileObj) : CallKind :=
  if k = .ql ∧ fo.nWrites > 0 then .finMulti else .finDirect

/-! ### the two threads -/

inductive RPc where
  | idle                -- `begin`
  | uAlive              -- update: `self.write_thread.is_alive()`
  | uAppend (i : Nat)   -- update: `ds[i].rbuf.append(msg)`
  | uFlag (i : Nat)     -- update: `ds[i].subdivide_flag = True`
  | uIsSet              -- update: `self.write_to_disk.is_set()`
  | uStage (i : Nat)    -- trigger_write: `ds[i].wbuf = ds[i].rbuf` (`; ds[i].rbuf = []`)
  | uClrFin
  | uSetTD
  | sIsSet
  | sWait
  | sAlive              -- (patched `stop` only) `self.write_thread.is_alive()` inside the wait loop
  | sClrTD
  | sClrFin
  | sStop (i : Nat)     -- stop: `ds[i].collection_stopped = True`
  | sStage (i : Nat)    -- stop: `ds[i].stage_for_write()`
  | sFmtGet (i : Nat)   -- stop: `self.formatter` of `self.formatter.finalize(self.wbuf)`
  | sWbufGet (i : Nat)  -- stop: `self.wbuf`
  | sCall (i : Nat)     -- stop: inside `finalize`
  | sFdGet (i : Nat)    -- close: `if self.fd is not None`
  | sFdGet2 (i : Nat)   -- close: `self.fd` of `self.fd.close()`
  | sClose (i : Nat)    -- close: `fd.close()`
  | done
  | raisedT             -- `DataCollectionThreadError`
  | raisedIO            -- an `OSError` / `ValueError` left `stop()`
deriving Repr, DecidableEq, Inhabited

inductive WPc where
  | wait
  | fmtGet (i : Nat)    -- write: `self.formatter`
  | wbufGet (i : Nat)   -- write: `self.wbuf`
  | call (i : Nat)      -- write: inside `formatter.write`
  | wbufGet2 (i : Nat)  -- write: `self.wbuf` of `self.wbuf.clear()`
  | clear (i : Nat)     -- write: `list.clear()`
  | stopGet (i : Nat)   -- write: `self.collection_stopped`
  | flagGet (i : Nat)   -- write: `self.subdivide_flag`
  | flagSet (i : Nat)   -- write: `self.subdivide_flag = False`
  | dFmtGet (i : Nat)   -- subdivide: `self.formatter`
  | dWbufGet (i : Nat)  -- subdivide: `self.wbuf`
  | dCall (i : Nat)     -- subdivide: inside `finalize`
  | dFdGet (i : Nat)    -- subdivide: `if self.fd`
  | dFdGet2 (i : Nat)   -- subdivide: `self.fd` of `self.fd.close()`
  | dClose (i : Nat)    -- subdivide: `fd.close()`
  | dOpen (i : Nat)     -- subdivide: `open(...)`
  | dFdSet (i : Nat)    -- subdivide: `self.fd = …`
  | dFdGet3 (i : Nat)   -- subdivide: `self.fd` of `formatter_cls(self.fd)`
  | dCtor (i k : Nat)   -- subdivide: k-th file-system operation of the constructor
  | dFmtSet (i : Nat)   -- subdivide: `self.formatter = …`
  | setFin
  | clrTD
  | dead
deriving Repr, DecidableEq, Inhabited

structure Cfg where
  n : Nat
  sel : Nat → Sel
  interval : Nat → Nat
  kind : Nat → Kind
  period : Nat := 15
  aliveCheck : Bool := false
  /-- does the file-system operation with this (global) number fail? -/
  fault : Nat → Bool := fun _ => false

structure State where
  td : Bool := false
  fin : Bool := false
  rpc : RPc := .idle
  wpc : WPc := .wait
  ioc : Nat := 0                    -- number of file-system operations attempted so far
  ops : List RecOp
  -- locals of `R`
  now : Nat := 0
  ref : Nat := 0
  acc : Nat := 0
  paused : Bool := false
  nextWrite : Nat := 15
  el : Nat := 0
  wr : Bool := false                -- the local `write` of `update`
  cur : Option Msg := none          -- the argument of the running `update`
  warn : Nat := 0
  rf : Nat := 0                     -- loaded `self.formatter`
  rfd : Nat := 0                    -- loaded `self.fd`
  rcall : Call := {}
  -- locals of `W`
  wf : Nat := 0
  wl : Nat := 0                     -- loaded `self.wbuf` (for `clear`)
  wfd : Nat := 0
  wcall : Call := {}
  ds : Nat → Ds

def init (c : Cfg) (ops : List RecOp) : State :=
  { ops := ops, nextWrite := c.period,
    ds := fun i => { nextSub := if c.interval i = 0 then none else some (c.interval i) } }

def State.elapsed (s : State) : Nat := if s.paused then s.acc else s.acc + (s.now - s.ref)

def setDs (f : Nat → Ds) (i : Nat) (d : Ds) : Nat → Ds := fun j => if j = i then d else f j

/-- `if msg: if ds.all_sub or msg.type_id in ds.msg_types` -/
def appendDue (c : Cfg) (cur : Option Msg) (i : Nat) : Bool :=
  match cur with
  | some m => (c.sel i).selects m.ty
  | none => false

/-- `elapsed > ds.next_subdivide` -/
def Ds.subDue (d : Ds) (el : Nat) : Bool :=
  match d.nextSub with
  | some t => el > t
  | none => false

/-- the recording thread's next gated access in `update`'s loop, from data set `i` on; `b = false`:
the `append` of data set `i` is still to be considered, `b = true`: only its sub-division deadline -/
def scan (c : Cfg) (s : State) : Nat → Nat → Bool → RPc
  | 0, _, _ => if s.wr || decide (s.el > s.nextWrite) then .uIsSet else .idle
  | fuel + 1, i, b =>
    if c.n ≤ i then (if s.wr || decide (s.el > s.nextWrite) then .uIsSet else .idle)
    else if !b && appendDue c s.cur i then .uAppend i
    else if (s.ds i).subDue s.el then .uFlag i
    else scan c s fuel (i + 1) false

def scanFrom (c : Cfg) (s : State) (i : Nat) (b : Bool) : RPc := scan c s (c.n + 1 - i) i b

def firstUStage (c : Cfg) : RPc := if 0 < c.n then .uStage 0 else .uClrFin
def nextUStage (c : Cfg) (i : Nat) : RPc := if i + 1 < c.n then .uStage (i + 1) else .uClrFin
def firstS (c : Cfg) : RPc := if 0 < c.n then .sStop 0 else .done
def nextS (c : Cfg) (i : Nat) : RPc := if i + 1 < c.n then .sStop (i + 1) else .done

def firstW (c : Cfg) : WPc := if 0 < c.n then .fmtGet 0 else .setFin
def nextW (c : Cfg) (i : Nat) : WPc := if i + 1 < c.n then .fmtGet (i + 1) else .setFin

/-- one step of the recording thread -/
def stepR (c : Cfg) (s : State) : State :=
  match s.rpc with
  | .idle =>
    match s.ops with
    | [] => { s with rpc := .sIsSet }
    | op :: rest =>
      let s := { s with ops := rest, now := s.now + op.dt }
      match op with
      | .pause _ => { s with acc := s.elapsed, paused := true }
      | .resume _ => { s with paused := false, ref := s.now }
      | .update _ m => if s.paused then s else { s with cur := some m, rpc := .uAlive }
      | .tick _ => if s.paused then s else { s with cur := none, rpc := .uAlive }
  | .uAlive =>
    if s.wpc = .dead then { s with rpc := .raisedT }
    else
      let s := { s with el := s.elapsed, wr := false }
      { s with rpc := scanFrom c s 0 false }
  | .uAppend i =>
    match s.cur with
    | some m =>
      let d := s.ds i
      let s := { s with ds := setDs s.ds i { d with lists := upd d.lists d.rb (d.lists d.rb ++ [m]) } }
      { s with rpc := scanFrom c s i true }
    | none => s       -- unreachable
  | .uFlag i =>
    let d := s.ds i
    let s := { s with wr := true,
                      ds := setDs s.ds i { d with nextSub := some (s.el + c.interval i), subFlag := true } }
    { s with rpc := scanFrom c s (i + 1) false }
  | .uIsSet =>
    if s.td then { s with warn := s.warn + 1, rpc := .idle }
    else { s with nextWrite := s.el + c.period, rpc := firstUStage c }
  | .uStage i => { s with ds := setDs s.ds i (s.ds i).stage, rpc := nextUStage c i }
  | .uClrFin => { s with fin := false, rpc := .uSetTD }
  | .uSetTD => { s with td := true, rpc := .idle }
  | .sIsSet => { s with rpc := if s.td then .sWait else .sClrTD }
  | .sWait => { s with rpc := if s.fin then .sClrTD else if c.aliveCheck then .sAlive else .sWait }
  | .sAlive => { s with rpc := if s.wpc = .dead then .raisedT else .sWait }
  | .sClrTD => { s with td := false, rpc := .sClrFin }
  | .sClrFin => { s with fin := false, rpc := firstS c }
  | .sStop i => { s with ds := setDs s.ds i { s.ds i with stopped := true }, rpc := .sStage i }
  | .sStage i => { s with ds := setDs s.ds i (s.ds i).stage, rpc := .sFmtGet i }
  | .sFmtGet i => { s with rf := (s.ds i).fmt, rpc := .sWbufGet i }
  | .sWbufGet i =>
    let d := s.ds i
    { s with rcall := { f := s.rf, l := d.wb, idx := 0, ck := finKind (c.kind i) (d.files s.rf), pc := .next0 },
             rpc := .sCall i }
  | .sCall i =>
    let io := s.rcall.isIo
    let s' := { s with ioc := if io then s.ioc + 1 else s.ioc }
    match callStep (c.kind i) (c.fault s.ioc) (s.ds i) s.rcall with
    | .cont d k => { s' with ds := setDs s.ds i d, rcall := k }
    | .ret d => { s' with ds := setDs s.ds i d, rpc := .sFdGet i }
    | .exc => { s' with rpc := .raisedIO }
  | .sFdGet i => { s with rpc := .sFdGet2 i }
  | .sFdGet2 i => { s with rfd := (s.ds i).fd, rpc := .sClose i }
  | .sClose i =>
    let d := s.ds i
    let s' := { s with ioc := s.ioc + 1 }
    if c.fault s.ioc then { s' with rpc := .raisedIO }
    else { s' with ds := setDs s.ds i (d.setFile s.rfd { d.files s.rfd with closed := true }), rpc := nextS c i }
  | .done => s
  | .raisedT => s
  | .raisedIO => s

/-- one step of the writer thread -/
def stepW (c : Cfg) (s : State) : State :=
  match s.wpc with
  | .wait => if s.td then { s with wpc := firstW c } else s
  | .fmtGet i => { s with wf := (s.ds i).fmt, wpc := .wbufGet i }
  | .wbufGet i =>
    { s with wcall := { f := s.wf, l := (s.ds i).wb, idx := 0, ck := .write, pc := .next0 }, wpc := .call i }
  | .call i =>
    let io := s.wcall.isIo
    let s' := { s with ioc := if io then s.ioc + 1 else s.ioc }
    match callStep (c.kind i) (c.fault s.ioc) (s.ds i) s.wcall with
    | .cont d k => { s' with ds := setDs s.ds i d, wcall := k }
    | .ret d => { s' with ds := setDs s.ds i d, wpc := .wbufGet2 i }
    | .exc => { s' with wpc := .dead }
  | .wbufGet2 i => { s with wl := (s.ds i).wb, wpc := .clear i }
  | .clear i =>
    let d := s.ds i
    { s with ds := setDs s.ds i { d with lists := upd d.lists s.wl [] }, wpc := .stopGet i }
  | .stopGet i => { s with wpc := if (s.ds i).stopped then nextW c i else .flagGet i }
  | .flagGet i => { s with wpc := if (s.ds i).subFlag then .flagSet i else nextW c i }
  | .flagSet i =>
    let d := s.ds i
    { s with ds := setDs s.ds i { d with subFlag := false }, wpc := .dFmtGet i }
  | .dFmtGet i => { s with wf := (s.ds i).fmt, wpc := .dWbufGet i }
  | .dWbufGet i =>
    let d := s.ds i
    { s with wcall := { f := s.wf, l := d.wb, idx := 0, ck := finKind (c.kind i) (d.files s.wf), pc := .next0 },
             wpc := .dCall i }
  | .dCall i =>
    let io := s.wcall.isIo
    let s' := { s with ioc := if io then s.ioc + 1 else s.ioc }
    match callStep (c.kind i) (c.fault s.ioc) (s.ds i) s.wcall with
    | .cont d k => { s' with ds := setDs s.ds i d, wcall := k }
    | .ret d => { s' with ds := setDs s.ds i d, wpc := .dFdGet i }
    | .exc => { s' with wpc := .dead }
  | .dFdGet i => { s with wpc := .dFdGet2 i }
  | .dFdGet2 i => { s with wfd := (s.ds i).fd, wpc := .dClose i }
  | .dClose i =>
    let d := s.ds i
    let s' := { s with ioc := s.ioc + 1 }
    if c.fault s.ioc then { s' with wpc := .dead }
    else { s' with ds := setDs s.ds i (d.setFile s.wfd { d.files s.wfd with closed := true }), wpc := .dOpen i }
  | .dOpen i =>
    let d := s.ds i
    let s' := { s with ioc := s.ioc + 1 }
    if c.fault s.ioc then { s' with wpc := .dead }
    else { s' with ds := setDs s.ds i (({ d with sub := d.sub + 1 } : Ds).setFile (d.sub + 1) {}), wfd := d.sub + 1,
                   wpc := .dFdSet i }
  | .dFdSet i => { s with ds := setDs s.ds i { s.ds i with fd := s.wfd }, wpc := .dFdGet3 i }
  | .dFdGet3 i =>
    { s with wfd := (s.ds i).fd, wpc := if (ctorOps (c.kind i)).isEmpty then .dFmtSet i else .dCtor i 0 }
  | .dCtor i k =>
    let d := s.ds i
    let s' := { s with ioc := s.ioc + 1 }
    match (ctorOps (c.kind i))[k]? with
    | none => { s' with wpc := .dead }      -- unreachable
    | some op =>
      if !ioOk (d.files s.wfd) op || c.fault s.ioc then { s' with wpc := .dead }
      else { s' with wpc := if k + 1 < (ctorOps (c.kind i)).length then .dCtor i (k + 1) else .dFmtSet i }
  | .dFmtSet i => { s with ds := setDs s.ds i { s.ds i with fmt := s.wfd }, wpc := nextW c i }
  | .setFin => { s with fin := true, wpc := .clrTD }
  | .clrTD => { s with td := false, wpc := .wait }
  | .dead => s

inductive Tid where | R | W
deriving Repr, DecidableEq, Inhabited

/-- `stop()` can never return: it waits for `write_finished`, which only the (dead) writer could set -/
def State.hung (c : Cfg) (s : State) : Bool :=
  s.rpc == .sWait && !s.fin && s.wpc == .dead && !c.aliveCheck

/-- the session is over: `stop()` returned, an exception reached the caller of the recording thread -/
def State.over (s : State) : Bool :=
  s.rpc == .done || s.rpc == .raisedT || s.rpc == .raisedIO

def step (c : Cfg) (s : State) (t : Tid) : State :=
  if s.over then s
  else match t with
    | .R => stepR c s
    | .W => stepW c s

def run (c : Cfg) (ops : List RecOp) (sched : List Tid) : State :=
  sched.foldl (step c) (init c ops)

def roundRobin : Nat → List Tid
  | 0 => []
  | k + 1 => .R :: .W :: roundRobin k

/-! ### observation -/

/-- the files of a data set in the order they were opened: `0 … sub` -/
def Ds.fileLogs (d : Ds) : List (List Msg) := (List.range (d.sub + 1)).map (fun k => (d.files k).log0)

def Ds.written (d : Ds) : List Msg := d.fileLogs.flatten

def Call.label (i : Nat) (k : Kind) (c : Call) : String :=
  match c.pc with
  | .next0 | .next1 => s!"l{i}.nxt"
  | .emit0 _ => "io.write"
  | .emit1 _ => "io." ++ (emit1Op c.ck).label
  | .ioA j => "io." ++ (((ioA k c.ck)[j]?).getD .write).label
  | .ioB j => "io." ++ (((ioB k c.ck)[j]?).getD .write).label

def RPc.label (c : Cfg) (s : State) : RPc → String
  | .idle => "begin" | .uAlive => "alive" | .uAppend i => s!"l{i}.app" | .uFlag i => s!"s{i}.f"
  | .uIsSet => "td.is_set" | .uStage i => s!"s{i}.w" | .uClrFin => "fin.clear" | .uSetTD => "td.set"
  | .sIsSet => "td.is_set" | .sWait => "fin.wait" | .sAlive => "alive" | .sClrTD => "td.clear"
  | .sClrFin => "fin.clear" | .sStop i => s!"s{i}.s" | .sStage i => s!"s{i}.w" | .sFmtGet i => s!"g{i}.m"
  | .sWbufGet i => s!"g{i}.w" | .sCall i => s.rcall.label i (c.kind i) | .sFdGet i => s!"g{i}.d"
  | .sFdGet2 i => s!"g{i}.d" | .sClose _ => "io.close" | .done => "finished" | .raisedT => "finished"
  | .raisedIO => "finished"

def WPc.label (c : Cfg) (s : State) : WPc → String
  | .wait => "td.wait" | .fmtGet i => s!"g{i}.m" | .wbufGet i => s!"g{i}.w"
  | .call i => s.wcall.label i (c.kind i) | .wbufGet2 i => s!"g{i}.w" | .clear i => s!"l{i}.clr"
  | .stopGet i => s!"g{i}.s" | .flagGet i => s!"g{i}.f" | .flagSet i => s!"s{i}.f" | .dFmtGet i => s!"g{i}.m"
  | .dWbufGet i => s!"g{i}.w" | .dCall i => s.wcall.label i (c.kind i) | .dFdGet i => s!"g{i}.d"
  | .dFdGet2 i => s!"g{i}.d" | .dClose _ => "io.close" | .dOpen _ => "io.open" | .dFdSet i => s!"s{i}.d"
  | .dFdGet3 i => s!"g{i}.d" | .dCtor i k => "io." ++ (((ctorOps (c.kind i))[k]?).getD .write).label
  | .dFmtSet i => s!"s{i}.m" | .setFin => "fin.set" | .clrTD => "td.clear" | .dead => "finished"

/-- run with the trace of gate labels; the harness stops scheduling as soon as the session is over or the
recording thread provably hangs, and never schedules a dead writer -/
def runTrace (c : Cfg) (ops : List RecOp) (sched : List Tid) : State × List String :=
  let r := sched.foldl (fun (p : State × List String) t =>
    let s := p.1
    if s.over || s.hung c then p
    else match t with
      | .R => (stepR c s, s!"R:{s.rpc.label c s}" :: p.2)
      | .W => if s.wpc = .dead then p else (stepW c s, s!"W:{s.wpc.label c s}" :: p.2)) (init c ops, [])
  (r.1, r.2.reverse)

end Pyrtma.DataLog.Fine
