import Pyrtma.Drv.Util
import Pyrtma.Spec.Layout
/-! Line-protocol driver for M6 (see harness/layout_corr.py for the grammar). -/
namespace Pyrtma.Drv.Layout
open Pyrtma.Layout Pyrtma.Drv

def parseFld (s : String) : Fld :=
  match s.splitOn ":" with
  | [a, e, l, p] => { align := natOf a, esize := natOf e,
                      len := if l == "-1" then none else some (natOf l), isPad := p == "1" }
  | _ => default

def parseFldOff (s : String) : Fld × Nat :=
  match s.splitOn "@" with
  | [f, o] => (parseFld f, natOf o)
  | _ => (default, 0)

def showFld (f : Fld) : String :=
  s!"{f.align}:{f.esize}:{match f.len with | some n => toString n | none => "-1"}:{if f.isPad then 1 else 0}"

def showErr : Err → String
  | .alignment => "alignment" | .tooLarge => "tooLarge" | .empty => "empty" | .internal => "internal"

/-- canonical text of an outcome; the trailing pad's offset is not recorded by the code (`-1`), so it is masked -/
def showOut (r : Except Err Out) : String :=
  match r with
  | .error e => "err " ++ showErr e
  | .ok o => joinSp (["ok", toString o.align, toString o.size] ++
      o.fields.map (fun p => showFld p.1 ++ "@" ++ toString p.2))

structure Case where
  id : String := ""
  autoPad : Bool := true
  inp : List Fld := []
  obs : List String := []
  ct : List Nat := []
  hasCt : Bool := false

def firstFalse (cs : List (String × Bool)) : Option String := (cs.find? (fun c => !c.2)).map (·.1)

def sumIn (inp : List Fld) : Nat := (inp.map Fld.size).sum

/-- The Spec of C11 evaluated on what the implementation returned. -/
def propC11 (c : Case) : String :=
  if !wfInput c.inp then "skip"
  else match c.obs with
  | "ok" :: a :: sz :: flds =>
    let o : Out := { fields := flds.map parseFldOff, align := natOf a, size := natOf sz }
    match firstFalse (acceptedClauses c.inp o) with
    | some cl => "fail " ++ cl
    | none =>
      if !c.autoPad && !needsNone c.inp then "fail accepted_without_autopad_but_needs_padding"
      else if !c.autoPad && o.fields.any (·.1.isPad) then "fail padding_inserted_without_autopad"
      else if c.hasCt then
        let offs := c.ct.take (c.ct.length - 2)
        let sz' := c.ct.getD (c.ct.length - 2) 0
        let al' := c.ct.getD (c.ct.length - 1) 0
        if offs != o.fields.map (·.2) then "fail hidden_padding_offsets"
        else if sz' != o.size then "fail hidden_padding_size"
        else if al' != o.align then "fail c_alignment_differs"
        else "ok"
      else "ok"
  | ["err", "alignment"] =>
    if c.autoPad then "fail alignment_error_with_autopad"
    else if needsNone c.inp then "fail rejected_although_no_padding_needed"
    else "ok"
  | ["err", "tooLarge"] =>
    if sizeErrorJustified c.inp then "ok" else "fail size_error_unjustified"
  | ["err", "empty"] => if c.inp.isEmpty then "ok" else "fail empty_error_on_nonempty"
  | ["err", "internal"] => "fail internal_error"
  | _ => "fail unparsable_observation"

def finishCase (c : Case) : List String :=
  let m := showOut (validate c.autoPad c.inp)
  let i := joinSp c.obs
  let corr := if m == i then s!"{c.id} CORR ok" else s!"{c.id} CORR diff model=[{m}] impl=[{i}]"
  -- the independent C layout model against the measured one
  let corr2 :=
    if c.hasCt then
      match c.obs with
      | "ok" :: _ :: _ :: flds =>
        let fs := (flds.map parseFldOff).map (·.1)
        let mine := (cOffsets fs 0).1 ++ [cSizeof fs, cAlignof fs]
        if mine == c.ct then [] else [s!"{c.id} CORR diff cLayout model={mine} measured={c.ct}"]
      | _ => []
    else []
  [corr] ++ corr2 ++ [s!"{c.id} PROP C11 {propC11 c}"]

def step (st : Case × List String) (line : String) : Case × List String :=
  let (c, out) := st
  match toks line with
  | ["CASE", id, ap] => ({ id := id, autoPad := ap == "1" }, out)
  | "IN" :: fs => ({ c with inp := fs.map parseFld }, out)
  | "OBS" :: r => ({ c with obs := r }, out)
  | "CT" :: r => ({ c with ct := r.map natOf, hasCt := true }, out)
  | ["END"] => ({}, out ++ finishCase c)
  | _ => (c, out)

def main : IO Unit := do
  let stdin ← IO.getStdin
  let stdout ← IO.getStdout
  let lines ← readLines stdin
  let mut c : Case := {}
  for l in lines do
    let (c', out) := step (c, []) l
    c := c'
    for o in out do stdout.putStrLn o

end Pyrtma.Drv.Layout
