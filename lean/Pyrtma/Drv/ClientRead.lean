import Pyrtma.Drv.Util
import Pyrtma.Spec.ClientRead
import Pyrtma.Spec.ClientReadLife
/-! Line-protocol driver for M3 (see harness/read_corr.py for the grammar). -/
namespace Pyrtma.Drv.ClientRead
open Pyrtma.ClientRead Pyrtma.Drv

def hexVal (c : Char) : Nat :=
  if '0' ≤ c ∧ c ≤ '9' then c.toNat - '0'.toNat
  else if 'a' ≤ c ∧ c ≤ 'f' then c.toNat - 'a'.toNat + 10
  else if 'A' ≤ c ∧ c ≤ 'F' then c.toNat - 'A'.toNat + 10
  else 0

def hexToBytes (s : String) : Bytes :=
  if s == "-" then [] else
  let rec go : List Char → Bytes
    | a :: b :: r => UInt8.ofNat (hexVal a * 16 + hexVal b) :: go r
    | _ => []
  go s.toList

def hexDigit (n : Nat) : Char := if n < 10 then Char.ofNat (48 + n) else Char.ofNat (87 + n)

def bytesToHex (b : Bytes) : String :=
  if b.isEmpty then "-" else
  String.ofList (b.flatMap (fun x => [hexDigit (x.toNat / 16), hexDigit (x.toNat % 16)]))

def parseEnd : String → End
  | "fin" => .fin | "rst" => .rst | _ => .idle

def parseTmo : String → Tmo
  | "none" => .none | "zero" => .zero | "pos" => .pos | _ => .neg

def parseSub : List String → Sub
  | a :: ts => { subAll := a == "1", subs := ts.map intOf }
  | [] => { subAll := false, subs := [] }

def parseRes : List String → Res
  | ["msg", h, p] => .msg (hexToBytes h) (hexToBytes p)
  | ["none"] => .none
  | ["unknownType", h, r] => .unknownType (hexToBytes h) (hexToBytes r)
  | ["invalidDef"] => .invalidDef
  | ["lost"] => .lost
  | ["notConnected"] => .notConnected
  | ["blocked"] => .blocked
  | _ => .crash

/-- `OBS <consumed> <connected 0|1> <res...>` -/
def parseObs : List String → Obs
  | c :: k :: r => { res := parseRes r, consumed := natOf c, connected := k == "1" }
  | _ => { res := .crash, consumed := 0, connected := false }

def maskRes : Res → Res
  | .msg h p => .msg (maskRecv h) p
  | .unknownType h r => .unknownType (maskRecv h) r
  | r => r

def showRes : Res → String
  | .msg h p => s!"msg {bytesToHex h} {bytesToHex p}"
  | .none => "none"
  | .unknownType h r => s!"unknownType {bytesToHex h} {bytesToHex r}"
  | .invalidDef => "invalidDef"
  | .lost => "lost"
  | .notConnected => "notConnected"
  | .blocked => "blocked"
  | .crash => "crash"

def showObs (o : Obs) : String := s!"{o.consumed} {if o.connected then 1 else 0} {showRes (maskRes o.res)}"

/-- `<type> <size> <hash> ...` -/
def parseDefs : List String → List Def
  | t :: s :: h :: r => ⟨intOf t, natOf s, natOf h⟩ :: parseDefs r
  | _ => []

structure Case where
  id : String := ""
  cfg : Cfg := { hsize := 48, defs := [], ack := 2 }
  fs : List Frame := []       -- reversed while reading
  tail : Bytes := []
  e : End := .idle
  sub : Sub := { subAll := false, subs := [] }
  calls : List Call := []     -- reversed while reading
  obs : List Obs := []        -- reversed while reading

/-- the Spec of C08 on the implementation's observations, call by call, pre-states advanced by what the
    implementation itself consumed -/
def propWalk : Cfg → Pre → List Call → List Obs → Nat → String
  | _, _, [], _, _ => "ok"
  | cfg, p, .setSub sub :: cs, os, i => propWalk cfg { p with sub := sub } cs os i
  | cfg, p, .setDefs defs :: cs, os, i => propWalk { cfg with defs := defs } p cs os i
  | _, _, .read _ _ _ :: _, [], _ => "ok"      -- the harness stops a case after `blocked`
  | cfg, p, .read tmo ack sync :: cs, o :: os, i =>
    if !p.wf cfg then "skip"
    else
      let a : Args := ⟨tmo, ack, sync⟩
      match (clauses cfg p a o).find? (fun c => !c.2) with
      | some c => s!"fail {c.1} call={i}"
      | none =>
        if o.res == .blocked then "ok"
        else match p.advance o with
          | some p' => propWalk cfg p' cs os (i + 1)
          | none => s!"fail position_inside_frame call={i}"

def corrWalk : List Obs → List Obs → Nat → Option String
  | [], [], _ => none
  | m :: ms, o :: os, i =>
    if showObs m == showObs o then
      (if m.res == .blocked then none else corrWalk ms os (i + 1))
    else some s!"call={i} model=[{showObs m}] impl=[{showObs o}]"
  | m :: _, [], i => if m.res == .blocked then none else some s!"call={i} model=[{showObs m}] impl=[missing]"
  | [], o :: _, i => some s!"call={i} model=[missing] impl=[{showObs o}]"

/-- model observations, truncated after the first `blocked` (the harness cannot continue a hung call) -/
def untilBlocked : List Obs → List Obs
  | [] => []
  | o :: os => if o.res == .blocked then [o] else o :: untilBlocked os

def finishCase (c : Case) : List String :=
  let fs := c.fs.reverse
  let calls := c.calls.reverse
  let obs := c.obs.reverse
  let p : Pre := { fs := fs, tail := c.tail, e := c.e, connected := true, sub := c.sub }
  let m := untilBlocked (runCalls c.cfg calls p.st)
  let corr := match corrWalk m obs 0 with
    | none => s!"{c.id} CORR ok"
    | some d => s!"{c.id} CORR diff {d}"
  let kinds := joinSp (m.map (fun o => (showRes o.res).takeWhile (· != ' ') |>.toString))
  [corr, s!"{c.id} PROP C08 {propWalk c.cfg p calls obs 0}", s!"{c.id} INFO {kinds}"]


/-! ### several sessions of one client object (`LCASE`, see harness/read_corr.py) -/

def parseCRes : String → CRes
  | "joined" => .joined | "ackTimeout" => .ackTimeout | "unknownType" => .unknownType | "invalidDef" => .invalidDef
  | "lost" => .lost | "blocked" => .blocked | "notConnected" => .notConnected | _ => .crash

def showCRes : CRes → String
  | .joined => "joined" | .ackTimeout => "ackTimeout" | .unknownType => "unknownType" | .invalidDef => "invalidDef"
  | .lost => "lost" | .blocked => "blocked" | .notConnected => "notConnected" | .crash => "crash"

def showLOut : LOut → String
  | .read o => "read " ++ showObs o
  | .conn o =>
    -- a hung `connect()` never returns: there is no state "afterwards" to compare
    if o.res == .blocked then s!"conn {o.consumed} - blocked"
    else s!"conn {o.consumed} {if o.connected then 1 else 0} {showCRes o.res}"
  | .unit => "unit"

def lout_blocked : LOut → Bool
  | .read o => o.res == .blocked
  | .conn o => o.res == .blocked
  | .unit => false

structure LCase where
  id : String := ""
  cfg : Cfg := { hsize := 48, defs := [], ack := 2 }
  calls : List SCall := []     -- reversed while reading
  obs : List LOut := []        -- reversed while reading

/-- frames / tail lines after `CALL connect` extend the wire of the latest connect -/
def addFrame (cs : List SCall) (f : Frame) : List SCall :=
  match cs with
  | .connect w :: r => .connect { w with fs := w.fs ++ [f] } :: r
  | _ => cs
def setTail (cs : List SCall) (t : Bytes) (e : End) : List SCall :=
  match cs with
  | .connect w :: r => .connect { w with tail := t, e := e } :: r
  | _ => cs

def lcorr : List LOut → List LOut → Nat → Option String
  | [], [], _ => none
  | m :: ms, o :: os, i =>
    if showLOut m == showLOut o then (if lout_blocked m then none else lcorr ms os (i + 1))
    else some s!"call={i} model=[{showLOut m}] impl=[{showLOut o}]"
  | m :: _, [], i => if lout_blocked m then none else some s!"call={i} model=[{showLOut m}] impl=[missing]"
  | [], o :: _, i => some s!"call={i} model=[missing] impl=[{showLOut o}]"

def untilBlockedL : List LOut → List LOut
  | [] => []
  | o :: os => if lout_blocked o then [o] else o :: untilBlockedL os

/-- the Spec on the implementation's observations (same walk as `lifeHistOk`, naming the failing clause) -/
def lpropWalk (cfg : Cfg) : Pre → List SCall → List LOut → Nat → String
  | _, [], _, _ => "ok"
  | _, _ :: _, [], _ => "ok"          -- the harness stops a case after a hung call
  | p, .read tmo ack sync :: cs, .read o :: os, i =>
    if !p.wf cfg then "skip"
    else
      match (clauses cfg p ⟨tmo, ack, sync⟩ o).find? (fun c => !c.2) with
      | some c => s!"fail {c.1} call={i}"
      | none =>
        if o.res == .blocked then "ok"
        else match p.advance o with
          | some p' => lpropWalk cfg p' cs os (i + 1)
          | none => s!"fail position_inside_frame call={i}"
  | p, .setSub sub :: cs, .unit :: os, i =>
    lpropWalk cfg (if p.connected then { p with sub := sub } else p) cs os (i + 1)
  | p, .connect w :: cs, .conn o :: os, i =>
    if !w.pre.wf cfg then "skip"
    else
      match (connClauses cfg w o).find? (fun c => !c.2) with
      | some c => s!"fail {c.1} call={i}"
      | none =>
        match connNext p w o with
        | some (some p') => lpropWalk cfg p' cs os (i + 1)
        | some none => "ok"
        | none => s!"fail position_inside_frame call={i}"
  | p, .disconnect :: cs, .unit :: os, i => lpropWalk cfg (p.closed ⟨false, []⟩) cs os (i + 1)
  | p, .sendFail :: cs, .conn o :: os, i =>
    if sendFailOk p o then lpropWalk cfg (if p.connected then p.closed p.sub else p) cs os (i + 1) else s!"fail send_on_dead_connection_is_lost call={i}"
  | _, _ :: _, _ :: _, i => s!"fail observation_of_another_kind call={i}"

def finishL (c : LCase) : List String :=
  let calls := c.calls.reverse
  let obs := c.obs.reverse
  let m := untilBlockedL (runLife c.cfg (calls.map SCall.toL) St.fresh)
  let corr := match lcorr m obs 0 with
    | none => s!"{c.id} CORR ok"
    | some d => s!"{c.id} CORR diff {d}"
  [corr, s!"{c.id} PROP C08 {lpropWalk c.cfg Pre.never calls obs 0}"]

def lstepLine (c : LCase) (line : String) : LCase :=
  match toks line with
  | ["DEF", t, s, h] => { c with cfg := { c.cfg with defs := c.cfg.defs ++ [⟨intOf t, natOf s, natOf h⟩] } }
  | ["CALL", "read", t, a, s] => { c with calls := .read (parseTmo t) (a == "1") (s == "1") :: c.calls }
  | "CALL" :: "sub" :: r => { c with calls := .setSub (parseSub r) :: c.calls }
  | ["CALL", "connect"] => { c with calls := .connect ⟨[], [], .idle⟩ :: c.calls }
  | ["CALL", "disconnect"] => { c with calls := .disconnect :: c.calls }
  | ["CALL", "sendFail"] => { c with calls := .sendFail :: c.calls }
  | ["FRAME", h, p] => { c with calls := addFrame c.calls ⟨hexToBytes h, hexToBytes p⟩ }
  | ["TAIL", b, e] => { c with calls := setTail c.calls (hexToBytes b) (parseEnd e) }
  | "OBS" :: r => { c with obs := .read (parseObs r) :: c.obs }
  | ["COBS", n, k, r] => { c with obs := .conn ⟨parseCRes r, natOf n, k == "1"⟩ :: c.obs }
  | ["UOBS"] => { c with obs := .unit :: c.obs }
  | _ => c

def step (c : Case) (line : String) : Case × List String :=
  match toks line with
  | ["CASE", id, hs, ack] => ({ id := id, cfg := { hsize := natOf hs, defs := [], ack := intOf ack } }, [])
  | ["DEF", t, s, h] => ({ c with cfg := { c.cfg with defs := c.cfg.defs ++ [⟨intOf t, natOf s, natOf h⟩] } }, [])
  | ["FRAME", h, p] => ({ c with fs := ⟨hexToBytes h, hexToBytes p⟩ :: c.fs }, [])
  | ["TAIL", b, e] => ({ c with tail := hexToBytes b, e := parseEnd e }, [])
  | "SUB" :: r => ({ c with sub := parseSub r }, [])
  | ["CALL", "read", t, a, s] => ({ c with calls := .read (parseTmo t) (a == "1") (s == "1") :: c.calls }, [])
  | "CALL" :: "sub" :: r => ({ c with calls := .setSub (parseSub r) :: c.calls }, [])
  | "CALL" :: "defs" :: r => ({ c with calls := .setDefs (parseDefs r) :: c.calls }, [])
  | "OBS" :: r => ({ c with obs := parseObs r :: c.obs }, [])
  | ["END"] => ({}, finishCase c)
  | _ => (c, [])

def main : IO Unit := do
  let stdin ← IO.getStdin
  let stdout ← IO.getStdout
  let lines ← readLines stdin
  let mut c : Case := {}
  let mut lc : Option LCase := none
  for l in lines do
    match lc, toks l with
    | none, ["LCASE", id, hs, ack] =>
      lc := some { id := id, cfg := { hsize := natOf hs, defs := [], ack := intOf ack } }
    | some k, ["END"] =>
      for o in finishL k do stdout.putStrLn o
      lc := none
    | some k, _ => lc := some (lstepLine k l)
    | none, _ =>
      let (c', out) := step c l
      c := c'
      for o in out do stdout.putStrLn o

end Pyrtma.Drv.ClientRead
