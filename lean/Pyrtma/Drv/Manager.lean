import Pyrtma.Drv.Util
import Pyrtma.Spec.Manager
/-! Line-protocol driver for M1 (grammar: harness/mgr_corr.py). -/
namespace Pyrtma.Drv.Manager
open Pyrtma.Mgr Pyrtma.Drv

def hexNib (c : Char) : Nat :=
  if '0' ≤ c ∧ c ≤ '9' then c.toNat - '0'.toNat
  else if 'a' ≤ c ∧ c ≤ 'f' then c.toNat - 'a'.toNat + 10
  else if 'A' ≤ c ∧ c ≤ 'F' then c.toNat - 'A'.toNat + 10 else 0

def unhexL : List Char → List Nat
  | a :: b :: r => (hexNib a * 16 + hexNib b) :: unhexL r
  | _ => []

def unhex (s : String) : List Nat := if s == "-" then [] else unhexL s.toList

def hexDigit (n : Nat) : Char := if n < 10 then Char.ofNat (48 + n) else Char.ofNat (87 + n)

def hex (l : List Nat) : String :=
  if l.isEmpty then "-" else String.ofList (l.flatMap (fun b => [hexDigit (b / 16), hexDigit (b % 16)]))

def b01 (b : Bool) : String := if b then "1" else "0"

def insSorted (p : Int × Nat) : List (Int × Nat) → List (Int × Nat)
  | [] => [p]
  | q :: r => if p.1 < q.1 then p :: q :: r else q :: insSorted p r

def showBody : Body → List String
  | .data k => ["D", toString k]
  | .ack => ["A"]
  | .info u p m l q n => ["I", toString u, toString p, toString m, b01 l, b01 q, hex n]
  | .closed u p m l q n => ["C", toString u, toString p, toString m, b01 l, b01 q, hex n]
  | .failed d t s x => ["F", toString d, toString t, toString s, toString x]
  | .timing cs0 ps =>
    let cs := cs0.foldl (fun acc p => insSorted p acc) []
    ["T", toString cs.length] ++ cs.flatMap (fun p => [toString p.1, toString p.2]) ++
      [toString ps.length] ++ ps.flatMap (fun p => [toString p.1, toString p.2])
  | .traffic sq sb ts cs => ["R", toString sq, toString sb] ++ ts.map toString ++ cs.map toString
  | .active n ids pids => ["V", toString n, toString ids.length] ++ ids.map toString ++
      [toString pids.length] ++ pids.map toString
  | .log l => ["L", toString l]

def showEv : Ev → String
  | .send u c f => joinSp (["S", toString u, toString c, toString f.mtype, toString f.src, toString f.dest,
      toString f.destHost, toString f.nbytes] ++ showBody f.body)
  | .partialW u => s!"P {u}"
  | .wfail u => s!"WF {u}"
  | .close u => s!"X {u}"
  | .rd u => s!"RD {u}"

def takeInts : Nat → List String → List Int × List String
  | 0, r => ([], r)
  | n + 1, x :: r => let (a, b) := takeInts n r; (intOf x :: a, b)
  | _, [] => ([], [])

def pairsI (l : List Int) : List (Int × Int) :=
  match l with
  | a :: b :: r => (a, b) :: pairsI r
  | _ => []

def parseBody : List String → Body
  | ["D", k] => .data (natOf k)
  | ["A"] => .ack
  | ["I", u, p, m, l, q, n] => .info (natOf u) (intOf p) (intOf m) (l == "1") (q == "1") (unhex n)
  | ["C", u, p, m, l, q, n] => .closed (natOf u) (intOf p) (intOf m) (l == "1") (q == "1") (unhex n)
  | ["F", d, t, s, x] => .failed (intOf d) (intOf t) (intOf s) (intOf x)
  | "T" :: n :: r =>
    let (cs, r) := takeInts (2 * natOf n) r
    match r with
    | m :: r => let (ps, _) := takeInts (2 * natOf m) r
                .timing ((pairsI cs).map (fun p => (p.1, p.2.toNat))) (pairsI ps)
    | [] => .timing ((pairsI cs).map (fun p => (p.1, p.2.toNat))) []
  | "R" :: sq :: sb :: r =>
    let n := r.length / 2
    .traffic (natOf sq) (natOf sb) ((r.take n).map intOf) ((r.drop n).map natOf)
  | "V" :: num :: n :: r =>
    let (ids, r) := takeInts (natOf n) r
    match r with
    | m :: r => let (ps, _) := takeInts (natOf m) r; .active (intOf num) ids ps
    | [] => .active (intOf num) ids []
  | ["L", l] => .log (natOf l)
  | _ => .log 999

def parseEv : List String → Option Ev
  | "S" :: u :: c :: t :: s :: d :: dh :: n :: body =>
    some (.send (natOf u) (natOf c) { mtype := intOf t, src := intOf s, dest := intOf d, destHost := intOf dh,
                                      nbytes := natOf n, body := parseBody body })
  | ["P", u] => some (.partialW (natOf u))
  | ["WF", u] => some (.wfail (natOf u))
  | ["X", u] => some (.close (natOf u))
  | ["RD", u] => some (.rd (natOf u))
  | _ => none

def parseFail (s : String) : Option FailMode :=
  if s == "hdr" then some .hdr else if s == "pay" then some .pay else none

def setCfg (c : Cfg) (kv : String) : Cfg :=
  match kv.splitOn "=" with
  | [k, v] =>
    let n := natOf v
    let i := intOf v
    match k with
    | "logLevel" => { c with logLevel := n }
    | "timing" => { c with timing := v == "1" }
    | "rev" => { c with order := if v == "1" then List.reverse else id }
    | "maxModules" => { c with maxModules := i }
    | "dynStart" => { c with dynStart := i }
    | "maxHosts" => { c with maxHosts := i }
    | "maxTypes" => { c with maxTypes := i }
    | "trafficSize" => { c with trafficSize := n }
    | "maxActive" => { c with maxActive := n }
    | "allTypes" => { c with allTypes := i }
    | "bufMax" => { c with bufMax := i }
    | "pTiming" => { c with pTiming := n }
    | "pTraffic" => { c with pTraffic := n }
    | "pInfo" => { c with pInfo := n }
    | "mmPid" => { c with mmPid := i }
    | "szInfo" => { c with szInfo := n }
    | "szFailed" => { c with szFailed := n }
    | "szTiming" => { c with szTiming := n }
    | "szTraffic" => { c with szTraffic := n }
    | "szActive" => { c with szActive := n }
    | "szLog" => { c with szLog := n }
    | "mtAck" => { c with mtAck := i }
    | "mtConnectV2" => { c with mtConnectV2 := i }
    | "mtFailed" => { c with mtFailed := i }
    | "mtConnect" => { c with mtConnect := i }
    | "mtDisconnect" => { c with mtDisconnect := i }
    | "mtSubscribe" => { c with mtSubscribe := i }
    | "mtUnsubscribe" => { c with mtUnsubscribe := i }
    | "mtModuleReady" => { c with mtModuleReady := i }
    | "mtTraffic" => { c with mtTraffic := i }
    | "mtActive" => { c with mtActive := i }
    | "mtInfo" => { c with mtInfo := i }
    | "mtClosed" => { c with mtClosed := i }
    | "mtSetName" => { c with mtSetName := i }
    | "mtLog" => { c with mtLog := i }
    | "mtTiming" => { c with mtTiming := i }
    | "mtPause" => { c with mtPause := i }
    | "mtResume" => { c with mtResume := i }
    | _ => c
  | _ => c

structure Case where
  id : String := ""
  cfg : Cfg := {}
  rounds : Array Round := #[]
  obs : Array (Array Ev) := #[]       -- observed events per round (index 0 = before the first round)
  crash : Option String := none
  corrOnly : Bool := false
  propOnly : Bool := false
  dump : Bool := false
  final : Array Pyrtma.Mgr.Spec.FinalRow := #[]     -- the manager's module table at the end (FINAL lines)
  flog : Option (List Nat) := none                  -- its logger set (FLOG line; also marks "final tables were sent")
  fidx : Array (Int × List Nat) := #[]              -- its subscription index (FIDX lines)

def addToLast (a : Array Round) (f : Round → Round) : Array Round :=
  if a.size == 0 then a else a.modify (a.size - 1) f

def addObs (a : Array (Array Ev)) (e : Ev) : Array (Array Ev) :=
  if a.size == 0 then #[#[e]] else a.modify (a.size - 1) (·.push e)

/-- model events per round -/
def modelRun (cfg : Cfg) (rounds : List Round) : List (List Ev) × State :=
  let s0 := init cfg
  let (acc, s) := rounds.foldl (fun (p : List (List Ev) × State) r =>
      let s' := step cfg { p.2 with out := [] } r
      (p.1 ++ [s'.out], s')) ([s0.out], s0)
  (acc, s)

/-- the six RTMA_LOG message types: how many of them the manager originates depends on how many `logger.*` calls the
    code makes and at which level, which no property pins down -/
def isLogType (cfg : Cfg) (t : Int) : Bool := cfg.mtLog ≤ t && t ≤ cfg.mtLog + 5

/-- per-property projections of the event stream: the tie of property `P` is the agreement of model and
    implementation on `proj P`; RTMA_LOG frames and `msg_count` values are in none of them, so a change to logging
    alone breaks no tie (C05's gap-free counts are checked by the Spec on the implementation directly).
    C18's tie is the agreement on the statistics *about everything but the log messages themselves*: the TIMING counts and
    the MESSAGE_TRAFFIC entries of the RTMA_LOG types are left out (an added, removed or re-levelled log call changes
    them, and the number of traffic entries also decides where one MESSAGE_TRAFFIC sub-message ends and the next begins),
    so a MESSAGE_TRAFFIC frame is projected to its entries, one line each, without the sub-message number and the
    unused-slot markers.  Exactness of every count, the log types included, and the shape of the sub-messages are judged
    by the Spec on the implementation's own frames (PROP), not by this tie. -/
def projEv (cfg : Cfg) (p : String) (e : Ev) : List String :=
  let head (u : Nat) (f : Frame) : List String :=
    ["S", toString u, toString f.mtype, toString f.src, toString f.dest, toString f.destHost, toString f.nbytes]
  let noCount (u : Nat) (f : Frame) : String := joinSp (head u f ++ showBody f.body)
  match e with
  | .send u _ f =>
    let keep := match f.body, p with
      | .log _, "all" => true
      | .log _, _ => false
      | _, "all" => true
      | .data _, "C01" | .data _, "C14" | .data _, "C05" | .data _, "C07" => true
      | .failed .., "C14" => true
      | .ack, "C19" | .ack, "C05" | .ack, "C06" => true
      | .closed .., "C07" | .closed .., "C03" => true
      | .info .., "C06" => true
      | .timing .., "C18" | .traffic .., "C18" => true
      | .active .., "C03" => true
      | _, _ => false
    if !keep then []
    else if p == "all" then [showEv e]
    else match f.body with
      | .timing cs ps => [noCount u { f with body := .timing (cs.filter (fun c => !isLogType cfg c.1)) ps }]
      | .traffic sq _ ts cs =>
        ((List.zip ts cs).filter (fun tc => tc.1 != -1 && !isLogType cfg tc.1)).map (fun tc =>
          joinSp (head u f ++ ["RE", toString sq, toString tc.1, toString tc.2]))
      | _ => [noCount u f]
  | .close _ => if p == "C18" then [] else [showEv e]
  | .wfail _ | .partialW _ => if p == "C07" || p == "C14" || p == "C03" || p == "all" || p == "C05" then [showEv e] else []
  | .rd _ => if p == "C18" then [] else [showEv e]

def firstDiff (i : Nat) : List (List String) → List (List String) → Option String
  | [], [] => none
  | a :: ra, b :: rb =>
    if a == b then firstDiff (i + 1) ra rb
    else
      let j := (List.zip a b).takeWhile (fun p => p.1 == p.2) |>.length
      some s!"round {i} event {j} model=[{a.getD j "<none>"}] impl=[{b.getD j "<none>"}]"
  | a :: _, [] => some s!"round {i} model has events {a.take 2} impl has no such round"
  | [], b :: _ => some s!"round {i} impl has events {b.take 2} model has no such round"

def finishCase (c : Case) : List String :=
  let rounds := c.rounds.toList
  let (mev, ms) := modelRun c.cfg rounds
  let oev := c.obs.toList.map (·.toList)
  let corr :=
    if c.propOnly then []
    else
      let crashTxt := match ms.crashed, c.crash with
        | some m, none => some s!"model crashed ({m}) impl did not"
        | none, some i => some s!"impl crashed ({i}) model did not"
        | _, _ => none
      ("all" :: Pyrtma.Mgr.Spec.props).map (fun p =>
        -- a crash is C03's business: the other ties are compared on the rounds completed before it
        let upto := if c.crash.isSome && p != "C03" && p != "all" then oev.length - 1 else max mev.length oev.length
        let m := (mev.take upto).map (·.flatMap (projEv c.cfg p))
        let o := (oev.take upto).map (·.flatMap (projEv c.cfg p))
        match firstDiff 0 m o, crashTxt with
        | none, none => s!"{c.id} CORR {p} ok"
        | some d, _ => s!"{c.id} CORR {p} diff {d}"
        | none, some d => if p == "C03" || p == "all" then s!"{c.id} CORR {p} diff {d}" else s!"{c.id} CORR {p} ok")
  let finalRows := if c.flog.isSome then some c.final.toList else none
  let props :=
    if c.corrOnly then []
    else (Pyrtma.Mgr.Spec.checkAllFinal c.cfg rounds oev c.crash finalRows).map (fun p => s!"{c.id} PROP {p.1} {p.2}")
  -- the manager's tables at the end against the model's final state: identity of every table entry (C06), its
  -- subscriptions (C01), and — informational, in the `all` tie only — the logger set and the subscription index
  let corrFinal :=
    if c.propOnly || c.flog.isNone || c.crash.isSome || ms.crashed.isSome then []
    else
      let showId := fun (uid : Nat) (mid : Int) (uq lg dm cn : Bool) (pid : Int) (nm : List Nat) =>
        s!"{uid} id={mid} unique={uq} logger={lg} daemon={dm} connected={cn} pid={pid} name={nm}"
      let implId := c.final.toList.map (fun r => showId r.uid r.modId r.unique r.isLogger r.isDaemon r.connected r.pid r.name)
      let modelId := ms.mods.map (fun m => showId m.uid m.modId m.unique m.isLogger m.isDaemon m.connected m.pid m.name)
      let sortI := fun (l : List Int) => l.toArray.qsort (· < ·) |>.toList
      let implSubs := c.final.toList.map (fun r => s!"{r.uid} {sortI r.subs}")
      let modelSubs := ms.mods.map (fun m => s!"{m.uid} {sortI m.subs}")
      let implIdx := c.fidx.toList.map (fun p => s!"{p.1} {p.2}")
      let modelIdx := ((ms.idx.filter (fun p => !p.2.isEmpty)).toArray.qsort (fun a b => a.1 < b.1)).toList.map
        (fun p => s!"{p.1} {c.cfg.order p.2}")
      let d1 := if implId == modelId then [] else
        [s!"{c.id} CORR C06 diff final module table model={(modelId.filter (fun x => !implId.contains x)).take 2} impl={(implId.filter (fun x => !modelId.contains x)).take 2}"]
      let d2 := if implSubs == modelSubs then [] else
        [s!"{c.id} CORR C01 diff final subscriptions model={(modelSubs.filter (fun x => !implSubs.contains x)).take 2} impl={(implSubs.filter (fun x => !modelSubs.contains x)).take 2}"]
      let d3 := if c.flog == some (c.cfg.order ms.loggers) && implIdx == modelIdx then [] else
        [s!"{c.id} CORR all diff final logger set / subscription index model={c.cfg.order ms.loggers} {modelIdx.take 3} impl={c.flog} {implIdx.take 3}"]
      d1 ++ d2 ++ d3
  -- the Spec evaluated on the *model's own* run of the same script (a test of `model ⊨ Spec`, not a theorem): a clause
  -- the model violates means the Spec or the model is wrong, whatever the implementation did
  let specModel :=
    if c.corrOnly || c.propOnly then []
    else (Pyrtma.Mgr.Spec.checkAll c.cfg rounds mev (ms.crashed)).filterMap (fun p =>
      if p.2 == "ok" then none else some s!"{c.id} CORR {p.1} diff the Spec rejects the model's own run: {p.2}")
  -- `MODE dump`: additionally print both event streams of the first round that differs (debugging aid)
  let dump :=
    if !c.dump then []
    else
      let m := mev.map (·.flatMap (projEv c.cfg "all"))
      let o := oev.map (·.flatMap (projEv c.cfg "all"))
      let idx := ((List.zip m o).takeWhile (fun p => p.1 == p.2)).length
      (m.getD idx []).map (fun e => s!"{c.id} DUMP model round {idx}: {e}") ++
      (o.getD idx []).map (fun e => s!"{c.id} DUMP impl  round {idx}: {e}")
  corr ++ corrFinal ++ specModel ++ props ++ dump

def step (c : Case) (line : String) : Case × List String :=
  match toks line with
  | ["CASE", id] => ({ id := id }, [])
  | "CFG" :: kvs => ({ c with cfg := kvs.foldl setCfg c.cfg }, [])
  | ["MODE", m] => ({ c with corrOnly := m == "corr", propOnly := m == "prop", dump := m == "dump" }, [])
  | "ROUND" :: dt :: acc :: "W" :: ws =>
    ({ c with rounds := c.rounds.push { dt := natOf dt, accept := acc == "1", writable := ws.map natOf } }, [])
  | ["FAIL", u, m] => ({ c with rounds := addToLast c.rounds (fun r => { r with failSet := r.failSet ++ [(natOf u, parseFail m)] }) }, [])
  | ["READ", u, he, ho, k, t, s, d, dh, n, pe, av, pay] =>
    let rd : Read := { uid := natOf u, hdrErr := he == "1", hdrOk := ho == "1",
                       h := { k := natOf k, mtype := intOf t, src := intOf s, dest := intOf d, destHost := intOf dh, nbytes := intOf n },
                       payErr := pe == "1", avail := natOf av, pay := unhex pay }
    ({ c with rounds := addToLast c.rounds (fun r => { r with reads := r.reads ++ [rd] }) }, [])
  | "FINAL" :: u :: mid :: uq :: lg :: dm :: cn :: pid :: nm :: subs =>
    ({ c with final := c.final.push { uid := natOf u, modId := intOf mid, unique := uq == "1", isLogger := lg == "1",
                                       isDaemon := dm == "1", connected := cn == "1", pid := intOf pid,
                                       name := if nm == "-" then [] else unhex nm, subs := subs.map intOf } }, [])
  | "FLOG" :: us => ({ c with flog := some (us.map natOf) }, [])
  | "FIDX" :: t :: us => ({ c with fidx := c.fidx.push (intOf t, us.map natOf) }, [])
  | ["OBS0"] => ({ c with obs := #[#[]] }, [])      -- start of observations: events before round 1
  | ["MARK"] => ({ c with obs := c.obs.push #[] }, [])
  | "CRASH" :: w => ({ c with crash := some (joinSp w) }, [])
  | ["END"] => ({}, finishCase c)
  | t =>
    match parseEv t with
    | some e => ({ c with obs := addObs c.obs e }, [])
    | none => (c, [])

def main : IO Unit := do
  let stdin ← IO.getStdin
  let stdout ← IO.getStdout
  let lines ← readLines stdin
  let mut c : Case := {}
  for l in lines do
    let (c', out) := step c l
    c := c'
    for o in out do stdout.putStrLn o

end Pyrtma.Drv.Manager
