import Pyrtma.Drv.Util
import Pyrtma.Spec.HashText
/-! Line-protocol driver for M8 (grammar: harness/hash_corr.py). -/
namespace Pyrtma.Drv.HashText
open Pyrtma.HashText Pyrtma.Drv

def hexVal (c : Char) : Nat :=
  if '0' ≤ c && c ≤ '9' then c.toNat - 48 else if 'a' ≤ c && c ≤ 'f' then c.toNat - 87 else 0

def unhex : List Char → List Char
  | a :: b :: c :: d :: e :: f :: r =>
    Char.ofNat (((((hexVal a * 16 + hexVal b) * 16 + hexVal c) * 16 + hexVal d) * 16 + hexVal e) * 16 + hexVal f) :: unhex r
  | _ => []

def hexDigit (n : Nat) : Char := if n < 10 then Char.ofNat (48 + n) else Char.ofNat (87 + n)

def hex6 (c : Char) : List Char :=
  let n := c.toNat
  [hexDigit (n / 1048576 % 16), hexDigit (n / 65536 % 16), hexDigit (n / 4096 % 16), hexDigit (n / 256 % 16),
   hexDigit (n / 16 % 16), hexDigit (n % 16)]

def hexOf (s : List Char) : String := String.ofList (s.flatMap hex6)

def unhexS (s : String) : List Char := unhex s.toList

def parsePairs (s : String) : List (Str × Str) :=
  if s == "-" then [] else
  (s.splitOn ",").map (fun p => match p.splitOn ":" with
    | [a, b] => (unhexS a, unhexS b)
    | _ => ([], []))

def parseFields (s : String) : Fields :=
  match s.toList with
  | ['N'] => .null
  | 'R' :: r => .ref (unhex r)
  | 'L' :: r => .list (parsePairs (String.ofList r))
  | _ => .null

structure Case where
  id : String := ""
  d : Option Def := none
  a : Identity := default
  b : Identity := default
  hasPair : Bool := false
  raw : String := ""
  ha : String := ""
  hb : String := ""

def parseIdent (sig name id fs : String) : Identity :=
  { signal := sig == "g", name := unhexS name, id := intOf id, fields := parsePairs fs }

def finishCase (c : Case) : List String :=
  let corr := match c.d with
    | none => []
    | some d =>
      let m := match rawText d with | some t => hexOf t | none => "crash"
      [if m == c.raw then s!"{c.id} CORR ok" else s!"{c.id} CORR diff model={m} impl={c.raw}", s!"{c.id} TEXT {m}"]
  let prop := if c.hasPair then [s!"{c.id} PROP C13 {judgePair c.a c.b c.ha c.hb}"] else [s!"{c.id} PROP C13 skip"]
  corr ++ prop

def step (c : Case) (line : String) : Case × List String :=
  match toks line with
  | ["CASE", id] => ({ id := id }, [])
  | ["DEF", k, name, id, fs] =>
    ({ c with d := some { kind := if k == "s" then .struct else .message, name := unhexS name, id := intOf id,
                          fields := parseFields fs } }, [])
  | ["KEY", "a", sig, name, id, fs] => ({ c with a := parseIdent sig name id fs, hasPair := true }, [])
  | ["KEY", "b", sig, name, id, fs] => ({ c with b := parseIdent sig name id fs }, [])
  | ["OBS", raw, ha, hb] => ({ c with raw := raw, ha := ha, hb := hb }, [])
  | ["END"] => ({}, finishCase c)
  | _ => (c, [])

def main : IO Unit := do
  let stdin ← IO.getStdin
  let stdout ← IO.getStdout
  let lines ← readLines stdin
  let mut c : Case := {}
  for l in lines do
    let (c', out) := step c l
    c := c'
    for o in out do stdout.putStrLn o

end Pyrtma.Drv.HashText
