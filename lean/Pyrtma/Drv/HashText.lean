import Pyrtma.Drv.Util
import Pyrtma.Spec.HashText
import Pyrtma.Model.YamlDef
/-! Line-protocol driver for M8 (grammar: harness/hash_corr.py). -/
namespace Pyrtma.Drv.HashText
open Pyrtma.HashText Pyrtma.Drv

def hexVal (c : Char) : Nat :=
  if '0' ≤ c && c ≤ '9' then c.toNat - 48 else if 'a' ≤ c && c ≤ 'f' then c.toNat - 87 else 0

def unhex : List Char → List Char
  | a :: b :: c :: d :: e :: f :: r =>
    Char.ofNat (((((hexVal a * 16 + hexVal b) * 16 + hexVal c) * 16 + hexVal d) * 16 + hexVal e) * 16 + hexVal f) :: unhex r
  | _ => []

def hexDigit (n : Nat) : Char := if n < 10 then Char.ofNat (48 + n) else Char.ofNat (87 + n)

def hex6 (c : Char) : List Char :=
  let n := c.toNat
  [hexDigit (n / 1048576 % 16), hexDigit (n / 65536 % 16), hexDigit (n / 4096 % 16), hexDigit (n / 256 % 16),
   hexDigit (n / 16 % 16), hexDigit (n % 16)]

def hexOf (s : List Char) : String := String.ofList (s.flatMap hex6)

def unhexS (s : String) : List Char := unhex s.toList

def parsePairs (s : String) : List (Str × Str) :=
  if s == "-" then [] else
  (s.splitOn ",").map (fun p => match p.splitOn ":" with
    | [a, b] => (unhexS a, unhexS b)
    | _ => ([], []))

def parseFields (s : String) : Fields :=
  match s.toList with
  | ['N'] => .null
  | 'R' :: r => .ref (unhex r)
  | 'L' :: r => .list (parsePairs (String.ofList r))
  | _ => .null

/-- two hex digits per byte; `-` = no byte -/
def unhexBytes : List Char → List Nat
  | a :: b :: r => (hexVal a * 16 + hexVal b) :: unhexBytes r
  | _ => []

def hexNat (s : String) : Nat := s.toList.foldl (fun a c => a * 16 + hexVal c.toLower) 0

def optHex (s : String) : Option Nat := if s == "-" then none else some (hexNat s)

structure Outs where
  p : Nat
  py : Option Nat
  c : Option Nat
  js : Option Nat
  m : Option Nat
  versions : List Nat

structure Case where
  id : String := ""
  sha : Option (List Nat × String) := none
  src : Option (List (List Char)) := none       -- the physical lines of the definition as written in the file
  outs : Option Outs := none
  d : Option Def := none
  a : Identity := default
  b : Identity := default
  hasPair : Bool := false
  raw : String := ""
  ha : String := ""
  hb : String := ""

def parseIdent (sig name id fs : String) : Identity :=
  { signal := sig == "g", name := unhexS name, id := intOf id, fields := parsePairs fs }

def finishCase (c : Case) : List String :=
  match c.sha with
  | some (bytes, want) =>
    -- SHA-256 alone: the model's digest of the given bytes against hashlib's
    let got := String.ofList (Sha256.hexDigest bytes)
    let w0 := String.ofList (Sha256.hex8 (Sha256.word0 bytes))
    [if got == want && w0 == (want.take 8).toString then s!"{c.id} CORR ok"
     else s!"{c.id} CORR diff sha256 model={got} word0={w0} hashlib={want}", s!"{c.id} PROP C13 skip"]
  | none =>
  let corr := match c.d with
    | none => []
    | some d =>
      let m := match rawText d with | some t => hexOf t | none => "crash"
      let dg := match digestHex d with | some h => String.ofList h | none => "crash"
      let h32 := match hash32 d with | some n => toString n | none => "crash"
      -- the text, then the digest computed INSIDE the model against the parser's `hash`
      [if m == c.raw then s!"{c.id} CORR ok" else s!"{c.id} CORR diff model={m} impl={c.raw}",
       if dg == c.hb then s!"{c.id} CORR ok" else s!"{c.id} CORR diff digest model={dg} impl={c.hb}",
       s!"{c.id} TEXT {m}", s!"{c.id} HASH {dg} {h32}"]
  let outs := match c.d, c.outs with
    | some d, some o =>
      let h32 := hash32 d
      [if h32 == some o.p then s!"{c.id} CORR ok" else s!"{c.id} CORR diff hash32 model={repr h32} parser={o.p}",
       -- the model's value against every output (CORR) and the outputs among themselves (PROP, Spec)
       (let bad := ([("py", o.py), ("c", o.c), ("js", o.js), ("m", o.m)].filter (fun q => q.2.isSome && q.2 != h32)).map (·.1)
        let badv := o.versions.filter (fun v => some v != h32)
        if bad.isEmpty && badv.isEmpty then s!"{c.id} CORR ok"
        else s!"{c.id} CORR diff outputs model={repr h32} differing={bad} versions={badv}"),
       s!"{c.id} PROP C13 {judgeOutputs o.p o.py o.c o.js o.m o.versions}"]
    | _, _ => []
  let loader := match c.d, c.src with
    | some d, some ls =>
      -- source lines -> loaded value (Model/YamlDef.lean) must be the definition the text and hash were computed from
      let got := YamlDef.loadDef d.kind ls
      [if got == some d then s!"{c.id} CORR ok" else s!"{c.id} CORR diff loader model={repr got} harness={repr d}"]
    | _, _ => []
  let prop := if c.hasPair then [s!"{c.id} PROP C13 {judgePair c.a c.b c.ha c.hb}"]
              else if c.outs.isSome then [] else [s!"{c.id} PROP C13 skip"]
  corr ++ loader ++ outs ++ prop

def step (c : Case) (line : String) : Case × List String :=
  match toks line with
  | ["CASE", id] => ({ id := id }, [])
  | ["DEF", k, name, id, fs] =>
    ({ c with d := some { kind := if k == "s" then .struct else .message, name := unhexS name, id := intOf id,
                          fields := parseFields fs } }, [])
  | ["KEY", "a", sig, name, id, fs] => ({ c with a := parseIdent sig name id fs, hasPair := true }, [])
  | ["KEY", "b", sig, name, id, fs] => ({ c with b := parseIdent sig name id fs }, [])
  | ["OBS", raw, ha, hb] => ({ c with raw := raw, ha := ha, hb := hb }, [])
  | "SRC" :: ls => ({ c with src := some (ls.map (fun h => if h == "-" then [] else unhexS h)) }, [])
  | ["SHA", bytes, want] => ({ c with sha := some (if bytes == "-" then [] else unhexBytes bytes.toList, want) }, [])
  | ["SHAT", text, want] => ({ c with sha := some (Sha256.utf8 (if text == "-" then [] else unhexS text), want) }, [])
  | ["OUTS", raw, full, py, cc, js, m, vs] =>
    -- `full` = MDF.hash; every back end prints `hash[:8]`
    let o : Outs := ⟨hexNat ((full.take 8).toString), optHex py, optHex cc, optHex js, optHex m,
                     if vs == "-" then [] else (vs.splitOn ",").map hexNat⟩
    ({ c with raw := raw, hb := full, outs := some o }, [])
  | ["END"] => ({}, finishCase c)
  | _ => (c, [])

def main : IO Unit := do
  let stdin ← IO.getStdin
  let stdout ← IO.getStdout
  let lines ← readLines stdin
  let mut c : Case := {}
  for l in lines do
    let (c', out) := step c l
    c := c'
    for o in out do stdout.putStrLn o

end Pyrtma.Drv.HashText
