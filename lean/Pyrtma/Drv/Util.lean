/-! Line-protocol helpers shared by the model drivers (core Lean only). -/
namespace Pyrtma.Drv

/-- Read every line of stdin (without the trailing newline). -/
partial def readLines (h : IO.FS.Stream) (acc : Array String := #[]) : IO (Array String) := do
  let line ← h.getLine
  if line.isEmpty then return acc
  let l := if line.back == '\n' then (line.dropEnd 1).toString else line
  readLines h (acc.push l)

def toks (s : String) : List String := (s.splitOn " ").filter (· ≠ "")

def natOf (s : String) : Nat := s.toNat?.getD 0
def intOf (s : String) : Int := s.toInt?.getD 0

def joinSp (l : List String) : String := String.intercalate " " l

end Pyrtma.Drv
