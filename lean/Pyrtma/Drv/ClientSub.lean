import Pyrtma.Drv.Util
import Pyrtma.Spec.ClientSub
import Pyrtma.Spec.ClientLife
/-! Line-protocol driver for M2 (see harness/client_corr.py for the grammar). -/
namespace Pyrtma.Drv.ClientSub
open Pyrtma.ClientSub Pyrtma.Drv

/-- insertion sort + dedup: canonical form of a set of ints -/
def insertSorted (x : Int) : List Int → List Int
  | [] => [x]
  | y :: ys => if x < y then x :: y :: ys else if x == y then y :: ys else y :: insertSorted x ys
def canon (l : List Int) : List Int := l.foldr insertSorted []
def showSet (l : List Int) : String := joinSp ((canon l).map toString)

def ctlName : Ctl → String
  | .subscribe => "subscribe" | .unsubscribe => "unsubscribe" | .pause => "pause" | .resume => "resume"

def parseCtl : String → Option Ctl
  | "subscribe" => some .subscribe | "unsubscribe" => some .unsubscribe
  | "pause" => some .pause | "resume" => some .resume | _ => none

def showFrame : Frame → String
  | .ctl k t => s!"{ctlName k}:{t}"
  | .reset => "reset"

/-- frames as a sorted multiset of strings -/
def insertStr (x : String) : List String → List String
  | [] => [x]
  | y :: ys => if x < y then x :: y :: ys else y :: insertStr x ys
def showFrames (fr : List Frame) : String := joinSp ((fr.map showFrame).foldr insertStr [])

def parseOp : List String → Option Op
  | "unsubAll" :: _ => some .unsubAll
  | "pauseAll" :: _ => some .pauseAll
  | "resumeAll" :: _ => some .resumeAll
  | "reconnect" :: _ => some .reconnect
  | "reconnectLost" :: _ => some .reconnect      -- same model step: both sides start afresh
  | "subCtx" :: l => some (.subCtx (l.map intOf))
  | "pauseCtx" :: l => some (.pauseCtx (l.map intOf))
  | k :: l => (parseCtl k).map (fun c => .ctl c (l.map intOf))
  | [] => none

/-- an observed phase, as sent by the harness -/
structure ImplPhase where
  status : String := "ok"
  nframes : Nat := 0
  sub : List Int := []
  paused : List Int := []
  delivered : List Int := []
  frames : List String := []
  msubs : List Int := []
  mindex : List Int := []
  subAll : Bool := false

/-- split `S a b P c D d ...` sections -/
def sections (ts : List String) : List (String × List String) :=
  let rec go (cur : Option (String × List String)) (acc : List (String × List String)) : List String → List (String × List String)
    | [] => (match cur with | some (k, v) => acc ++ [(k, v.reverse)] | none => acc)
    | t :: r =>
      if ["S", "P", "D", "F", "M", "I", "A", "C", "N", "R", "K", "H", "T", "X"].contains t then
        go (some (t, [])) (match cur with | some (k, v) => acc ++ [(k, v.reverse)] | none => acc) r
      else match cur with
        | some (k, v) => go (some (k, t :: v)) acc r
        | none => go none acc r
  go none [] ts

def sect (ss : List (String × List String)) (k : String) : List String :=
  match ss.find? (fun p => p.1 == k) with
  | some p => p.2
  | none => []

def parsePhase : List String → ImplPhase
  | st :: nf :: r =>
    let ss := sections r
    { status := st, nframes := natOf nf, sub := (sect ss "S").map intOf, paused := (sect ss "P").map intOf,
      delivered := (sect ss "D").map intOf, frames := (sect ss "F").foldr insertStr [],
      msubs := (sect ss "M").map intOf, mindex := (sect ss "I").map intOf, subAll := sect ss "A" == ["1"] }
  | _ => {}

def showImpl (p : ImplPhase) : String :=
  s!"{p.status} n={p.nframes} A={if p.subAll then 1 else 0} S=[{showSet p.sub}] P=[{showSet p.paused}] " ++
  s!"D=[{showSet p.delivered}] F=[{joinSp p.frames}] M=[{showSet p.msubs}] I=[{showSet p.mindex}]"

def showModel (U : List Int) (p : Phase) (m : MState) : String :=
  let st := match p.status with | .ok => "ok" | .refused => "refused"
  s!"{st} n={p.frames.length} A={if p.st.subAll then 1 else 0} S=[{showSet p.st.subscribed}] " ++
  s!"P=[{showSet p.st.paused}] D=[{showSet (U.filter (delivered m))}] F=[{showFrames p.frames}] " ++
  s!"M=[{showSet m.subs}] I=[{showSet m.index}]"

def toObs (p : ImplPhase) : PhaseObs :=
  { status := if p.status == "ok" then some .ok else if p.status == "refused" then some .refused else none,
    nframes := p.nframes, view := ⟨p.sub, p.paused, p.delivered⟩ }

structure Case where
  id : String := ""
  allT : Int := 0
  U : List Int := []
  ops : List (Op × List ImplPhase) := []     -- reversed; phases reversed

def corrWalk (U : List Int) : Sys → List (Op × List ImplPhase) → Nat → Option String
  | _, [], _ => none
  | s, (op, ph) :: r, i =>
    let mp := sysStep s op
    let ms := mp.map (fun x => showModel U x.1 x.2)
    let is := ph.map showImpl
    if ms == is then corrWalk U (sysAfter s mp) r (i + 1)
    else some s!"op={i} model={ms} impl={is}"

def propWalk (U : List Int) : View → List (Op × List ImplPhase) → Nat → String
  | _, [], _ => "ok"
  | pre, (op, ph) :: r, i =>
    let obs := ph.map toObs
    if obs.isEmpty then s!"fail no_observation op={i}"
    else match opFail U pre op pre true obs with
      | some c => s!"fail {c} op={i}"
      | none => propWalk U (lastView pre obs) r (i + 1)

def finishCase (c : Case) : List String :=
  let ops := c.ops.reverse.map (fun p => (p.1, p.2.reverse))
  if c.allT != ALL then [s!"{c.id} CORR diff ALL_MESSAGE_TYPES model={ALL} impl={c.allT}", s!"{c.id} PROP C02 skip"]
  else
    let corr := match corrWalk c.U Sys.init ops 0 with
      | none => s!"{c.id} CORR ok"
      | some d => s!"{c.id} CORR diff {d}"
    [corr, s!"{c.id} PROP C02 {propWalk c.U (viewOf c.U CState.init MState.init) ops 0}"]


/-! ### life-cycle cases (`LCASE`, see harness/client_corr.py) -/

structure ImplL where
  ph : ImplPhase := {}
  connected : Bool := false
  modId : Int := 0
  req : Option Int := none
  ack : Option Int := none
  held : List Int := []
  table : List String := []
  cursor : Nat := 0

def optInt : List String → Option Int
  | [x] => if x == "-" then none else some (intOf x)
  | _ => none

def parseL (r : List String) : ImplL :=
  match r with
  | _ :: _ :: rest =>
    let ss := sections rest
    { ph := parsePhase r, connected := sect ss "C" == ["1"], modId := ((sect ss "N").map intOf).headD 0,
      req := optInt (sect ss "R"), ack := optInt (sect ss "K"), held := (sect ss "H").map intOf,
      table := sect ss "T", cursor := ((sect ss "X").map natOf).headD 0 }
  | _ => {}

def showOpt : Option Int → String
  | some x => toString x
  | none => "-"

def showRec (r : MConn) : String :=
  s!"{r.modId}:{if r.live then 1 else 0}:{if r.unique then 1 else 0}:[{String.intercalate "," ((canon r.m.subs).map toString)}]"

/-- `modId:live:unique:[subs]` without the subscriptions -/
def dropSubs (t : String) : String := String.intercalate ":" ((t.splitOn ":").take 3)

/-- `ids`: the projection for C06 (identity only: outcome, connected, ids, table without subscriptions, cursor) -/
def showImplL (ids : Bool) (p : ImplL) : String :=
  if ids then
    s!"{p.ph.status} C={if p.connected then 1 else 0} N={p.modId} R={showOpt p.req} K={showOpt p.ack} " ++
    s!"H=[{showSet p.held}] T=[{joinSp (p.table.map dropSubs)}] X={p.cursor}"
  else
  showImpl p.ph ++ s!" C={if p.connected then 1 else 0} N={p.modId} R={showOpt p.req} K={showOpt p.ack} " ++
  s!"H=[{showSet p.held}] T=[{joinSp p.table}] X={p.cursor}"

def lstatusName : LStatus → String
  | .ok => "ok" | .refused => "refused" | .notConnected => "notConnected" | .lost => "lost" | .ackTimeout => "ackTimeout"

def showModelL (ids : Bool) (U : List Int) (x : LPhase × Mgr) : String :=
  let cl := x.1.cl
  if ids then
    s!"{lstatusName x.1.status} C={if cl.connected then 1 else 0} N={cl.modId} R={showOpt x.1.req} " ++
    s!"K={showOpt x.1.ack} H=[{showSet (lheld cl x.2)}] " ++
    s!"T=[{joinSp ((x.2.conns.filter (·.own)).map (fun r => dropSubs (showRec r)))}] X={x.2.cursor}"
  else
  let m : MState := match x.2.find cl.conn with | some r => r.m | none => MState.init
  s!"{lstatusName x.1.status} n={x.1.frames.length} A={if cl.sub.subAll then 1 else 0} S=[{showSet cl.sub.subscribed}] " ++
  s!"P=[{showSet cl.sub.paused}] D=[{showSet (lview U cl x.2).delivered}] F=[{showFrames x.1.frames}] " ++
  s!"M=[{showSet m.subs}] I=[{showSet m.index}] C={if cl.connected then 1 else 0} N={cl.modId} R={showOpt x.1.req} " ++
  s!"K={showOpt x.1.ack} H=[{showSet (lheld cl x.2)}] T=[{joinSp ((x.2.conns.filter (·.own)).map showRec)}] X={x.2.cursor}"

def toLObs (p : ImplL) : LObs :=
  { status := if p.ph.status == "ok" then some .ok else if p.ph.status == "refused" then some .refused
              else if p.ph.status == "notConnected" then some .notConnected
              else if p.ph.status == "lost" then some .lost
              else if p.ph.status == "ackTimeout" then some .ackTimeout else none,
    nframes := p.ph.nframes, view := ⟨p.ph.sub, p.ph.paused, p.ph.delivered⟩, connected := p.connected,
    modId := p.modId, req := p.req, ack := p.ack, held := p.held }

def parseLOp : List String → Option LOp
  | ["connect", a] => some (.connect (a == "1"))
  | ["connectLate", a] => some (.connectLate (a == "1"))
  | ["disconnect"] => some .disconnect
  | ["lostRead", n] => some (.lostRead (n == "1"))
  | ["lostSend", n] => some (.lostSend (n == "1"))
  | "ctlLost" :: k :: n :: l => (parseCtl k).map (fun c => .ctlLost c (l.map intOf) (n == "1"))
  | ["mgrNotices"] => some .mgrNotices
  | "sub" :: r => (parseOp r).map .sub
  | _ => none

structure LCase where
  id : String := ""
  allT : Int := 0
  cfg : IdCfg := {}
  created : Int := 0
  cursor : Nat := 0
  ids : Bool := false
  U : List Int := []
  others : List (Int × Bool) := []            -- reversed
  ops : List (LOp × List ImplL) := []         -- reversed; phases reversed

def lcorrWalk (ids : Bool) (cfg : IdCfg) (U : List Int) : LSys → List (LOp × List ImplL) → Nat → Option String
  | _, [], _ => none
  | s, (op, ph) :: r, i =>
    let mp := lstep cfg s op
    let ms := mp.map (showModelL ids U)
    let is := ph.map (showImplL ids)
    if ms == is then lcorrWalk ids cfg U (lafter s mp) r (i + 1)
    else some s!"op={i} model={ms} impl={is}"

/-- the Spec on the implementation's observations; `which` selects the property -/
def lpropWalk (cfg : IdCfg) (U : List Int) (created : Int) (which : Nat) : LObs → List (LOp × List ImplL) → Nat → String
  | _, [], _ => "ok"
  | pre, (op, ph) :: r, i =>
    let obs := ph.map toLObs
    if obs.isEmpty then s!"fail no_observation op={i}"
    else
      let f := if which == 2 then lopFail02 U pre op obs else lopFail06 cfg created op obs
      match f with
      | some c => s!"fail {c} op={i}"
      | none => lpropWalk cfg U created which (lastObs pre obs) r (i + 1)

def finishL (c : LCase) : List String :=
  let ops := c.ops.reverse.map (fun p => (p.1, p.2.reverse))
  if c.allT != ALL then
    [s!"{c.id} CORR diff ALL_MESSAGE_TYPES model={ALL} impl={c.allT}", s!"{c.id} PROP C02 skip", s!"{c.id} PROP C06 skip"]
  else
    let s0 := LSys.init c.created c.others.reverse c.cursor
    let corr := match lcorrWalk c.ids c.cfg c.U s0 ops 0 with
      | none => s!"{c.id} CORR ok"
      | some d => s!"{c.id} CORR diff {d}"
    let pre := LObs.fresh c.created
    [corr, s!"{c.id} PROP C02 {lpropWalk c.cfg c.U c.created 2 pre ops 0}",
     s!"{c.id} PROP C06 {lpropWalk c.cfg c.U c.created 6 pre ops 0}"]

def lstepLine (c : LCase) (line : String) : LCase × List String :=
  match toks line with
  | "U" :: ts => ({ c with U := ts.map intOf }, [])
  | ["OTHER", i, u] => ({ c with others := (intOf i, u == "1") :: c.others }, [])
  | "LOP" :: r =>
    (match parseLOp r with
     | some op => ({ c with ops := (op, []) :: c.ops }, [])
     | none => (c, []))
  | "LPH" :: r =>
    (match c.ops with
     | (op, ph) :: rest => ({ c with ops := (op, parseL r :: ph) :: rest }, [])
     | [] => (c, []))
  | _ => (c, [])

def step (c : Case) (line : String) : Case × List String :=
  match toks line with
  | ["CASE", id, a] => ({ id := id, allT := intOf a }, [])
  | "U" :: ts => ({ c with U := ts.map intOf }, [])
  | "OP" :: r =>
    (match parseOp r with
     | some op => ({ c with ops := (op, []) :: c.ops }, [])
     | none => (c, []))
  | "PH" :: r =>
    (match c.ops with
     | (op, ph) :: rest => ({ c with ops := (op, parsePhase r :: ph) :: rest }, [])
     | [] => (c, []))
  | ["END"] => ({}, finishCase c)
  | _ => (c, [])

def main : IO Unit := do
  let stdin ← IO.getStdin
  let stdout ← IO.getStdout
  let lines ← readLines stdin
  let mut c : Case := {}
  let mut lc : Option LCase := none
  for l in lines do
    match lc, toks l with
    | none, "LCASE" :: id :: a :: ds :: mm :: cr :: cur :: proj =>
      lc := some { id := id, allT := intOf a, cfg := ⟨intOf ds, intOf mm⟩, created := intOf cr, cursor := natOf cur,
                   ids := proj == ["ids"] }
    | some k, ["END"] =>
      for o in finishL k do stdout.putStrLn o
      lc := none
    | some k, _ => lc := some (lstepLine k l).1
    | none, _ =>
      let (c', out) := step c l
      c := c'
      for o in out do stdout.putStrLn o

end Pyrtma.Drv.ClientSub
