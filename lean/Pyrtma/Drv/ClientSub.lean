import Pyrtma.Drv.Util
import Pyrtma.Spec.ClientSub
/-! Line-protocol driver for M2 (see harness/client_corr.py for the grammar). -/
namespace Pyrtma.Drv.ClientSub
open Pyrtma.ClientSub Pyrtma.Drv

/-- insertion sort + dedup: canonical form of a set of ints -/
def insertSorted (x : Int) : List Int → List Int
  | [] => [x]
  | y :: ys => if x < y then x :: y :: ys else if x == y then y :: ys else y :: insertSorted x ys
def canon (l : List Int) : List Int := l.foldr insertSorted []
def showSet (l : List Int) : String := joinSp ((canon l).map toString)

def ctlName : Ctl → String
  | .subscribe => "subscribe" | .unsubscribe => "unsubscribe" | .pause => "pause" | .resume => "resume"

def parseCtl : String → Option Ctl
  | "subscribe" => some .subscribe | "unsubscribe" => some .unsubscribe
  | "pause" => some .pause | "resume" => some .resume | _ => none

def showFrame : Frame → String
  | .ctl k t => s!"{ctlName k}:{t}"
  | .reset => "reset"

/-- frames as a sorted multiset of strings -/
def insertStr (x : String) : List String → List String
  | [] => [x]
  | y :: ys => if x < y then x :: y :: ys else y :: insertStr x ys
def showFrames (fr : List Frame) : String := joinSp ((fr.map showFrame).foldr insertStr [])

def parseOp : List String → Option Op
  | "unsubAll" :: _ => some .unsubAll
  | "pauseAll" :: _ => some .pauseAll
  | "resumeAll" :: _ => some .resumeAll
  | "reconnect" :: _ => some .reconnect
  | "reconnectLost" :: _ => some .reconnect      -- same model step: both sides start afresh
  | "subCtx" :: l => some (.subCtx (l.map intOf))
  | "pauseCtx" :: l => some (.pauseCtx (l.map intOf))
  | k :: l => (parseCtl k).map (fun c => .ctl c (l.map intOf))
  | [] => none

/-- an observed phase, as sent by the harness -/
structure ImplPhase where
  status : String := "ok"
  nframes : Nat := 0
  sub : List Int := []
  paused : List Int := []
  delivered : List Int := []
  frames : List String := []
  msubs : List Int := []
  mindex : List Int := []
  subAll : Bool := false

/-- split `S a b P c D d ...` sections -/
def sections (ts : List String) : List (String × List String) :=
  let rec go (cur : Option (String × List String)) (acc : List (String × List String)) : List String → List (String × List String)
    | [] => (match cur with | some (k, v) => acc ++ [(k, v.reverse)] | none => acc)
    | t :: r =>
      if t == "S" || t == "P" || t == "D" || t == "F" || t == "M" || t == "I" || t == "A" then
        go (some (t, [])) (match cur with | some (k, v) => acc ++ [(k, v.reverse)] | none => acc) r
      else match cur with
        | some (k, v) => go (some (k, t :: v)) acc r
        | none => go none acc r
  go none [] ts

def sect (ss : List (String × List String)) (k : String) : List String :=
  match ss.find? (fun p => p.1 == k) with
  | some p => p.2
  | none => []

def parsePhase : List String → ImplPhase
  | st :: nf :: r =>
    let ss := sections r
    { status := st, nframes := natOf nf, sub := (sect ss "S").map intOf, paused := (sect ss "P").map intOf,
      delivered := (sect ss "D").map intOf, frames := (sect ss "F").foldr insertStr [],
      msubs := (sect ss "M").map intOf, mindex := (sect ss "I").map intOf, subAll := sect ss "A" == ["1"] }
  | _ => {}

def showImpl (p : ImplPhase) : String :=
  s!"{p.status} n={p.nframes} A={if p.subAll then 1 else 0} S=[{showSet p.sub}] P=[{showSet p.paused}] " ++
  s!"D=[{showSet p.delivered}] F=[{joinSp p.frames}] M=[{showSet p.msubs}] I=[{showSet p.mindex}]"

def showModel (U : List Int) (p : Phase) (m : MState) : String :=
  let st := match p.status with | .ok => "ok" | .refused => "refused"
  s!"{st} n={p.frames.length} A={if p.st.subAll then 1 else 0} S=[{showSet p.st.subscribed}] " ++
  s!"P=[{showSet p.st.paused}] D=[{showSet (U.filter (delivered m))}] F=[{showFrames p.frames}] " ++
  s!"M=[{showSet m.subs}] I=[{showSet m.index}]"

def toObs (p : ImplPhase) : PhaseObs :=
  { status := if p.status == "ok" then some .ok else if p.status == "refused" then some .refused else none,
    nframes := p.nframes, view := ⟨p.sub, p.paused, p.delivered⟩ }

structure Case where
  id : String := ""
  allT : Int := 0
  U : List Int := []
  ops : List (Op × List ImplPhase) := []     -- reversed; phases reversed

def corrWalk (U : List Int) : Sys → List (Op × List ImplPhase) → Nat → Option String
  | _, [], _ => none
  | s, (op, ph) :: r, i =>
    let mp := sysStep s op
    let ms := mp.map (fun x => showModel U x.1 x.2)
    let is := ph.map showImpl
    if ms == is then corrWalk U (sysAfter s mp) r (i + 1)
    else some s!"op={i} model={ms} impl={is}"

def propWalk (U : List Int) : View → List (Op × List ImplPhase) → Nat → String
  | _, [], _ => "ok"
  | pre, (op, ph) :: r, i =>
    let obs := ph.map toObs
    if obs.isEmpty then s!"fail no_observation op={i}"
    else match opFail U pre op pre true obs with
      | some c => s!"fail {c} op={i}"
      | none => propWalk U (lastView pre obs) r (i + 1)

def finishCase (c : Case) : List String :=
  let ops := c.ops.reverse.map (fun p => (p.1, p.2.reverse))
  if c.allT != ALL then [s!"{c.id} CORR diff ALL_MESSAGE_TYPES model={ALL} impl={c.allT}", s!"{c.id} PROP C02 skip"]
  else
    let corr := match corrWalk c.U Sys.init ops 0 with
      | none => s!"{c.id} CORR ok"
      | some d => s!"{c.id} CORR diff {d}"
    [corr, s!"{c.id} PROP C02 {propWalk c.U (viewOf c.U CState.init MState.init) ops 0}"]

def step (c : Case) (line : String) : Case × List String :=
  match toks line with
  | ["CASE", id, a] => ({ id := id, allT := intOf a }, [])
  | "U" :: ts => ({ c with U := ts.map intOf }, [])
  | "OP" :: r =>
    (match parseOp r with
     | some op => ({ c with ops := (op, []) :: c.ops }, [])
     | none => (c, []))
  | "PH" :: r =>
    (match c.ops with
     | (op, ph) :: rest => ({ c with ops := (op, parsePhase r :: ph) :: rest }, [])
     | [] => (c, []))
  | ["END"] => ({}, finishCase c)
  | _ => (c, [])

def main : IO Unit := do
  let stdin ← IO.getStdin
  let stdout ← IO.getStdout
  let lines ← readLines stdin
  let mut c : Case := {}
  for l in lines do
    let (c', out) := step c l
    c := c'
    for o in out do stdout.putStrLn o

end Pyrtma.Drv.ClientSub
