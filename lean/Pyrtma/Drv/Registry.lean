import Pyrtma.Drv.Util
import Pyrtma.Spec.Registry
import Pyrtma.Model.ResRegex
import Pyrtma.Model.ImportPath
/-! Line-protocol driver for M7 (grammar: harness/parser_corr.py). -/
namespace Pyrtma.Drv.Registry
open Pyrtma.Registry Pyrtma.Drv

def hexVal (c : Char) : Nat :=
  if '0' ≤ c && c ≤ '9' then c.toNat - 48 else if 'a' ≤ c && c ≤ 'f' then c.toNat - 87 else 0

/-- hex of the code points, 6 hex digits per character -/
def unhex : List Char → List Char
  | a :: b :: c :: d :: e :: f :: r =>
    Char.ofNat (((((hexVal a * 16 + hexVal b) * 16 + hexVal c) * 16 + hexVal d) * 16 + hexVal e) * 16 + hexVal f) :: unhex r
  | _ => []

def optInt (s : String) : Option Int := if s == "?" then none else s.toInt?

def splitEq (s : String) : String × String :=
  match s.splitOn "=" with
  | [a, b] => (a, b)
  | a :: r => (a, String.intercalate "=" r)
  | [] => ("", "")

def parseEntry (s : String) : ResEntry :=
  match s.toList with
  | 'N' :: r => match (String.ofList r).toInt? with | some n => .num n | none => .other
  | 'S' :: r => .text (unhex r)
  | _ => .other

def parseMsg (tok : String) : Item :=
  let (n, v) := splitEq tok
  if n == "_R" then
    if v == "!" then .reserved none
    else if v == "" then .reserved (some [])
    else .reserved (some ((v.splitOn ",").map parseEntry))
  else .msg n (optInt v)

def parseImp (s : String) : Imp :=
  if s == "missing" then .missing else if s == "dir" then .dir else if s == "badsuffix" then .badSuffix
  else .file (natOf (s.drop 1).toString)

def pairOf (tok : String) : String × Option Int := let (n, v) := splitEq tok; (n, optInt v)
def pairObs (tok : String) : String × Int := let (n, v) := splitEq tok; (n, intOf v)

/-- `a:b` or `none` -/
def parsePair (s : String) : Option (Nat × Nat) :=
  match s.splitOn ":" with
  | [a, b] => some (natOf a, natOf b)
  | _ => none

def showOptPair (o : Option (Nat × Nat)) : String :=
  match o with | some (a, b) => s!"{a}:{b}" | none => "none"

/-- one `_RESERVED_` entry alone: `re.search` of the real pattern and the real `handle_reserve` against
`ResRegex.reRange` (the regular expression with backtracking), `rangeSearch` (the scan) and `handle (.reserved …)` -/
def rxCase (id : String) (maxMsg : Int) (tok reObs implObs : String) : List String :=
  let e := parseEntry tok
  let cfg : Cfg := { coreOn := false, maxMsg := maxMsg }
  let reLines := match e with
    | .text s =>
      let a := ResRegex.reRange s
      let b := rangeSearch s
      [if showOptPair a == reObs && showOptPair b == reObs then s!"{id} CORR ok"
       else s!"{id} CORR diff regex reRange={showOptPair a} rangeSearch={showOptPair b} re.search={reObs}"]
    | _ => []
  let m := match handle cfg false (.reserved (some [e])) {} with
    | .ok st => "ok:" ++ (if st.msgs.isEmpty then "-" else String.intercalate "," (st.msgs.map (fun p => s!"{p.1}={p.2}")))
    | .error x => "err:" ++ x.cls
  reLines ++ [if m == implObs then s!"{id} CORR ok" else s!"{id} CORR diff reserve model={m} impl={implObs}",
              s!"{id} PROP C12 skip", s!"{id} INFO model={m}"]

/-- the character classes of the pattern over every code point: `pts` = the code points the real `re` matches -/
def clsCase (id kind : String) (pts : List Nat) : List String :=
  let test : Char → Bool := if kind == "space" then isWs else isDigit
  let bad := (List.range 0x110000).filter (fun n =>
    if 0xd800 ≤ n && n ≤ 0xdfff then false else test (Char.ofNat n) != pts.contains n)
  [if bad.isEmpty then s!"{id} CORR ok" else s!"{id} CORR diff class {kind} differs at code points {bad.take 20}",
   s!"{id} PROP C12 skip"]

/-- an absolute, already normalised path text (6 hex digits per character) as components -/
def apathOf (hex : String) : ImportPath.APath :=
  (ImportPath.parsePath (unhex hex.toList)).parts

def textOf (hex : String) : List Char := if hex == "-" then [] else unhex hex.toList

structure Case where
  id : String := ""
  special : List String := []
  pmode : Bool := false                          -- path-level case: the model resolves the import texts itself
  paths : Array ImportPath.APath := #[]
  itexts : Array (List (List Char)) := #[]
  dirs : List ImportPath.APath := []
  links : List (ImportPath.APath × ImportPath.APath) := []
  others : List ImportPath.APath := []
  cwd : ImportPath.APath := []
  rootText : List Char := []
  corePath : ImportPath.APath := []
  cfg : Cfg := { coreOn := false, maxMsg := 10000 }
  root : Nat := 0
  core : Nat := 0
  files : Array File := #[]
  obsOk : Bool := false
  obsCls : String := ""
  obs : St := {}

def updLast (c : Case) (f : File → File) : Case :=
  if c.files.size == 0 then c else { c with files := c.files.modify (c.files.size - 1) f }

def showPairs (l : List (String × Int)) : String := joinSp (l.map (fun p => s!"{p.1}={p.2}"))

def showSt (s : St) : String :=
  s!"M[{joinSp s.mdata}] C[{joinSp s.consts}] S[{joinSp s.strs}] A[{joinSp s.aliases}] H[{showPairs s.hosts}] " ++
  s!"D[{showPairs s.modules}] T[{joinSp s.structs}] G[{showPairs s.msgs}]"

def flawTags (f : Flaws) : String :=
  joinSp ([("dupName", f.dupName), ("msgId", f.msgId), ("moduleId", f.moduleId), ("hostId", f.hostId),
    ("range", f.range), ("yamlDup", f.yamlDup), ("badName", f.badName), ("notInt", f.notInt),
    ("resSyntax", f.resSyntax), ("resNotList", f.resNotList), ("fileNotFound", f.fileNotFound),
    ("fileFormat", f.fileFormat), ("emptyFile", f.emptyFile), ("reservedAsName", f.reservedAsName)].filterMap
      (fun p => if p.2 then some p.1 else none))

def showImp : Imp → String
  | .file n => s!"f{n}" | .missing => "missing" | .dir => "dir" | .badSuffix => "badsuffix"

def pinputOf (c : Case) : ImportPath.PInput :=
  let n := c.files.size
  { cfg := c.cfg,
    files := (List.range n).map (fun k =>
      { path := c.paths.getD k [], file := c.files.getD k {}, importTexts := c.itexts.getD k [] }),
    dirs := c.dirs, links := c.links, others := c.others, cwd := c.cwd, rootText := c.rootText, corePath := c.corePath }

def finishCase (c : Case) : List String :=
  if !c.special.isEmpty then c.special else
  let pin := pinputOf c
  let inp : Input := if c.pmode then ImportPath.lower pin
                     else { cfg := c.cfg, files := c.files.toList, root := c.root, core := c.core }
  let m := parse inp
  let mtxt := match m with | .ok st => "ok " ++ showSt st | .error e => "err " ++ e.cls
  let itxt := if c.obsOk then "ok " ++ showSt c.obs else "err " ++ c.obsCls
  -- two OS errors share `Imp.missing` with FileNotFoundError (header of Model/ImportPath.lean): `osErrorClass` names them
  let osClasses : List String := if !c.pmode then [] else
    pin.files.flatMap (fun pf => pf.importTexts.filterMap (fun t =>
      match ImportPath.resolveImp pin.fs pf.path.dropLast t with
      | .missing => some ("err " ++ ImportPath.osErrorClass pin.fs pf.path.dropLast t)
      | _ => none))
  let same := mtxt == itxt || (mtxt == "err FileNotFoundError" && osClasses.contains itxt)
  let low := if c.pmode then
      " lowered=" ++ String.intercalate "|" (inp.files.map (fun f => String.intercalate "," (f.imports.map showImp))) ++ s!" root={inp.root}"
    else ""
  let corr := if same then s!"{c.id} CORR ok" else s!"{c.id} CORR diff model=[{mtxt}] impl=[{itxt}]{low}"
  let o : Obs := if c.obsOk then .ok c.obs else .err c.obsCls
  let evs := flatten inp
  let merr := match m with | .ok _ => "ok" | .error e => reprStr e
  [corr, s!"{c.id} PROP C12 {judge inp o}",
   s!"{c.id} INFO model={merr} files_entered={(enteredOf evs).length} events={evs.length} flaws=[{flawTags (flawsOf c.cfg evs)}]"]

def step (c : Case) (line : String) : Case × List String :=
  match toks line with
  | ["CASE", id, co, mx, root, core] =>
    ({ id := id, cfg := { coreOn := co == "1", maxMsg := intOf mx }, root := natOf root, core := natOf core }, [])
  | ["FILE", cn, em] => ({ c with files := c.files.push { coreName := cn == "1", empty := em == "1" } }, [])
  | ["PCASE", id, co, mx] => ({ id := id, cfg := { coreOn := co == "1", maxMsg := intOf mx }, pmode := true }, [])
  | ["PFILE", path, em] =>
    ({ c with files := c.files.push { empty := em == "1" }, paths := c.paths.push (apathOf path), itexts := c.itexts.push [] }, [])
  | "IT" :: r => ({ c with itexts := c.itexts.modify (c.itexts.size - 1) (fun _ => r.map textOf) }, [])
  | ["CWD", p] => ({ c with cwd := apathOf p }, [])
  | ["ROOT", t] => ({ c with rootText := textOf t }, [])
  | ["COREPATH", p] => ({ c with corePath := apathOf p }, [])
  | ["DIR", p] => ({ c with dirs := c.dirs ++ [apathOf p] }, [])
  | ["LINK", l, t] => ({ c with links := c.links ++ [(apathOf l, apathOf t)] }, [])
  | ["OTHER", p] => ({ c with others := c.others ++ [apathOf p] }, [])
  | "M" :: r => (updLast c (fun f => { f with mdata := r }), [])
  | "I" :: r => (updLast c (fun f => { f with imports := r.map parseImp }), [])
  | "C" :: r => (updLast c (fun f => { f with consts := r }), [])
  | "S" :: r => (updLast c (fun f => { f with strs := r }), [])
  | "A" :: r => (updLast c (fun f => { f with aliases := r }), [])
  | "H" :: r => (updLast c (fun f => { f with hosts := r.map pairOf }), [])
  | "D" :: r => (updLast c (fun f => { f with modules := r.map pairOf }), [])
  | "T" :: r => (updLast c (fun f => { f with structs := r }), [])
  | "G" :: r => (updLast c (fun f => { f with msgs := r.map parseMsg }), [])
  | ["RX", mx, tok, reObs, implObs] => ({ c with special := rxCase c.id (intOf mx) tok reObs implObs }, [])
  | "CLS" :: kind :: pts => ({ c with special := clsCase c.id kind (pts.map natOf) }, [])
  | ["CASE", id] => ({ id := id }, [])
  | ["OBS", "ok"] => ({ c with obsOk := true }, [])
  | ["OBS", "err", cls] => ({ c with obsOk := false, obsCls := cls }, [])
  | "TM" :: r => ({ c with obs := { c.obs with mdata := r } }, [])
  | "TC" :: r => ({ c with obs := { c.obs with consts := r } }, [])
  | "TS" :: r => ({ c with obs := { c.obs with strs := r } }, [])
  | "TA" :: r => ({ c with obs := { c.obs with aliases := r } }, [])
  | "TH" :: r => ({ c with obs := { c.obs with hosts := r.map pairObs } }, [])
  | "TD" :: r => ({ c with obs := { c.obs with modules := r.map pairObs } }, [])
  | "TT" :: r => ({ c with obs := { c.obs with structs := r } }, [])
  | "TG" :: r => ({ c with obs := { c.obs with msgs := r.map pairObs } }, [])
  | ["END"] => ({}, finishCase c)
  | _ => (c, [])

def main : IO Unit := do
  let stdin ← IO.getStdin
  let stdout ← IO.getStdout
  let lines ← readLines stdin
  let mut c : Case := {}
  for l in lines do
    let (c', out) := step c l
    c := c'
    for o in out do stdout.putStrLn o

end Pyrtma.Drv.Registry
