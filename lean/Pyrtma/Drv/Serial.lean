import Pyrtma.Drv.Validators
import Pyrtma.Spec.Serial
/-! Line-protocol driver for M5 (grammar: harness/serial_corr.py). -/
namespace Pyrtma.Drv.Serial
open Pyrtma.Validators Pyrtma.Serial Pyrtma.Drv Pyrtma.Drv.Validators

structure Leaf where
  off : Nat
  ty : FTy
  val : PyVal

structure Case where
  id : String := ""
  leaves : List Leaf := []
  b0 : Bytes := []
  b0hex : String := ""
  bd : Option Bytes := none
  trips : List Trip := []
  copyShares : Bool := false
  vers : List VerObs := []

def splitBar (ts : List String) : List (List String) :=
  ts.foldr (fun t acc => if t == "|" then [] :: acc else match acc with | [] => [[t]] | a :: r => (t :: a) :: r) [[]]

def sliceB (b : Bytes) (off sz : Nat) : Bytes := (b.drop off).take sz

def leafCorr (c : Case) (l : Leaf) : List String :=
  let sz := l.ty.size
  let mine := toDictLeaf l.ty (sliceB c.b0 l.off sz)
  let d1 := if mine == l.val then [] else
    [s!"{c.id} CORR diff toDict@{l.off} model=[{repr mine}] impl=[{repr l.val}]"]
  let d2 := match c.bd with
    | none => []
    | some bd =>
      let (mb, me) := fromDictLeaf l.ty l.val
      if me.isNone && mb == sliceB bd l.off sz then [] else
        [s!"{c.id} CORR diff fromDict@{l.off} model=[{showHex mb} {repr me}] impl=[{showHex (sliceB bd l.off sz)}]"]
  d1 ++ d2

def finish (c : Case) : List String :=
  let diffs := c.leaves.reverse.flatMap (leafCorr c)
  let corr := if diffs.isEmpty then [s!"{c.id} CORR ok"] else diffs.take 3
  let o : Pyrtma.Serial.Obs := { orig := c.b0, trips := c.trips, copyShares := c.copyShares, vers := c.vers }
  let prop := match firstFalse (Pyrtma.Serial.clauses o) with
    | some cl => "fail " ++ cl
    | none => "ok"
  corr ++ [s!"{c.id} PROP C10 {prop}"]

def step (st : Case × List String) (line : String) : Case × List String :=
  let (c, out) := st
  match toks line with
  | ["SER", id] => ({ id := id }, out)
  | "LEAF" :: off :: r =>
    (match splitBar r with
     | [ft, v] => ({ c with leaves := { off := natOf off, ty := ftyOf ft, val := valOf v } :: c.leaves }, out)
     | _ => (c, out))
  | ["B0", h] => ({ c with b0 := hexBytes h, b0hex := h }, out)
  -- (transport only: a blob whose text equals B0's text is B0's byte list; no need to parse it again)
  | ["BD", h] => ({ c with bd := if h.startsWith "err" then none else some (if h == c.b0hex then c.b0 else hexBytes h) }, out)
  | ["RT", name, h] =>
    ({ c with trips := c.trips ++ [{ name := name, bytes := if h.startsWith "err" then none
                                       else some (if h == c.b0hex then c.b0 else hexBytes h) }] }, out)
  | ["COPY", b] => ({ c with copyShares := b == "1" }, out)
  | ["VER", v, h, r] => ({ c with vers := c.vers ++ [{ version := natOf v, localHash := natOf h, refused := r == "1" }] }, out)
  | ["END"] => ({}, out ++ finish c)
  | _ => (c, out)

def main : IO Unit := do
  let stdin ← IO.getStdin
  let stdout ← IO.getStdout
  let lines ← readLines stdin
  let mut c : Case := {}
  for l in lines do
    let (c', out) := step (c, []) l
    c := c'
    for o in out do stdout.putStrLn o

end Pyrtma.Drv.Serial
