import Pyrtma.Drv.Validators
import Pyrtma.Spec.Serial
import Pyrtma.Model.Json
import Pyrtma.Model.Heap
/-! Line-protocol driver for M5 (grammar: harness/serial_corr.py). -/
namespace Pyrtma.Drv.Serial
open Pyrtma.Validators Pyrtma.Serial Pyrtma.Json Pyrtma.Drv Pyrtma.Drv.Validators

structure Leaf where
  off : Nat
  ty : FTy
  val : PyVal

/-! ### class descriptors and whole dictionaries (prefix token grammars, see harness/serial_corr.py) -/

/-- `L k t1..tk` leaf | `A n <desc>` struct array | `( size {F name off <desc>}* )` struct.  Absolute-in-struct
offsets become paddings; an offset that lies before the end of the previous field is refused (`none`). -/
def parseDesc : Nat → List String → Option (Desc × List String)
  | 0, _ => none
  | fuel + 1, ts =>
    match ts with
    | "L" :: k :: r => some (.leaf (ftyOf (r.take (natOf k))), r.drop (natOf k))
    | "A" :: n :: r => (parseDesc fuel r).map fun (e, r') => (.sarr (natOf n) e, r')
    | "(" :: size :: r => parseFields fuel (natOf size) 0 r
    | _ => none
where
  parseFields : Nat → Nat → Nat → List String → Option (Desc × List String)
    | 0, _, _, _ => none
    | fuel + 1, size, cur, ts =>
      match ts with
      | ")" :: r => if cur ≤ size then some (.strct .nil (size - cur), r) else none
      | "F" :: name :: off :: r =>
        if natOf off < cur then none else
          match parseDesc fuel r with
          | none => none
          | some (d, r') =>
            match parseFields fuel size (natOf off + d.size) r' with
            | some (.strct fs tail, r'') => some (.strct (.cons name (natOf off - cur) d fs) tail, r'')
            | _ => none
      | _ => none

/-- `V k t1..tk` leaf value | `[ <val>* ]` list of dicts | `{ {K name <val>}* }` dict -/
def parseVal : Nat → List String → Option (Val × List String)
  | 0, _ => none
  | fuel + 1, ts =>
    match ts with
    | "V" :: k :: r => some (.leaf (valOf (r.take (natOf k))), r.drop (natOf k))
    | "[" :: r => (parseList fuel r).map fun (xs, r') => (.list xs, r')
    | "{" :: r => (parseKVs fuel r).map fun (kvs, r') => (.dict kvs, r')
    | _ => none
where
  parseList : Nat → List String → Option (Vals × List String)
    | 0, _ => none
    | fuel + 1, ts =>
      match ts with
      | "]" :: r => some (.nil, r)
      | _ =>
        match parseVal fuel ts with
        | none => none
        | some (v, r) => (parseList fuel r).map fun (vs, r') => (.cons v vs, r')
  parseKVs : Nat → List String → Option (KVs × List String)
    | 0, _ => none
    | fuel + 1, ts =>
      match ts with
      | "}" :: r => some (.nil, r)
      | "K" :: name :: r =>
        match parseVal fuel r with
        | none => none
        | some (v, r') => (parseKVs fuel r').map fun (kvs, r'') => (.cons name v kvs, r'')
      | _ => none

def showScalar : Scalar → String
  | .int n => s!"{n}" | .bool b => s!"{b}" | .flt b => "f" ++ showHex (toLE 8 b)
  | .str cs => "s" ++ toString cs | .bytes bs => "y" ++ showHex bs | .other => "?"
  | .cdata _ raw => "c" ++ showHex raw | .strct t raw => s!"t{t}:" ++ showHex raw

def showPyVal : PyVal → String
  | .sc s => showScalar s
  | .seq _ xs => "[" ++ String.intercalate "," (xs.map showScalar) ++ "]"
  | .arr _ _ n _ => s!"<array {n}>"

/- one-line rendering for diff messages -/
mutual
def showVal : Val → String
  | .leaf v => showPyVal v
  | .dict kvs => "{" ++ showKVs kvs ++ "}"
  | .list xs => "[" ++ showVals xs ++ "]"
def showKVs : KVs → String
  | .nil => ""
  | .cons k v r => k ++ ":" ++ showVal v ++ "," ++ showKVs r
def showVals : Vals → String
  | .nil => ""
  | .cons v r => showVal v ++ "," ++ showVals r
end

def showDErr : DErr → String
  | .field e => showErr e | .key => "KeyError" | .index => "IndexError" | .shape => "shape"

/-- one `from_dict` probe on a (possibly altered) dictionary: what the real code returned -/
structure FdProbe where
  name : String
  impl : Option Bytes
  val : Option Val

/-- hex of ASCII text -> characters -/
def hexText (h : String) : List Char := (hexBytes h).map Char.ofNat

/-! ### storage scripts (grammar: harness/serial_corr.py, `HOP` / `HRD`) -/
inductive HOp
  | new (cls : Nat) (b : Bytes)
  | copyAs (cls size src : Nat) (fails : Bool)
  | view (src off size cls : Nat)
  | write (dst off : Nat) (data : Bytes)
  | msgCopy (hdr data : Nat)

structure HSt where
  st : Pyrtma.Heap.St := {}
  objs : Array Pyrtma.Heap.Obj := #[]
  bad : List String := []

def HSt.step (h : HSt) (k : Nat) (op : HOp) : HSt :=
  let obj := fun (i : Nat) => h.objs.getD i { cls := 0, ref := ⟨0, 0, 0⟩ }
  match op with
  | .new cls b => let p := h.st.alloc b; { h with st := p.1, objs := h.objs.push { cls := cls, ref := p.2 } }
  | .copyAs cls size src fails =>
    match h.st.copyAs cls size (obj src).ref, fails with
    | some (s', c), false => { h with st := s', objs := h.objs.push c }
    | none, true => h
    | some _, true => { h with bad := s!"op {k}: the model copies, the implementation raised" :: h.bad }
    | none, false => { h with bad := s!"op {k}: the model refuses the copy, the implementation made one" :: h.bad }
  | .view src off size cls =>
    match Pyrtma.Heap.view (obj src).ref off size with
    | some r => { h with objs := h.objs.push { cls := cls, ref := r } }
    | none => { h with bad := s!"op {k}: view outside the object" :: h.bad }
  | .write dst off data => { h with st := h.st.write (obj dst).ref off data }
  | .msgCopy hd dt =>
    match h.st.msgCopy (obj hd) (obj dt) with
    | some (s', h', d') => { h with st := s', objs := (h.objs.push h').push d' }
    | none => { h with bad := s!"op {k}: the model refuses Message.copy" :: h.bad }

structure Case where
  id : String := ""
  hops : List HOp := []
  /-- object id, class tag, bytes: what the implementation reads at the end of the script -/
  hreads : List (Nat × Nat × Bytes) := []
  /-- float bit pattern -> the token Python's `json` writes for it -/
  ftoks : List (Nat × List Char) := []
  jmin : Option (List Char) := none
  jpretty : Option (List Char) := none
  hdesc : Option (Option Desc) := none
  hbytes : Bytes := []
  hjmin : Option (List Char) := none
  hjpretty : Option (List Char) := none
  desc : Option (Option Desc) := none
  dict : Option (Option Val) := none
  probes : List FdProbe := []
  leaves : List Leaf := []
  b0 : Bytes := []
  b0hex : String := ""
  bd : Option Bytes := none
  trips : List Trip := []
  copyShares : Bool := false
  vers : List VerObs := []
  /-- version, local hash, which text, observed outcome class, "the data segment decodes by itself" -/
  verOut : List (Nat × Nat × String × String × Bool) := []

def splitBar (ts : List String) : List (List String) :=
  ts.foldr (fun t acc => if t == "|" then [] :: acc else match acc with | [] => [[t]] | a :: r => (t :: a) :: r) [[]]

def sliceB (b : Bytes) (off sz : Nat) : Bytes := (b.drop off).take sz

def leafCorr (c : Case) (l : Leaf) : List String :=
  let sz := l.ty.size
  let mine := toDictLeaf l.ty (sliceB c.b0 l.off sz)
  let d1 := if mine == l.val then [] else
    [s!"{c.id} CORR diff toDict@{l.off} model=[{showPyVal mine}] impl=[{showPyVal l.val}]"]
  let d2 := match c.bd with
    | none => []
    | some bd =>
      let (mb, me) := fromDictLeaf l.ty l.val
      if me.isNone && mb == sliceB bd l.off sz then [] else
        [s!"{c.id} CORR diff fromDict@{l.off} model=[{showHex mb} {repr me}] impl=[{showHex (sliceB bd l.off sz)}]"]
  d1 ++ d2

/-- whole-class correspondence: `to_dict()` of the real code = `toDict` of the model on the same bytes; `from_dict` of
the real code on its own dictionary (and on the altered ones) = `fromDict`; the bytes the real code built satisfy
`wfB` (the hypothesis of `dict_roundtrip`) -/
def wholeCorr (c : Case) : List String :=
  match c.desc with
  | none => []
  | some none => [s!"{c.id} CORR diff desc: the class layout is not a sequence of increasing offsets"]
  | some (some d) =>
    let d0 := if d.size == c.b0.length then [] else
      [s!"{c.id} CORR diff desc: model size {d.size} impl sizeof {c.b0.length}"]
    let d1 := match c.dict with
      | none => []
      | some none => [s!"{c.id} CORR diff toDictWhole: unparsable dictionary"]
      | some (some v) =>
        if toDict d c.b0 == v then [] else
          [s!"{c.id} CORR diff toDictWhole model=[{showVal (toDict d c.b0)}] impl=[{showVal v}]"]
    let d2 := (if wfB d c.b0 then [] else
      [s!"{c.id} CORR diff wf: the bytes built through the field API are outside WFD (hypothesis of dict_roundtrip)"]) ++
      (if descOkJ d then [] else
      [s!"{c.id} CORR diff wf: the class has a struct array of length 0 or of non-structs (hypothesis of message_json_roundtrip)"])
    let d3 := c.probes.reverse.flatMap fun p =>
      match p.val with
      | none => [s!"{c.id} CORR diff fromDictWhole/{p.name}: unparsable dictionary"]
      | some v =>
        let (mb, me) := fromDict d v
        match p.impl, me with
        | none, some _ => []
        | some ib, none => if mb == ib then [] else
            [s!"{c.id} CORR diff fromDictWhole/{p.name} model=[{showHex mb}] impl=[{showHex ib}]"]
        | none, none => [s!"{c.id} CORR diff fromDictWhole/{p.name} model=[{showHex mb}] impl=[err]"]
        | some ib, some e => [s!"{c.id} CORR diff fromDictWhole/{p.name} model=[err {showDErr e}] impl=[{showHex ib}]"]
    d0 ++ d1 ++ d2 ++ d3

def firstDiff : List Char → List Char → Nat → Nat
  | a :: as, b :: bs, i => if a == b then firstDiff as bs (i + 1) else i
  | _, _, i => i

/-- a one-line window around position `i` -/
def window (s : List Char) (i : Nat) : String :=
  String.ofList (((s.drop (i - 40)).take 120).map fun c => if c == '\n' then '|' else c)

/-- one text against the model: the encoder's document is in the subset, `render` gives the text byte for byte, `parse`
reads the real text back as that document -/
def textCorr (id what : String) (ind : Option Nat) (doc : Option J) (text : Option (List Char)) : List String :=
  match text with
  | none => []
  | some t =>
    match doc with
    | none => [s!"{id} CORR diff {what}: the dictionary has a value outside the modelled JSON subset"]
    | some j =>
      (if j.okB then [] else [s!"{id} CORR diff {what}: document outside the domain of parse_render (okB false)"]) ++
      (if render ind 0 j == t then [] else
        (let r := render ind 0 j
         let i := firstDiff r t 0
         [s!"{id} CORR diff {what}/render at char {i} of {t.length} model=[{window r i}] impl=[{window t i}]"])) ++
      (if parse t == some j then [] else [s!"{id} CORR diff {what}/parse: the model parser does not read the real text back as the document"])

/-- JSON text correspondence: `to_json(minify=True)`, `to_json()`, and `Message.to_json` (header plus data), both forms -/
def jsonCorr (c : Case) : List String :=
  match c.desc with
  | some (some d) =>
    let ftok : Nat → List Char := fun b => ((c.ftoks.find? (·.1 == b)).map (·.2)).getD []
    let jd := toJ ftok (toDict d c.b0)
    let msg : Option J := match c.hdesc with
      | some (some hd) =>
        match toJ ftok (toDict hd c.hbytes), jd with
        | some jh, some j => some (.obj (.cons (keyOf "header") jh (.cons (keyOf "data") j .nil)))
        | _, _ => none
      | _ => none
    -- Python's `float(token)`: the bit pattern that was formatted to this token (`NaN` reads as the quiet NaN)
    let fparse : List Char → Nat := fun t =>
      if t == ['N', 'a', 'N'] then 0x7ff8000000000000 else ((c.ftoks.find? (·.2 == t)).map (·.1)).getD 0
    let back := fun (what trip : String) (text : Option (List Char)) =>
      match text, c.trips.find? (·.name == trip) with
      | some t, some tr =>
        (match fromJson fparse d t, tr.bytes with
         | some (mb, none), some ib => if mb == ib then [] else
             [s!"{c.id} CORR diff {what} model=[{showHex mb}] impl=[{showHex ib}]"]
         | some (_, some _), none => []
         | none, none => []
         | some (mb, none), none => [s!"{c.id} CORR diff {what} model=[{showHex mb}] impl=[err]"]
         | some (_, some e), some ib => [s!"{c.id} CORR diff {what} model=[err {showDErr e}] impl=[{showHex ib}]"]
         | none, some ib => [s!"{c.id} CORR diff {what} model=[unparsable text] impl=[{showHex ib}]"])
      | _, _ => []
    -- (big classes: the indented text is still compared and parsed, but decoded to bytes only from the minified text:
    -- the model stores array elements one by one, like ctypes, which is quadratic in the field size)
    back "fromJson/min" "json_minified" c.jmin ++
    (if c.b0.length ≤ 2048 then back "fromJson/pretty" "json" c.jpretty else []) ++
    textCorr c.id "jsonMin" none jd c.jmin ++ textCorr c.id "jsonPretty" (some 2) jd c.jpretty ++
      textCorr c.id "msgJsonMin" none msg c.hjmin ++ textCorr c.id "msgJsonPretty" (some 2) msg c.hjpretty
  | _ => []

/-- the storage script replayed in the heap model: every object the implementation holds at the end has the class and
the bytes the model predicts (copies are fresh buffers, views share) -/
def heapCorr (c : Case) : List String :=
  if c.hops.isEmpty then [] else
    let ops := c.hops.reverse
    let h := (ops.zip (List.range ops.length)).foldl (fun (h : HSt) (p : HOp × Nat) => h.step p.2 p.1) {}
    let bad := h.bad.reverse.map fun b => s!"{c.id} CORR diff heap {b}"
    let rd := c.hreads.reverse.flatMap fun (i, cls, ib) =>
      match h.objs[i]? with
      | none => [s!"{c.id} CORR diff heap object {i}: not in the model"]
      | some o =>
        let mb := h.st.read o.ref
        if o.cls != cls then [s!"{c.id} CORR diff heap object {i}: class model={o.cls} impl={cls}"]
        else if mb == ib then [] else [s!"{c.id} CORR diff heap object {i} model=[{showHex mb}] impl=[{showHex ib}]"]
    bad ++ rd

/-- `Message.from_json` against `msgFromJson`: refused / decoded / failed, per probe -/
def verCorr (c : Case) : List String :=
  c.verOut.flatMap fun (v, h, what, oc, dok) =>
    let m := match msgFromJson v h dok with | .refused => "R" | .decoded => "A" | .failed => "F"
    if m == oc then [] else
      [s!"{c.id} CORR diff msgFromJson version={v} hash={h} text={what} dataOk={dok} model=[{m}] impl=[{oc}]"]

def finish (c : Case) : List String :=
  let diffs := wholeCorr c ++ jsonCorr c ++ heapCorr c ++ verCorr c ++ c.leaves.reverse.flatMap (leafCorr c)
  let corr := if diffs.isEmpty then [s!"{c.id} CORR ok"] else diffs.take 3
  let o : Pyrtma.Serial.Obs := { orig := c.b0, trips := c.trips, copyShares := c.copyShares, vers := c.vers }
  let prop := match firstFalse (Pyrtma.Serial.clauses o) with
    | some cl => "fail " ++ cl
    | none => "ok"
  corr ++ [s!"{c.id} PROP C10 {prop}"]

def step (st : Case × List String) (line : String) : Case × List String :=
  let (c, out) := st
  match toks line with
  | ["SER", id] => ({ id := id }, out)
  | "LEAF" :: off :: r =>
    (match splitBar r with
     | [ft, v] => ({ c with leaves := { off := natOf off, ty := ftyOf ft, val := valOf v } :: c.leaves }, out)
     | _ => (c, out))
  | ["HOP", "N", cls, h] => ({ c with hops := .new (natOf cls) (hexBytes h) :: c.hops }, out)
  | ["HOP", "C", cls, size, src] => ({ c with hops := .copyAs (natOf cls) (natOf size) (natOf src) false :: c.hops }, out)
  | ["HOP", "CE", cls, size, src] => ({ c with hops := .copyAs (natOf cls) (natOf size) (natOf src) true :: c.hops }, out)
  | ["HOP", "V", src, off, size, cls] =>
    ({ c with hops := .view (natOf src) (natOf off) (natOf size) (natOf cls) :: c.hops }, out)
  | ["HOP", "W", dst, off, h] => ({ c with hops := .write (natOf dst) (natOf off) (hexBytes h) :: c.hops }, out)
  | ["HOP", "M", hd, dt] => ({ c with hops := .msgCopy (natOf hd) (natOf dt) :: c.hops }, out)
  | ["HRD", i, cls, h] => ({ c with hreads := (natOf i, natOf cls, hexBytes h) :: c.hreads }, out)
  | ["FTOK", h, t] => ({ c with ftoks := (hexNat h, t.toList) :: c.ftoks }, out)
  | ["JMIN", h] => ({ c with jmin := some (hexText h) }, out)
  | ["JPRETTY", h] => ({ c with jpretty := some (hexText h) }, out)
  | "HDESC" :: r =>
    ({ c with hdesc := some (match parseDesc (r.length + 1) r with | some (d, []) => some d | _ => none) }, out)
  | ["HB", h] => ({ c with hbytes := hexBytes h }, out)
  | ["HJMIN", h] => ({ c with hjmin := some (hexText h) }, out)
  | ["HJPRETTY", h] => ({ c with hjpretty := some (hexText h) }, out)
  | "DESC" :: r =>
    ({ c with desc := some (match parseDesc (r.length + 1) r with | some (d, []) => some d | _ => none) }, out)
  | "DICT" :: r =>
    ({ c with dict := some (match parseVal (r.length + 1) r with | some (v, []) => some v | _ => none) }, out)
  | "FD" :: name :: h :: r =>
    ({ c with probes := { name := name,
                          impl := if h.startsWith "err" then none else some (if h == c.b0hex then c.b0 else hexBytes h),
                          val := match parseVal (r.length + 1) r with | some (v, []) => some v | _ => none } :: c.probes }, out)
  | ["B0", h] => ({ c with b0 := hexBytes h, b0hex := h }, out)
  -- (transport only: a blob whose text equals B0's text is B0's byte list; no need to parse it again)
  | ["BD", h] => ({ c with bd := if h.startsWith "err" then none else some (if h == c.b0hex then c.b0 else hexBytes h) }, out)
  | ["RT", name, h] =>
    ({ c with trips := c.trips ++ [{ name := name, bytes := if h.startsWith "err" then none
                                       else some (if h == c.b0hex then c.b0 else hexBytes h) }] }, out)
  | ["COPY", b] => ({ c with copyShares := b == "1" }, out)
  | ["VER", v, h, r] => ({ c with vers := c.vers ++ [{ version := natOf v, localHash := natOf h, refused := r == "1" }] }, out)
  -- extended form: which text, whether its "data" member was altered, the outcome class (R refused / A decoded /
  -- F another exception) and whether the data segment by itself decodes (the model's `msgFromJson` is compared)
  | ["VER", v, h, r, what, alt, oc, dok] =>
    ({ c with vers := c.vers ++ [{ version := natOf v, localHash := natOf h, refused := r == "1", what := what,
                                   altered := alt == "1" }],
              verOut := c.verOut ++ [(natOf v, natOf h, what, oc, dok == "1")] }, out)
  | ["END"] => ({}, out ++ finish c)
  | _ => (c, out)

def main : IO Unit := do
  let stdin ← IO.getStdin
  let stdout ← IO.getStdout
  let lines ← readLines stdin
  let mut c : Case := {}
  for l in lines do
    let (c', out) := step (c, []) l
    c := c'
    for o in out do stdout.putStrLn o

end Pyrtma.Drv.Serial
