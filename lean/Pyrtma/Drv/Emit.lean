import Pyrtma.Drv.Util
import Pyrtma.Spec.Emit
/-! Line-protocol driver for M9 (grammar: see harness/emit_corr.py). -/
namespace Pyrtma.Drv.Emit
open Pyrtma.Emit Pyrtma.Drv

/-! ### canonical text of statements -/

def clsStr : Cls → String
  | .char => "c" | .sint => "s" | .uint => "u" | .flt => "f"
def clsOf (s : String) : Cls :=
  if s == "c" then .char else if s == "s" then .sint else if s == "u" then .uint else .flt
def spStr : Space → String
  | .alias => "a" | .sdf => "s" | .mdf => "m"
def spOf (s : String) : Space := if s == "a" then .alias else if s == "s" then .sdf else .mdf
def optStr {α} (f : α → String) : Option α → String
  | some a => f a | none => "-"
def optNat (s : String) : Option Nat := if s == "-" then none else some (natOf s)
def optInt (s : String) : Option Int := if s == "-" then none else some (intOf s)

def tyStr : TyS → String
  | .nat d => s!"n.{d.width}.{clsStr d.cls}"
  | .jsNat n => s!"j.{n}"
  | .jsStr => "js"
  | .ref sp n => s!"r.{spStr sp}.{n}"
  | .bad => "bad"

def tyOf (s : String) : TyS :=
  match s.splitOn "." with
  | ["n", w, c] => .nat ⟨natOf w, clsOf c⟩
  | ["j", n] => .jsNat (natOf n)
  | ["js"] => .jsStr
  | ["r", sp, n] => .ref (spOf sp) (natOf n)
  | _ => .bad

def fieldStr (f : FieldS) : String :=
  s!"{f.name}:{tyStr f.ty}:{optStr toString f.len}:{if f.fresh then 1 else 0}"

def fieldOf (s : String) : FieldS :=
  match s.splitOn ":" with
  | [n, t, l, fr] => { name := natOf n, ty := tyOf t, len := optNat l, fresh := fr == "1" }
  | _ => { name := 0, ty := .bad, len := none }

def valStr : Val → String
  | .int v => s!"i {v}"
  | .flt b => s!"f {b}"

def stmtStr : Stmt → String
  | .const n v => s!"const {n} {valStr v}"
  | .strConst n s => s!"str {n} {s}"
  | .aliasN n d => s!"aliasN {n} {d.width} {clsStr d.cls}"
  | .aliasJ n t c => s!"aliasJ {n} {t} {if c then 1 else 0}"
  | .aliasR n sp t => s!"aliasR {n} {spStr sp} {t}"
  | .host n v => s!"host {n} {v}"
  | .mod n v => s!"mod {n} {v}"
  | .mt n v => s!"mt {n} {v}"
  | .defn sp n id h sz fs =>
    joinSp (["def", spStr sp, toString n, optStr toString id, optStr toString h, optStr toString sz] ++ fs.map fieldStr)
  | .hash n h => s!"hash {n} {h}"
  | .init sp => s!"init {spStr sp}"
  | .use sp n => s!"use {spStr sp} {n}"
  | .bad => "bad"

def stmtOf (t : List String) : Stmt :=
  match t with
  | ["const", n, "i", v] => .const (natOf n) (.int (intOf v))
  | ["const", n, "f", v] => .const (natOf n) (.flt (natOf v))
  | ["str", n, s] => .strConst (natOf n) (natOf s)
  | ["aliasN", n, w, c] => .aliasN (natOf n) ⟨natOf w, clsOf c⟩
  | ["aliasJ", n, t, c] => .aliasJ (natOf n) (natOf t) (c == "1")
  | ["aliasR", n, sp, t] => .aliasR (natOf n) (spOf sp) (natOf t)
  | ["host", n, v] => .host (natOf n) (intOf v)
  | ["mod", n, v] => .mod (natOf n) (intOf v)
  | ["mt", n, v] => .mt (natOf n) (intOf v)
  | "def" :: sp :: n :: id :: h :: sz :: fs => .defn (spOf sp) (natOf n) (optInt id) (optNat h) (optNat sz) (fs.map fieldOf)
  | ["hash", n, h] => .hash (natOf n) (natOf h)
  | ["init", sp] => .init (spOf sp)
  | ["use", sp, n] => .use (spOf sp) (natOf n)
  | _ => .bad

/-! ### tables and items -/

def denOf (s : String) : Name × Den :=
  match s.splitOn ":" with
  | [k, w, c] => (natOf k, ⟨natOf w, clsOf c⟩)
  | _ => (0, default)

def tableLine (T : Tables) (t : List String) : Tables :=
  match t with
  | "natives" :: r => { T with natives := r.map (fun s => match s.splitOn ":" with
      | [k, n, sz] => (natOf k, natOf n, natOf sz) | _ => (0, 0, 0)) }
  | "parserCt" :: r => { T with parserCt := r.map natOf }
  | "pyCt" :: r => { T with pyCt := r.map denOf }
  | "pyDesc" :: r => { T with pyDesc := r.map denOf }
  | "c" :: r => { T with c := r.map denOf }
  | "js" :: r => { T with js := r.map (fun s => match s.splitOn ":" with | [k, b] => (natOf k, b == "1") | _ => (0, false)) }
  | "m" :: r => { T with m := r.map denOf }
  | ["names", ch, hd] => { T with charName := natOf ch, hdrName := natOf hd }
  | ["maxid", n] => { T with maxMsgId := natOf n }
  | _ => T

def specOf (t : List String) : FieldsSpec :=
  match t with
  | ["R", n] => .reuse (natOf n)
  | "L" :: fs => .list (fs.map (fun s => match s.splitOn ":" with
      | [n, ty, l] => (natOf n, natOf ty, optInt l) | _ => (0, 0, none)))
  | _ => .list []

def itemOf (t : List String) : Option (Bool × Item) :=
  match t with
  | c :: "const" :: n :: "i" :: [v] => some (c == "1", .const (natOf n) (.int (intOf v)))
  | c :: "const" :: n :: "f" :: [v] => some (c == "1", .const (natOf n) (.flt (natOf v)))
  | c :: "str" :: n :: [s] => some (c == "1", .strConst (natOf n) (natOf s))
  | c :: "alias" :: n :: [t] => some (c == "1", .alias (natOf n) (natOf t))
  | c :: "host" :: n :: [v] => some (c == "1", .hostId (natOf n) (intOf v))
  | c :: "mod" :: n :: [v] => some (c == "1", .moduleId (natOf n) (intOf v))
  | c :: "struct" :: n :: h :: sp => some (c == "1", .struct (natOf n) (natOf h) (specOf sp))
  | c :: "message" :: n :: id :: h :: sp => some (c == "1", .message (natOf n) (intOf id) (natOf h) (specOf sp))
  | c :: "signal" :: n :: id :: [h] => some (c == "1", .signal (natOf n) (intOf id) (natOf h))
  | c :: "reserved" :: n :: id :: [h] => some (c == "1", .reserved (natOf n) (intOf id) (natOf h))
  | _ => none

def errStr : Err → String
  | .alignment => "alignment" | .tooLarge => "tooLarge" | .syntax => "syntax" | .internal => "internal"

/-- registry definition lines, as the harness prints them from the real parser objects -/
def regLine (sp : String) (d : DefR) : String :=
  joinSp ([sp, toString d.name, toString d.size, toString d.align] ++
    d.fields.map (fun f => s!"{f.name}:{f.ty}:{optStr toString f.len}"))

def regLines (R : Reg) : List String :=
  R.consts.map (fun c => s!"k {c.1} {valStr c.2.1}") ++ R.strs.map (fun c => s!"q {c.1} {c.2.1}") ++
  R.hosts.map (fun c => s!"h {c.1} {c.2.1}") ++ R.mods.map (fun c => s!"i {c.1} {c.2.1}") ++
  R.msgs.map (fun d => s!"t {d.name} {optStr toString d.id} {d.hash}") ++
  R.aliases.map (fun a => s!"a {a.name} {a.target} {if a.isStruct then 1 else 0} {a.esize} {a.align}") ++
  R.structs.map (regLine "s") ++ R.msgs.map (regLine "m")

/-! ### the combined YAML as canonical lines (no hashes, no core flags: the file has neither) -/

def specStr : FieldsSpec → String
  | .reuse m => s!"R {m}"
  | .list fs => joinSp ("L" :: fs.map (fun f => s!"{f.1}:{f.2.1}:{optStr toString f.2.2}"))

def yItemStr : Item → String
  | .const n v => s!"const {n} {valStr v}"
  | .strConst n s => s!"str {n} {s}"
  | .alias n t => s!"alias {n} {t}"
  | .hostId n v => s!"host {n} {v}"
  | .moduleId n v => s!"mod {n} {v}"
  | .struct n _ f => s!"struct {n} {specStr f}"
  | .message n id _ f => s!"message {n} {id} {specStr f}"
  | .signal n id _ => s!"signal {n} {id}"
  | .reserved n id _ => s!"reserved {n} {id}"

/-- what `YAMLCompiler.generate` writes, section by section in the writer's key order -/
def yamlLines (fs : List FileItems) : List String :=
  -- the writer forces `IMPORT_COREDEFS: false` and never fills `imports` (the closure is flattened into this one file)
  ["opt IMPORT_COREDEFS 0", "imports 0"] ++ (combinedSections fs).flatMap (fun s => s!"sec {s.1} {s.2.length}" :: s.2.map yItemStr)

/-! ### paths (M9c) -/

def segOf (s : String) : Seg := if s == "^" then .up else if s == "." then .cur else .name (natOf s)
def segStr : Seg → String
  | .up => "^" | .cur => "." | .name n => toString n

def srcLine (x : Name × List Seg) : String := joinSp (toString x.1 :: x.2.map segStr)

structure Case where
  id : String := ""
  autoPad : Bool := true
  items : List (Bool × Item) := []
  files : List FileItems := []           -- the same items file by file (FILE markers)
  paths : List AbsPath := []             -- resolved path of each file (FILE markers), parallel to `files`
  pkgDir : AbsPath := []
  coreDirName : Nat := 0
  envs : List Env := []                  -- the environments of the real compile runs
  srcs : List String := []               -- `type_source` of every class of the real Python output
  yaml : List String := []               -- canonical lines of the real combined file
  hasYaml : Bool := false
  outcome : List String := []
  reg : List String := []
  reg2 : List String := []
  hasReg2 : Bool := false
  py : List Stmt := []
  c : List Stmt := []
  js : List Stmt := []
  m : List Stmt := []
  meas : List Measured := []
  load : List (String × Bool) := []     -- verdicts of the real tools
  documented : Bool := true
  skipHdr : Bool := false                -- closure without RTMA_MSG_HEADER compiled without core defs

def firstDiff (a b : List String) : Option String :=
  let rec go : List String → List String → Nat → Option String
    | [], [], _ => none
    | x :: xs, y :: ys, i => if x == y then go xs ys (i + 1) else some s!"@{i} model=[{x}] impl=[{y}]"
    | x :: _, [], i => some s!"@{i} model=[{x}] impl=[<end>]"
    | [], y :: _, i => some s!"@{i} model=[<end>] impl=[{y}]"
  go a b 0

def firstFalse (cs : List (String × Bool)) : Option String := (cs.find? (fun c => !c.2)).map (·.1)

def natDen (T : Tables) (fmt : List (Name × Den)) (n : Name) : Option Den :=
  let _ := T
  assoc fmt n

def coreOf (items : List (Bool × Item)) : Core :=
  let cs := items.filter (·.1)
  { consts := cs.filterMap (fun x => match x.2 with | .const n _ => some n | _ => none)
    strs := cs.filterMap (fun x => match x.2 with | .strConst n _ => some n | _ => none)
    hosts := cs.filterMap (fun x => match x.2 with | .hostId n _ => some n | _ => none)
    mods := cs.filterMap (fun x => match x.2 with | .moduleId n _ => some n | _ => none)
    msgs := cs.filterMap (fun x => match x.2 with
      | .message n .. => some n | .signal n .. => some n | .reserved n .. => some n | _ => none)
    structs := cs.filterMap (fun x => match x.2 with | .struct n .. => some n | _ => none)
    aliases := cs.filterMap (fun x => match x.2 with | .alias n _ => some n | _ => none) }

/-- what RTMA.h declares for a C client: the aliases, structs and (non-signal) messages of `core_defs/` -/
def corePre (items : List (Bool × Item)) : List (Space × Name) :=
  (items.filter (·.1)).filterMap (fun x => match x.2 with
    | .alias n _ => some (.alias, n)
    | .struct n .. => some (.sdf, n)
    | .message n .. => some (.mdf, n)
    | _ => none)

def sortStrs (l : List String) : List String := (l.toArray.qsort (· < ·)).toList

/-- drop the trailer reference when the closure was compiled without the core definitions (tool contract) -/
def dropUse (skip : Bool) (p : List Stmt) : List Stmt :=
  if skip then p.filter (fun s => match s with | .use .. => false | _ => true) else p

def finishCase (T : Tables) (fmtDen : List (Name × Den)) (c : Case) : List String := Id.run do
  let nat := fun n => assoc fmtDen n
  let mut out : List String := []
  let model := elaborate T c.autoPad c.items {}
  -- CORR 1: outcome of the parse
  let mOutcome := match model with
    | .error e => ["err", errStr e]
    | .ok R =>
      let bad := [Lang.py, .c, .js, .m].any (fun l => progBad (emit T R l))
      if bad then ["err", "internal"] else ["ok"]
  let iOutcome := c.outcome
  if mOutcome != iOutcome then
    out := out ++ [s!"{c.id} CORR diff outcome model=[{joinSp mOutcome}] impl=[{joinSp iOutcome}]"]
  match model, iOutcome with
  | .ok R, ["ok"] =>
    -- CORR 2: registries
    match firstDiff (regLines R) c.reg with
    | some d => out := out ++ [s!"{c.id} CORR diff registry {d}"]
    | none => pure ()
    -- CORR 3: what each back end printed
    for (nm, l, impl) in [("py", Lang.py, c.py), ("c", .c, c.c), ("js", .js, c.js), ("m", .m, c.m)] do
      match firstDiff ((emit T R l).map stmtStr) (impl.map stmtStr) with
      | some d => out := out ++ [s!"{c.id} CORR diff emit.{nm} {d}"]
      | none => pure ()
    -- CORR 4: the load discipline of the model against the real tools
    for (nm, l, impl) in [("py", Lang.py, c.py), ("c", .c, c.c), ("js", .js, c.js), ("m", .m, dropUse c.skipHdr c.m)] do
      match c.load.find? (·.1 == nm) with
      | some (_, real) =>
        let pred := loads l impl (if l == .c then corePre c.items else []) && (l != .js || jsFresh impl)
        if pred != real then
          out := out ++ [s!"{c.id} CORR diff loads.{nm} model-discipline={pred} tool={real}"]
      | none => pure ()
    -- CORR 4b: what the theorems of Props/C15.lean predict from the registry alone (`python_loads_iff`,
    -- `javascript_loads_iff`, `matlab_loads_iff`, `loadable` for C) against the real tools
    if decide ((defNames c.items).Nodup) then
      let inF := R.aliasOfStruct || R.structUsesMsg
      for (nm, pred) in [("py", some (!inF)), ("js", some (!R.aliasOfStruct)), ("m", some (!inF)),
                         ("c", if inF then none else some true)] do
        match c.load.find? (·.1 == nm), pred with
        | some (_, real), some p =>
          if p != real then
            out := out ++ [s!"{c.id} CORR diff predict.{nm} theorem-side-condition={p} tool={real}"]
        | _, _ => pure ()
  | _, _ => pure ()
  -- CORR 5: the combined YAML — the writer's sections, and what a re-parse of them gives
  let filesOk := flattenFiles c.files == c.items
  if !filesOk && (c.hasYaml || c.hasReg2) then
    out := out ++ [s!"{c.id} CORR diff combined.files FILE markers do not flatten to the ITEM list"]
  if filesOk && c.hasYaml then
    match firstDiff (yamlLines c.files) c.yaml with
    | some d => out := out ++ [s!"{c.id} CORR diff combined.yaml {d}"]
    | none => pure ()
  if filesOk && c.hasReg2 then
    let m2 := match elaborate T c.autoPad (combine c.files) {} with
      | .error e => ["parse-failed err_" ++ errStr e]
      | .ok R2 => regLines R2
    match firstDiff m2 c.reg2 with
    | some d => out := out ++ [s!"{c.id} CORR diff combined.reparse {d}"]
    | none => pure ()
  -- CORR 6: the path arithmetic — for every environment the real compiler was run in, the `core` marks and the
  -- `type_source` strings the model derives from the resolved paths are the ones observed
  if filesOk && !c.envs.isEmpty && c.paths.length == c.files.length then
    let fp := c.files.zip c.paths
    let disk : Disk :=
      { pkgDir := c.pkgDir,
        coreFiles := (fp.filter (·.1.core)).map (fun x => (x.2, x.1.items)),
        files := (fp.filter (fun x => !x.1.core)).map (fun x => (x.2, x.1.items)) }
    -- (the harness marks as core exactly the files parsed through `import_coredefs`, and sends them first)
    for e in c.envs do
      let derived := disk.fileItems c.coreDirName (storedRoot e)
      if derived != c.files then
        out := out ++ [s!"{c.id} CORR diff paths.core the core marks derived from the paths differ from the observed ones"]
      if c.outcome == ["ok"] then
        match firstDiff (sortStrs ((disk.sources (storedRoot e)).map srcLine)) (sortStrs c.srcs) with
        | some d => out := out ++ [s!"{c.id} CORR diff paths.source {d}"]
        | none => pure ()
  if out.isEmpty then out := [s!"{c.id} CORR ok"]
  -- PROP C04 on the implementation's observation
  let p04 :=
    match iOutcome with
    | ["ok"] =>
      let k := coreOf c.items
      let cl := wireClauses k (wireOf nat c.py) (wireOf nat c.c) (wireOf nat c.js) (wireOf nat c.m) ++
                [("python_type_id_is_MT", pyIdsConsistent c.py)] ++ layoutClauses c.meas
      match firstFalse cl with
      | some x => "fail " ++ x
      | none => "ok"
    | ["err", "internal"] => if c.documented then "fail internal_error_on_documented_closure" else "skip"
    | _ => "skip"
  -- PROP C15
  let p15 :=
    match iOutcome with
    | ["ok"] =>
      let real : List (String × Bool) := c.load.map (fun (x : String × Bool) => ("tool_" ++ x.1, x.2))
      match firstFalse (real ++ loadClauses c.py c.c c.js (dropUse c.skipHdr c.m) (corePre c.items)) with
      | some x =>
        -- the finding class, decided by the Lean predicates on the model's registry (Spec: `Reg.aliasOfStruct` = C15-F3,
        -- `Reg.structUsesMsg` = C15-F4 — the side conditions of `loadable`)
        let cls := match model with
          | .ok R => (if R.aliasOfStruct then " class:F3" else "") ++ (if R.structUsesMsg then " class:F4" else "")
          | .error _ => ""
        "fail " ++ x ++ cls
      | none => "ok"
    | ["err", "internal"] => if c.documented then "fail internal_error_on_documented_closure" else "skip"
    | _ => "skip"
  -- PROP C16: the re-parse of the combined YAML has the same ids, hashes, sizes, layouts
  let p16 :=
    if !c.hasReg2 then "skip"
    else if sortStrs c.reg == sortStrs c.reg2 then "ok"
    else match firstDiff (sortStrs c.reg) (sortStrs c.reg2) with
      | some d =>
        -- the clause names the class: `noFwdRef` (Spec, the hypothesis of `combined_yaml_roundtrip`) false = C16-F2
        (if noFwdRef T c.items then "fail combined_roundtrip " else "fail combined_roundtrip_forward_ref ") ++ d
      | none => "ok"
  return out ++ [s!"{c.id} PROP C04 {p04}", s!"{c.id} PROP C15 {p15}", s!"{c.id} PROP C16 {p16}"]

structure St where
  T : Tables := default
  fmtDen : List (Name × Den) := []
  c : Case := {}

def step (st : St) (line : String) : St × List String :=
  match toks line with
  | "T" :: "fmt" :: r => ({ st with fmtDen := r.map denOf }, [])
  | "T" :: r => ({ st with T := tableLine st.T r }, [])
  | ["CASE", id, ap, doc, skip] => ({ st with c := { id := id, autoPad := ap == "1", documented := doc == "1", skipHdr := skip == "1" } }, [])
  | "FILE" :: core :: path =>
    ({ st with c := { st.c with files := st.c.files ++ [{ core := core == "1", items := [] }],
                                paths := if path.isEmpty then st.c.paths else st.c.paths ++ [path.map natOf] } }, [])
  | "PKG" :: k :: path => ({ st with c := { st.c with coreDirName := natOf k, pkgDir := path.map natOf } }, [])
  | "ENV" :: n :: r =>
    let k := natOf n
    let cwd := (r.take k).map natOf
    match r.drop k with
    | a :: segs => ({ st with c := { st.c with envs := st.c.envs ++
        [{ cwd := cwd, root := { abs := a == "1", segs := segs.map segOf }, outDir := { abs := false, segs := [] } }] } }, [])
    | [] => (st, [])
  | "SRC" :: r => ({ st with c := { st.c with srcs := st.c.srcs ++ [joinSp r] } }, [])
  | "ITEM" :: r => match itemOf r with
    | some it =>
      let fs := match st.c.files.reverse with
        | f :: rest => (({ f with items := f.items ++ [it.2] }) :: rest).reverse
        | [] => [{ core := it.1, items := [it.2] }]
      ({ st with c := { st.c with items := st.c.items ++ [it], files := fs } }, [])
    | none => (st, [s!"{st.c.id} CORR diff unparsable-item {line}"])
  | "OUTCOME" :: r => ({ st with c := { st.c with outcome := r } }, [])
  | "REG" :: r => ({ st with c := { st.c with reg := st.c.reg ++ [joinSp r] } }, [])
  | "REG2" :: r => ({ st with c := { st.c with reg2 := st.c.reg2 ++ [joinSp r], hasReg2 := true } }, [])
  | "YAML" :: r => ({ st with c := { st.c with yaml := st.c.yaml ++ [joinSp r], hasYaml := true } }, [])
  | ["REG2NONE"] => ({ st with c := { st.c with hasReg2 := true } }, [])
  | "PY" :: r => ({ st with c := { st.c with py := st.c.py ++ [stmtOf r] } }, [])
  | "C" :: r => ({ st with c := { st.c with c := st.c.c ++ [stmtOf r] } }, [])
  | "JS" :: r => ({ st with c := { st.c with js := st.c.js ++ [stmtOf r] } }, [])
  | "M" :: r => ({ st with c := { st.c with m := st.c.m ++ [stmtOf r] } }, [])
  | ["MEAS", n, gOffs, gSize, cOffs, cSize, rc] =>
    let offs := fun (s : String) => if s == "-" then [] else (s.splitOn ",").map natOf
    let mm : Measured := ⟨natOf n, offs gOffs, natOf gSize, offs cOffs, natOf cSize, natOf rc⟩
    ({ st with c := { st.c with meas := st.c.meas ++ [mm] } }, [])
  | ["LOAD", nm, v] => ({ st with c := { st.c with load := st.c.load ++ [(nm, v == "1")] } }, [])
  | ["END"] => ({ st with c := {} }, finishCase st.T st.fmtDen st.c)
  | _ => (st, [])

def main : IO Unit := do
  let stdin ← IO.getStdin
  let stdout ← IO.getStdout
  let lines ← readLines stdin
  let mut st : St := {}
  for l in lines do
    let (st', out) := step st l
    st := st'
    for o in out do stdout.putStrLn o

end Pyrtma.Drv.Emit
