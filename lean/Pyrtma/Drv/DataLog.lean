import Pyrtma.Drv.Util
import Pyrtma.Spec.DataLog
import Pyrtma.Spec.DataLogFmt
import Pyrtma.Spec.DataLogFine
import Pyrtma.Spec.DataLogFiles
/-! Line-protocol driver for M10 (grammar: see harness/datalog_corr.py). -/
namespace Pyrtma.Drv.DataLog
open Pyrtma.DataLog Pyrtma.DataLog.Fmt Pyrtma.Drv

def hexVal (c : Char) : Nat :=
  if '0' ≤ c ∧ c ≤ '9' then c.toNat - '0'.toNat
  else if 'a' ≤ c ∧ c ≤ 'f' then c.toNat - 'a'.toNat + 10
  else if 'A' ≤ c ∧ c ≤ 'F' then c.toNat - 'A'.toNat + 10 else 0

def hexBytesAux : List Char → List Nat
  | a :: b :: r => (16 * hexVal a + hexVal b) :: hexBytesAux r
  | _ => []

def hexBytes (s : String) : List Nat := if s == "-" then [] else hexBytesAux s.toList

structure Case where
  id : String := ""
  kind : String := ""
  -- S
  period : Nat := 15
  tail : Nat := 0
  dss : List (Sel × Nat) := []
  ops : List RecOp := []
  sched : List Tid := []
  obs : String := ""
  tr : String := ""
  files : List (Nat × List Nat) := []      -- (data set, ids) in arrival order
  -- G
  kinds : List Fine.Kind := []
  faults : List Nat := []
  alive : Bool := false
  audit : List String := []
  unk : Bool := false                      -- some file of the implementation was not decodable / not looked at
  fmts : List String := []                 -- formatter of each data set: raw json ql csv
  encs : List (Nat × FMsg × List Char) := []
  fbs : List (Nat × List Nat) := []        -- (data set, bytes of a file) in file order
  hasBytes : Bool := false
  -- F
  fmt : String := ""
  H : Nat := 0
  ndbOff : Nat := 0
  msgs : List FMsg := []
  jsons : List (List Char) := []
  part : List Nat := []
  last : Nat := 0
  file : List Nat := []
  exc : String := ""
  rd : List (Option FMsg) := []

def parseSel (s : String) : Sel :=
  if s == "A" then .all else if s == "-" then .only [] else .only ((s.splitOn ",").map natOf)

def parseOp (s : String) : Option RecOp :=
  match s.splitOn ":" with
  | ["u", dt, ty, id] => some (.update (natOf dt) ⟨natOf id, natOf ty⟩)
  | ["t", dt] => some (.tick (natOf dt))
  | ["p", dt] => some (.pause (natOf dt))
  | ["r", dt] => some (.resume (natOf dt))
  | _ => none      -- "s:<dt>" (the closing stop) carries no information for the model

def parseSched (s : String) : List Tid :=
  s.toList.filterMap (fun c => if c == 'R' then some Tid.R else if c == 'W' then some Tid.W else none)

def parseRd (s : String) : Option FMsg :=
  match s.splitOn ":" with
  | [h, d] => if h == "X" || d == "X" then none else some ⟨hexBytes h, hexBytes d⟩
  | _ => none

def cfgOf (c : Case) : Cfg :=
  { n := c.dss.length, sel := fun i => (c.dss.getD i (.all, 0)).1,
    interval := fun i => (c.dss.getD i (.all, 0)).2, period := c.period, finFirst := true }

def msgOfId (ops : List RecOp) (id : Nat) : Msg :=
  match ops.find? (fun o => match o with | .update _ m => m.id == id | _ => false) with
  | some (.update _ m) => m
  | _ => ⟨0, 0⟩

def showIds (l : List Msg) : String := joinSp (l.map (fun m => toString m.id))

def statusOf (s : State) : String :=
  match s.rpc with
  | .done => "done" | .raised => "raise:DataCollectionThreadError" | _ => "stuck"

/-- split a list into consecutive pieces of the given sizes -/
def cut {α} : List Nat → List α → List (List α)
  | [], _ => []
  | n :: ns, l => l.take n :: cut ns (l.drop n)

/-- Are the counters in the header of a quicklogger file consistent with the length of the file?  The package's
reader raises on the short read otherwise (`from_buffer_copy` of too few bytes), i.e. the file does not read back;
the model's `qlRead` is total and would build `num_messages` chunks whatever the length — with the counters of a
file two threads wrote into at once that is a recursion of depth 2^32.  The driver therefore evaluates the
read-back clauses of the Spec only on plausible files and reports the clause as failed on the others. -/
def qlPlausible (f : List Nat) : Bool :=
  let n := unle32 ((f.drop 8).take 4)
  let H := unle32 ((f.drop 12).take 4)
  let osz := unle32 ((f.drop 16).take 4)
  decide (qlHdrSize + n * (H + osz) ≤ f.length)

def encOf (c : Case) : Enc :=
  { frame := fun m => ((c.encs.find? (·.1 == m.id)).map (·.2.1)).getD ⟨[], []⟩,
    text := fun m => ((c.encs.find? (·.1 == m.id)).map (·.2.2)).getD [] }

/-- byte-level tie of a scheduled session: the model's files (`mf i` = the batches each file of data set `i`
received) rendered through the formatter model against the bytes on disk; the files-read-back clauses of the Spec
on the bytes on disk -/
def bytesCheck (c : Case) (n : Nat) (sel : Nat → Sel) (mf : Nat → List (List (List Msg))) : List String × Option String :=
  if !c.hasBytes then ([], none) else
  let e := encOf c
  let res := (List.range n).map (fun i =>
    let fmt := c.fmts.getD i "csv"
    let impl : List (List Nat) := (c.fbs.filter (fun (p : Nat × List Nat) => p.1 == i)).map (·.2)
    let acc := accepted (sel i) false c.ops
    if fmt == "raw" then
      let m := (mf i).map (renderRaw e)
      (if m == impl then none else some s!"bytes ds={i} raw model-lens={m.map List.length} impl-lens={impl.map List.length}",
       if rawFilesReadBack c.H c.ndbOff (acc.map e.frame) impl then none else some s!"fail raw_files_read_back ds={i}")
    else if fmt == "ql" then
      let m := (mf i).map (renderQL c.H e)
      (if m == impl then none else some s!"bytes ds={i} ql model-lens={m.map List.length} impl-lens={impl.map List.length}",
       if impl.all qlPlausible && qlFilesReadBack c.ndbOff (acc.map e.frame) impl then none
       else some s!"fail ql_files_read_back ds={i}")
    else if fmt == "json" then
      let m := (mf i).map (renderJson e)
      let implc := impl.map (·.map Char.ofNat)
      (if m == implc then none else some s!"bytes ds={i} json model-lens={m.map List.length} impl-lens={impl.map List.length}",
       if jsonFilesReadBack (acc.map e.text) implc then none else some s!"fail json_files_read_back ds={i}")
    else (none, none))
  ((res.filterMap (·.1)).map (fun d => s!"{c.id} CORR diff {d}"), (res.filterMap (·.2)).head?)

def finishS (c : Case) : List String :=
  let cfg := cfgOf c
  let sched := c.sched ++ roundRobin (c.tail / 2)
  let (st, tr) := runTrace cfg c.ops sched
  let mObs := s!"{statusOf st} warn={st.warn} wdead={if st.wpc = .dead then 1 else 0}"
  let mTr := joinSp tr
  let mFiles : List String := (List.range cfg.n).flatMap (fun i =>
    (st.ds i).files.map (fun f => joinSp [toString i, showIds f]))
  let iFiles : List String := c.files.map (fun p => joinSp [toString p.1, joinSp (p.2.map toString)])
  let corr :=
    if mObs != c.obs then s!"{c.id} CORR diff obs model=[{mObs}] impl=[{c.obs}]"
    else if mTr != c.tr then s!"{c.id} CORR diff trace model=[{mTr}] impl=[{c.tr}]"
    else if mFiles != iFiles then s!"{c.id} CORR diff files model={mFiles} impl={iFiles}"
    else s!"{c.id} CORR ok"
  -- the Spec on the implementation's observation
  let prop :=
    if !c.obs.startsWith "done" then
      if c.obs.startsWith "raise" then "fail update_raised" else "fail stop_did_not_return"
    else
      let bad := (List.range cfg.n).filterMap (fun i =>
        let files := (c.files.filter (·.1 == i)).map (fun p => p.2.map (msgOfId c.ops))
        let v := verdict (accepted (cfg.sel i) false c.ops) files
        if v == "ok" then none else some s!"{v} ds={i}")
      bad.headD "ok"
  let (bc, bp) := if st.rpc = .done then bytesCheck c cfg.n cfg.sel (fun i => (st.ds i).fileBatches) else ([], none)
  let prop := if prop == "ok" then bp.getD "ok" else prop
  [corr] ++ bc ++ [s!"{c.id} PROP C17 {prop}"]

def finishF (c : Case) : List String :=
  let parts := cut c.part c.msgs
  let last := (c.msgs.drop c.part.sum).take c.last
  let all := c.msgs.take (c.part.sum + c.last)
  let rdOk := c.rd == all.map some
  if c.fmt == "raw" then
    let m := rawFile parts last
    let corr := if m == c.file then s!"{c.id} CORR ok" else s!"{c.id} CORR diff rawFile model-len={m.length} impl-len={c.file.length}"
    let corr2 := if (rawRead c.H c.ndbOff (c.file.length + 1) c.file).map some == c.rd then []
                 else [s!"{c.id} CORR diff rawRead model differs from harness decoder"]
    let prop := if c.exc != "" then s!"fail formatter_raised {c.exc}"
                else if !rawIsConcat all c.file then "fail raw_is_concat"
                else if !rdOk then "fail raw_frames_read_back" else "ok"
    [corr] ++ corr2 ++ [s!"{c.id} PROP C17 {prop}"]
  else if c.fmt == "quicklogger" then
    let m := qlFile c.H parts last
    let corr := if m == c.file then s!"{c.id} CORR ok" else s!"{c.id} CORR diff qlFile model-len={m.length} impl-len={c.file.length}"
    let sane := qlPlausible c.file
    let corr2 := if (if sane then (qlRead c.ndbOff c.file).map some == c.rd else c.rd.all Option.isNone) then []
                 else [s!"{c.id} CORR diff qlRead model differs from QLReader.load"]
    let prop := if c.exc != "" then s!"fail formatter_raised {c.exc}"
                else if !(sane && rdOk) then "fail ql_read_back" else "ok"
    [corr] ++ corr2 ++ [s!"{c.id} PROP C17 {prop}"]
  else if c.fmt == "json" then
    let js := c.jsons.take (c.part.sum + c.last)
    let jparts := cut c.part js
    let jlast := (js.drop c.part.sum).take c.last
    let m := jsonFile jparts jlast
    let f := c.file.map Char.ofNat
    let corr := if m == f then s!"{c.id} CORR ok" else s!"{c.id} CORR diff jsonFile model-len={m.length} impl-len={f.length}"
    let prop := if c.exc != "" then s!"fail formatter_raised {c.exc}"
                else if !jsonLinesAre js f then "fail json_line_by_line"
                else if !rdOk then "fail json_decodes_to_messages" else "ok"
    [corr, s!"{c.id} PROP C17 {prop}"]
  else [s!"{c.id} CORR ok", s!"{c.id} PROP C17 skip"]

def parseKind (s : String) : Fine.Kind :=
  if s == "ql" then .ql else if s == "csv" then .csv else .plain

def cfgG (c : Case) : Fine.Cfg :=
  { n := c.dss.length, sel := fun i => (c.dss.getD i (.all, 0)).1,
    interval := fun i => (c.dss.getD i (.all, 0)).2, kind := fun i => c.kinds.getD i .plain,
    period := c.period, aliveCheck := c.alive, fault := fun k => c.faults.contains k }

def statusG (cfg : Fine.Cfg) (s : Fine.State) : String :=
  match s.rpc with
  | .done => "done" | .raisedT => "raise:DataCollectionThreadError" | .raisedIO => "raise:IO"
  | _ => if s.hung cfg then "hang" else "stuck"

def tidG : Tid → Fine.Tid
  | .R => .R
  | .W => .W

def finishG (c : Case) : List String :=
  let cfg := cfgG c
  let sched := (c.sched.map tidG) ++ Fine.roundRobin (c.tail / 2)
  let (st, tr) := Fine.runTrace cfg c.ops sched
  let fired := Fine.firedB cfg st
  let status := statusG cfg st
  let mObs := s!"{status} warn={st.warn} wdead={if st.wpc = .dead then 1 else 0} fired={if fired then 1 else 0}"
  let mTr := joinSp tr
  let mFiles : List String := (List.range cfg.n).flatMap (fun i =>
    (st.ds i).fileLogs.map (fun f => joinSp [toString i, if status == "done" then showIds f else "?"]))
  let iFiles : List String := c.files.map (fun p => joinSp [toString p.1, joinSp (p.2.map toString)])
  let iFilesQ : List String := if c.unk then c.files.map (fun p => joinSp [toString p.1, "?"]) else iFiles
  let corr :=
    if !c.audit.isEmpty then s!"{c.id} CORR diff locality {c.audit}"
    else if mObs != c.obs then s!"{c.id} CORR diff obs model=[{mObs}] impl=[{c.obs}]"
    else if mTr != c.tr then s!"{c.id} CORR diff trace model=[{mTr}] impl=[{c.tr}]"
    else if mFiles != iFilesQ then s!"{c.id} CORR diff files model={mFiles} impl={iFilesQ}"
    else s!"{c.id} CORR ok"
  -- the Spec on the implementation's observation
  let iFired := c.obs.endsWith "fired=1"
  let o : Option Fine.Outcome :=
    if c.obs.startsWith "done" then some Fine.Outcome.done else if c.obs.startsWith "raise" then some Fine.Outcome.told
    else if c.obs.startsWith "hang" then some Fine.Outcome.hang else none
  let prop :=
    match o with
    | none => "fail stop_did_not_return"
    | some o =>
      if !Fine.terminates o then "fail stop_hangs_writer_dead"
      else if !Fine.toldOnFailure iFired o then "fail silent_failure"
      else if o == Fine.Outcome.told && !iFired then "fail raised_without_failure"
      else if o == Fine.Outcome.done then
        let bad := (List.range cfg.n).filterMap (fun i =>
          let files : List (List Msg) :=
            (c.files.filter (fun (p : Nat × List Nat) => p.1 == i)).map (fun (p : Nat × List Nat) => p.2.map (msgOfId c.ops))
          let v := verdict (accepted (cfg.sel i) false c.ops) files
          if v == "ok" then none else some s!"{v} ds={i}")
        bad.headD "ok"
      else "ok"
  let (bc, bp) := if st.rpc = .done then bytesCheck c cfg.n cfg.sel (fun i => (st.ds i).fileLogs.map (fun l => [l]))
                  else ([], none)
  let prop := if prop == "ok" then bp.getD "ok" else prop
  [corr] ++ bc ++ [s!"{c.id} PROP C17 {prop}"]

def step (c : Case) (line : String) : Case × List String :=
  match toks line with
  | ["CASE", id, "S", period, tail] => ({ id := id, kind := "S", period := natOf period, tail := natOf tail }, [])
  | ["CASE", id, "F", fmt, h, off] => ({ id := id, kind := "F", fmt := fmt, H := natOf h, ndbOff := natOf off }, [])
  | ["CASE", id, "G", period, tail, alive] =>
    ({ id := id, kind := "G", period := natOf period, tail := natOf tail, alive := alive == "1" }, [])
  | ["DS", sel, iv, k] =>
    ({ c with dss := c.dss ++ [(parseSel sel, natOf iv)], kinds := c.kinds ++ [parseKind k], fmts := c.fmts ++ [k] }, [])
  | ["HDR", h, off] => ({ c with H := natOf h, ndbOff := natOf off, hasBytes := true }, [])
  | ["ENC", id, h, d, j] =>
    ({ c with encs := c.encs ++ [(natOf id, ⟨hexBytes h, hexBytes d⟩, (hexBytes j).map Char.ofNat)] }, [])
  | ["FB", i, b] => ({ c with fbs := c.fbs ++ [(natOf i, hexBytes b)] }, [])
  | "FAULTS" :: r => ({ c with faults := (r.filter (· != "-")).map natOf }, [])
  | ["AUDIT", a] => ({ c with audit := c.audit ++ [a] }, [])
  | ["DS", sel, iv] => ({ c with dss := c.dss ++ [(parseSel sel, natOf iv)] }, [])
  | "OPS" :: r => ({ c with ops := r.filterMap parseOp }, [])
  | ["SCHED", s] => ({ c with sched := parseSched s }, [])
  | "OBS" :: r => ({ c with obs := joinSp r }, [])
  | "TR" :: r => ({ c with tr := joinSp r }, [])
  | "F" :: i :: ids => ({ c with files := c.files ++ [(natOf i, ids.map natOf)], unk := c.unk || ids.contains "?" }, [])
  | ["M", h, d] => ({ c with msgs := c.msgs ++ [⟨hexBytes h, hexBytes d⟩] }, [])
  | ["J", t] => ({ c with jsons := c.jsons ++ [(hexBytes t).map Char.ofNat] }, [])
  | "PART" :: r =>
    let ns := r.takeWhile (· != "|")
    let l := (r.dropWhile (· != "|")).drop 1
    ({ c with part := ns.map natOf, last := natOf (l.headD "0") }, [])
  | ["FILE", h] => ({ c with file := hexBytes h }, [])
  | ["EXC", e] => ({ c with exc := e }, [])
  | "RD" :: r => ({ c with rd := r.map parseRd }, [])
  | ["END"] => ({}, if c.kind == "S" then finishS c else if c.kind == "G" then finishG c else finishF c)
  | _ => (c, [])

def main : IO Unit := do
  let stdin ← IO.getStdin
  let stdout ← IO.getStdout
  let lines ← readLines stdin
  let mut c : Case := {}
  for l in lines do
    let (c', out) := step c l
    c := c'
    for o in out do stdout.putStrLn o

end Pyrtma.Drv.DataLog
