import Pyrtma.Drv.Util
import Pyrtma.Spec.ValidatorsExt
/-! Line-protocol driver for M4 (grammar: harness/valid_corr.py). -/
namespace Pyrtma.Drv.Validators
open Pyrtma.Validators Pyrtma.Drv

def hexVal (c : Char) : Nat :=
  if '0' ≤ c ∧ c ≤ '9' then c.toNat - '0'.toNat
  else if 'a' ≤ c ∧ c ≤ 'f' then c.toNat - 'a'.toNat + 10
  else if 'A' ≤ c ∧ c ≤ 'F' then c.toNat - 'A'.toNat + 10 else 0

def hexNat (s : String) : Nat := s.foldl (fun a c => a * 16 + hexVal c) 0

/-- two hex digits per byte; single pass, accumulates reversed -/
def hexBytes (s : String) : Bytes :=
  if s == "-" then [] else
    let (acc, _) := s.foldl (fun (st : List Nat × Option Nat) c =>
      match st.2 with
      | none => (st.1, some (hexVal c))
      | some hi => ((hi * 16 + hexVal c) :: st.1, none)) ([], none)
    acc.reverse

def hexDigit (n : Nat) : Char := "0123456789abcdef".toList.getD n '0'
def showHex (bs : Bytes) : String :=
  if bs.isEmpty then "-" else String.ofList (bs.flatMap fun b => [hexDigit (b / 16 % 16), hexDigit (b % 16)])

def ikOf : String → Option IK
  | "i8" => some .i8 | "i16" => some .i16 | "i32" => some .i32 | "i64" => some .i64
  | "u8" => some .u8 | "u16" => some .u16 | "u32" => some .u32 | "u64" => some .u64 | _ => none
def fkOf : String → Option FK
  | "f32" => some .f32 | "f64" => some .f64 | _ => none

def ctOf (s : String) : CT :=
  match ikOf s, fkOf s with
  | some k, _ => .int k | _, some k => .flt k
  | _, _ => if s.startsWith "chars" then .chars (natOf (s.drop 5).toString) else .char

def vkOf (s : String) : VK :=
  match ikOf s, fkOf s with
  | some k, _ => .int k
  | _, some k => .flt k
  | _, _ =>
    if s == "byte" then .byte else
      match (s.drop 1).toString.splitOn ":" with
      | [t, z] => .strct (natOf t) (natOf z)
      | _ => .byte

def clsOf : String → ArrCls
  | "intArray" => .intArray | "floatArray" => .floatArray | "byteArray" => .byteArray | _ => .structArray

def scalarOf (t : String) : Scalar :=
  match t.splitOn ":" with
  | ["i", n] => .int (intOf n)
  | ["b", b] => .bool (b == "1")
  | ["f", h] => .flt (hexNat h)
  | ["s", cs] => .str (if cs == "" then [] else (cs.splitOn ".").map natOf)
  | ["y", h] => .bytes (hexBytes h)
  | ["c", ct, h] => .cdata (ctOf ct) (hexBytes h)
  | ["t", tid, h] => .strct (natOf tid) (hexBytes h)
  | _ => .other

def seqKOf : String → SeqK
  | "list" => .list | "tuple" => .tuple | "carray" => .carray | _ => .gen

def valOf : List String → PyVal
  | ["S", s] => .sc (scalarOf s)
  | "L" :: k :: xs => .seq (seqKOf k) (xs.map scalarOf)
  | ["A", cls, vk, n, h] => .arr (clsOf cls) (vkOf vk) (natOf n) (if h == "none" then none else some (hexBytes h))
  | _ => .sc .other

def optInt (s : String) : Option Int := if s == "_" then none else some (intOf s)

def keyOf : List String → Key
  | ["whole"] => .whole
  | ["idx", i] => .idx (intOf i)
  | ["slice", a, b, c] => .slice (optInt a) (optInt b) (optInt c)
  | _ => .bad

def ftyOf : List String → FTy
  | ["int", k] => .int ((ikOf k).getD .i8)
  | ["flt", k] => .flt ((fkOf k).getD .f32)
  | ["char"] => .char
  | ["byte"] => .byte
  | ["str", n] => .str (natOf n)
  | ["arr", cls, vk, n] => .arr (clsOf cls) (vkOf vk) (natOf n)
  | ["strct", t, z] => .strct (natOf t) (natOf z)
  | _ => .char

def showErr : PyErr → String
  | .typeError => "TypeError" | .valueError => "ValueError" | .overflowError => "OverflowError"
  | .indexError => "IndexError" | .attributeError => "AttributeError"

def showScalar : Scalar → String
  | .int n => s!"i:{n}"
  | .bool b => if b then "b:1" else "b:0"
  | .flt b => s!"f:{b}"
  | .str cs => "s:" ++ String.intercalate "." (cs.map toString)
  | .bytes bs => "y:" ++ showHex bs
  | .other => "o"
  | .cdata _ raw => "c:" ++ showHex raw
  | .strct t raw => s!"t:{t}:" ++ showHex raw

/-! the clauses of `RoundHyp` (Proofs/ValidatorsFloat.lean) evaluated at the operands of one case: the hypotheses
the float theorems rest on are about the opaque `roundMag`; here the compiled body is held against them -/
def hypAtDouble (d : Nat) : List (String × Bool) :=
  match decodeMag fmt64 (d % 2 ^ 63) with
  | .fin m e =>
    let r := roundMag fmt32 m e
    [("nearest32", decide (r ≥ fmt32.infPat) || isNearestMag fmt32 (scaled m e) r),
     ("overflow32", !overflowsMag fmt32 (scaled m e) || decide (r ≥ fmt32.infPat))]
  | _ => []

def hypAtInt (n : Int) : List (String × Bool) :=
  let a := n.natAbs
  let r := roundMag fmt64 a 0
  [("nearest64", decide (r ≥ fmt64.infPat) || isNearestMag fmt64 (scaled a 0) r),
   ("overflow64", !overflowsMag fmt64 (scaled a 0) || decide (r ≥ fmt64.infPat))] ++
  (if a ≤ 2 ^ 53 then [("intExact", decide (r < fmt64.infPat) && magValue fmt64 r == scaled a 0)]
   else if r < fmt64.infPat then
     (match decodeMag fmt64 r with
      | .fin m e => [("bigIntNarrow", decide (roundMag fmt32 m e ≥ fmt32.infPat) || !overflowsMag fmt32 (scaled a 0))]
      | _ => [])
   else []) ++
  (match ofInt n with | some d => hypAtDouble d | none => [])

def hypAtF32 (p : Nat) : List (String × Bool) :=
  if p % 2 ^ 31 < fmt32.infPat then
    match decodeMag fmt32 (p % 2 ^ 31) with
    | .fin m e =>
      let r := roundMag fmt64 m e
      [("widenExact", decide (r < fmt64.infPat) && magValue fmt64 r == scaled m e)]
    | _ => []
  else []

def hypAtScalar : Scalar → List (String × Bool)
  | .flt b => hypAtDouble b
  | .int n => hypAtInt n
  | .bool t => hypAtInt (if t then 1 else 0)
  | _ => []

def hypAtCase (ty : FTy) (v : PyVal) (post : Bytes) : List (String × Bool) :=
  match ty.vk with
  | .flt k =>
    let xs : List Scalar := match v with | .sc s => [s] | _ => (match items v with | .ok l => l | .error _ => [])
    xs.flatMap hypAtScalar ++
    (match k with
     | .f32 => (chunks 4 (post.length / 4) post).flatMap fun c => hypAtF32 (fromLE c)
     | .f64 => [])
  | _ => []

structure Case where
  id : String := ""
  en : Bool := true
  ty : FTy := .char
  key : Key := .whole
  val : PyVal := .sc .other
  pre : Bytes := []
  post : Bytes := []
  obs : List String := []
  out : Bool := false
  rb : List Scalar := []
  /-- the whole top-level message: offset of the field, bytes before, bytes after (`MSG` line) -/
  moff : Option Nat := none
  mpre : Bytes := []
  mpost : Bytes := []
  -- program cases (`PROG`): statements parsed so far (a stack of open blocks), the implementation's records
  isProg : Bool := false
  init : Bytes := []
  pstack : List (String × List Stmt) := [("top", [])]
  precs : List (ProgObs × Bool × String) := []     -- observation, context variable at that moment, exception class
  pflag : Bool := true
  pfinal : Bytes := []
  -- context-manager cases
  isCtx : Bool := false
  evs : List CtxEv := []
  flags : List Bool := []

def evOf : String → CtxEv
  | "e0" => .enter false | "e1" => .enter true | "xn" => .exitNormal | _ => .exitExc

def firstFalse (cs : List (String × Bool)) : Option String := (cs.find? (fun c => !c.2)).map (·.1)

def finishSet (c : Case) : List String :=
  let (mpost, merr) := setField c.en c.ty c.pre c.key c.val
  let m := (match merr with | none => "ok" | some e => "err " ++ showErr e) ++ " " ++ showHex mpost
  let i := joinSp c.obs ++ " " ++ showHex c.post
  let corr := if m == i then s!"{c.id} CORR ok" else s!"{c.id} CORR diff model=[{m}] impl=[{i}]"
  let raised := c.obs.head? != some "ok"
  -- "some byte outside the field changed": computed here from the whole message when it crossed (`MSG`), else the
  -- harness's word for it (`OUT`)
  let outside :=
    c.out || (match c.moff with
      | none => false
      | some off => c.mpre.take off != c.mpost.take off ||
                    c.mpre.drop (off + c.ty.size) != c.mpost.drop (off + c.ty.size) ||
                    c.mpre.length != c.mpost.length)
  let prop :=
    if !c.en then "skip"
    else match firstFalse (clauses c.ty c.key c.val
        { pre := c.pre, post := c.post, raised := raised, outsideChanged := outside, rb := c.rb }) with
      | some cl => "fail " ++ cl
      | none => "ok"
  let tag := (if inDom c.ty c.key c.val then "dom" else "bad") ++ (if raised then "-refused" else "-accepted")
  -- projection `readField`: the model's `__get__` / `__getitem__` on the bytes the implementation left behind
  let rbm := readField c.ty c.key c.post
  let sameRb := rbm.length == c.rb.length && (rbm.zip c.rb).all fun p => sameRead p.1 p.2
  let corrRb :=
    if raised || sameRb then [] else
      [s!"{c.id} CORR diff [readField] model=[{joinSp (rbm.map showScalar)}] impl=[{joinSp (c.rb.map showScalar)}]"]
  -- projection `message`: the assignment seen from the whole top-level object (`setAt`)
  let corrMsg :=
    match c.moff with
    | none => []
    | some off =>
      let r := setAt c.en c.mpre off c.ty c.key c.val
      if r.1 == c.mpost then [] else
        [s!"{c.id} CORR diff [message] off={off} model=[{showHex r.1}] impl=[{showHex c.mpost}]"]
  -- projection `canon`: `get (set x v) = canon v` on the implementation's read-back (non-float kinds)
  let corrCanon :=
    if raised || !c.en || !inDom c.ty c.key c.val then [] else
      match canonVal c.ty c.key c.val with
      | none => []
      | some l =>
        if l == c.rb then [] else
          [s!"{c.id} CORR diff [canon] canon=[{joinSp (l.map showScalar)}] impl=[{joinSp (c.rb.map showScalar)}]"]
  -- projection `roundHyp`: the named hypotheses about the rounding function, at this case's operands
  let corrHyp :=
    match firstFalse (hypAtCase c.ty c.val c.post) with
    | some h => [s!"{c.id} CORR diff [roundHyp] hypothesis {h} of RoundHyp is false at an operand of this case"]
    | none => []
  let nHyp := (hypAtCase c.ty c.val c.post).length
  [corr] ++ corrRb ++ corrMsg ++ corrCanon ++ corrHyp ++
    [s!"{c.id} PROP C09 {prop}", s!"{c.id} PROP TAG {tag}"] ++ (if nHyp > 0 then [s!"{c.id} PROP HYPS {nHyp}"] else [])

def showFlags (l : List Bool) : String := joinSp (l.map fun b => if b then "1" else "0")

def finishCtx (c : Case) : List String :=
  let m := showFlags (Ctx.trace {} c.evs)
  let i := showFlags c.flags
  let corr := if m == i then s!"{c.id} CORR ok" else s!"{c.id} CORR diff model=[{m}] impl=[{i}]"
  -- the property's direction only (`ctxInForce`); that the switch is *off* inside a disabling block is the
  -- correspondence above
  let prop := if ctxInForce c.evs c.flags then "ok" else "fail validation_in_force_outside_disable_blocks"
  [corr, s!"{c.id} PROP C09 {prop}"]

/-- split a token list at the ";" separators -/
def splitSemi (ts : List String) : List (List String) :=
  let r := ts.foldl (fun (acc : List (List String) × List String) t =>
    if t == ";" then (acc.2.reverse :: acc.1, []) else (acc.1, t :: acc.2)) ([], [])
  (r.2.reverse :: r.1).reverse

def viaOf (s : String) : Via := if s == "f" then .fresh else .view (natOf (s.drop 1).toString)

/-- push a finished statement onto the innermost open block -/
def pushStmt (st : Stmt) : List (String × List Stmt) → List (String × List Stmt)
  | [] => [("top", [st])]
  | (k, l) :: rest => (k, st :: l) :: rest

def progStep (c : Case) (r : List String) : Case :=
  match r with
  | "bind" :: i :: off :: ";" :: fty => { c with pstack := pushStmt (.bind (natOf i) ⟨natOf off, ftyOf fty⟩) c.pstack }
  | "assign" :: via :: off :: ";" :: rest =>
    (match splitSemi rest with
     | [fty, key, val] =>
       { c with pstack := pushStmt (.assign (viaOf via) ⟨natOf off, ftyOf fty⟩ (keyOf key) (valOf val)) c.pstack }
     | _ => c)
  | ["block", ig] => { c with pstack := ("block" ++ ig, []) :: c.pstack }
  | ["try"] => { c with pstack := ("try", []) :: c.pstack }
  | ["raise"] => { c with pstack := pushStmt .raise c.pstack }
  | ["end"] =>
    (match c.pstack with
     | (k, body) :: rest =>
       let st : Stmt := if k == "try" then .tryCatch body.reverse else .block (k == "block1") body.reverse
       { c with pstack := pushStmt st rest }
     | [] => c)
  | _ => c

def recOf (r : List String) : Option (ProgObs × Bool × String) :=
  match r with
  | depth :: fl :: off :: ";" :: rest =>
    (match splitSemi rest with
     | [fty, key, val, obs, [pre], [post], rb] =>
       let raised := obs.head? != some "ok"
       some ({ depth := natOf depth, loc := ⟨natOf off, ftyOf fty⟩, key := keyOf key, val := valOf val,
               pre := hexBytes pre, post := hexBytes post, raised := raised, rb := rb.map scalarOf },
             fl == "1", joinSp obs)
     | _ => none)
  | _ => none

def finishProg (c : Case) : List String :=
  let prog : List Stmt := match c.pstack.getLast? with | some (_, l) => l.reverse | none => []
  let run := execList 0 { msg := c.init } prog
  let mrecs := run.1.log.reverse
  let showM (r : AssignRec) : String :=
    s!"d{r.depth} f{if r.flag then 1 else 0} @{r.loc.off} " ++
      (match r.err with | none => "ok" | some e => "err " ++ showErr e) ++ " " ++ showHex r.post
  let showI (o : ProgObs × Bool × String) : String :=
    s!"d{o.1.depth} f{if o.2.1 then 1 else 0} @{o.1.loc.off} {o.2.2} {showHex o.1.post}"
  let ms := mrecs.map showM
  let is := c.precs.reverse.map showI
  let firstDiff := ((ms.zip is).zipIdx.find? fun p => p.1.1 != p.1.2)
  let corr :=
    match firstDiff with
    | some ((m, i), k) => s!"{c.id} CORR diff [program] record {k}: model=[{m}] impl=[{i}]"
    | none =>
      if ms.length != is.length then
        s!"{c.id} CORR diff [program] model executed {ms.length} assignments, implementation {is.length}"
      else if run.1.flag != c.pflag then
        s!"{c.id} CORR diff [program] final flag model={run.1.flag} impl={c.pflag}"
      else if run.1.msg != c.pfinal then
        s!"{c.id} CORR diff [program] final message model=[{showHex run.1.msg}] impl=[{showHex c.pfinal}]"
      else s!"{c.id} CORR ok"
  -- the Spec on what the implementation did
  let obs := c.precs.reverse.map (·.1)
  let bad := (obs.zipIdx.findSome? fun p =>
    (firstFalse (progClauses p.1)).map fun cl => s!"validation_in_force_outside_disable_blocks record {p.2} {cl}")
  let prop :=
    match bad with
    | some b => "fail " ++ b
    | none => if c.pflag then "ok" else "fail validation_restored_after_program"
  let nOut := (obs.filter fun o => o.depth == 0).length
  [corr, s!"{c.id} PROP C09 {prop}", s!"{c.id} PROP TAG outside={nOut} inside={obs.length - nOut}"]

def step (st : Case × List String) (line : String) : Case × List String :=
  let (c, out) := st
  match toks line with
  | ["CASE", id, en] => ({ id := id, en := en == "1" }, out)
  | ["CTX", id] => ({ id := id, isCtx := true }, out)
  | ["PROG", id] => ({ id := id, isProg := true }, out)
  | ["INIT", h] => ({ c with init := hexBytes h }, out)
  | "PS" :: r => (progStep c r, out)
  | "PR" :: r => ({ c with precs := match recOf r with | some x => x :: c.precs | none => c.precs }, out)
  | ["FLAG", b] => ({ c with pflag := b == "1" }, out)
  | ["FINAL", h] => ({ c with pfinal := hexBytes h }, out)
  | "FT" :: r => ({ c with ty := ftyOf r }, out)
  | "KEY" :: r => ({ c with key := keyOf r }, out)
  | "VAL" :: r => ({ c with val := valOf r }, out)
  | ["PRE", h] => ({ c with pre := hexBytes h }, out)
  | ["POST", h] => ({ c with post := hexBytes h }, out)
  | "OBS" :: r => ({ c with obs := r }, out)
  | ["OUT", b] => ({ c with out := b == "1" }, out)
  | "RB" :: r => ({ c with rb := r.map scalarOf }, out)
  | ["MSG", off, pre, post] => ({ c with moff := some (natOf off), mpre := hexBytes pre, mpost := hexBytes post }, out)
  | "EV" :: r => ({ c with evs := r.map evOf }, out)
  | "FLAGS" :: r => ({ c with flags := r.map (· == "1") }, out)
  | ["END"] => ({}, out ++ (if c.isCtx then finishCtx c else if c.isProg then finishProg c else finishSet c))
  | _ => (c, out)

def main : IO Unit := do
  let stdin ← IO.getStdin
  let stdout ← IO.getStdout
  let lines ← readLines stdin
  let mut c : Case := {}
  for l in lines do
    let (c', out) := step (c, []) l
    c := c'
    for o in out do stdout.putStrLn o

end Pyrtma.Drv.Validators
