import Pyrtma.Drv.Util
import Pyrtma.Spec.ClientEntry
/-! Line-protocol driver for the option-plumbing model (see harness/client_entry.py `entry_model_cases`). -/
namespace Pyrtma.Drv.ClientEntry
open Pyrtma.ClientEntry Pyrtma.Drv

def hexVal (c : Char) : Nat :=
  if '0' ≤ c ∧ c ≤ '9' then c.toNat - '0'.toNat
  else if 'a' ≤ c ∧ c ≤ 'f' then c.toNat - 'a'.toNat + 10
  else 0

def hexToString (s : String) : String :=
  if s == "-" then "" else
  let rec go : List Char → List Char
    | a :: b :: r => Char.ofNat (hexVal a * 16 + hexVal b) :: go r
    | _ => []
  String.ofList (go s.toList)

def parseNm : String → Nm
  | "server_name" => .server_name | "logger_status" => .logger_status | "daemon_status" => .daemon_status
  | "allow_multiple" => .allow_multiple | "module_id" => .module_id | "host_id" => .host_id
  | "timecode" => .timecode | "name" => .name | "msg_list" => .msg_list
  | s => .other s.length

/-- `b0 | b1 | i<int> | s<hex> | n` -/
def parseVal (t : String) : Val :=
  match t.toList with
  | 'b' :: r => .b (r == ['1'])
  | 'i' :: r => .i (intOf (String.ofList r))
  | 's' :: r => .s (hexToString (String.ofList r))
  | _ => .none

/-- `P v.. K name v name v ..` -/
def parseActuals (ts : List String) : Actuals Val :=
  let rec kws : List String → List (Nm × Val)
    | n :: v :: r => (parseNm n, parseVal v) :: kws r
    | _ => []
  let rec go (pos : List Val) : List String → Actuals Val
    | "K" :: r => ⟨pos.reverse, kws r⟩
    | "P" :: r => go pos r
    | v :: r => go (parseVal v :: pos) r
    | [] => ⟨pos.reverse, []⟩
  go [] ts

structure Case where
  id : String := ""
  context : Bool := false
  ctor : Actuals Val := ⟨[], []⟩
  connect : Actuals Val := ⟨[], []⟩
  ctx : Actuals Val := ⟨[], []⟩
  mids : Mids := []
  opt : Option Options := none
  impl : Option Wrote := none
  implText : String := ""

def showWrote : Option Wrote → String
  | some w => s!"v2(logger={w.v2.logger} daemon={w.v2.daemon} allow={w.v2.allow} mod_id={w.v2.modId} name={w.v2.name.quote}) " ++
              s!"v1(logger={w.v1logger} daemon={w.v1daemon})"
  | none => "none"

def finishCase (c : Case) : List String :=
  let e : Entry Val := if c.context then .context c.ctx else .direct c.ctor c.connect
  let m := wroteBy c.mids e
  let corr := if m == c.impl then s!"{c.id} CORR ok"
              else s!"{c.id} CORR diff model=[{showWrote m}] impl=[{showWrote c.impl}{if c.impl.isNone then " " ++ c.implText else ""}]"
  let prop := match c.opt, c.impl with
    | some o, some w =>
      (match (honoured c.mids o w).find? (fun x => !x.2) with
       | some x => s!"{c.id} PROP C06 fail options_honoured {x.1}"
       | none => s!"{c.id} PROP C06 ok")
    | some _, none => s!"{c.id} PROP C06 fail options_honoured no_handshake {c.implText}"
    | none, _ => s!"{c.id} PROP C06 skip"
  [corr, prop]

def b01 (s : String) : Bool := s == "1"

def step (c : Case) (line : String) : Case × List String :=
  match toks line with
  | ["ECASE", id, k] => ({ id := id, context := k == "context" }, [])
  | "CALL" :: "ctor" :: r => ({ c with ctor := parseActuals r }, [])
  | "CALL" :: "connect" :: r => ({ c with connect := parseActuals r }, [])
  | "CALL" :: "ctx" :: r => ({ c with ctx := parseActuals r }, [])
  | ["MID", n, i] => ({ c with mids := c.mids ++ [(hexToString n, intOf i)] }, [])
  | ["OPT", l, d, a, i, n] => ({ c with opt := some ⟨b01 l, b01 d, b01 a, intOf i, hexToString n⟩ }, [])
  | ["IMPL", l, d, a, i, n, l1, d1] =>
    ({ c with impl := some ⟨⟨b01 l, b01 d, b01 a, intOf i, hexToString n⟩, b01 l1, b01 d1⟩ }, [])
  | "IMPL" :: "none" :: r => ({ c with impl := none, implText := joinSp r }, [])
  | ["END"] => ({}, finishCase c)
  | _ => (c, [])

def main : IO Unit := do
  let stdin ← IO.getStdin
  let stdout ← IO.getStdout
  let lines ← readLines stdin
  let mut c : Case := {}
  for l in lines do
    let (c', out) := step c l
    c := c'
    for o in out do stdout.putStrLn o

end Pyrtma.Drv.ClientEntry
