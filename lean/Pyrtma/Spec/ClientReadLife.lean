import Pyrtma.Model.ClientReadLife
import Pyrtma.Spec.ClientRead
/-!
# Spec for C08 over several sessions of one `Client` object

The input of a history is, per `connect()`, what the manager puts on the NEW connection (`Wire`: whole frames, an
incomplete remainder, what the peer does then) and, per `read_message`, the arguments.  The observation is, per
call, what the caller can see.  The reads are judged by the clauses of `Spec/ClientRead.lean` in a pre-state the
Spec derives from the *observations* alone: the position in the current connection's stream, `connected`, and the
set of types the client is **currently** subscribed to — which an accepted `connect()` makes empty, whatever earlier
sessions had subscribed to.  Bool-valued functions of (input, observation) only.
-/
namespace Pyrtma.ClientRead

/-- what arrives on one connection -/
structure Wire where
  fs : List Frame
  tail : Bytes
  e : End
deriving Repr, Inhabited

/-- the handshake waits for the ACK like a `read_message(timeout>0, ack=True)` of a client subscribed to nothing -/
def Wire.pre (w : Wire) : Pre := ⟨w.fs, w.tail, w.e, true, ⟨false, []⟩⟩
def hsArgs : Args := ⟨.pos, true, false⟩
def Wire.sock (w : Wire) : Sock := ⟨streamOf w.fs w.tail, w.e⟩

/-- the calls of a history as the Spec sees them (a new connection as frames) -/
inductive SCall where
  | read (tmo : Tmo) (ack sync : Bool)
  | setSub (sub : Sub)
  | connect (w : Wire)
  | disconnect
  | sendFail
deriving Repr, Inhabited

def SCall.toL : SCall → LCall
  | .read t a s => .read t a s
  | .setSub sub => .setSub sub
  | .connect w => .connect w.sock
  | .disconnect => .disconnect
  | .sendFail => .sendFail

def CRes.isNormal : CRes → Bool
  | .joined | .ackTimeout | .unknownType | .invalidDef => true
  | _ => false

def cresMatchesKind : CRes → Kind → Bool
  | .unknownType, .unknown => true
  | .invalidDef, .wrongSize => true
  | .invalidDef, .wrongVersion => true
  | _, _ => false

/-- the tolerated deviation of `Spec/ClientRead.lean` (`drainExc`), for the handshake -/
def drainExcC (cfg : Cfg) (w : Wire) (o : CObs) : Bool :=
  (o.res == .unknownType || o.res == .invalidDef) && w.e == .fin && o.consumed == w.pre.total &&
  w.fs.all (skipF cfg w.pre.sub hsArgs) && tailHasHeader cfg w.tail &&
  cresMatchesKind o.res (kind cfg false (w.tail.take cfg.hsize))

/-- clauses for one `connect()`; all assume `w.pre.wf` -/
def connClauses (cfg : Cfg) (w : Wire) (o : CObs) : List (String × Bool) :=
  [ -- however the handshake ends, whole frames were consumed from the new connection (else the loss is reported)
    ("handshake_whole_frames_consumed",
      !o.res.isNormal || (takeFrames w.fs o.consumed).isSome || drainExcC cfg w o),
    -- ConnectionLost only when the peer is gone and every byte was taken; it leaves the client disconnected; the
    -- client is connected afterwards exactly when `connect()` returned
    ("lost_means_disconnected",
      if o.res == .lost then
        !o.connected && w.e != .idle && o.consumed == w.pre.total && w.fs.all (skipF cfg w.pre.sub hsArgs)
      else !o.res.isNormal || (o.connected == (o.res == .joined))),
    ("documented_outcomes_only",
      o.res != .crash && o.res != .notConnected && (o.res != .blocked || w.e == .idle)) ]

def connOk (cfg : Cfg) (w : Wire) (o : CObs) : Bool := (connClauses cfg w o).all (·.2)

/-- a send on a dead connection: `ConnectionLost`, disconnected; on a disconnected client: `NotConnectedError` -/
def sendFailOk (p : Pre) (o : CObs) : Bool :=
  !o.connected && o.consumed == 0 && (if p.connected then o.res == .lost else o.res == .notConnected)

/-- the client is gone from its connection -/
def Pre.closed (p : Pre) (sub : Sub) : Pre := { p with fs := [], tail := [], e := .fin, connected := false, sub := sub }

/-- the pre-state after a `connect()`, from what it was seen to do.  joined: the position on the new connection,
subscribed to nothing.  `ConnectionLost` / `AcknowledgementTimeout` / a decode error escaping from the handshake: the
client is disconnected from a closed socket, its sets are as they were (empty if `connect()` disconnected first).
`some none`: the judgement of the history ends here (the call hung or crashed); `none`: the position is inside a frame. -/
def connNext (p : Pre) (w : Wire) (o : CObs) : Option (Option Pre) :=
  if o.res == .joined then
    match w.pre.advance ⟨.none, o.consumed, o.connected⟩ with
    | some p' => some (some p')
    | none => none
  else if o.res.isNormal || o.res == .lost then
    some (some (w.pre.closed (if p.connected then ⟨false, []⟩ else p.sub)))
  else some none

/-- The Spec over a whole history of one client object, from pre-state `p` (for a new object: `Pre.never`). -/
def lifeHistOk (cfg : Cfg) : Pre → List SCall → List LOut → Bool
  | _, [], _ => true
  | p, .read tmo ack sync :: cs, .read o :: os =>
    specOk cfg p ⟨tmo, ack, sync⟩ o &&
      (o.res == .blocked ||
        match p.advance o with
        | some p' => lifeHistOk cfg p' cs os
        | none => false)
  | p, .setSub sub :: cs, .unit :: os => lifeHistOk cfg (if p.connected then { p with sub := sub } else p) cs os
  | p, .connect w :: cs, .conn o :: os =>
    connOk cfg w o &&
      (match connNext p w o with
       | some (some p') => lifeHistOk cfg p' cs os
       | some none => true
       | none => false)
  | p, .disconnect :: cs, .unit :: os => lifeHistOk cfg (p.closed ⟨false, []⟩) cs os
  | p, .sendFail :: cs, .conn o :: os =>
    sendFailOk p o && lifeHistOk cfg (if p.connected then p.closed p.sub else p) cs os
  | _, _ :: _, _ => false

/-- a client object that was never connected -/
def Pre.never : Pre := ⟨[], [], .fin, false, ⟨false, []⟩⟩

/-- every new connection of the history is a well-formed input -/
def callsWf (cfg : Cfg) : List SCall → Bool
  | [] => true
  | .connect w :: cs => w.pre.wf cfg && callsWf cfg cs
  | _ :: cs => callsWf cfg cs

end Pyrtma.ClientRead
