import Pyrtma.Model.DataLog
/-!
# Spec of C17 — what the files of a data set must contain after `stop()`

Decidable predicates over the *observable* result only (the list of files of a data set, each decoded to
the sequence of messages in it) and the history of the recording thread.  Used as theorem conclusions
(`Props/C17.lean`) and as the oracle evaluated on what the real code wrote (`Drv/DataLog.lean`).
-/
namespace Pyrtma.DataLog

/-- The messages handed to `update` while recording and not paused whose type the data set selects, in
arrival order.  `p` = paused when the history starts.  Written against the history alone: it does not
look at clocks, deadlines, flushes or the writer. -/
def accepted (sel : Sel) : Bool → List RecOp → List Msg
  | _, [] => []
  | p, .update _ m :: r => (if !p && sel.selects m.ty then [m] else []) ++ accepted sel p r
  | p, .tick _ :: r => accepted sel p r
  | _, .pause _ :: r => accepted sel true r
  | _, .resume _ :: r => accepted sel false r

/-- exactly once, in arrival order: the concatenation of the data set's files is the accepted sequence -/
def complete (acc : List Msg) (files : List (List Msg)) : Bool := files.flatten == acc

/-- finer verdict for the failing-input report (first clause that fails) -/
def verdict (acc : List Msg) (files : List (List Msg)) : String :=
  let w := files.flatten
  if w == acc then "ok"
  else if acc.any (fun m => !w.contains m) then "fail lost"
  else if w.any (fun m => !acc.contains m) then "fail foreign_or_undecodable"
  else if w.length > acc.length then "fail duplicated"
  else "fail reordered"

theorem verdict_ok_iff (acc : List Msg) (files : List (List Msg)) :
    verdict acc files = "ok" ↔ complete acc files = true := by
  unfold verdict complete
  by_cases h : (files.flatten == acc) = true
  · simp [h]
  · simp only [h, Bool.false_eq_true, ↓reduceIte, iff_false]
    repeat' split
    all_goals decide

end Pyrtma.DataLog
