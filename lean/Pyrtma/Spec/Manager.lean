import Pyrtma.Model.Manager
namespace Pyrtma.Mgr.Spec
open Pyrtma.Mgr

def checkAll (_cfg : Cfg) (_rounds : List Round) (_obs : List (List Ev)) (_crash : Option String) :
    List (String × String) := []

end Pyrtma.Mgr.Spec
