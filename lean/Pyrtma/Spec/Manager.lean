import Pyrtma.Model.Manager
/-!
# History-based Spec for the manager properties (C01 C03 C05 C06 C07 C14 C18 C19)

`checkAll cfg rounds obs crash` looks **only** at the externally visible history of one run:
the inputs (`rounds`: accepts, readiness, frames read, socket failures, clock) and the observation
(`obs`: every frame written, every failed write, every close, in order, split per round and — through the
`rd` markers — per frame read).  It never looks at the model's tables.  It replays the history against a small
abstract state (`AMod`: who is alive, connected, which id / flags / name, which types it subscribed to) that is
updated by the *meaning* of the control frames as the property statements give it, and reports, per property, the
first clause that the observation contradicts.

The same function is (1) run by the driver on what the real `MessageManager` did, (2) the subject of the
theorems `Props/C*.lean` (“every run of the model passes”).
-/
namespace Pyrtma.Mgr.Spec
open Pyrtma.Mgr

structure AMod where
  uid : Nat
  alive : Bool := true
  connected : Bool := false
  modId : Int := 0
  unique : Bool := true
  isLogger : Bool := false
  isDaemon : Bool := false
  name : List Nat := []
  pid : Int := 0
  subAll : Bool := false
  types : List Int := []
deriving Repr, Inhabited

structure A where
  mods : List AMod := []
  nAccepted : Nat := 0
  buf : List Nat := []
  fail : List (Nat × FailMode) := []
  w : List Nat := []                     -- the manager's current writable set (stale across idle rounds)
  wAny : List Nat := []                  -- besides `w`: connections that ANY poll of the stretch being judged reported writable (set only inside `checkDeparturesAny`, for the stretch of a round that reads nothing, which spans two polls)
  pubT : List (Int × Nat) := []          -- client-type frames handled since the last TIMING tick
  pubR : List (Int × Nat) := []          -- … since the last TRAFFIC tick
  recvT : List ((Nat × Int) × Nat) := []  -- manager-originated frames of type t seen by observer o since the last TIMING tick
  recvR : List ((Nat × Int) × Nat) := []  -- … since the last TRAFFIC tick
  now : Nat := 0
  tTiming : Nat := 0
  tTraffic : Nat := 0
  tInfo : Nat := 0
  seq : Nat := 1
  errs : List (String × String) := []    -- (property, clause) — first failure per property is reported
deriving Inhabited

def A.err (a : A) (p c : String) : A := { a with errs := a.errs ++ [(p, c)] }
def A.chk (a : A) (ok : Bool) (p c : String) : A := if ok then a else a.err p c
def A.get (a : A) (u : Nat) : Option AMod := a.mods.find? (·.uid == u)
def A.upd (a : A) (u : Nat) (f : AMod → AMod) : A :=
  { a with mods := a.mods.map (fun m => if m.uid == u then f m else m) }
def A.failing (a : A) (u : Nat) : Bool := a.fail.any (·.1 == u)

def subscribed (m : AMod) (t : Int) : Bool := m.subAll || m.types.contains t

/-- can the manager hand `m` a frame right now: it is writable, or it is a logger (waited for) -/
def ready (a : A) (m : AMod) : Bool := a.w.contains m.uid || m.isLogger

def isControl (cfg : Cfg) (t : Int) : Bool :=
  t == cfg.mtConnect || t == cfg.mtConnectV2 || t == cfg.mtDisconnect || t == cfg.mtSubscribe ||
  t == cfg.mtUnsubscribe || t == cfg.mtPause || t == cfg.mtResume || t == cfg.mtSetName || t == cfg.mtModuleReady

/-- types the manager itself originates (their counts are not predictable from the client history alone) -/
def isMgrType (cfg : Cfg) (t : Int) : Bool :=
  t == cfg.mtAck || t == cfg.mtFailed || t == cfg.mtInfo || t == cfg.mtClosed || t == cfg.mtActive ||
  t == cfg.mtTraffic || t == cfg.mtTiming || (cfg.mtLog ≤ t && t ≤ cfg.mtLog + 5)

def sends (evs : List Ev) : List (Nat × Nat × Frame) :=
  evs.filterMap (fun e => match e with | .send u c f => some (u, c, f) | _ => none)

def closes (evs : List Ev) : List Nat := evs.filterMap (fun e => match e with | .close u => some u | _ => none)
def wfails (evs : List Ev) : List Nat := evs.filterMap (fun e => match e with | .wfail u => some u | _ => none)

def count (l : List Nat) (x : Nat) : Nat := (l.filter (· == x)).length

/-! ### splitting one round's events at the `rd` markers -/

def splitRd : List Ev → List Ev × List (Nat × List Ev)
  | [] => ([], [])
  | .rd u :: r =>
    let (pre, segs) := splitRd r
    ([], (u, pre) :: segs)
  | e :: r =>
    let (pre, segs) := splitRd r
    (e :: pre, segs)

/-! ### C07 / C03: departures inside one segment -/

/-- every close is justified, every failed write ends in a close, a departed module is described by exactly one
    CLIENT_CLOSED notice at every observer that can take it -/
def checkDepartures (cfg : Cfg) (a : A) (mustDepart : Option Nat) (evs : List Ev) : A :=
  let xs := closes evs
  let wf := wfails evs
  let a := match mustDepart with
    | some u => a.chk (xs.contains u) "C07" s!"module {u} had to be dropped (disconnect / broken frame / refusal) but its connection was not closed"
    | none => a
  let a := xs.foldl (fun a v =>
      a.chk (mustDepart == some v || wf.contains v) "C07" s!"connection {v} closed although it neither left nor failed") a
  let a := wf.foldl (fun a v =>
      a.chk (xs.contains v) "C07" s!"write to {v} failed but the module was not removed at once") a
  let a := a.chk (xs.all (fun v => count xs v == 1)) "C07" "a connection was closed twice"
  -- CLIENT_CLOSED notices
  let notices := (sends evs).filterMap (fun (p : Nat × Nat × Frame) => match p.2.2.body with
      | .closed v .. => some (p.1, v) | _ => none)
  let a := notices.foldl (fun a (p : Nat × Nat) =>
      a.chk (xs.contains p.2) "C07" s!"CLIENT_CLOSED about {p.2} although it did not leave") a
  -- an observer that itself leaves in this segment is owed nothing
  let observers := a.mods.filter (fun m => m.alive && subscribed m cfg.mtClosed && ready a m && !a.failing m.uid &&
      !xs.contains m.uid)
  let a := xs.foldl (fun a v =>
    observers.foldl (fun a o =>
      if o.uid == v then a
      else a.chk ((notices.filter (fun p => p.1 == o.uid && p.2 == v)).length == 1) "C07"
        s!"observer {o.uid} did not get exactly one CLIENT_CLOSED about {v}") a) a
  -- C14: CLIENT_CLOSED is a message like any other: a subscriber of it that is not ready to accept data (and is not a
  -- logger, which is waited for) is owed a FAILED_MESSAGE naming it, once per departure, at every FAILED_MESSAGE
  -- subscriber that can take it.  Modules that themselves leave in this segment are owed / owe nothing.
  let owed := a.mods.filter (fun m => m.alive && subscribed m cfg.mtClosed && !m.isLogger && !a.w.contains m.uid &&
      !a.wAny.contains m.uid && !xs.contains m.uid)
  let fobs := a.mods.filter (fun m => m.alive && subscribed m cfg.mtFailed && ready a m && !a.failing m.uid &&
      !xs.contains m.uid)
  fobs.foldl (fun a o =>
    owed.foldl (fun a m =>
      let want := xs.length * (owed.filter (·.modId == m.modId)).length
      let got := ((sends evs).filter (fun p => p.1 == o.uid && p.2.2.body == .failed m.modId cfg.mtClosed 0 0)).length
      a.chk (got ≥ want) "C14"
        s!"observer {o.uid} got {got} FAILED_MESSAGE notices about the CLIENT_CLOSED that subscriber id {m.modId} could not be handed, expected at least {want}") a) a

/-- `checkDepartures` for a stretch that spans two polls (`some v`: `v` is what either poll reported writable; the C14
    clause counts as surely not ready only a subscriber in neither `a.w` — the intersection — nor `v`) -/
def checkDeparturesAny (cfg : Cfg) (a : A) (wAny : Option (List Nat)) (mustDepart : Option Nat) (evs : List Ev) : A :=
  match wAny with
  | none => checkDepartures cfg a mustDepart evs
  | some v => { checkDepartures cfg { a with wAny := v } mustDepart evs with wAny := a.wAny }

def applyDepartures (a : A) (evs : List Ev) : A :=
  (closes evs).foldl (fun a v => a.upd v (fun m => { m with alive := false, connected := false })) a

/-! ### C19: acknowledgements inside one segment -/

def checkAcks (cfg : Cfg) (a : A) (u : Nat) (expect : Bool) (evs : List Ev) : A :=
  let acks := (sends evs).filter (fun p => p.2.2.body == .ack)
  let _ := cfg
  if !expect then a.chk acks.isEmpty "C19" s!"an ACKNOWLEDGE was sent although the frame read from {u} must not be acknowledged"
  else
    match a.get u with
    | none => a
    | some m =>
      let a := a.chk (acks.all (fun p => p.2.2.dest == m.modId && p.2.2.src == 0)) "C19"
        s!"ACKNOWLEDGE not addressed to the sending module id {m.modId}"
      let toU := (acks.filter (·.1 == u)).length
      let a :=
        if a.failing u then a
        else a.chk (toU == 1 + (if m.isLogger then 1 else 0)) "C19"
          s!"sender {u} got {toU} ACKNOWLEDGE frames for one control frame"
      let a := a.mods.foldl (fun a l =>
          if l.uid == u || !l.alive then a
          else
            let n := (acks.filter (·.1 == l.uid)).length
            if l.isLogger && l.connected then
              if a.failing l.uid then a
              -- a sender whose own connection is broken may be gone before its request is acknowledged: then there is
              -- no acknowledgement to copy
              else if a.failing u then a.chk (n ≤ 1) "C19" s!"logger {l.uid} got {n} copies of the ACKNOWLEDGE"
              else a.chk (n == 1) "C19" s!"logger {l.uid} got {n} copies of the ACKNOWLEDGE"
            else a.chk (n == 0) "C19" s!"module {l.uid} (not a logger) received an ACKNOWLEDGE meant for {u}") a
      a

/-! ### C01 / C14: one data frame -/

def destOK (h : Hdr) (m : AMod) : Bool := h.dest == 0 || m.modId == h.dest || m.isLogger

def checkData (cfg : Cfg) (a : A) (h : Hdr) (evs : List Ev) : A :=
  let t := h.mtype
  let inRange := !(h.dest < 0 || h.dest > cfg.maxModules || h.destHost < 0 || h.destHost > cfg.maxHosts)
  let copies := (sends evs).filter (fun p => match p.2.2.body with | .data _ => true | _ => false)
  let mine := copies.filter (fun p => p.2.2.body == .data h.k)
  let a := a.chk (copies.length == mine.length) "C01" "a data frame other than the one just read was delivered"
  let a := a.chk (mine.all (fun p => p.2.2.mtype == t && p.2.2.src == h.src && p.2.2.dest == h.dest &&
      p.2.2.destHost == h.destHost && (p.2.2.nbytes : Int) == h.nbytes)) "C01" "a delivered copy differs from the published frame"
  if t == cfg.allTypes then a else
  let subs := a.mods.filter (fun m => m.alive && subscribed m t)
  let expected := if inRange then subs.filter (fun m => ready a m && destOK h m && !a.failing m.uid) else []
  let a := expected.foldl (fun a m =>
      a.chk ((mine.filter (·.1 == m.uid)).length == 1) "C01"
        s!"eligible subscriber {m.uid} got {(mine.filter (·.1 == m.uid)).length} copies of frame {h.k} (type {t})") a
  let a := mine.foldl (fun a p =>
      a.chk (expected.any (·.uid == p.1)) "C01" s!"module {p.1} received frame {h.k} (type {t}) although it is not an eligible recipient") a
  -- C14: undeliverable ⇒ FAILED_MESSAGE naming the subscriber, to every FAILED_MESSAGE subscriber that can take it
  if !inRange || inGuard cfg t then a else
  -- A subscriber that is not writable is always owed a notice.  A subscriber whose connection fails is owed one when
  -- the failure is met while *this* frame is being written to it; if it also listens to the manager's own notices
  -- (CLIENT_CLOSED, FAILED_MESSAGE, RTMA_LOG*, or everything) it may already have been dropped earlier in the same
  -- delivery while such a notice was written to it, and is then no longer a subscriber when its turn comes.
  let hearsNotices := fun (m : AMod) => m.subAll || m.types.any (fun ty => ty == cfg.mtClosed || inGuard cfg ty)
  let undeliv := subs.filter (fun m => (h.dest == 0 || m.modId == h.dest) &&
      ((!m.isLogger && !a.w.contains m.uid) || (ready a m && a.failing m.uid && !hearsNotices m)))
  let observers := a.mods.filter (fun m => m.alive && subscribed m cfg.mtFailed && ready a m && !a.failing m.uid)
  let a := observers.foldl (fun a o =>
    undeliv.foldl (fun a m =>
      let want := (undeliv.filter (·.modId == m.modId)).length
      let got := ((sends evs).filter (fun p => p.1 == o.uid && p.2.2.body == .failed m.modId t h.src h.dest)).length
      a.chk (got ≥ want) "C14" s!"observer {o.uid} got {got} FAILED_MESSAGE notices about subscriber id {m.modId} for frame {h.k}, expected at least {want}") a) a
  -- the others are still served: part of C01 above
  a

/-! ### C06: the connect decision -/

structure Req where
  v2 : Bool
  modId : Int
  unique : Bool
  isLogger : Bool
  isDaemon : Bool := false
  pid : Int
  name : Option (List Nat)      -- `none` = not decodable as ascii

def reqOf (cfg : Cfg) (m : AMod) (h : Hdr) (buf : List Nat) : Req :=
  if h.mtype == cfg.mtConnectV2 then
    { v2 := true, modId := bufI16 buf 6, unique := bufI16 buf 4 == 0, isLogger := bufI16 buf 0 == 1,
      isDaemon := bufI16 buf 2 == 1, pid := bufI32 buf 8, name := cstr buf 12 32 }
  else { v2 := false, modId := h.src, unique := m.unique, isLogger := bufI16 buf 0 == 1, isDaemon := bufI16 buf 2 == 1,
         pid := m.pid, name := some m.name }

/-- refusal the property statement demands -/
def mustRefuse (cfg : Cfg) (a : A) (u : Nat) (r : Req) (nm : List Nat) : Bool :=
  r.modId != 0 &&
  (r.modId < 1 || r.modId > cfg.dynStart ||
   a.mods.any (fun o => o.alive && o.uid != u && o.connected && o.modId == r.modId && (o.unique || r.unique)) ||
   a.mods.any (fun o => o.alive && o.uid != u && !nm.isEmpty && o.unique && o.name == nm))

/-- refusal the property statement tolerates (the code also refuses a *unique* newcomer that reuses the name of a
    non-unique module, and compares with the manager's own entry) -/
def mayRefuse (cfg : Cfg) (a : A) (u : Nat) (r : Req) (nm : List Nat) : Bool :=
  mustRefuse cfg a u r nm ||
  (r.modId != 0 && (nm == "message_manager".toList.map (·.toNat) ||
    a.mods.any (fun o => o.alive && o.uid != u && !nm.isEmpty && r.unique && o.name == nm)))

def dynFull (cfg : Cfg) (a : A) : Bool :=
  let used := (a.mods.filter (·.alive)).map (·.modId)
  (List.range (maxDyn cfg)).all (fun i => used.contains (cfg.dynStart + (i : Int)))

/-- returns the updated abstract state and whether the connect was accepted (`none`: not observable — the requester's
    own socket is broken, so neither an ACKNOWLEDGE nor its absence can be seen; it is dropped either way) -/
def checkConnect (cfg : Cfg) (a : A) (u : Nat) (m : AMod) (h : Hdr) (evs : List Ev) : A × Option Bool :=
  let r := reqOf cfg m h a.buf
  let acks := (sends evs).filter (fun p => p.2.2.body == .ack)
  if acks.isEmpty && a.failing u then (a, none) else
  let observedAccept := !acks.isEmpty
  match r.name with
  | none => (a.chk (!observedAccept) "C03" "a connect request with a non-ascii name was accepted", some false)
  | some nm =>
    if r.modId != 0 then
      let must := mustRefuse cfg a u r nm
      let may := mayRefuse cfg a u r nm
      let a := a.chk (!(must && observedAccept)) "C06" s!"connect of {u} with id {r.modId} had to be refused (id out of range / id or name of a unique module in use) but was accepted"
      let a := a.chk (may || observedAccept) "C06" s!"connect of {u} with id {r.modId} was refused without reason"
      -- C07: the id (and name) of a departed client can be reused immediately
      let a := a.chk (may || observedAccept || !(a.mods.any (fun o => !o.alive && (o.modId == r.modId || (!nm.isEmpty && o.name == nm))))) "C07"
        s!"connect of {u} with id {r.modId} was refused although the only holder of that id / name has departed"
      if observedAccept then
        (a.upd u (fun m => { m with connected := true, modId := r.modId, unique := r.unique, isLogger := r.isLogger,
                                     isDaemon := r.isDaemon, pid := r.pid, name := nm }), some true)
      else (a, some false)
    else
      if observedAccept then
        let id := match acks.head? with | some p => p.2.2.dest | none => -1
        let a := a.chk (cfg.dynStart ≤ id && id < cfg.maxModules) "C06" s!"dynamic id {id} outside [{cfg.dynStart}, {cfg.maxModules})"
        let a := a.chk (!(a.mods.any (fun o => o.alive && o.uid != u && o.modId == id))) "C06" s!"dynamic id {id} is already held by a live module"
        (a.upd u (fun m => { m with connected := true, modId := id, unique := r.unique, isLogger := r.isLogger,
                                     isDaemon := r.isDaemon, pid := r.pid, name := nm }), some true)
      else
        let a := a.chk (dynFull cfg a) "C06" s!"connect of {u} asking for a dynamic id was refused although ids are free"
        let a := a.chk (dynFull cfg a || !(a.mods.any (fun o => !o.alive && cfg.dynStart ≤ o.modId))) "C07"
          s!"connect of {u} asking for a dynamic id was refused although dynamic ids were given back by departed clients"
        (a, some false)

/-- every CLIENT_INFO frame describes its module as the abstract state has it (options took effect as named) -/
def checkInfos (a : A) (evs : List Ev) : A :=
  (sends evs).foldl (fun a p => match p.2.2.body with
    | .info v pid mid lg uq nm =>
      match a.get v with
      | some m =>
        if !m.connected then a
        else a.chk (mid == m.modId && lg == m.isLogger && uq == m.unique && nm == m.name && pid == m.pid) "C06"
          s!"CLIENT_INFO about {v} reports id/logger/unique/name/pid ({mid},{lg},{uq},{pid}) but the module connected with ({m.modId},{m.isLogger},{m.unique},{m.pid})"
      | none => a
    | _ => a) a

/-! ### one frame read -/

def ctrBump (c : List (Int × Nat)) (t : Int) : List (Int × Nat) := ctrInc c t

def segment (cfg : Cfg) (a : A) (rd : Read) (evs : List Ev) : A :=
  let u := rd.uid
  match a.get u with
  | none => a.err "C07" s!"the manager read from unknown connection {u}"
  | some m =>
  if !m.alive then a.err "C07" s!"the manager read from departed connection {u}" else
  let h := rd.h
  let broken := rd.hdrErr || !rd.hdrOk || h.nbytes < 0 || h.nbytes > cfg.bufMax ||
                (h.nbytes > 0 && (rd.payErr || (rd.avail : Int) < h.nbytes))
  -- what the payload read leaves in the buffer
  let a := if rd.hdrErr || !rd.hdrOk || h.nbytes ≤ 0 || h.nbytes > cfg.bufMax || rd.payErr then a
           else { a with buf := bufWrite a.buf rd.pay (min rd.avail h.nbytes.toNat) }
  -- a client that leaves on the read side (EOF, reset, death inside a frame, unreadable length) or says DISCONNECT is no
  -- recipient from that moment: nothing is written to, or attempted on, its connection while its departure is handled
  let touched := evs.any (fun e => match e with
    | .send v _ _ => v == u | .partialW v => v == u | .wfail v => v == u | _ => false)
  if broken then
    let a := a.chk (!touched) "C07" s!"connection {u} left (EOF / reset / broken frame) but was still written to while its departure was handled"
    let a := checkAcks cfg a u false evs
    applyDepartures (checkDepartures cfg a (some u) evs) evs
  else
  let t := h.mtype
  if t == cfg.mtConnect || t == cfg.mtConnectV2 then
    if m.connected then
      let a := checkAcks cfg a u false evs
      applyDepartures (checkDepartures cfg a none evs) evs
    else
      match checkConnect cfg a u m h evs with
      | (a, none) =>
        -- either refused, or accepted and dropped when the ACK could not be written: closed in both cases
        applyDepartures (checkDepartures cfg a (some u) evs) evs
      | (a, some ok) =>
        let a := checkAcks cfg a u ok evs
        let a := checkDepartures cfg a (if ok then none else some u) evs
        applyDepartures (checkInfos a evs) evs
  else if t == cfg.mtDisconnect then
    let a := a.chk (!touched) "C07" s!"connection {u} sent DISCONNECT but was still written to while its departure was handled"
    let a := checkAcks cfg a u false evs
    applyDepartures (checkDepartures cfg a (some u) evs) evs
  else if t == cfg.mtSubscribe || t == cfg.mtResume || t == cfg.mtUnsubscribe || t == cfg.mtPause then
    let ty := bufI32 a.buf 0
    let add := t == cfg.mtSubscribe || t == cfg.mtResume
    let a := a.upd u (fun m =>
      if ty == cfg.allTypes then (if add then { m with subAll := true, types := [] } else { m with subAll := false, types := [] })
      else if m.subAll then m
      else if add then { m with types := if m.types.contains ty then m.types else m.types ++ [ty] }
      else { m with types := m.types.filter (· != ty) })
    let a := checkAcks cfg a u true evs
    applyDepartures (checkDepartures cfg a none evs) evs
  else if t == cfg.mtSetName then
    match cstr a.buf 0 32 with
    | none =>
      let a := checkAcks cfg a u false evs
      applyDepartures (checkDepartures cfg a (some u) evs) evs
    | some nm =>
      let a := a.upd u (fun m => { m with name := nm })
      let a := checkAcks cfg a u false evs
      applyDepartures (checkInfos (checkDepartures cfg a none evs) evs) evs
  else if t == cfg.mtModuleReady then
    let a := a.upd u (fun m => { m with pid := bufI32 a.buf 0 })
    let a := checkAcks cfg a u false evs
    applyDepartures (checkInfos (checkDepartures cfg a none evs) evs) evs
  else
    let a := checkAcks cfg a u false evs
    let a := checkData cfg a h evs
    let a := if isMgrType cfg t then a else { a with pubT := ctrBump a.pubT t, pubR := ctrBump a.pubR t }
    applyDepartures (checkDepartures cfg a none evs) evs

def bumpRecv (c : List ((Nat × Int) × Nat)) (k : Nat × Int) : List ((Nat × Int) × Nat) :=
  if c.any (·.1 == k) then c.map (fun p => if p.1 == k then (p.1, p.2 + 1) else p) else c ++ [(k, 1)]

/-- manager-originated frames (not copies of client frames, not the statistics themselves) written in `evs`: each one was
    handled by `forward_message` outside the statistics context, so each observer's tally is a lower bound of the count -/
def noteMgrFrames (cfg : Cfg) (a : A) (evs : List Ev) : A :=
  (sends evs).foldl (fun a p =>
    match p.2.2.body with
    | .data _ | .ack | .timing .. | .traffic .. => a
    | _ =>
      let _ := cfg
      { a with recvT := bumpRecv a.recvT (p.1, p.2.2.mtype), recvR := bumpRecv a.recvR (p.1, p.2.2.mtype) }) a

/-! ### the periodic statistics (C18) -/

def checkTiming (cfg : Cfg) (a : A) (evs : List Ev) : A :=
  (sends evs).foldl (fun a p => match p.2.2.body with
    | .timing cs ps =>
      -- client types: exactly the number handled since the previous report (mod 2^16), nothing else
      let a := a.pubT.foldl (fun a q =>
          if 0 ≤ q.1 && q.1 < cfg.maxTypes then
            let want := q.2 % 65536
            let got := match cs.find? (·.1 == q.1) with | some e => e.2 | none => 0
            a.chk (got == want) "C18" s!"TIMING_MESSAGE reports {got} messages of type {q.1}, {want} were handled"
          else a) a
      let a := cs.foldl (fun a e =>
          if isMgrType cfg e.1 || isControl cfg e.1 then a
          else a.chk (a.pubT.any (·.1 == e.1)) "C18" s!"TIMING_MESSAGE attributes {e.2} messages to type {e.1}, none was handled") a
      -- the manager's own messages are handled for forwarding too: what one observer received is a lower bound
      let a := a.recvT.foldl (fun a q =>
          if 0 ≤ q.1.2 && q.1.2 < cfg.maxTypes && q.2 < 65536 then
            let got := match cs.find? (·.1 == q.1.2) with | some e => e.2 | none => 0
            a.chk (got ≥ q.2) "C18" s!"TIMING_MESSAGE reports {got} messages of type {q.1.2}, observer {q.1.1} alone received {q.2}"
          else a) a
      -- process ids of connected modules with a non-zero id held by a single module
      a.mods.foldl (fun a m =>
        -- a module closed in the same stretch of events may have been dropped *by* the report's own delivery,
        -- i.e. after the payload was built: it still counts as a holder of its id
        if m.alive && m.connected && m.modId != 0 && m.pid != 0 &&
           ((a.mods.filter (fun o => (o.alive || (closes evs).contains o.uid) && o.modId == m.modId)).length == 1) then
          a.chk (ps.contains (m.modId, m.pid)) "C18" s!"TIMING_MESSAGE does not report pid {m.pid} for module id {m.modId}"
        else a) a
    | _ => a) a

def checkTraffic (cfg : Cfg) (a : A) (evs : List Ev) : A :=
  let tr := (sends evs).filterMap (fun p => match p.2.2.body with
    | .traffic sq sb ts cs => some (p.1, sq, sb, ts, cs) | _ => none)
  let observers := (tr.map (·.1)).eraseDups
  -- something was handled in this interval: every subscriber of MESSAGE_TRAFFIC that can take it gets the report
  let xs := closes evs
  let owed := a.mods.filter (fun m => m.alive && subscribed m cfg.mtTraffic && ready a m && !a.failing m.uid && !xs.contains m.uid)
  let a := if (a.pubR.filter (·.1 != -1)).isEmpty then a else
    owed.foldl (fun a m =>
      a.chk (observers.contains m.uid) "C18"
        s!"{(a.pubR.filter (·.1 != -1)).length} message types were handled in this interval but subscriber {m.uid} got no MESSAGE_TRAFFIC") a
  observers.foldl (fun a o =>
    let mine := tr.filter (·.1 == o)
    let subsOk := (mine.map (·.2.2.1)) == (List.range mine.length).map (· + 1)
    let a := a.chk subsOk "C18" s!"MESSAGE_TRAFFIC sub_seqno sequence at observer {o} is {mine.map (·.2.2.1)}"
    let a := a.chk (mine.all (·.2.1 == a.seq)) "C18" s!"MESSAGE_TRAFFIC seqno is not {a.seq} for the whole interval"
    let entries := mine.flatMap (fun r => (List.zip r.2.2.2.1 r.2.2.2.2).filter (fun e => e.1 != -1))
    let a := a.chk (mine.all (fun r => r.2.2.2.1.length == cfg.trafficSize && r.2.2.2.2.length == cfg.trafficSize)) "C18"
      "MESSAGE_TRAFFIC arrays do not have MESSAGE_TRAFFIC_SIZE slots"
    let tys := entries.map (·.1)
    let a := a.chk (tys.eraseDups.length == tys.length) "C18" s!"a message type is listed twice in one MESSAGE_TRAFFIC interval: {tys}"
    let a := (a.pubR.filter (·.1 != -1)).foldl (fun a q =>       -- type -1 is the filler value of the message format
        let got := (entries.filter (·.1 == q.1)).map (·.2)
        a.chk (got == [q.2 % 65536]) "C18" s!"MESSAGE_TRAFFIC lists type {q.1} with counts {got}, {q.2} were handled") a
    let a := entries.foldl (fun a e =>
        if isMgrType cfg e.1 || isControl cfg e.1 then a
        else a.chk (a.pubR.any (·.1 == e.1)) "C18" s!"MESSAGE_TRAFFIC attributes {e.2} messages to type {e.1}, none was handled") a
    a.recvR.foldl (fun a q =>
        if q.2 < 65536 then
          let got := ((entries.filter (·.1 == q.1.2)).map (·.2)).foldl (· + ·) 0
          a.chk (got ≥ q.2) "C18" s!"MESSAGE_TRAFFIC reports {got} messages of type {q.1.2}, observer {q.1.1} alone received {q.2}"
        else a) a) a

/-- the part of a round after the last frame read: periodic messages -/
def tail (cfg : Cfg) (a : A) (evs : List Ev) : A :=
  let tick1 := cfg.timing && a.now - a.tTiming > cfg.pTiming
  let a := if tick1 then checkTiming cfg a evs else a.chk (!(sends evs).any (fun p => match p.2.2.body with | .timing .. => true | _ => false)) "C18" "TIMING_MESSAGE sent before its period elapsed"
  let a := if tick1 then { a with pubT := [], recvT := [], tTiming := a.now } else a
  let tick2 := a.now - a.tTraffic > cfg.pTraffic
  let a := if tick2 then checkTraffic cfg a evs else a
  let a := if tick2 then { a with pubR := [], recvR := [], tTraffic := a.now, seq := a.seq + 1 } else a
  let a := if a.now - a.tInfo > cfg.pInfo then { a with tInfo := a.now } else a
  a

/-! ### one round -/

/-! ### C14: a notice is never invented -/

/-- Every FAILED_MESSAGE written while one frame is handled reports a delivery that was really under way: it names a
module of the table and carries the type, source and destination either of the data frame just read (the frame being
forwarded) or of a message the manager itself originates (source 0; destination 0, or — for an ACKNOWLEDGE — the
requester).  `rd = none`: the stretch before the first read of a round and the periodic section. -/
def noticeJustified (cfg : Cfg) (a : A) (rd : Option Read) (f : Frame) : Bool :=
  match f.body with
  | .failed dm t s d =>
    let own := isMgrType cfg t && s == 0 && (d == 0 || t == cfg.mtAck)
    let fwd := match rd with
      | none => false
      | some r =>
        let h := r.h
        !r.hdrErr && r.hdrOk && !isControl cfg h.mtype && t == h.mtype && s == h.src && d == h.dest
    let connecting := match rd with
      | some r => r.h.mtype == cfg.mtConnect || r.h.mtype == cfg.mtConnectV2
      | none => false
    (own || fwd) && (connecting || a.mods.any (fun m => m.alive && m.modId == dm))
  | _ => true

def checkNoticeOrigin (cfg : Cfg) (a : A) (rd : Option Read) (evs : List Ev) : A :=
  match (sends evs).find? (fun p => !noticeJustified cfg a rd p.2.2) with
  | none => a
  | some p =>
    match p.2.2.body with
    | .failed dm t s d =>
      a.err "C14" s!"a FAILED_MESSAGE sent to {p.1} names subscriber id {dm} and carries type {t}, source {s}, destination {d}: no such delivery was under way"
    | _ => a

/-- C14: “a logger module is waited for instead of being skipped”: a logger that subscribes to the type of the data frame
being forwarded gets its copy also when its connection was not ready to accept data in this round (whatever the destination
of the frame: loggers hear addressed messages too). -/
def checkLoggerWaited (cfg : Cfg) (a : A) (rd : Read) (evs : List Ev) : A :=
  match a.get rd.uid with
  | none => a
  | some m =>
    let h := rd.h
    let broken := rd.hdrErr || !rd.hdrOk || h.nbytes < 0 || h.nbytes > cfg.bufMax ||
                  (h.nbytes > 0 && (rd.payErr || (rd.avail : Int) < h.nbytes))
    let t := h.mtype
    let inRange := !(h.dest < 0 || h.dest > cfg.maxModules || h.destHost < 0 || h.destHost > cfg.maxHosts)
    if !m.alive || broken || isControl cfg t || !inRange || t == cfg.allTypes then a else
    let mine := (sends evs).filter (fun p => p.2.2.body == .data h.k)
    (a.mods.filter (fun l => l.alive && l.isLogger && subscribed l t && !a.w.contains l.uid && !a.failing l.uid)).foldl
      (fun a l => a.chk (mine.any (·.1 == l.uid)) "C14"
        s!"logger {l.uid} was not ready to accept data when frame {h.k} (type {t}, destination {h.dest}) was delivered and was skipped instead of waited for") a

/-- everything of one round but the periodic section: returns the state and the events of the round's last stretch -/
def roundBody (cfg : Cfg) (a : A) (r : Round) (evs : List Ev) : A × List Ev :=
  -- a failure mode can only be given to a connection that exists when the round starts
  let a : A := { a with now := a.now + r.dt,
                        fail := (r.failSet.filter (·.1 ≤ a.nAccepted)).foldl (fun fl (p : Nat × Option FailMode) => setFail fl p.1 p.2) a.fail }
  let liveBefore := (a.mods.filter (·.alive)).map (·.uid)
  let reads := r.reads.filter (fun rd => liveBefore.contains rd.uid)
  let a := if r.accept then { a with nAccepted := a.nAccepted + 1, mods := a.mods ++ [{ uid := a.nAccepted + 1 }] } else a
  let live := (a.mods.filter (·.alive)).map (·.uid)
  -- the writable set this round's poll leaves (the manager polls only when there is something to read)
  let wNew := if r.accept || !reads.isEmpty then (if reads.isEmpty then [] else r.writable.filter (live.contains ·)) else a.w
  let (pre, segs) := splitRd evs
  -- `pre`: the accept branch (its INFO log line and everything nested in it) runs BEFORE this round's poll: readiness
  -- there is what the PREVIOUS poll left (`a.w`).  When no frame is read in the round `pre` is the whole round — the
  -- accept branch, then (after the poll) the periodic section — and only a connection that is ready by both polls is
  -- counted as ready.  Nothing may be closed there without a failed write.
  -- … as far as LOWER bounds for observers go.  Who is surely NOT ready (owed a FAILED_MESSAGE about an undeliverable
  -- CLIENT_CLOSED) is the other way round: only a connection that NEITHER poll reported writable (`wAny`: the union).
  let aP : A := if segs.isEmpty then { a with w := a.w.filter (wNew.contains ·) } else a
  let wU : Option (List Nat) := if segs.isEmpty then some (a.w ++ wNew) else none
  let aP := aP.chk ((closes pre).isEmpty || !(wfails pre).isEmpty) "C07" "a connection was closed before any frame was read in this round"
  let aP := applyDepartures (checkDeparturesAny cfg (checkNoticeOrigin cfg aP none pre) wU none pre) pre
  let a : A := { aP with w := wNew }
  -- every frame the script delivers to a live connection is read, in order, unless its connection died earlier in the round
  let rec go (a : A) (reads : List Read) (segs : List (Nat × List Ev)) (fuel : Nat) : A :=
    match fuel, reads, segs with
    | 0, _, _ => a
    | _, [], [] => a
    | _, [], (u, _) :: _ => a.err "C03" s!"the manager read from {u} although nothing was pending there"
    | fuel + 1, rd :: rest, segs =>
      match a.get rd.uid with
      | some m =>
        if !m.alive then go a rest segs fuel      -- `if src:` — removed earlier in this round
        else match segs with
          | (u, evs) :: segs' =>
            if u != rd.uid then a.err "C05" s!"expected the frame from {rd.uid} to be read next, the manager read from {u}"
            else
              -- the last segment of the round also contains the periodic messages
              go (segment cfg (checkLoggerWaited cfg (checkNoticeOrigin cfg a (some rd) evs) rd evs) rd evs) rest segs' fuel
          | [] => a.err "C03" s!"the frame pending on live connection {rd.uid} was never read"
      | none => go a rest segs fuel
  let a := go a reads segs (reads.length + segs.length + 1)
  -- tally the manager's own frames of every stretch but the last (the last one also holds the periodic section, whose
  -- nested notices are sent inside the statistics context and are not counted)
  let a := if segs.isEmpty then a else (pre :: (segs.dropLast.map (·.2))).foldl (noteMgrFrames cfg) a
  let lastEvs := match segs.getLast? with | some s => s.2 | none => pre
  (a, lastEvs)

def round (cfg : Cfg) (a : A) (r : Round) (evs : List Ev) : A :=
  let p := roundBody cfg a r evs
  tail cfg p.1 p.2

/-- the round in which `run()` was terminated: what was handled before the exception is judged like any other round (a
frame whose delivery was cut short leaves its obligations — copies, acknowledgement, notices — unmet); the periodic section,
which was never reached, is not judged -/
def roundCrashed (cfg : Cfg) (a : A) (r : Round) (evs : List Ev) : A := (roundBody cfg a r evs).1

/-! ### whole-history checks (C05) -/

def countsOf (evs : List Ev) (u : Nat) : List Nat :=
  evs.filterMap (fun e => match e with | .send v c _ => if v == u then some c else none | _ => none)

def dataKs (evs : List Ev) (u : Nat) : List Nat :=
  evs.filterMap (fun e => match e with
    | .send v _ f => if v == u then (match f.body with | .data k => some k | _ => none) else none
    | _ => none)

def isIota (l : List Nat) : Bool := l == (List.range l.length).map (· + 1)

/-- a frame the harness could not decode as a frame of its type (payload length different from the header's, header of
    the wrong size, undecodable body) is reported by the driver as `.log 999` -/
def brokenFrame (f : Frame) : Bool := f.body == .log 999

def checkC05 (a : A) (all : List Ev) (senderOf : Nat → Nat) : A :=
  let broken := (sends all).filter (fun p => brokenFrame p.2.2)
  let a := a.chk broken.isEmpty "C05" s!"a frame whose payload does not match its header (type {(broken.head?.map (·.2.2.mtype)).getD 0}) was written to connection {(broken.head?.map (·.1)).getD 0}"
  let a := a.chk broken.isEmpty "C03" s!"connection {(broken.head?.map (·.1)).getD 0} was sent a malformed frame (header type {(broken.head?.map (·.2.2.mtype)).getD 0}, payload of another message): a client that did nothing wrong is thrown out of frame"
  let uids := ((sends all).map (·.1)).eraseDups
  let a := uids.foldl (fun a u =>
      let a := a.chk (isIota (countsOf all u)) "C05" s!"msg_count sequence on connection {u} is {(countsOf all u).take 12} (must be 1,2,3,…)"
      -- nothing is written to a connection after a write to it failed or it was closed
      let after := (all.dropWhile (fun e => !(e == .wfail u || e == .close u))).drop 1
      a.chk (!(sends after).any (·.1 == u)) "C07" s!"frames were written to connection {u} after it failed / was closed") a
  -- per sender FIFO at each receiver
  let a := uids.foldl (fun a u =>
      let ks := dataKs all u
      let bySender := (ks.map senderOf).eraseDups
      bySender.foldl (fun a s =>
        let mine := ks.filter (fun k => senderOf k == s)
        a.chk (mine.zip (mine.drop 1) |>.all (fun p => p.1 ≤ p.2)) "C05" s!"receiver {u} got the frames of sender {s} out of order: {mine.take 10}") a) a
  -- consistent relative order between any two receivers
  uids.foldl (fun a u =>
    uids.foldl (fun a v =>
      if u ≥ v then a
      else
        let ku := dataKs all u
        let kv := dataKs all v
        a.chk (ku.filter (kv.contains ·) == kv.filter (ku.contains ·)) "C05" s!"receivers {u} and {v} saw their common frames in different orders") a) a

/-- C14: a failure to deliver a notice or a log message never produces a further notice -/
def aboutNotice (cfg : Cfg) (f : Frame) : Bool :=
  match f.body with
  | .failed _ t _ _ => inGuard cfg t
  | _ => false

def checkNoNoticeAboutNotices (cfg : Cfg) (a : A) (all : List Ev) : A :=
  a.chk (!(sends all).any (fun p => aboutNotice cfg p.2.2)) "C14"
    "a FAILED_MESSAGE reports the failed delivery of a FAILED_MESSAGE or RTMA_LOG message"

def props : List String := ["C01", "C03", "C05", "C06", "C07", "C14", "C18", "C19"]

/-- one row of the manager's module table when the script is exhausted -/
structure FinalRow where
  uid : Nat
  modId : Int
  unique : Bool
  isLogger : Bool
  isDaemon : Bool
  connected : Bool
  pid : Int
  name : List Nat
  subs : List Int
deriving Repr, Inhabited

/-- C07 / C06 on the tables the manager is left with: a departed connection is in the module table no more (its id and
    name are free), every live one still is, and what the manager recorded about a connected module is what its connect
    request said — id, uniqueness, logger and daemon flags, pid, name -/
def checkFinal (a : A) (rows : List FinalRow) : A :=
  let a := rows.foldl (fun a r =>
    if r.uid == 0 then a else
    match a.get r.uid with
    | some m => a.chk m.alive "C07" s!"connection {r.uid} has departed but is still in the module table when the script ends"
    | none => a.err "C07" s!"the module table holds connection {r.uid}, which was never accepted") a
  let a := a.mods.foldl (fun a m =>
    if m.alive then a.chk (rows.any (·.uid == m.uid)) "C07" s!"live connection {m.uid} is missing from the module table when the script ends"
    else a) a
  rows.foldl (fun a r =>
    match a.get r.uid with
    | some m =>
      if m.alive && m.connected then
        a.chk (r.connected && r.modId == m.modId && r.unique == m.unique && r.isLogger == m.isLogger &&
               r.isDaemon == m.isDaemon && r.name == m.name && r.pid == m.pid) "C06"
          s!"the manager records (id,unique,logger,daemon,pid,connected) = ({r.modId},{r.unique},{r.isLogger},{r.isDaemon},{r.pid},{r.connected}) for connection {r.uid}; it connected with ({m.modId},{m.unique},{m.isLogger},{m.isDaemon},{m.pid})"
      else a
    | none => a) a

def runSpec (cfg : Cfg) (rounds : List Round) (obs : List (List Ev)) (crash : Option String) : A :=
  let a0 : A := {}
  let a := match crash with
    | some w => a0.err "C03" s!"MessageManager.run() was terminated by {w}"
    | none => a0
  -- a manager that dies in a round in which a client left (or a write to a client failed) has let that departure affect
  -- everybody else; what it did in that round before it died is judged by `roundCrashed` below
  let a := match crash with
    | none => a
    | some w =>
      let lastEvs := obs.getLast?.getD []
      if !(closes lastEvs).isEmpty || !(wfails lastEvs).isEmpty then
          a.err "C07" s!"the manager was terminated by {w} in the round in which connection {(wfails lastEvs ++ closes lastEvs).head?.getD 0} departed: the remaining clients are no longer served"
      else a
  let a := a.chk (obs.length == rounds.length + 1 || crash.isSome) "C03" "the manager did not play every round of the script"
  let pairs := List.zip rounds (obs.drop 1)
  let a := match crash with
    | none => pairs.foldl (fun a p => round cfg a p.1 p.2) a
    | some _ =>
      let a := pairs.dropLast.foldl (fun a p => round cfg a p.1 p.2) a
      match pairs.getLast? with
      | some p => roundCrashed cfg a p.1 p.2
      | none => a
  let all := obs.flatten
  let senderTbl : List (Nat × Nat) := rounds.flatMap (fun r => r.reads.map (fun rd => (rd.h.k, rd.uid)))
  let senderOf := fun k => match senderTbl.find? (·.1 == k) with | some p => p.2 | none => 0
  let a := checkC05 a all senderOf
  checkNoNoticeAboutNotices cfg a all

def verdicts (a : A) : List (String × String) :=
  props.map (fun p => match a.errs.find? (·.1 == p) with
    | some e => (p, "fail " ++ e.2)
    | none => (p, "ok"))

def checkAll (cfg : Cfg) (rounds : List Round) (obs : List (List Ev)) (crash : Option String) : List (String × String) :=
  verdicts (runSpec cfg rounds obs crash)

/-- the same with the final tables (when the run did not crash and the harness sent them) -/
def checkAllFinal (cfg : Cfg) (rounds : List Round) (obs : List (List Ev)) (crash : Option String)
    (final : Option (List FinalRow)) : List (String × String) :=
  let a := runSpec cfg rounds obs crash
  verdicts (match final, crash with | some rows, none => checkFinal a rows | _, _ => a)

end Pyrtma.Mgr.Spec
