import Pyrtma.Model.Validators
/-!
# Spec of C09 — field validation is sound, complete and atomic

Written over *observations* only: the assignment attempted `(ty, key, v)`, the field's bytes before and after,
whether an exception came out, and what reading the field back returned.  Nothing here looks at `validate`.

* `inDom ty key v`   — the value is something the field can hold (the property's "domain")
* `postOk ty key v post rb` — after an accepted assignment the selected elements hold `v` (integers exactly,
  floats as the nearest representable finite value, strings up to the NUL) and reading back returns the same
* `C09.holds`        — accepted ⇒ `inDom ∧ postOk`;  refused ⇒ bytes unchanged;  `¬ inDom` ⇒ refused
-/
namespace Pyrtma.Validators

/-! ### float domain, written independently of `roundMag` -/

/-- scale: every double is an integer multiple of `2^-1074`; we compare values times `2^1100` -/
@[irreducible] def scaled (m : Nat) (e : Int) : Nat := m * 2 ^ (e + 1100).toNat

/-- value (times `2^1100`) of a *finite or infinite-position* magnitude pattern of `f`; the pattern `infPat` gets the
value `2^(emax+1)`, the boundary at which rounding overflows -/
@[irreducible] def magValue (f : Fmt) (pat : Nat) : Nat :=
  let E := pat / 2 ^ f.mbits
  let M := pat % 2 ^ f.mbits
  if E == 0 then scaled M f.emin else scaled (M + 2 ^ f.mbits) (f.emin + E - 1)

/-- `pat` is a finite pattern of `f` nearest to the real `a / 2^1100` (ties: even pattern) -/
@[irreducible] def isNearestMag (f : Fmt) (a : Nat) (pat : Nat) : Bool :=
  pat < f.infPat &&
  (pat == 0 || (let s := magValue f (pat - 1) + magValue f pat
                2 * a > s || (2 * a == s && pat % 2 == 0))) &&
  (let s := magValue f pat + magValue f (pat + 1)
   2 * a < s || (2 * a == s && pat % 2 == 0))

/-- the real number overflows when rounded into `f`: `|x| ≥ (2 - 2^-p) * 2^emax` -/
@[irreducible] def overflowsMag (f : Fmt) (a : Nat) : Bool :=
  2 * a ≥ magValue f (f.infPat - 1) + magValue f f.infPat

def fmtOf : FK → Fmt | .f32 => fmt32 | .f64 => fmt64

/-- exact magnitude (scaled) and sign of a scalar that denotes a real number, if it does -/
def realOf : Scalar → Option (Bool × Nat)
  | .int n => some (decide (n < 0), scaled n.natAbs 0)
  | .bool b => some (false, scaled (if b then 1 else 0) 0)
  | .flt b => match decodeMag fmt64 (b % 2 ^ 63) with
    | .fin m e => some (b / 2 ^ 63 % 2 == 1, scaled m e)
    | _ => none
  | _ => none

def isNaNScalar : Scalar → Bool
  | .flt b => isNaN64 b | _ => false

/-- a number a float field of kind `k` can hold: NaN, or a real that does not overflow to infinity -/
def fltDom (k : FK) (s : Scalar) : Bool :=
  isNaNScalar s || match realOf s with | some (_, a) => !overflowsMag (fmtOf k) a | none => false

def intDom (lo hi : Int) : Scalar → Bool
  | .int n => decide (lo ≤ n ∧ n ≤ hi) | .bool _ => true | _ => false

/-- element domain for a *sequence* element -/
def elemDomSeq (vk : VK) (s : Scalar) : Bool :=
  match vk with
  | .int k => intDom k.lo k.hi s
  | .byte => intDom 0 255 s
  | .flt k => fltDom k s
  | .strct tid _ => match s with | .strct t _ => t == tid | _ => false

/-- domain for a scalar right-hand side (field or single element); ctypes instances of exactly the field's
class count as values of the field's type -/
def elemDomOne (vk : VK) (s : Scalar) : Bool :=
  elemDomSeq vk s ||
  match vk, s with
  | .int k, .cdata (.int k') _ => k' == k
  | .flt k, .cdata (.flt k') _ => k' == k
  | .byte, .cdata (.int .u8) _ => true
  | .byte, .bytes bs => bs.length == 1
  | _, _ => false

def strDom (maxLen : Nat) : Scalar → Bool
  | .str cs => cs.length ≤ maxLen && cs.all (· < 128) | _ => false

/-- the items of a sized sequence value (what a slice assignment stores) -/
def seqItems : PyVal → Option (List Scalar)
  | .sc (.bytes bs) => some (bs.map fun (b : Nat) => .int (b : Int))
  | .sc (.str cs) => some (cs.map fun c => .str [c])
  | .seq .gen _ => none
  | .seq _ xs => some xs
  | .arr _ vk n (some raw) => some (decodeItems vk n raw)
  | _ => none

/-- indices selected by a key on an array of `n` elements (`none`: the key selects nothing valid) -/
def keyIndices (n : Nat) : Key → Option (List Nat)
  | .whole => some (List.range n)
  | .idx i => let j := if i < 0 then i + n else i
              if 0 ≤ j ∧ j < n then some [j.toNat] else none
  | .slice a b c => match sliceIndices n a b c with | .ok l => some l | .error _ => none
  | .bad => none

/-- **the domain** -/
def inDom (ty : FTy) (key : Key) (v : PyVal) : Bool :=
  match ty, key, v with
  | .int k, .whole, .sc s => elemDomOne (.int k) s
  | .flt k, .whole, .sc s => elemDomOne (.flt k) s
  | .byte, .whole, .sc s => elemDomOne .byte s
  | .char, .whole, .sc s => strDom 1 s || (match s with | .cdata .char _ => true | _ => false)
  | .str n, .whole, .sc s => strDom (n - 1) s
  | .strct tid sz, .whole, .sc s => elemDomOne (.strct tid sz) s
  | .arr cls vk n, .whole, .arr vcls vvk vn bound =>
    -- another message's array field of the same class, element type and length
    (vcls == cls && vvk == vk && vn == n && bound.isSome) ||
    -- or, as a plain sequence of its items
    (match seqItems v with
     | some xs => xs.length == n && xs.all (elemDomSeq vk)
     | none => false)
  | .arr _ vk n, .idx i, .sc s => (keyIndices n (.idx i)).isSome && elemDomOne vk s
  | .arr _ vk n, key, v =>
    match key with
    | .idx _ | .bad => false
    | _ =>
      match keyIndices n key, seqItems v with
      | some idxs, some xs => xs.length == idxs.length && xs.all (elemDomSeq vk)
      | _, _ => false
  | _, _, _ => false

/-! ### what an accepted assignment must leave behind -/

/-- bytes of element `i` -/
def elemAt (bs : Bytes) (i esz : Nat) : Bytes := (bs.drop (i * esz)).take esz

/-- the stored bytes `c` represent the scalar `x` in an element of kind `vk` -/
def holds1 (vk : VK) (x : Scalar) (c : Bytes) : Bool :=
  match x with
  | .cdata _ raw => c == raw
  | .strct _ raw => c == raw
  | .bytes [b] => c == [b]
  | _ =>
    match vk with
    | .int k => c == encInt k (intVal x)
    | .byte => c == encInt .u8 (intVal x)
    | .strct _ _ => false
    | .flt k =>
      let pat := fromLE c
      let f := fmtOf k
      let mag := pat % f.sign
      if isNaNScalar x then mag > f.infPat
      else match x, k with
        | .flt b, .f64 => pat == b                      -- a double field holds a double bit for bit
        | _, _ =>
          match realOf x with
          | none =>
            -- an infinity (only reachable by copying another message's float array, which is not checked element
            -- by element and counts as in-domain): the field holds the infinity of the same sign
            (match x with
             | .flt b => isInf64 b && mag == f.infPat && ((pat / f.sign % 2 == 1) == (b / 2 ^ 63 % 2 == 1))
             | _ => false)
          | some (neg, a) =>
            match x with
            | .flt _ => (pat / f.sign % 2 == 1) == neg && isNearestMag f a mag
            | _ =>
              -- ints: sign and finiteness always; nearest when the int is exactly a double (|n| ≤ 2^53)
              mag < f.infPat && (a == 0 || (pat / f.sign % 2 == 1) == neg) &&
              (a > scaled (2 ^ 53) 0 || isNearestMag f a mag)

/-- what reading element bytes `c` back through the descriptor returns -/
def readElem (vk : VK) (c : Bytes) : Scalar :=
  match vk with
  | .int k => .int (decInt k c)
  | .byte => .int (fromLE c : Nat)
  | .flt .f64 => .flt (fromLE c)
  | .flt .f32 => .flt (widen (fromLE c))
  | .strct tid _ => .strct tid c

def sameRead (a b : Scalar) : Bool :=
  match a, b with
  | .flt x, .flt y => x == y || (isNaN64 x && isNaN64 y)
  | _, _ => a == b

/-- `post`: field bytes afterwards; `rb`: the values read back (one per selected element; one for a scalar field) -/
def postOk (ty : FTy) (key : Key) (v : PyVal) (post : Bytes) (rb : List Scalar) : Bool :=
  match ty, v with
  | .int k, .sc s => holds1 (.int k) s post && rb == [readElem (.int k) post]
  | .flt k, .sc s => holds1 (.flt k) s post && (match rb with | [r] => sameRead r (readElem (.flt k) post) | _ => false)
  | .byte, .sc s => holds1 .byte s post && rb == [readElem .byte post]
  | .strct tid sz, .sc s => holds1 (.strct tid sz) s post && rb == [readElem (.strct tid sz) post]
  | .char, .sc (.cdata _ raw) => post == raw
  | .char, .sc (.str cs) => post == cs && rb == [.str cs]
  | .str _, .sc (.str cs) => upToNul post == upToNul cs && rb == [.str (upToNul cs)]
  | .arr _ vk n, v =>
    let pairs : Option (List (Nat × Scalar)) :=
      match key, v with
      | .idx i, .sc s => (keyIndices n (.idx i)).map fun l => l.map fun j => (j, s)
      | _, .arr _ _ _ (some raw) =>
        if key == .whole then some ((List.range n).zip (decodeItems vk n raw))
        else (keyIndices n key).bind fun l => (seqItems v).map fun xs => l.zip xs
      | _, _ => (keyIndices n key).bind fun l => (seqItems v).map fun xs => l.zip xs
    match pairs with
    | none => false
    | some ps =>
      ps.all (fun p => holds1 vk p.2 (elemAt post p.1 vk.esize)) &&
      rb.length == ps.length &&
      (ps.zip rb).all fun q =>
        let c := elemAt post q.1.1 vk.esize
        match vk with
        | .byte => q.2 == .bytes c
        | _ => sameRead q.2 (readElem vk c)
  | _, _ => false

/-- one observed assignment -/
structure Obs where
  pre : Bytes
  post : Bytes
  raised : Bool
  /-- some byte of the message outside the field changed -/
  outsideChanged : Bool
  rb : List Scalar
  deriving Repr

/-- the clauses of C09 on one observed assignment made with validation **on** -/
def clauses (ty : FTy) (key : Key) (v : PyVal) (o : Obs) : List (String × Bool) :=
  [ ("atomic_refused_leaves_bytes_unchanged", !o.raised || (o.post == o.pre && !o.outsideChanged)),
    -- "out-of-domain values are always refused" = "whatever is accepted is in the domain"
    ("complete_out_of_domain_refused", inDom ty key v || o.raised),
    ("sound_readback_equals_assigned", o.raised || !inDom ty key v || postOk ty key v o.post o.rb) ]

def holds (ty : FTy) (key : Key) (v : PyVal) (o : Obs) : Prop := ∀ c ∈ clauses ty key v o, c.2 = true

/-! ### the validation switch -/

/-- number of open blocks that really disable (entered with `ignore = False`) after each event of a well-nested
trace; `none` if an exit has no matching enter -/
def openDisables : List Bool → List CtxEv → Option (List Nat)
  | _, [] => some []
  | st, .enter ig :: es =>
    (openDisables ((!ig) :: st) es).map fun r => (((!ig) :: st).filter id).length :: r
  | [], _ :: _ => none
  | _ :: st, _ :: es => (openDisables st es).map fun r => (st.filter id).length :: r

/-- **validation is in force exactly when execution is not inside a disabling block** (start: on, no block open) -/
def ctxOk (evs : List CtxEv) (flags : List Bool) : Bool :=
  match openDisables [] evs with
  | none => true
  | some ds => flags == ds.map (· == 0)

/-- **the direction the property states**: after every event at which no disabling block is open, validation is in
force.  What the switch does *inside* a disabling block (that it is off there) is the model's exact behaviour (`ctxOk`,
compared by the correspondence) but not a demand of the property: a block that fails to disable refuses too much,
it never lets an out-of-domain value in. -/
def ctxInForce (evs : List CtxEv) (flags : List Bool) : Bool :=
  match openDisables [] evs with
  | none => true
  | some ds => flags.length == ds.length && (ds.zip flags).all fun p => p.1 != 0 || p.2

end Pyrtma.Validators
