import Pyrtma.Model.Registry
/-!
# Spec for C12 — conflicts are always detected, never invented

Everything here is written against the *input* (the table of files) and the *observable outcome* (exception
class, or the registered tables) — never against the handlers of `Model/Registry.lean`:

* `flatten` — the import closure in the order the property describes: depth first, a file's metadata, then
  everything it imports, then its own sections; **each file once** however often and along whatever path it is
  reached (pure walk, threads nothing but the list of files already opened);
* `keysOf` — what every definition claims: a name in one of the four name spaces (the shared one of constants /
  string constants / aliases / structs / messages; metadata; host names; module names) and an id in one of the
  three id registries (reserved blocks claim every id they expand to);
* the flaw predicates: two equal keys (`dupName / msgId / moduleId / hostId`), an id outside its permitted range,
  and the other, non-conflict flaws the model knows (bad name, non-int id, bad `_RESERVED_` entry, broken import ...);
* `judge` — the oracle evaluated on what the real parser did.
-/
namespace Pyrtma.Registry

/-! ### the import closure, each file once -/

def walkImportsWith (wf : Nat → List Nat → List Ev × List Nat) : List Imp → List Nat → List Ev × List Nat
  | [], inc => ([], inc)
  | imp :: imps, inc =>
    match imp with
    | .dir => let r := walkImportsWith wf imps inc; (.fail .fileFormat :: r.1, r.2)
    | .badSuffix => let r := walkImportsWith wf imps inc; (.fail .fileFormat :: r.1, r.2)
    | .missing => let r := walkImportsWith wf imps inc; (.fail .fileNotFound :: r.1, r.2)
    | .file n =>
      let a := wf n inc
      let r := walkImportsWith wf imps a.2
      (a.1 ++ r.1, r.2)

/-- events of the sub-tree below `fid` that is not yet opened; second component: files opened so far -/
def walkFile (files : List File) : Nat → Nat → List Nat → List Ev × List Nat
  | 0, _, inc => ([.fail .fuel], inc)
  | fuel + 1, fid, inc =>
    if inc.contains fid then ([], inc)
    else
      match files[fid]? with
      | none => ([.fail .fileNotFound], inc)
      | some f =>
        if f.dupKeys then ([.enter fid, .fail .yamlDup], inc ++ [fid])
        else if f.empty then ([.enter fid, .fail .emptyFile], inc ++ [fid])
        else
          let r := walkImportsWith (walkFile files fuel) f.imports (inc ++ [fid])
          (.enter fid :: (f.before.map (.item f.coreName) ++ r.1 ++ f.after.map (.item f.coreName)), r.2)

/-- the shipped core definitions first (when switched on), then the closure of the root -/
def flattenInc (i : Input) : List Ev × List Nat :=
  let a := if i.cfg.coreOn then walkFile i.files i.fuel i.core [] else ([], [])
  let b := walkFile i.files i.fuel i.root a.2
  (a.1 ++ b.1, b.2)

def flatten (i : Input) : List Ev := (flattenInc i).1

def enteredOf (evs : List Ev) : List Nat := evs.filterMap (fun | .enter n => some n | _ => none)

/-! ### what a definition claims -/

inductive Key where
  | shared (n : String) | mdata (n : String) | hostN (n : String) | modN (n : String)
  | hostI (v : Int) | modI (v : Int) | msgI (v : Int)
deriving Repr, DecidableEq, Inhabited

def Key.isName : Key → Bool
  | .shared _ | .mdata _ | .hostN _ | .modN _ => true
  | _ => false
def Key.isHostI : Key → Bool | .hostI _ => true | _ => false
def Key.isModI : Key → Bool | .modI _ => true | _ => false
def Key.isMsgI : Key → Bool | .msgI _ => true | _ => false

/-- ids a reserved block expands to (nothing when the block is malformed) -/
def reservedIds (ids : Option (List ResEntry)) : List Int :=
  match ids with
  | none => []
  | some es => match expandAll es with
    | .ok l => l
    | .error _ => []

def itemKeys : Item → List Key
  | .mdata n => [.mdata n]
  | .const n => [.shared n]
  | .str n => [.shared n]
  | .alias n => [.shared n]
  | .struct n => [.shared n]
  | .host n v => .hostN n :: (match v with | some v => [.hostI v] | none => [])
  | .module n v => .modN n :: (match v with | some v => [.modI v] | none => [])
  | .msg n v => .shared n :: (match v with | some v => [.msgI v] | none => [])
  | .reserved ids => (reservedIds ids).map .msgI

def evKeys : Ev → List Key
  | .item _ it => itemKeys it
  | _ => []

def keysOf (evs : List Ev) : List Key := evs.flatMap evKeys

def hasDupK : List Key → Bool
  | [] => false
  | x :: xs => xs.contains x || hasDupK xs

/-- two definitions claim the same key of the given kind -/
def dupOf (p : Key → Bool) (evs : List Ev) : Bool := hasDupK ((keysOf evs).filter p)

/-! ### ranges, as the property fixes them -/

def msgOutOfRange (cfg : Cfg) (v : Int) : Bool := v < 0 || v > cfg.maxMsg

def itemOutOfRange (cfg : Cfg) (core : Bool) : Item → Bool
  | .host _ (some v) => hostOutOfRange v && !core && cfg.coreOn
  | .module _ (some v) => moduleOutOfRange v && !core && cfg.coreOn
  | .msg _ (some v) => msgOutOfRange cfg v
  | .reserved ids => (reservedIds ids).any (msgOutOfRange cfg)
  | _ => false

def evOutOfRange (cfg : Cfg) : Ev → Bool
  | .item core it => itemOutOfRange cfg core it
  | _ => false

/-! ### the other flaws the model knows -/

def itemName : Item → Option String
  | .mdata n | .const n | .str n | .alias n | .struct n | .host n _ | .module n _ | .msg n _ => some n
  | .reserved _ => none

def itemBadName (it : Item) : Bool :=
  match itemName it with
  | some n => !validName n
  | none => false

def itemNotInt : Item → Bool
  | .host _ none | .module _ none | .msg _ none => true
  | _ => false

def itemResSyntax : Item → Bool
  | .reserved (some es) => match expandAll es with | .error _ => true | .ok _ => false
  | _ => false

def itemResNotList : Item → Bool
  | .reserved none => true
  | _ => false

/-- `check_name` lets the literal `_RESERVED_` through in every section; a constant / string constant / alias /
struct of that name makes a later `_RESERVED_` block fail its duplicate-name check.  Outside the property's domain. -/
def itemReservedAsName : Item → Bool
  | .const n | .str n | .alias n | .struct n | .msg n _ => n == reservedKey
  | _ => false

def onItem (p : Item → Bool) : Ev → Bool
  | .item _ it => p it
  | _ => false

def isFail (e : Err) : Ev → Bool
  | .fail e' => e == e'
  | _ => false

/-- flaw tags present in a list of events -/
structure Flaws where
  dupName : Bool
  msgId : Bool
  moduleId : Bool
  hostId : Bool
  range : Bool
  yamlDup : Bool
  badName : Bool
  notInt : Bool
  resSyntax : Bool
  resNotList : Bool
  fileNotFound : Bool
  fileFormat : Bool
  emptyFile : Bool
  reservedAsName : Bool
deriving Repr, DecidableEq, Inhabited

def flawsOf (cfg : Cfg) (evs : List Ev) : Flaws :=
  { dupName := dupOf Key.isName evs, msgId := dupOf Key.isMsgI evs, moduleId := dupOf Key.isModI evs,
    hostId := dupOf Key.isHostI evs, range := evs.any (evOutOfRange cfg),
    yamlDup := evs.any (isFail .yamlDup),
    badName := evs.any (onItem itemBadName), notInt := evs.any (onItem itemNotInt),
    resSyntax := evs.any (onItem itemResSyntax), resNotList := evs.any (onItem itemResNotList),
    fileNotFound := evs.any (isFail .fileNotFound), fileFormat := evs.any (isFail .fileFormat),
    emptyFile := evs.any (isFail .emptyFile), reservedAsName := evs.any (onItem itemReservedAsName) }

/-- one of the conflicts the property lists (a duplicated key inside one YAML mapping counts: it is the
same-file same-section placement of a name conflict) -/
def Flaws.conflict (f : Flaws) : Bool := f.dupName || f.msgId || f.moduleId || f.hostId || f.range || f.yamlDup

def Flaws.other (f : Flaws) : Bool :=
  f.badName || f.notInt || f.resSyntax || f.resNotList || f.fileNotFound || f.fileFormat || f.emptyFile ||
  f.reservedAsName

/-- does a flaw that raises exception class `cls` exist? -/
def Flaws.justifies (f : Flaws) (cls : String) : Bool :=
  (cls == "DuplicateNameError" && f.dupName) || (cls == "MessageIDError" && f.msgId) ||
  (cls == "ModuleIDError" && f.moduleId) || (cls == "HostIDError" && f.hostId) ||
  (cls == "RTMASyntaxError" && (f.range || f.badName || f.resSyntax)) ||
  (cls == "YAMLSyntaxError" && f.yamlDup) || (cls == "InvalidTypeError" && (f.notInt || f.resNotList)) ||
  (cls == "FileNotFoundError" && f.fileNotFound) || (cls == "FileFormatError" && f.fileFormat) ||
  (cls == "AttributeError" && f.emptyFile)

/-- the flaw that justifies a model error -/
def Flaws.has (f : Flaws) : Err → Bool
  | .dupName => f.dupName | .msgId => f.msgId | .moduleId => f.moduleId | .hostId => f.hostId
  | .range => f.range | .yamlDup => f.yamlDup | .badName => f.badName | .notInt => f.notInt
  | .resSyntax => f.resSyntax | .resNotList => f.resNotList | .fileNotFound => f.fileNotFound
  | .fileFormat => f.fileFormat | .emptyFile => f.emptyFile | .fuel => false

/-! ### what must be registered when the closure is accepted: every definition of `flatten`, once -/

def itemTables (it : Item) (st : St) : St :=
  match it with
  | .mdata n => { st with mdata := st.mdata ++ [n] }
  | .const n => { st with consts := st.consts ++ [n] }
  | .str n => { st with strs := st.strs ++ [n] }
  | .alias n => { st with aliases := st.aliases ++ [n] }
  | .struct n => { st with structs := st.structs ++ [n] }
  | .host n (some v) => { st with hosts := st.hosts ++ [(n, v)] }
  | .module n (some v) => { st with modules := st.modules ++ [(n, v)] }
  | .msg n (some v) => { st with msgs := st.msgs ++ [(n, v)] }
  | .reserved ids => { st with msgs := st.msgs ++ (reservedIds ids).map (fun v => (resName v, v)) }
  | _ => st

def evTables : Ev → St → St
  | .item _ it, st => itemTables it st
  | _, st => st

def tablesOf (evs : List Ev) : St := evs.foldl (fun st ev => evTables ev st) {}

/-- no flaw sits in this one event (duplicates are a matter of two events: `keysOf`) -/
def evFlawless (cfg : Cfg) (ev : Ev) : Bool :=
  match ev with
  | .enter _ => true
  | .fail _ => false
  | .item core it =>
    !itemOutOfRange cfg core it && !itemBadName it && !itemNotInt it && !itemResSyntax it && !itemResNotList it

/-! ### the oracle on the implementation's observation -/

def insertSorted [Ord α] (x : α) : List α → List α
  | [] => [x]
  | y :: ys => if compare x y == .gt then y :: insertSorted x ys else x :: y :: ys

def sortL [Ord α] (l : List α) : List α := l.foldr insertSorted []

instance : Ord (String × Int) := ⟨fun a b => (compare a.1 b.1).then (compare a.2 b.2)⟩

/-- tables compared as sets (the property speaks of the *set* of definitions registered) -/
def St.canon (s : St) : St :=
  { mdata := sortL s.mdata, consts := sortL s.consts, strs := sortL s.strs, aliases := sortL s.aliases,
    hosts := sortL s.hosts, modules := sortL s.modules, structs := sortL s.structs, msgs := sortL s.msgs }

inductive Obs where
  | ok (st : St)
  | err (cls : String)
deriving Repr, Inhabited

def isConflictCls (cls : String) : Bool :=
  cls == "DuplicateNameError" || cls == "MessageIDError" || cls == "ModuleIDError" || cls == "HostIDError"

/-- `"ok"`, `"skip"` or `"fail <clause>"`.
Accepted: no conflict may exist in the closure, and (when the input has no other flaw) the registered set is
every definition of the closure, once.  Rejected: a flaw raising that class must exist; one of the four conflict
classes without such a conflict anywhere in the closure is an invented conflict whatever else is wrong; when only
conflicts are wrong the class must belong to one of them; a flawless closure must not be rejected. -/
def judge (i : Input) (o : Obs) : String :=
  let evs := flatten i
  let f := flawsOf i.cfg evs
  match o with
  | .ok st =>
    if f.dupName then "fail accepted_despite_name_conflict"
    else if f.msgId then "fail accepted_despite_message_id_conflict"
    else if f.moduleId then "fail accepted_despite_module_id_conflict"
    else if f.hostId then "fail accepted_despite_host_id_conflict"
    else if f.range then "fail accepted_despite_id_out_of_range"
    else if f.yamlDup then "fail accepted_despite_duplicate_key"
    else if f.other then "skip"
    else if st.canon != (tablesOf evs).canon then "fail registered_set_differs"
    else "ok"
  | .err cls =>
    if f.reservedAsName then "skip"
    else if f.justifies cls then "ok"
    else if isConflictCls cls then "fail conflict_invented " ++ cls
    else if !f.conflict && !f.other then "fail rejected_without_flaw " ++ cls
    else if !f.other then "fail wrong_error " ++ cls
    else "ok"

end Pyrtma.Registry
