import Pyrtma.Model.Emit
/-!
# What the type names of each target language denote (byte width, class)

A fixed table, trusted (validated against gcc and ctypes by the harness: `sizeof`, signedness).  It is the only
place where `int32_t`, `ctypes.c_ubyte`, `single`, `Uint16`, … get a meaning; the per-language tables of the code
(`Gen/TypeTables.lean`, regenerated on every run) are compared through it.
-/
namespace Pyrtma.Emit.Denote
open Pyrtma.Emit

/-- `struct` format letters of `parser.supported_types` -/
def ofFormat : List (String × Den) :=
  [("c", ⟨1, .char⟩), ("b", ⟨1, .sint⟩), ("B", ⟨1, .uint⟩), ("h", ⟨2, .sint⟩), ("H", ⟨2, .uint⟩),
   ("i", ⟨4, .sint⟩), ("I", ⟨4, .uint⟩), ("q", ⟨8, .sint⟩), ("Q", ⟨8, .uint⟩), ("f", ⟨4, .flt⟩), ("d", ⟨8, .flt⟩)]

def ctypesBase : List (String × Den) :=
  [("c_char", ⟨1, .char⟩), ("c_byte", ⟨1, .sint⟩), ("c_ubyte", ⟨1, .uint⟩), ("c_int8", ⟨1, .sint⟩),
   ("c_uint8", ⟨1, .uint⟩), ("c_int16", ⟨2, .sint⟩), ("c_uint16", ⟨2, .uint⟩), ("c_int32", ⟨4, .sint⟩),
   ("c_uint32", ⟨4, .uint⟩), ("c_int64", ⟨8, .sint⟩), ("c_uint64", ⟨8, .uint⟩), ("c_float", ⟨4, .flt⟩),
   ("c_double", ⟨8, .flt⟩), ("c_short", ⟨2, .sint⟩), ("c_ushort", ⟨2, .uint⟩), ("c_int", ⟨4, .sint⟩),
   ("c_uint", ⟨4, .uint⟩), ("c_longlong", ⟨8, .sint⟩), ("c_ulonglong", ⟨8, .uint⟩)]

/-- ctypes names, bare (`parser.py`) and qualified (`compilers/python.py`) -/
def ofCtypes : List (String × Den) := ctypesBase ++ ctypesBase.map (fun p => ("ctypes." ++ p.1, p.2))

/-- descriptor classes of `pyrtma.validators` -/
def ofPyDesc : List (String × Den) :=
  [("Char", ⟨1, .char⟩), ("Byte", ⟨1, .uint⟩), ("Int8", ⟨1, .sint⟩), ("Uint8", ⟨1, .uint⟩), ("Int16", ⟨2, .sint⟩),
   ("Uint16", ⟨2, .uint⟩), ("Int32", ⟨4, .sint⟩), ("Uint32", ⟨4, .uint⟩), ("Int64", ⟨8, .sint⟩),
   ("Uint64", ⟨8, .uint⟩), ("Float", ⟨4, .flt⟩), ("Double", ⟨8, .flt⟩)]

/-- C99 type names on the probed ABI (x86-64 SysV, LP64 not assumed: only sized and `char`/`short`/`int`/`long long` names) -/
def ofC : List (String × Den) :=
  [("char", ⟨1, .char⟩), ("signed char", ⟨1, .sint⟩), ("unsigned char", ⟨1, .uint⟩), ("int8_t", ⟨1, .sint⟩),
   ("uint8_t", ⟨1, .uint⟩), ("int16_t", ⟨2, .sint⟩), ("uint16_t", ⟨2, .uint⟩), ("int32_t", ⟨4, .sint⟩),
   ("uint32_t", ⟨4, .uint⟩), ("int64_t", ⟨8, .sint⟩), ("uint64_t", ⟨8, .uint⟩), ("float", ⟨4, .flt⟩),
   ("double", ⟨8, .flt⟩), ("short", ⟨2, .sint⟩), ("unsigned short", ⟨2, .uint⟩), ("int", ⟨4, .sint⟩),
   ("unsigned int", ⟨4, .uint⟩), ("long long", ⟨8, .sint⟩), ("unsigned long long", ⟨8, .uint⟩)]

/-- MATLAB numeric classes (`char` is a 2-byte UTF-16 unit there, which is why the back end uses `int8`) -/
def ofMatlab : List (String × Den) :=
  [("int8", ⟨1, .sint⟩), ("uint8", ⟨1, .uint⟩), ("int16", ⟨2, .sint⟩), ("uint16", ⟨2, .uint⟩), ("int32", ⟨4, .sint⟩),
   ("uint32", ⟨4, .uint⟩), ("int64", ⟨8, .sint⟩), ("uint64", ⟨8, .uint⟩), ("single", ⟨4, .flt⟩), ("double", ⟨8, .flt⟩),
   ("char", ⟨2, .char⟩)]

def look (tbl : List (String × Den)) (s : String) : Option Den := (tbl.find? (fun p => p.1 == s)).map (·.2)

end Pyrtma.Emit.Denote
