import Pyrtma.Model.DataLogFiles
import Pyrtma.Spec.DataLogFmt
/-!
# Spec of C17, last sentence — "after stop the files are complete", over the bytes of *all* files of a data set

Evaluated by the driver on the bytes the real formatters wrote during scheduled sessions (every file of every data
set), and the conclusion of the composition theorems of `Props/C17.lean`.
-/
namespace Pyrtma.DataLog
open Fmt

/-- the raw files, read frame by frame and concatenated in file order, are the messages -/
def rawFilesReadBack (H ndbOff : Nat) (ms : List FMsg) (files : List Bytes) : Bool :=
  (files.map (readRaw H ndbOff)).flatten == ms

/-- the quicklogger files, each read with (the model of) `QLReader.load`, concatenated in file order -/
def qlFilesReadBack (ndbOff : Nat) (ms : List FMsg) (files : List Bytes) : Bool :=
  (files.map (qlRead ndbOff)).flatten == ms

/-- every JSON file consists of complete lines only, and the lines of all files in file order are the texts -/
def jsonFilesReadBack (lines : List (List Char)) (files : List (List Char)) : Bool :=
  files.all (fun f => (splitLines [] f).2 == []) && (files.map (fun f => (splitLines [] f).1)).flatten == lines

end Pyrtma.DataLog
