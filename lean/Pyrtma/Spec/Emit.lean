import Pyrtma.Model.Emit
import Pyrtma.Model.Combined
import Pyrtma.Model.Paths
/-!
# Spec for C04 / C15 / C16 — predicates over what the four back ends printed

Everything here is a Bool-valued function of *observables*: the abstract statement lists of the four
outputs (the harness parses the real `.py/.h/.js/.m` into them; `Model.emit` produces them for the model),
the layouts measured by gcc / ctypes, the outcome of loading each output.  The same definitions are the
conclusions of the theorems in `Props/C04.lean`, `Props/C15.lean`, `Props/C16.lean` and the oracle the driver
evaluates on the implementation's observation.
-/
namespace Pyrtma.Emit
open Pyrtma.Layout (Fld)

/-- Two denotations describe the same bytes: same width and class; MATLAB has no 1-byte character type, its
`int8` for `char` is accepted (documented representation difference, same width, same sign on the wire). -/
def Den.compat (a b : Den) : Bool :=
  a.width == b.width &&
    (a.cls == b.cls || (a.width == 1 && ((a.cls == .char && b.cls == .sint) || (a.cls == .sint && b.cls == .char))))

/-! ## The wire signature of a program -/

inductive WTy where
  | den (d : Den)
  | ref (sp : Space) (n : Name)
  | unknown
deriving DecidableEq, Repr, Inhabited

structure WField where
  name : Name
  ty : WTy
  count : Nat
deriving DecidableEq, Repr, Inhabited

structure WDef where
  sp : Space
  name : Name
  fields : List WField
deriving DecidableEq, Repr, Inhabited

structure Wire where
  consts : List (Name × Val)
  strs : List (Name × Nat)
  hosts : List (Name × Int)
  mods : List (Name × Int)
  mts : List (Name × Int)
  hashes : List (Name × Nat)
  defs : List WDef
deriving Repr, Inhabited

/-- what the alias statement for `a` binds it to -/
def aliasInfo (nat : Name → Option Den) (prog : List Stmt) (a : Name) : Option WTy :=
  prog.findSome? (fun s => match s with
    | .aliasN n d => if n == a then some (.den d) else none
    | .aliasJ n t _ => if n == a then some (match nat t with | some d => .den d | none => .unknown) else none
    | .aliasR n sp t => if n == a then some (.ref sp t) else none
    | _ => none)

/-- resolve a printed field type through the alias statements of the same program (an alias the program does
not define — C: aliases of `core_defs/` live in RTMA.h — stays a reference) -/
def resolveTy (nat : Name → Option Den) (prog : List Stmt) : TyS → WTy
  | .nat d => .den d
  | .jsNat n => match nat n with | some d => .den d | none => .unknown
  | .jsStr => .den ⟨1, .char⟩
  | .ref .alias a => (aliasInfo nat prog a).getD (.ref .alias a)
  | .ref sp n => .ref sp n
  | .bad => .unknown

def wField (nat : Name → Option Den) (prog : List Stmt) (f : FieldS) : WField :=
  { name := f.name, ty := resolveTy nat prog f.ty, count := f.len.getD 1 }

def wireOf (nat : Name → Option Den) (prog : List Stmt) : Wire :=
  { consts := prog.filterMap (fun s => match s with | .const n v => some (n, v) | _ => none)
    strs := prog.filterMap (fun s => match s with | .strConst n v => some (n, v) | _ => none)
    hosts := prog.filterMap (fun s => match s with | .host n v => some (n, v) | _ => none)
    mods := prog.filterMap (fun s => match s with | .mod n v => some (n, v) | _ => none)
    mts := prog.filterMap (fun s => match s with | .mt n v => some (n, v) | _ => none)
    hashes := prog.filterMap (fun s => match s with
      | .hash n h => some (n, h)
      | .defn .mdf n _ (some h) _ _ => some (n, h)
      | _ => none)
    defs := prog.filterMap (fun s => match s with
      | .defn sp n _ _ _ fs => if fs.isEmpty then none else some { sp, name := n, fields := fs.map (wField nat prog) }
      | _ => none) }

def WTy.compat : WTy → WTy → Bool
  | .den a, .den b => a.compat b
  | .ref s n, .ref s' n' => s == s' && n == n'
  | _, _ => false

def WField.compat (a b : WField) : Bool := a.name == b.name && a.ty.compat b.ty && a.count == b.count

def listCompat {α} (r : α → α → Bool) : List α → List α → Bool
  | [], [] => true
  | a :: as, b :: bs => r a b && listCompat r as bs
  | _, _ => false

def WDef.compat (a b : WDef) : Bool := a.sp == b.sp && a.name == b.name && listCompat WField.compat a.fields b.fields

/-- names that came from `core_defs/` (the C back end leaves them to RTMA.h) -/
structure Core where
  consts : List Name := []
  strs : List Name := []
  hosts : List Name := []
  mods : List Name := []
  msgs : List Name := []
  structs : List Name := []
  aliases : List Name := []
deriving Repr, Inhabited

def Wire.userPart (w : Wire) (k : Core) : Wire :=
  { consts := w.consts.filter (fun c => !k.consts.contains c.1)
    strs := w.strs.filter (fun c => !k.strs.contains c.1)
    hosts := w.hosts.filter (fun c => !k.hosts.contains c.1)
    mods := w.mods.filter (fun c => !k.mods.contains c.1)
    mts := w.mts.filter (fun c => !k.msgs.contains c.1)
    hashes := w.hashes.filter (fun c => !k.msgs.contains c.1)
    defs := w.defs.filter (fun d => match d.sp with
      | .mdf => !k.msgs.contains d.name
      | _ => !k.structs.contains d.name) }

/-- a field type as C prints it when the alias is a core alias: leave those references unresolved on both sides -/
def WTy.compatC (k : Core) (resolved : WTy) (cTy : WTy) : Bool :=
  match cTy with
  | .ref .alias a => k.aliases.contains a || resolved.compat cTy
  | _ => resolved.compat cTy

def WField.compatC (k : Core) (a c : WField) : Bool :=
  a.name == c.name && WTy.compatC k a.ty c.ty && a.count == c.count

def WDef.compatC (k : Core) (a c : WDef) : Bool :=
  a.sp == c.sp && a.name == c.name && listCompat (WField.compatC k) a.fields c.fields

/-- message hashes agree on name and on the 32-bit prefix (structs carry a hash only in Python) -/
def msgHashes (w : Wire) : List (Name × Nat) := w.hashes

/-- C04, first sentence: the four outputs agree on ids, hashes, constants, module ids, host ids and on every
struct's field names, order, element types and lengths.  `py` is the reference; C is compared on the part that
did not come from `core_defs/`. -/
def wireClauses (k : Core) (py c js m : Wire) : List (String × Bool) :=
  [ ("constants_py_js", py.consts == js.consts && py.strs == js.strs),
    ("constants_py_m", py.consts == m.consts && py.strs == m.strs),
    ("constants_py_c", (py.userPart k).consts == c.consts && (py.userPart k).strs == c.strs),
    ("host_ids", py.hosts == js.hosts && py.hosts == m.hosts && (py.userPart k).hosts == c.hosts),
    ("module_ids", py.mods == js.mods && py.mods == m.mods && (py.userPart k).mods == c.mods),
    ("message_ids", py.mts == js.mts && py.mts == m.mts && (py.userPart k).mts == c.mts),
    ("hashes", py.hashes == js.hashes && py.hashes == m.hashes && (py.userPart k).hashes == c.hashes),
    ("fields_py_js", listCompat WDef.compat py.defs js.defs),
    ("fields_py_m", listCompat WDef.compat py.defs m.defs),
    ("fields_py_c", listCompat (WDef.compatC k) (py.userPart k).defs c.defs) ]

/-- the Python class carries the same id as the `MT_` constant -/
def pyIdsConsistent (prog : List Stmt) : Bool :=
  prog.all (fun s => match s with
    | .defn .mdf n (some id) _ _ _ => prog.any (fun s' => s' == .mt n id)
    | _ => true)

/-! ## Layout measurements (C04, second sentence) -/

/-- one definition as measured: offsets and size under gcc, offsets and size under ctypes (the imported Python
class), the `type_size` the compiler recorded -/
structure Measured where
  name : Name
  gccOffs : List Nat
  gccSize : Nat
  ctOffs : List Nat
  ctSize : Nat
  recorded : Nat
deriving Repr, Inhabited

def layoutClauses (ms : List Measured) : List (String × Bool) :=
  [ ("c_offsets_eq_python", ms.all (fun x => x.gccOffs == x.ctOffs)),
    ("c_size_eq_python", ms.all (fun x => x.gccSize == x.ctSize)),
    ("size_eq_recorded", ms.all (fun x => x.ctSize == x.recorded && x.gccSize == x.recorded)) ]

/-- the layout a C compiler / ctypes gives the member list of a registry definition (M6's independent algorithm) -/
def DefR.flds (d : DefR) : List Fld := d.fields.map FieldR.toFld

def packedOffsets : List Fld → Nat → List Nat
  | [], _ => []
  | f :: r, p => p :: packedOffsets r (p + f.size)

/-- "natural C layout = packed layout = recorded size" for one registry definition -/
def DefR.layoutOk (d : DefR) : Bool :=
  d.fields.isEmpty ||
  ((Layout.cOffsets d.flds 0).1 == packedOffsets d.flds 0 && Layout.cSizeof d.flds == d.size &&
    Layout.cAlignof d.flds == d.align)

/-! ## C15 -/

/-- one `fields:` entry uses the documented constructs the way the grammar means them: a non-empty field list,
no signal used as a field type or as a `fields:` source (both are bare `assert`s in the parser) -/
def specDocumented (T : Tables) (R : Reg) (sp : FieldsSpec) : Bool :=
  (match sp with
   | .list fs => fs.all (fun f => match lookupTy T R f.2.1 with | some (_, _, _, sg) => !sg | none => true)
   | .reuse _ => true) &&
  (match specFields T R sp with | .ok fs => !fs.isEmpty | .error _ => true)

def itemDocumented (T : Tables) (R : Reg) : Item → Bool
  | .struct _ _ f => specDocumented T R f
  | .message _ _ _ f => specDocumented T R f
  | _ => true

/-- `Documented`: every item is documented in the registry state it is parsed in -/
def documented (T : Tables) (ap : Bool) : List (Bool × Item) → Reg → Bool
  | [], _ => true
  | (core, it) :: r, R =>
    itemDocumented T R it &&
      (match elabItem T ap core R it with
       | .ok R' => documented T ap r R'
       | .error _ => true)

/-- every load-time judgement of C15 on one closure's four programs -/
def loadClauses (py c js m : List Stmt) (cPre : List (Space × Name) := []) : List (String × Bool) :=
  [ ("python_loads", loads .py py), ("c_compiles", loads .c c cPre), ("js_loads", loads .js js),
    ("js_arrays_fresh", jsFresh js), ("matlab_defined_before_use", loads .m m) ]

/-- the class of the open finding C15-F3: some alias resolves (directly or through other aliases) to a struct -/
def Reg.aliasOfStruct (R : Reg) : Bool := R.aliases.any (·.isStruct)

/-- the class of the open finding C15-F4: some struct has a field whose type is a message -/
def Reg.structUsesMsg (R : Reg) : Bool := R.structs.any (fun d => d.fields.any (fun f => f.kind == .message))

/-! ## C16: what a re-parse of the combined YAML must preserve -/

/-! ### what an item defines and what it refers to (hypotheses of the round-trip theorems, evaluated by the driver) -/

def Item.defName : Item → Option Name
  | .alias n _ => some n
  | .struct n _ _ => some n
  | .message n _ _ _ => some n
  | .signal n _ _ => some n
  | .reserved n _ _ => some n
  | _ => none

def Item.msgId : Item → Option Int
  | .message _ id _ _ => some id
  | .signal _ id _ => some id
  | .reserved _ id _ => some id
  | _ => none

def isNative (T : Tables) (ty : Name) : Bool := (assoc T.natives ty).isSome

/-- the names a `fields:` entry looks up in the registries (native type names never are) -/
def specRefs (T : Tables) : FieldsSpec → List Name
  | .list fs => (fs.map (·.2.1)).filter (fun ty => !isNative T ty)
  | .reuse m => [m]

def Item.refs (T : Tables) : Item → List Name
  | .alias _ t => if isNative T t then [] else [t]
  | .struct _ _ f => specRefs T f
  | .message _ _ _ f => specRefs T f
  | _ => []


/-- the alias / struct / message names the closure defines, in parse order (`check_duplicate_name` keeps them distinct) -/
def defNames (l : List (Bool × Item)) : List Name := l.filterMap (·.2.defName)


/-- no item refers (by a non-native name) to something that an item of a *later section* defines: no alias of a
struct (or of a message), no struct with a message-typed field or a message as `fields:` source.  Decidable; with
distinct names it is exactly the class of closures outside the open finding C16-F2. -/
def noFwdRef (T : Tables) (l : List (Bool × Item)) : Bool :=
  l.all fun y => (y.2.refs T).all fun n =>
    l.all fun x => !(x.2.defName == some n && decide (y.2.section < x.2.section))


/-- ids, hashes, sizes, layouts of a registry, keyed by name, independent of `core` flags -/
def DefR.sig (d : DefR) : Name × Option Int × Nat × Nat × Nat × List (Name × Name × Option Nat) :=
  (d.name, d.id, d.hash, d.size, d.align, d.fields.map (fun f => (f.name, f.ty, f.len)))

def Reg.sig (R : Reg) :=
  (R.consts.map (fun c => (c.1, c.2.1)), R.strs.map (fun c => (c.1, c.2.1)), R.hosts.map (fun c => (c.1, c.2.1)),
   R.mods.map (fun c => (c.1, c.2.1)), R.msgIds.map (fun c => (c.1, c.2.1)),
   R.aliases.map (fun a => (a.name, a.target, a.isStruct)), R.structs.map DefR.sig, R.msgs.map DefR.sig)

end Pyrtma.Emit
