import Pyrtma.Model.Layout
/-!
# Spec for C11 — what an *accepted* layout must look like

Written against the observable result only (`Out`: the field list with the recorded offsets, the
struct alignment, the size), never against the algorithm.  The same definitions are
(1) the conclusions of the theorems in `Props/C11.lean`, (2) the oracle the driver evaluates on
what the real parser returned.
-/
namespace Pyrtma.Layout

/-- offsets are the running sum of the sizes: there is no gap between two declared fields -/
def packed : List (Fld × Nat) → Nat → Bool
  | [], _ => true
  | (f, o) :: r, p => o == p && packed r (p + f.size)

def allAligned (fs : List (Fld × Nat)) : Bool := fs.all (fun p => p.2 % p.1.align == 0)

def userFields (fs : List (Fld × Nat)) : List Fld := (fs.filter (fun p => !p.1.isPad)).map (·.1)

def padsAreChar (fs : List (Fld × Nat)) : Bool :=
  fs.all (fun p => !p.1.isPad || (p.1.align == 1 && p.1.esize == 1))

/-- Clause names are what the driver prints when a clause is false. -/
def acceptedClauses (inp : List Fld) (o : Out) : List (String × Bool) :=
  [ ("offsets_aligned", allAligned o.fields),
    ("packed_no_gaps", packed o.fields 0),
    ("size_is_sum", o.size == sumSizes o.fields),
    ("size_multiple_of_strictest", o.size % strictest o.fields == 0),
    ("align_is_strictest", o.align == strictest o.fields),
    ("user_fields_preserved", userFields o.fields == inp),
    ("pads_are_char", padsAreChar o.fields),
    ("size_limit", decide (o.size ≤ 65535)) ]

def Accepted (inp : List Fld) (o : Out) : Prop := ∀ c ∈ acceptedClauses inp o, c.2 = true

instance (inp o) : Decidable (Accepted inp o) := by unfold Accepted; infer_instance

/-- "needs no padding": already packed-and-aligned as written -/
def needsNone (inp : List Fld) : Bool :=
  let offs := inp.foldl (fun (acc : List (Fld × Nat) × Nat) f => (acc.1 ++ [(f, acc.2)], acc.2 + f.size)) ([], 0)
  allAligned offs.1 && offs.2 % strictest offs.1 == 0

/-- the size a C compiler gives the user's own member list (natural alignment, `Model/Layout.lean: cSizeof`): what an
accepted definition ends up with (`C11.accepted_size_is_natural`), whichever padding fields were written or inserted -/
def naturalSize (inp : List Fld) : Nat := cSizeof inp

/-- "Definitions larger than 65535 bytes are rejected" read in both directions: a size error is justified exactly when
the naturally aligned definition is larger than the limit -/
def sizeErrorJustified (inp : List Fld) : Bool := decide (naturalSize inp > 65535)

/-- input well-formedness: what the parser can actually produce as a field
    (native widths and struct alignments are 1, 2, 4 or 8 and divide the element size) -/
def Fld.wf (f : Fld) : Bool :=
  (f.align == 1 || f.align == 2 || f.align == 4 || f.align == 8) && f.esize % f.align == 0 && !f.isPad

def wfInput (inp : List Fld) : Bool := inp.all Fld.wf

end Pyrtma.Layout
