import Pyrtma.Model.Serial
/-!
# Spec of C10 — serialisation round trips are the identity

Over observations of the real code only: the original message bytes, the bytes of the message obtained from each
round trip (or the fact that it raised), whether a copy shared storage, and for header+data JSON with a given
header version whether decoding was refused.
-/
namespace Pyrtma.Serial
open Pyrtma.Validators

/-- one round trip: its name and the bytes of the decoded message (`none`: an exception came out) -/
structure Trip where
  name : String
  bytes : Option Bytes
  deriving Repr

structure VerObs where
  version : Nat
  localHash : Nat
  refused : Bool
  /-- which text was decoded: layout and what was done to its "data" member (`""`: the minified text as written) -/
  what : String := ""
  /-- the "data" member of the text `to_json` wrote was removed / replaced: only the refusal direction is demanded
  (what decoding a foreign document with a *matching* version gives is not the property's business) -/
  altered : Bool := false
  deriving Repr

structure Obs where
  orig : Bytes
  trips : List Trip
  /-- mutating the copy changed the original, or the other way round -/
  copyShares : Bool
  vers : List VerObs
  deriving Repr

def clauses (o : Obs) : List (String × Bool) :=
  (o.trips.map fun t => ("roundtrip_" ++ t.name ++ "_is_identity", t.bytes == some o.orig)) ++
  [("copy_shares_no_storage", !o.copyShares)] ++
  (o.vers.map fun v =>
    let exp := versionRefused v.version v.localHash
    ("json_version_" ++ (if exp then "mismatch_refused" else "match_accepted") ++ (if v.what == "" then "" else "_" ++ v.what),
      if v.altered then !exp || v.refused else v.refused == exp))

def holds (o : Obs) : Prop := ∀ c ∈ clauses o, c.2 = true

/-- well-formed content of one array element / one float scalar.  Floats: the validators never store an infinity;
for `float` (binary32) fields the round trip needs `narrow (widen x) = x` — an **explicit hypothesis** about the
rounding (which is an opaque parameter of M4): it says that widening a stored `float` to `double` and casting back gives
the same bits, which holds for everything except signalling NaNs (the validated API cannot store one: the C cast quiets
them).  The driver evaluates it on every `float` the real code produced (`wfB`). -/
def WFelem (vk : VK) (c : Bytes) : Prop :=
  match vk with
  | .flt .f64 => isInf64 (fromLE c) = false
  | .flt .f32 => isInf32 (fromLE c) = false ∧ narrow (widen (fromLE c)) = fromLE c
  | .strct _ _ => False
  | _ => True

/-- the shapes of leaf descriptors the validator classes can build (`String(len)` and `ByteArray(len)` assert
`len > 1`; an `IntArray` of length 0 is refused by the message compiler — and would not round-trip: `max()` of an empty
sequence) -/
def leafOk : FTy → Bool
  | .int _ | .flt _ | .char | .byte => true
  | .str n => decide (1 < n)
  | .arr .byteArray .byte n => decide (1 < n)
  | .arr .intArray (.int _) n => decide (0 < n)
  | .arr .floatArray (.flt _) _ => true
  | _ => false

/-- well-formed leaf content: what the validated field API can produce (strings: NUL-terminated ASCII followed by
NULs only; chars ASCII; floats: see `WFelem`; everything else: any bytes of the right length) -/
def WF (ty : FTy) (b : Bytes) : Prop :=
  b.length = ty.size ∧ (∀ x ∈ b, x < 256) ∧
  match ty with
  | .char => ∀ x ∈ b, x < 128
  | .flt .f64 => isInf64 (fromLE b) = false          -- the validators never store an infinity
  | .flt .f32 => WFelem (.flt .f32) b
  | .str n => ∃ cs : List Nat, (∀ c ∈ cs, 0 < c ∧ c < 128) ∧ cs.length ≤ n - 1 ∧ b = cs ++ List.replicate (n - cs.length) 0
  | .arr _ vk n => ∀ c ∈ chunks vk.esize n b, WFelem vk c
  | _ => True

/- well-formed content of a whole object of class `d`: every leaf well-formed, every padding byte zero (padding is
never written through the field API; message definitions have none, C11) -/
mutual
def WFD : Desc → Bytes → Prop
  | .leaf ty, b => leafOk ty = true ∧ WF ty b
  | .strct fs tail, b => ∃ fb, b = fb ++ zeros tail ∧ WFF fs fb
  | .sarr n e, b => b.length = n * e.size ∧ ∀ c ∈ chunks e.size n b, WFD e c
def WFF : Fields → Bytes → Prop
  | .nil, b => b = []
  | .cons name pad d r, b =>
    ∃ db rb, b = zeros pad ++ db ++ rb ∧ db.length = d.size ∧ WFD d db ∧ WFF r rb ∧ name ∉ r.names
end

/-! ### the same well-formedness, decidable (evaluated by the driver on the bytes the real code produced) -/
def wfElemB (vk : VK) (c : Bytes) : Bool :=
  match vk with
  | .flt .f64 => !isInf64 (fromLE c)
  | .flt .f32 => !isInf32 (fromLE c) && narrow (widen (fromLE c)) == fromLE c
  | .strct _ _ => false
  | _ => true

def wfLeafB (ty : FTy) (b : Bytes) : Bool :=
  b.length == ty.size && b.all (· < 256) &&
  match ty with
  | .char => b.all (· < 128)
  | .flt .f64 => !isInf64 (fromLE b)
  | .flt .f32 => wfElemB (.flt .f32) b
  | .str n =>
    let cs := upToNul b
    cs.all (· < 128) && decide (cs.length ≤ n - 1) && b == cs ++ List.replicate (n - cs.length) 0
  | .arr _ vk n => (chunks vk.esize n b).all (wfElemB vk)
  | _ => true

mutual
def wfB : Desc → Bytes → Bool
  | .leaf ty, b => leafOk ty && wfLeafB ty b
  | .strct fs tail, b => wfFieldsB fs (b.take fs.size) && b.drop fs.size == zeros tail
  | .sarr n e, b => b.length == n * e.size && (chunks e.size n b).all (fun c => wfB e c)
def wfFieldsB : Fields → Bytes → Bool
  | .nil, b => b.isEmpty
  | .cons name pad d r, b =>
    b.take pad == zeros pad && ((b.drop pad).take d.size).length == d.size && wfB d ((b.drop pad).take d.size) &&
      wfFieldsB r (b.drop (pad + d.size)) && !(r.names.contains name)
end

/-! ## the floats of a message, and the class shapes JSON keeps apart -/
def leafFloats (ty : FTy) (b : Bytes) : List Nat :=
  match toDictLeaf ty b with
  | .sc (.flt x) => [x]
  | .seq _ xs => xs.filterMap fun s => match s with | .flt x => some x | _ => none
  | _ => []

mutual
def floatsOf : Desc → Bytes → List Nat
  | .leaf ty, b => leafFloats ty b
  | .strct fs _, b => floatsOfFields fs b
  | .sarr n e, b => (chunks e.size n b).flatMap fun c => floatsOf e c
def floatsOfFields : Fields → Bytes → List Nat
  | .nil, _ => []
  | .cons _ pad d r, b => floatsOf d ((b.drop pad).take d.size) ++ floatsOfFields r (b.drop (pad + d.size))
end

/- struct arrays have at least one element and their elements are structs (what `StructArray` builds): that is how a
decoded JSON list is recognised as a list of struct dictionaries -/
mutual
def descOkJ : Desc → Bool
  | .leaf _ => true
  | .strct fs _ => fieldsOkJ fs
  | .sarr n e => decide (0 < n) && (match e with | .strct _ _ => true | _ => false) && descOkJ e
def fieldsOkJ : Fields → Bool
  | .nil => true
  | .cons _ _ d r => descOkJ d && fieldsOkJ r
end


end Pyrtma.Serial
