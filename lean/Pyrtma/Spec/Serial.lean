import Pyrtma.Model.Serial
/-!
# Spec of C10 — serialisation round trips are the identity

Over observations of the real code only: the original message bytes, the bytes of the message obtained from each
round trip (or the fact that it raised), whether a copy shared storage, and for header+data JSON with a given
header version whether decoding was refused.
-/
namespace Pyrtma.Serial
open Pyrtma.Validators

/-- one round trip: its name and the bytes of the decoded message (`none`: an exception came out) -/
structure Trip where
  name : String
  bytes : Option Bytes
  deriving Repr

structure VerObs where
  version : Nat
  localHash : Nat
  refused : Bool
  deriving Repr

structure Obs where
  orig : Bytes
  trips : List Trip
  /-- mutating the copy changed the original, or the other way round -/
  copyShares : Bool
  vers : List VerObs
  deriving Repr

def clauses (o : Obs) : List (String × Bool) :=
  (o.trips.map fun t => ("roundtrip_" ++ t.name ++ "_is_identity", t.bytes == some o.orig)) ++
  [("copy_shares_no_storage", !o.copyShares)] ++
  (o.vers.map fun v => ("json_version_" ++ (if versionRefused v.version v.localHash then "mismatch_refused" else "match_accepted"),
      v.refused == versionRefused v.version v.localHash))

def holds (o : Obs) : Prop := ∀ c ∈ clauses o, c.2 = true

/-- well-formed leaf content: what the validated field API can produce (strings: NUL-terminated ASCII followed by
NULs only; chars ASCII; everything else: any bytes of the right length) -/
def WF (ty : FTy) (b : Bytes) : Prop :=
  b.length = ty.size ∧ (∀ x ∈ b, x < 256) ∧
  match ty with
  | .char => ∀ x ∈ b, x < 128
  | .flt .f64 => isInf64 (fromLE b) = false          -- the validators never store an infinity
  | .str n => ∃ cs : List Nat, (∀ c ∈ cs, 0 < c ∧ c < 128) ∧ cs.length ≤ n - 1 ∧ b = cs ++ List.replicate (n - cs.length) 0
  | _ => True

end Pyrtma.Serial
