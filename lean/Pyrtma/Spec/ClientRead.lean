import Pyrtma.Model.ClientRead
/-!
# Spec for C08 — what one `read_message` call may do, stated over *frames*

The input of a call is what the manager has put on the wire and the client has not read yet: a sequence of whole
frames `fs` (header + payload), followed by `tail` — the beginning of a frame that will never be completed, possibly
empty — and `e`, what the peer does after that (stays idle, FIN, RST).  The observation is the value/exception of
the call, the number of bytes it took from the socket and `Client.connected` afterwards.

Everything here is a Bool-valued function of (input, arguments, observation); the same definitions are the
conclusions of the theorems in `Props/C08.lean` and the oracle the driver evaluates on what the real client did.
-/
namespace Pyrtma.ClientRead

structure Frame where
  hdr : Bytes
  payload : Bytes
deriving Repr, DecidableEq, Inhabited

def Frame.bytes (f : Frame) : Bytes := f.hdr ++ f.payload
def Frame.len (f : Frame) : Nat := f.hdr.length + f.payload.length

/-- a frame as the wire format defines it: full header, payload of the length the header announces -/
def Frame.wf (cfg : Cfg) (f : Frame) : Bool :=
  f.hdr.length == cfg.hsize && hLen f.hdr == (f.payload.length : Int)

def framesBytes : List Frame → Bytes
  | [] => []
  | f :: fs => f.bytes ++ framesBytes fs

def framesLen : List Frame → Nat
  | [] => 0
  | f :: fs => f.len + framesLen fs

/-- the byte string on the socket -/
def streamOf (fs : List Frame) (tail : Bytes) : Bytes := framesBytes fs ++ tail

/-- `tail` starts with a complete header -/
def tailHasHeader (cfg : Cfg) (tail : Bytes) : Bool := cfg.hsize ≤ tail.length

/-- `tail` is not a whole frame: header incomplete, or payload shorter than announced, or a negative length -/
def tailIncomplete (cfg : Cfg) (tail : Bytes) : Bool :=
  !tailHasHeader cfg tail ||
    (hLen (tail.take cfg.hsize) < 0 || ((tail.length - cfg.hsize : Nat) : Int) < hLen (tail.take cfg.hsize))

/-- a header announcing a negative payload length: not a frame of the protocol; no verdict on such input -/
def tailBadLen (cfg : Cfg) (tail : Bytes) : Bool :=
  tailHasHeader cfg tail && hLen (tail.take cfg.hsize) < 0

/-- the pre-state of a call -/
structure Pre where
  fs : List Frame
  tail : Bytes
  e : End
  connected : Bool
  sub : Sub
deriving Repr, Inhabited

structure Args where
  tmo : Tmo
  ack : Bool
  sync : Bool
deriving Repr, Inhabited

def Pre.wf (cfg : Cfg) (p : Pre) : Bool :=
  decide (48 ≤ cfg.hsize) && p.fs.all (Frame.wf cfg) && tailIncomplete cfg p.tail && !tailBadLen cfg p.tail

def Pre.total (p : Pre) : Nat := framesLen p.fs + p.tail.length

def Pre.sock (p : Pre) : Sock := ⟨streamOf p.fs p.tail, p.e⟩
def Pre.st (p : Pre) : St := ⟨p.sock, p.connected, p.sub⟩

/-- split `fs` after exactly `c` bytes, if `c` is a frame boundary -/
def takeFrames : List Frame → Nat → Option (List Frame × List Frame)
  | fs, 0 => some ([], fs)
  | [], _ + 1 => none
  | f :: fs, c + 1 =>
    if c + 1 < f.len then none
    else (takeFrames fs (c + 1 - f.len)).map (fun r => (f :: r.1, r.2))

/-- `recv_time` (bytes 16..23) is stamped by the receiving client; every other header byte must survive -/
def maskRecv (h : Bytes) : Bytes := h.take 16 ++ List.replicate 8 0 ++ h.drop 24

/-- a frame `read_message` silently discards: decodable, and of a type the caller does not want -/
def skipF (cfg : Cfg) (sub : Sub) (a : Args) (f : Frame) : Bool :=
  kind cfg a.sync f.hdr == .good && !wanted cfg sub a.ack (hType f.hdr)

/-- the outcome class a frame of a given kind must produce -/
def resMatchesKind : Res → Kind → Bool
  | .msg _ _, .good => true
  | .unknownType _ _, .unknown => true
  | .invalidDef, .wrongSize => true
  | .invalidDef, .wrongVersion => true
  | _, _ => false

def Res.isDecided : Res → Bool
  | .msg _ _ | .unknownType _ _ | .invalidDef => true
  | _ => false

def Res.isNormal : Res → Bool
  | .msg _ _ | .unknownType _ _ | .invalidDef | .none => true
  | _ => false

/-- The one tolerated deviation (DESIGN C08-F2): FIN inside the *drained* payload of an undecodable frame is
reported as that frame's decode error; the loss is then reported by the next call (the socket is at EOF). -/
def drainExc (cfg : Cfg) (p : Pre) (a : Args) (o : Obs) : Bool :=
  (o.res matches .unknownType _ _ | .invalidDef) && p.e == .fin && o.consumed == p.total &&
  p.fs.all (skipF cfg p.sub a) && (a.tmo != .zero || p.fs.isEmpty) &&
  tailHasHeader cfg p.tail && resMatchesKind o.res (kind cfg a.sync (p.tail.take cfg.hsize))

/-- Clause names are what the driver prints when a clause is false.  All clauses assume `p.wf`. -/
def clauses (cfg : Cfg) (p : Pre) (a : Args) (o : Obs) : List (String × Bool) :=
  let tf := takeFrames p.fs o.consumed
  [ -- a disconnected client refuses to read, a connected one never says "not connected"
    ("not_connected_iff_refused",
      (o.res == .notConnected) == !p.connected && (p.connected || (o.consumed == 0 && !o.connected))),
    -- resynchronisation: whatever is returned or raised, whole frames were consumed (else the loss is reported)
    ("whole_frames_consumed",
      !p.connected || !o.res.isNormal || tf.isSome || drainExc cfg p a o),
    -- a returned message is the last consumed frame, byte for byte (recv_time excepted)
    ("returned_frame_faithful",
      match o.res, tf with
      | .msg h pl, some (taken, _) =>
        (match taken.getLast? with
         | some f => maskRecv f.hdr == maskRecv h && f.payload == pl
         | none => false)
      | .msg _ _, none => false
      | _, _ => true),
    -- never a type the caller is not subscribed to (ACK only on request)
    ("returned_type_subscribed",
      match o.res with
      | .msg h _ => wanted cfg p.sub a.ack (hType h)
      | _ => true),
    -- nothing but unsubscribed, decodable frames is discarded on the way
    ("skipped_only_unsubscribed",
      !p.connected ||
      (match tf with
       | some (taken, _) =>
         if o.res.isDecided then taken.dropLast.all (skipF cfg p.sub a) else taken.all (skipF cfg p.sub a)
       | none => true)),
    -- the documented error for the frame that stopped the call, and only for such a frame
    ("outcome_matches_frame",
      !p.connected || !o.res.isDecided ||
      (match tf with
       | some (taken, _) =>
         (match taken.getLast? with
          | some f => resMatchesKind o.res (kind cfg a.sync f.hdr)
          | none => false)
       | none => drainExc cfg p a o)),
    -- ConnectionLost: only when the peer is gone and every byte was taken, no wanted message dropped, and the
    -- client ends disconnected; any other outcome leaves it connected
    ("lost_means_disconnected",
      !p.connected ||
      (if o.res == .lost then
         !o.connected && p.e != .idle && o.consumed == p.total && p.fs.all (skipF cfg p.sub a)
       else !o.res.isNormal || o.connected)),
    -- "no message" is never reported while bytes (or a close) are pending and nothing was consumed
    ("none_only_when_idle",
      !p.connected || !(o.res == .none && o.consumed == 0) ||
        (p.fs.isEmpty && p.tail.isEmpty && p.e == .idle)),
    -- nothing but the documented outcomes; a hang only on an idle peer
    ("documented_outcomes_only",
      o.res != .crash && (o.res != .blocked || p.e == .idle)) ]

def specOk (cfg : Cfg) (p : Pre) (a : Args) (o : Obs) : Bool := (clauses cfg p a o).all (·.2)

/-- pre-state of the next call, from what this one was seen to do (`none`: the position is inside a frame, which
    only happens after a failed clause).  After `ConnectionLost` nothing is left on the socket. -/
def Pre.advance (p : Pre) (o : Obs) : Option Pre :=
  if o.res == .lost || o.consumed == p.total then
    some { p with fs := [], tail := [], e := if o.res == .lost || p.tail.length != 0 then .fin else p.e,
                  connected := o.connected }
  else match takeFrames p.fs o.consumed with
    | some (_, rest) => some { p with fs := rest, connected := o.connected }
    | none => none

/-- The Spec over a whole history: every read meets `specOk` in the pre-state reached by the earlier calls
    (subscription changes between reads included), judged against the local definition table *as it is at the time
    of that read* (changes of the table between reads included).  A hung call (`blocked`) ends the history. -/
def histOk : Cfg → Pre → List Call → List Obs → Bool
  | _, _, [], _ => true
  | cfg, p, .setSub sub :: cs, os => histOk cfg { p with sub := sub } cs os
  | cfg, p, .setDefs defs :: cs, os => histOk { cfg with defs := defs } p cs os
  | _, _, .read _ _ _ :: _, [] => false
  | cfg, p, .read tmo ack sync :: cs, o :: os =>
    specOk cfg p ⟨tmo, ack, sync⟩ o &&
      (o.res == .blocked ||
        match p.advance o with
        | some p' => histOk cfg p' cs os
        | none => false)

end Pyrtma.ClientRead
