import Pyrtma.Model.ClientSub
/-!
# Spec for C02 — client and manager agree on the subscription set

Stated over what can be *seen* after each phase of an API call (`View`): the two sets the client reports and
which of one probe message per type of a finite universe `U` (sent by another module) reaches the client's
socket.  Everything is a Bool-valued function of observations; the same definitions are the conclusions of the
theorems in `Props/C02.lean` and the oracle the driver evaluates on what the real client + real manager did.
-/
namespace Pyrtma.ClientSub

structure View where
  sub : List Int          -- `Client.subscribed_types`
  paused : List Int       -- `Client.paused_subscribed_types`
  delivered : List Int    -- the probe types (out of `U`) that reached the client's socket
deriving Repr, DecidableEq, Inhabited

/-- one phase as observed: did it raise, how many control frames went on the wire, the view afterwards -/
structure PhaseObs where
  status : Option Status      -- `none` = some other exception escaped
  nframes : Nat
  view : View
deriving Repr, DecidableEq, Inhabited

/-- the view of a model state -/
def viewOf (U : List Int) (c : CState) (m : MState) : View :=
  ⟨c.subscribed, c.paused, U.filter (delivered m)⟩

def obsOfPhases (U : List Int) : List (Phase × MState) → List PhaseObs
  | [] => []
  | (p, m) :: r => ⟨some p.status, p.frames.length, viewOf U p.st m⟩ :: obsOfPhases U r

/-- "reports as subscribed" = "will be delivered", for every probe type -/
def agreeOk (U : List Int) (v : View) : Bool :=
  U.all (fun t => t == ALL || (v.delivered.contains t == (v.sub.contains t || v.sub.contains ALL)))

/-- paused types are not delivered -/
def pausedOk (v : View) : Bool := v.paused.all (fun t => !v.delivered.contains t)

def sameView (a b : View) : Bool :=
  seteq a.sub b.sub && seteq a.paused b.paused && seteq a.delivered b.delivered

/-- the type list of an attempt to change *individual* subscriptions (what reaches `_subscription_control`
    while the client is subscribed to all types) -/
def individualArgs (pre : View) : Op → Option (List Int)
  | .ctl _ l => some l
  | .subCtx l => some l
  | .pauseCtx l => some l
  | .resumeAll => some pre.paused
  | _ => none

/-- while subscribed to all types, an attempt to change individual subscriptions puts nothing on the wire, changes
    nothing on either side, and (when it names at least one type) is refused -/
def allRefusesClause (pre : View) (op : Op) (first : Bool) (o : PhaseObs) : Bool :=
  !(first && pre.sub.contains ALL) ||
  (match individualArgs pre op with
   | some l =>
     l.contains ALL ||
       (o.nframes == 0 && sameView pre o.view && (l.isEmpty || o.status == some .refused))
   | none => true)

/-- clauses for one phase; `pre` = view before the call, `prev` = view before this phase -/
def phaseClauses (U : List Int) (pre prev : View) (op : Op) (first : Bool) (o : PhaseObs) : List (String × Bool) :=
  [ ("reported_equals_delivered", agreeOk U o.view),
    ("paused_not_delivered", pausedOk o.view),
    ("documented_outcomes_only", o.status.isSome),
    ("refused_changes_nothing",
      o.status != some .refused || (o.nframes == 0 && sameView prev o.view)),
    ("refused_only_when_subscribed_to_all",
      o.status != some .refused || prev.sub.contains ALL),
    ("subscribed_to_all_refuses_individual_changes", allRefusesClause pre op first o) ]

/-- a scoped context entered with individual types restores the subscribed and paused sets -/
def ctxRestores (pre : View) (op : Op) (last : View) : Bool :=
  match op with
  | .subCtx l | .pauseCtx l =>
    l.contains ALL || (seteq last.sub pre.sub && seteq last.paused pre.paused)
  | _ => true

def firstFail (cs : List (String × Bool)) : Option String := (cs.find? (fun c => !c.2)).map (·.1)

/-- walk the phases of one call; returns the first failing clause -/
def opFail (U : List Int) (pre : View) (op : Op) : View → Bool → List PhaseObs → Option String
  | prev, _, [] => if ctxRestores pre op prev then none else some "context_restores_entry_state"
  | prev, first, o :: os =>
    match firstFail (phaseClauses U pre prev op first o) with
    | some c => some c
    | none => opFail U pre op o.view false os

def opOk (U : List Int) (pre : View) (op : Op) (obs : List PhaseObs) : Bool :=
  !obs.isEmpty && (opFail U pre op pre true obs).isNone

def lastView (pre : View) : List PhaseObs → View
  | [] => pre
  | [o] => o.view
  | _ :: os => lastView pre os

/-- the Spec over a whole history of calls -/
def histOk (U : List Int) : View → List Op → List (List PhaseObs) → Bool
  | _, [], _ => true
  | _, _ :: _, [] => false
  | pre, op :: ops, obs :: rest => opOk U pre op obs && histOk U (lastView pre obs) ops rest

end Pyrtma.ClientSub
