import Pyrtma.Model.DataLogFine
import Pyrtma.Spec.DataLog
/-!
# Spec of C17 at the fine granularity, with file-system failures as outcomes

Observation of one session: how it ended, whether an injected file-system failure was hit, the files.
-/
namespace Pyrtma.DataLog.Fine

/-- how the session of the recording thread ended -/
inductive Outcome where
  | done          -- `stop()` returned
  | told          -- an exception reached the caller of `update` / `stop`
  | hang          -- `stop()` can never return
deriving Repr, DecidableEq, Inhabited

def outcomeOf (c : Cfg) (s : State) : Option Outcome :=
  if s.rpc = .done then some .done
  else if s.rpc = .raisedT ∨ s.rpc = .raisedIO then some .told
  else if s.hung c then some .hang
  else none

/-- was some file-system operation performed so far made to fail? (what the harness reports as `fired`) -/
def firedB (c : Cfg) (s : State) : Bool := (List.range s.ioc).any c.fault

/-- **liveness clause**: the session ends — `stop()` returns or raises -/
def terminates (o : Outcome) : Bool := o != .hang

/-- **no silent drop**: if a file-system operation failed, `stop()` does not return as if nothing happened -/
def toldOnFailure (failed : Bool) (o : Outcome) : Bool := !failed || o != .done

/-- **exactly once, in order** when `stop()` returned -/
def completeIfDone (o : Outcome) (acc : List Msg) (files : List (List Msg)) : Bool :=
  o != .done || complete acc files

end Pyrtma.DataLog.Fine
