import Pyrtma.Model.DataLogFmt
/-!
# Spec of C17, file-format clauses — decidable predicates over the bytes of a file

"After stop the files are complete: the raw file is the concatenation of the frames, the JSON file decodes
line by line to the messages, and the quicklogger file read back with the package's reader yields the same
sequence of headers and payloads."
-/
namespace Pyrtma.DataLog.Fmt

/-- the raw file is the concatenation of the frames (header bytes then payload bytes) of `ms` -/
def rawIsConcat (ms : List FMsg) (file : Bytes) : Bool := file == (ms.map rawFrame).flatten

/-- the JSON file consists of exactly one newline-terminated line per message, in order -/
def jsonLinesAre (lines : List (List Char)) (file : List Char) : Bool := splitLines [] file == (lines, [])

/-- the quicklogger file reads back (with the model of `QLReader.load`) as the messages -/
def qlReadsBack (ndbOff : Nat) (ms : List FMsg) (file : Bytes) : Bool := qlRead ndbOff file == ms

/-- well-formed message for a header layout: header of the fixed size whose `num_data_bytes` is the
payload length -/
def wfMsg (H ndbOff : Nat) (m : FMsg) : Prop := m.hdr.length = H ∧ ndb ndbOff m.hdr = m.data.length

end Pyrtma.DataLog.Fmt
