import Pyrtma.Model.ClientLife
import Pyrtma.Spec.ClientSub
/-!
# Spec for the session life cycle (C02 over several sessions; the client half of C06's dynamic-id sentence)

Stated over what can be *seen* after each phase of a call on one `Client` object, from its construction on
(`LObs`): the outcome, the two reported sets, which probe messages reach the client's latest socket, `connected`,
`module_id`, and — when the call wrote a CONNECT_V2 — the `mod_id` it asked for, the `dest_mod_id` of the manager's
ACK and the ids held by the *other* records of the manager's table.  Bool-valued functions of observations only;
the same definitions are the conclusions of `C02.life_history_meets_spec` and the oracle the driver evaluates on
what the real `Client` and the real manager did.
-/
namespace Pyrtma.ClientSub

structure LObs where
  status : Option LStatus     -- `none`: some other exception escaped
  nframes : Nat               -- subscription control frames written during the phase
  view : View
  connected : Bool            -- `Client.connected`
  modId : Int                 -- `Client.module_id`
  req : Option Int            -- the `mod_id` field of the CONNECT_V2 written during the phase, if one was written
  ack : Option Int            -- the `dest_mod_id` of the first ACK on the connection made during the phase
  held : List Int             -- `mod_id` of every module record except the one of the client's latest connection
deriving Repr, DecidableEq, Inhabited

/-- a client object before its first call -/
def LObs.fresh (created : Int) : LObs := ⟨some .ok, 0, ⟨[], [], []⟩, false, created, none, none, []⟩

def LObs.toPhase (o : LObs) : PhaseObs :=
  ⟨match o.status with
    | some .ok => some .ok
    | some .refused => some .refused
    | _ => none,
   o.nframes, o.view⟩

/-- the phase completed a handshake -/
def LObs.joined (o : LObs) : Bool := o.req.isSome && o.status == some .ok

/-- C02 over sessions, one phase -/
def lifeC02 (U : List Int) (o : LObs) : List (String × Bool) :=
  [ -- a connected client reports exactly what the manager delivers to its connection; paused types are not delivered
    ("connected_reported_equals_delivered", !o.connected || (agreeOk U o.view && pausedOk o.view)),
    -- right after any (re)connect both sides are empty, whatever the earlier sessions did
    ("fresh_session_is_empty",
      !o.joined || (o.connected && o.view.sub.isEmpty && o.view.paused.isEmpty && o.view.delivered.isEmpty)) ]

def LOp.isConnect : LOp → Bool
  | .connect _ => true
  | .connectLate _ => true
  | _ => false

/-- the client half of C06's identity sentences, one phase -/
def lifeC06 (cfg : IdCfg) (created : Int) (op : LOp) (o : LObs) : List (String × Bool) :=
  [ -- every connect asks for the id the object was created with (0 = dynamic), whatever happened before
    ("connect_requests_created_id",
      (!op.isConnect || o.req.isSome) && (o.req.isNone || o.req == some created)),
    -- the id the client reports afterwards is the one the acknowledgement carried
    ("reported_id_is_acked_id", !o.joined || o.ack == some o.modId),
    -- a client asking for id 0 ends up with an id of the dynamic range that no other module record holds
    ("dynamic_id_fresh_and_in_range",
      !(o.joined && created == 0) ||
        (decide (cfg.dynStart ≤ o.modId) && decide (o.modId < cfg.maxModules) && !o.held.contains o.modId)) ]

/-- is `op` a subscription call the first layer judges (on a connected client) -/
def subOpOf : LOp → Option Op
  | .sub .reconnect => none
  | .sub op => some op
  | _ => none

/-- first failing C02 clause of one call; `pre` = observation before the call -/
def lopFail02 (U : List Int) (pre : LObs) (op : LOp) (obs : List LObs) : Option String :=
  match (obs.flatMap (lifeC02 U)).find? (fun c => !c.2) with
  | some c => some c.1
  | none =>
    match subOpOf op with
    | some sop => if pre.connected then opFail U pre.view sop pre.view true (obs.map LObs.toPhase) else none
    | none => none

def lopFail06 (cfg : IdCfg) (created : Int) (op : LOp) (obs : List LObs) : Option String :=
  ((obs.flatMap (lifeC06 cfg created op)).find? (fun c => !c.2)).map (·.1)

def lastObs (pre : LObs) : List LObs → LObs
  | [] => pre
  | [o] => o
  | _ :: os => lastObs pre os

/-- the Spec over a whole history of calls on one client object -/
def lhistOk (cfg : IdCfg) (U : List Int) (created : Int) : LObs → List LOp → List (List LObs) → Bool
  | _, [], _ => true
  | _, _ :: _, [] => false
  | pre, op :: ops, obs :: rest =>
    !obs.isEmpty && (lopFail02 U pre op obs).isNone && (lopFail06 cfg created op obs).isNone &&
      lhistOk cfg U created (lastObs pre obs) ops rest

/-! ### what the model shows -/

def lview (U : List Int) (cl : Cl) (g : Mgr) : View :=
  ⟨cl.sub.subscribed, cl.sub.paused,
   match g.find cl.conn with
   | some r => U.filter (delivered r.m)
   | none => []⟩

def lheld (cl : Cl) (g : Mgr) : List Int := (g.conns.filter (fun r => r.cid != cl.conn)).map (·.modId)

def lobs (U : List Int) (x : LPhase × Mgr) : LObs :=
  ⟨some x.1.status, x.1.frames.length, lview U x.1.cl x.2, x.1.cl.connected, x.1.cl.modId, x.1.req, x.1.ack,
   lheld x.1.cl x.2⟩

/-- the observation of a state between calls -/
def lobsOf (U : List Int) (s : LSys) : LObs :=
  ⟨some .ok, 0, lview U s.cl s.mg, s.cl.connected, s.cl.modId, none, none, lheld s.cl s.mg⟩

def ltrace (cfg : IdCfg) (U : List Int) : LSys → List LOp → List (List LObs)
  | _, [] => []
  | s, op :: ops => (lstep cfg s op).map (lobs U) :: ltrace cfg U (lafter s (lstep cfg s op)) ops

end Pyrtma.ClientSub
