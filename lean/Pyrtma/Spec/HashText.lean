import Pyrtma.Model.HashText
/-!
# Spec for C13 — what the version hash may depend on

`Identity` is exactly what the property names: kind (message with data / signal), name, id and the ordered list of
field names with their type texts — for a definition written `fields: OTHER` that is OTHER's list.  The oracle
`judgePair` is evaluated on two definitions as the real parser hashed them: equal identities must have equal
hashes (whatever the file, directory, import order, comments, blank lines, unrelated definitions), different
identities must have different hashes.
-/
namespace Pyrtma.HashText

structure Identity where
  signal : Bool
  name : Str
  id : Int
  fields : List (Str × Str)
deriving Repr, DecidableEq, Inhabited

/-- names and type texts the theorems speak about: no newline; (field) names contain no `": "` -/
def noNl (s : Str) : Bool := !s.contains '\n'

def hasColonSpace : Str → Bool
  | ':' :: ' ' :: _ => true
  | _ :: r => hasColonSpace r
  | [] => false

def cleanField (p : Str × Str) : Bool := noNl p.1 && noNl p.2 && !hasColonSpace p.1

def Def.clean (d : Def) : Bool :=
  noNl d.name &&
  match d.fields with
  | .null => true
  | .ref o => noNl o
  | .list fs => fs.all cleanField

/-- identity of a definition that does not use the re-use form -/
def Def.identity? (d : Def) : Option Identity :=
  match d.kind, d.fields with
  | .message, .null => some { signal := true, name := d.name, id := d.id, fields := [] }
  | .message, .list fs => some { signal := false, name := d.name, id := d.id, fields := fs }
  | _, _ => none

/-- the oracle: `a`, `b` identities, `ha`, `hb` the hex digests the implementation produced -/
def judgePair (a b : Identity) (ha hb : String) : String :=
  if a == b then (if ha == hb then "ok" else "fail same_definition_different_hash")
  else if ha == hb then "fail edit_does_not_change_hash"
  else if ha.take 8 == hb.take 8 then "fail edit_does_not_change_32bit_prefix"
  else "ok"

/-- "the hash written into each language output is that same value, and it is the value senders place in the
version field": `p` = `int(MDF.hash[:8], 16)` of the parser, `py` = `type_hash` of the generated class, `c` = the
`HASH_<NAME>` macro, `js` / `m` = the 8-digit strings of the JavaScript / MATLAB outputs read as hex, `versions` =
`header.version` of frames a real `Client.send_message` wrote.  `none`: no constant for the message in that output. -/
def judgeOutputs (p : Nat) (py c js m : Option Nat) (versions : List Nat) : String :=
  let one (lang : String) (v : Option Nat) : Option String :=
    match v with
    | none => some s!"fail hash_missing_in_{lang}_output"
    | some x => if x == p then none else some s!"fail hash_differs_in_{lang}_output"
  match one "py" py with
  | some e => e
  | none => match one "c" c with
    | some e => e
    | none => match one "js" js with
      | some e => e
      | none => match one "m" m with
        | some e => e
        | none => if versions.all (· == p) then "ok" else "fail header_version_is_not_the_hash"

end Pyrtma.HashText
