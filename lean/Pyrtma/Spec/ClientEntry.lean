import Pyrtma.Model.ClientEntry
/-!
# Spec for the last sentence of C06: "the options a caller passes when connecting (logger, daemon, allow-multiple,
name, id) take effect at the manager exactly as named, through every public way of connecting"

Over what can be *seen*: the options as the caller named them, and the fields of the CONNECT_V2 / CONNECT frames the
client wrote (decoded by the harness with the real message classes).  Bool-valued.
-/
namespace Pyrtma.ClientEntry

/-- the options by name, as the caller means them (an option the entry point does not have is its documented default) -/
structure Options where
  logger : Bool
  daemon : Bool
  allow : Bool
  modId : Int
  name : String
deriving Repr, DecidableEq, Inhabited

/-- the decoded frames -/
structure Wrote where
  v2 : Options                -- CONNECT_V2: logger_status, daemon_status, allow_multiple, mod_id, name
  v1logger : Bool             -- CONNECT: logger_status
  v1daemon : Bool             -- CONNECT: daemon_status
deriving Repr, DecidableEq, Inhabited

def Options.fields (o : Options) : List (Field × Val) :=
  [(.logger, .b o.logger), (.daemon, .b o.daemon), (.allow, .b o.allow), (.modId, .i o.modId), (.name, .s o.name)]

/-- the name option: a name the caller gave (non-empty) is the name that arrives, whatever the id; without a name the
documented default arrives: a name the context registers for the module id (static ids only), else the empty name.
`o.name = ""` stands for "no name given". -/
def nameOk (mids : Mids) (o : Options) (got : String) : Bool :=
  if o.name != "" then got == o.name
  else if o.modId == 0 then got == ""
  else
    match mids.filter (fun p => p.2 == o.modId) with
    | [] => got == ""
    | l => l.any (fun p => p.1 == got)

def honoured (mids : Mids) (o : Options) (w : Wrote) : List (String × Bool) :=
  [ ("CONNECT_V2.logger_status", w.v2.logger == o.logger),
    ("CONNECT_V2.daemon_status", w.v2.daemon == o.daemon),
    ("CONNECT_V2.allow_multiple", w.v2.allow == o.allow),
    ("CONNECT_V2.mod_id", w.v2.modId == o.modId),
    ("CONNECT_V2.name", nameOk mids o w.v2.name),
    ("CONNECT.logger_status", w.v1logger == o.logger),
    ("CONNECT.daemon_status", w.v1daemon == o.daemon) ]

def honouredOk (mids : Mids) (o : Options) (w : Wrote) : Bool := (honoured mids o w).all (·.2)

/-- what the model's payload says was written -/
def wroteOf (p : List (Field × Val) × List (Field × Val)) : Option Wrote :=
  match p.1, p.2 with
  | [(.logger, .b l), (.daemon, .b d), (.allow, .b a), (.modId, .i i), (.name, .s n)], [(.logger, .b l1), (.daemon, .b d1)] =>
    some ⟨⟨l, d, a, i, n⟩, l1, d1⟩
  | _, _ => none

/-- the frames as written: the name field has gone through `Client.__init__` (`storedName` of the id and name the
constructor was given - which are the `mod_id` / `name` the binding model delivers) -/
def initName (mids : Mids) (w : Wrote) : Wrote :=
  { w with v2 := { w.v2 with name := storedName mids w.v2.modId w.v2.name } }

/-- what the model says an entry point with these actuals writes, in a context with the registered ids `mids` -/
def wroteBy (mids : Mids) (e : Entry Val) : Option Wrote := ((payload id prog e).bind wroteOf).map (initName mids)

end Pyrtma.ClientEntry
