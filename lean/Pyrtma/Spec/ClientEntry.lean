import Pyrtma.Model.ClientEntry
/-!
# Spec for the last sentence of C06: "the options a caller passes when connecting (logger, daemon, allow-multiple,
name, id) take effect at the manager exactly as named, through every public way of connecting"

Over what can be *seen*: the options as the caller named them, and the fields of the CONNECT_V2 / CONNECT frames the
client wrote (decoded by the harness with the real message classes).  Bool-valued.
-/
namespace Pyrtma.ClientEntry

/-- the options by name, as the caller means them (an option the entry point does not have is its documented default) -/
structure Options where
  logger : Bool
  daemon : Bool
  allow : Bool
  modId : Int
  name : String
deriving Repr, DecidableEq, Inhabited

/-- the decoded frames -/
structure Wrote where
  v2 : Options                -- CONNECT_V2: logger_status, daemon_status, allow_multiple, mod_id, name
  v1logger : Bool             -- CONNECT: logger_status
  v1daemon : Bool             -- CONNECT: daemon_status
deriving Repr, DecidableEq, Inhabited

def Options.fields (o : Options) : List (Field × Val) :=
  [(.logger, .b o.logger), (.daemon, .b o.daemon), (.allow, .b o.allow), (.modId, .i o.modId), (.name, .s o.name)]

def honoured (o : Options) (w : Wrote) : List (String × Bool) :=
  [ ("CONNECT_V2.logger_status", w.v2.logger == o.logger),
    ("CONNECT_V2.daemon_status", w.v2.daemon == o.daemon),
    ("CONNECT_V2.allow_multiple", w.v2.allow == o.allow),
    ("CONNECT_V2.mod_id", w.v2.modId == o.modId),
    ("CONNECT_V2.name", w.v2.name == o.name),
    ("CONNECT.logger_status", w.v1logger == o.logger),
    ("CONNECT.daemon_status", w.v1daemon == o.daemon) ]

def honouredOk (o : Options) (w : Wrote) : Bool := (honoured o w).all (·.2)

/-- what the model's payload says was written -/
def wroteOf (p : List (Field × Val) × List (Field × Val)) : Option Wrote :=
  match p.1, p.2 with
  | [(.logger, .b l), (.daemon, .b d), (.allow, .b a), (.modId, .i i), (.name, .s n)], [(.logger, .b l1), (.daemon, .b d1)] =>
    some ⟨⟨l, d, a, i, n⟩, l1, d1⟩
  | _, _ => none

end Pyrtma.ClientEntry
