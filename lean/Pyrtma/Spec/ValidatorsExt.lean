import Pyrtma.Spec.Validators
import Pyrtma.Model.ValidatorsExt
/-!
# Spec of C09, second part (added; nothing in `Spec/Validators.lean` is changed by this file)

* well-formedness of what the theorems quantify over (`tyWF`, `valWF`): facts about *Python objects* that the abstract
  values do not carry by themselves (a `bytes` object consists of bytes, a ctypes instance has the size of its class,
  a double is 64 bits, a struct instance has the size of its class)
* `progOk`: the validation switch seen from a whole program run (nested blocks, exceptions, views)
-/
namespace Pyrtma.Validators

def CT.size : CT → Nat
  | .int k => k.size | .flt k => k.size | .char => 1 | .chars n => n

/-- the element kind a field offers its right-hand sides to -/
def FTy.vk : FTy → VK
  | .int k => .int k | .flt k => .flt k | .byte => .byte | .char => .byte | .str _ => .byte
  | .arr _ vk _ => vk | .strct t s => .strct t s

/-- a scalar Python object as it can exist: bytes are bytes, a double has 64 bits, a ctypes instance has the size of
its class, an instance of the field's struct class has the size the field reserves for it -/
def scalarWF (vk : VK) : Scalar → Bool
  | .flt b => (match vk with | .flt _ => decide (b < 2 ^ 64) | _ => true)
  | .bytes bs => bs.all (· < 256)
  | .cdata t raw => raw.length == t.size && raw.all (· < 256)
  | .strct t raw => (match vk with | .strct tid sz => t != tid || raw.length == sz | _ => true)
  | _ => true

/-- an array descriptor class goes with its kind of element validator (`IntArray(Int16, n)`, `ByteArray(n)`, …) -/
def clsOK : ArrCls → VK → Bool
  | .intArray, .int _ | .floatArray, .flt _ | .byteArray, .byte | .structArray, .strct _ _ => true
  | _, _ => false

def valWF (vk : VK) : PyVal → Bool
  | .sc s => scalarWF vk s
  | .seq _ xs => xs.all (scalarWF vk)
  | .arr vcls vvk vn (some raw) =>
    raw.length == vvk.esize * vn && raw.all (· < 256) && clsOK vcls vvk &&
    (match vvk, vk with | .strct t z, .strct tid sz => t != tid || z == sz | _, _ => true)
  | .arr _ _ _ none => true

/-- `String(len)` asserts `len > 1`; an array descriptor's class fits its element validator -/
def tyWF : FTy → Bool
  | .str n => decide (1 < n)
  | .arr cls vk _ => clsOK cls vk
  | _ => true

/-! ### the conclusion of the soundness theorems -/

/-- the conclusion of every soundness theorem: in the domain, stored and read back as the Spec demands (with the
model's own read-back), and the field keeps its size -/
def SoundAt (ty : FTy) (key : Key) (v : PyVal) (post : Bytes) : Prop :=
  inDom ty key v = true ∧ postOk ty key v post (readField ty key post) = true ∧ post.length = ty.size


/-! ### what the float theorems need from the (opaque) rounding function

Three facts, each proved in `Proofs/ValidatorsFloat.lean` from named hypotheses about `roundMag`. -/

/-- what the float theorems need from the rounding function, part 1: a number that passed `validate_one` /
`validate_many` is in the float domain and the bytes ctypes stores for it represent it -/
def FltStoreSound : Prop :=
  ∀ (k : FK) (x : Scalar) (d : Nat), scalarWF (.flt k) x = true → toDouble x = .ok d → infAfter k d = false →
    fltDom k x = true ∧ holds1 (.flt k) x (encFlt k d) = true

/-- part 2: element bytes copied from another message's float array represent the number they decode to -/
def FltCopySound : Prop :=
  ∀ (k : FK) (c : Bytes), c.length = k.size → (∀ b ∈ c, b < 256) → holds1 (.flt k) (decodeOne (.flt k) c) c = true

/-- part 3: `(double)f` of a float bit pattern is a 64-bit pattern -/
def FltWidenWF : Prop := ∀ p : Nat, widen p < 2 ^ 64

/-- the three float facts, demanded only where the element kind is a float kind (so that everything about integer,
byte, char, string and struct fields is proved without any assumption) -/
def FloatOK (vk : VK) : Prop := ∀ k, vk = .flt k → FltStoreSound ∧ FltCopySound ∧ FltWidenWF


/-! ### the value an accepted assignment reads back as (`get (set x v) = canon v`), non-float kinds

(integers exactly, bools as 0 / 1, a `bytes` of length one as that byte, strings up to the first NUL, structs byte for
byte, ctypes instances as the value they hold; `ByteArray` elements come back as `bytearray`s of length one).  For the
float kinds "canon" is the *nearest representable value*, which is what `holds1` says - see § floats. -/
def canonArr (vk : VK) (n : Nat) (key : Key) (v : PyVal) : Option (List Scalar) :=
  match key, v with
  | .idx _, .sc s => some [canonOne vk true s]
  | .idx _, _ => none
  | .whole, .arr _ _ _ (some raw) => some ((decodeItems vk n raw).map (canonOne vk true))
  | _, _ => (seqItems v).map fun xs => xs.map (canonOne vk true)

def canonVal (ty : FTy) (key : Key) (v : PyVal) : Option (List Scalar) :=
  match ty, v with
  | .int k, .sc s => some [canonOne (.int k) false s]
  | .byte, .sc s => some [canonOne .byte false s]
  | .strct t z, .sc s => some [canonOne (.strct t z) false s]
  | .char, .sc (.str cs) => some [.str cs]
  | .str _, .sc (.str cs) => some [.str (upToNul cs)]
  | .arr _ (.flt _) _, _ => none
  | .arr _ vk n, v => canonArr vk n key v
  | _, _ => none

/-! ### the validation switch over a whole program run

An observation of one executed assignment: where in the program text it stands (`depth` = number of enclosing
`with disable_message_validation(ignore=False)` blocks - lexical, the harness knows it from the program it walks), the
whole message before and after, whether it raised, what was read back.  **Validation is in force whenever execution is
not inside an explicit disable block**: every observation with `depth = 0` must satisfy the three clauses of C09 - no
matter how many blocks were entered and left before (normally or by exception) and no matter which bound object the
assignment went through - and at the end of the program the switch is on. -/
structure ProgObs where
  depth : Nat
  loc : Loc
  key : Key
  val : PyVal
  pre : Bytes
  post : Bytes
  raised : Bool
  rb : List Scalar
  deriving Repr

def fieldOf (msg : Bytes) (l : Loc) : Bytes := (msg.drop l.off).take l.ty.size

def ProgObs.toObs (o : ProgObs) : Obs :=
  { pre := fieldOf o.pre o.loc, post := fieldOf o.post o.loc, raised := o.raised,
    outsideChanged := o.pre.take o.loc.off != o.post.take o.loc.off ||
                      o.pre.drop (o.loc.off + o.loc.ty.size) != o.post.drop (o.loc.off + o.loc.ty.size) ||
                      o.pre.length != o.post.length,
    rb := o.rb }

def progClauses (o : ProgObs) : List (String × Bool) :=
  if o.depth = 0 then clauses o.loc.ty o.key o.val o.toObs else []

def progOk (obs : List ProgObs) (finalFlag : Bool) : Bool :=
  finalFlag && obs.all fun o => (progClauses o).all (·.2)

end Pyrtma.Validators
