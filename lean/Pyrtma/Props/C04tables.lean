import Pyrtma.Props.EmitTables
namespace Pyrtma.C04
open Pyrtma.Emit Pyrtma.Emit.Inst Pyrtma.Gen

/-- one row of the agreement check: the denotation of `key` in table `rows` (through `tbl`) is compatible with what
`supported_types` says, and has the recorded size -/
def rowAgrees (rows : List (String × String)) (tbl : List (String × Den)) (key : String) : Bool :=
  match fmtDen key, lookS rows key with
  | some d, some v =>
    match Denote.look tbl v with
    | some d' => d.compat d' && d'.width == d.width
    | none => false
  | _, _ => false

def sizeAgrees (key : String) : Bool :=
  match TypeTables.supported.find? (fun r => r.1 == key), fmtDen key with
  | some r, some d => r.2.2.1 == d.width
  | _, _ => false

def jsAgrees (key : String) : Bool :=
  match fmtDen key, lookS TypeTables.js key with
  | some d, some v => (v == "\"\"") == (d.cls == .char) && (v == "\"\"" || v == "0")
  | _, _ => false

def present (rows : List (String × String)) (key : String) : Bool := (lookS rows key).isSome

def allTablesTotal : Bool :=
  keys.all (fun k =>
    present TypeTables.pyCtypes k && present TypeTables.pyDesc k && present TypeTables.c99 k &&
    present TypeTables.js k && present TypeTables.matlab k &&
    -- the parser's own ctypes table is indexed by `NativeType.name`
    (match TypeTables.supported.find? (fun r => r.1 == k) with
     | some r => present TypeTables.parserCtypes r.2.1
     | none => false))

def noStrayKeys : Bool :=
  [TypeTables.parserCtypes, TypeTables.pyCtypes, TypeTables.pyDesc, TypeTables.c99, TypeTables.matlab].all
    (fun t => t.all (fun r => keys.contains r.1)) &&
  TypeTables.js.all (fun r => keys.contains r.1 || r.1 == "string")

def allTablesAgree : Bool :=
  keys.all (fun k =>
    sizeAgrees k &&
    rowAgrees TypeTables.parserCtypes Denote.ofCtypes k && rowAgrees TypeTables.pyCtypes Denote.ofCtypes k &&
    rowAgrees TypeTables.pyDesc Denote.ofPyDesc k && rowAgrees TypeTables.c99 Denote.ofC k &&
    rowAgrees TypeTables.matlab Denote.ofMatlab k && jsAgrees k)

end Pyrtma.C04
