import Pyrtma.Proofs.Manager
/-!
# C18 — manager traffic statistics are exact

Pure theorems about the counter (`ctrInc` = `Counter[t] += 1`), the TIMING payload (`timingEntries`) and the split of one
MESSAGE_TRAFFIC interval into sub-messages (`chunks`, `trafficFrames`), for counters of every size.
-/
namespace Pyrtma.C18
open Pyrtma.Mgr

/-- `Counter[t]` -/
def ctrGet (c : List (Int × Nat)) (t : Int) : Nat :=
  match c.find? (·.1 == t) with
  | some p => p.2
  | none => 0

def keys (c : List (Int × Nat)) : List Int := c.map (·.1)

theorem ctrInc_keys (c : List (Int × Nat)) (t : Int) :
    keys (ctrInc c t) = if t ∈ keys c then keys c else keys c ++ [t] := by
  unfold ctrInc keys
  by_cases h : c.any (·.1 == t) = true
  · have hm : t ∈ c.map (·.1) := by
      simp only [List.any_eq_true, beq_iff_eq] at h
      obtain ⟨p, hp, rfl⟩ := h; exact List.mem_map.mpr ⟨p, hp, rfl⟩
    simp only [h, if_true, hm]
    rw [List.map_map]; congr 1; funext p; simp only [Function.comp]; split <;> rfl
  · have hm : t ∉ c.map (·.1) := by
      intro hm; apply h
      obtain ⟨p, hp, rfl⟩ := List.mem_map.mp hm
      exact List.any_eq_true.mpr ⟨p, hp, by simp⟩
    simp [h, hm]

/-- every type appears at most once in the counter -/
theorem ctrInc_nodup (c : List (Int × Nat)) (t : Int) (h : (keys c).Nodup) : (keys (ctrInc c t)).Nodup := by
  rw [ctrInc_keys]; split
  · exact h
  · rename_i hn; exact List.nodup_append.mpr ⟨h, by simp, by intro a ha b hb; simp at hb; subst hb; exact fun e => hn (e ▸ ha)⟩

theorem find_map_key (c : List (Int × Nat)) (g : Int × Nat → Int × Nat) (hk : ∀ p, (g p).1 = p.1) (t' : Int) :
    (c.map g).find? (·.1 == t') = (c.find? (·.1 == t')).map g := by
  induction c with
  | nil => rfl
  | cons p c ih =>
    simp only [List.map_cons, List.find?_cons, hk]
    cases (p.1 == t') <;> simp [ih]

/-- **Each handled message counts exactly once, against its own type** -/
theorem ctrInc_get (c : List (Int × Nat)) (t t' : Int) :
    ctrGet (ctrInc c t) t' = ctrGet c t' + (if t' = t then 1 else 0) := by
  unfold ctrInc ctrGet
  by_cases h : c.any (·.1 == t) = true
  · simp only [h, if_true]
    rw [find_map_key c _ (by intro p; split <;> rfl) t']
    cases hf : c.find? (·.1 == t') with
    | none =>
      have : t' ≠ t := by
        intro e; subst e
        rw [List.find?_eq_none] at hf
        simp only [List.any_eq_true] at h
        obtain ⟨p, hp, hpt⟩ := h; exact hf p hp hpt
      simp [this]
    | some p =>
      have hp : p.1 = t' := by simpa using List.find?_some hf
      simp only [Option.map_some]
      by_cases ht : t' = t
      · subst ht; simp [hp]
      · have : (p.1 == t) = false := by simp; rw [hp]; exact ht
        simp [this, ht]
  · have hf : c.any (·.1 == t) = false := Bool.eq_false_iff.mpr h
    simp only [hf, Bool.false_eq_true, if_false, List.find?_append]
    by_cases ht : t' = t
    · subst ht
      have : c.find? (·.1 == t') = none := by
        rw [List.find?_eq_none]; intro p hp; have := List.any_eq_false.mp hf p hp; simpa using this
      simp [this]
    · have : ((t == t') = false) := by simp; exact fun e => ht e.symm
      cases hc : c.find? (·.1 == t') <;> simp [this, ht]

/-! ## TIMING_MESSAGE -/

/-- **TIMING reports, for every type in range, the handled count modulo 2¹⁶** (the array is `uint16`), and nothing for
a type out of range: in particular a negative type id is never attributed to `MAX_MESSAGE_TYPES + id`. -/
theorem timing_exact (cfg : Cfg) (c : List (Int × Nat)) (hn : (keys c).Nodup) (t : Int) :
    ctrGet (timingEntries cfg c) t =
      if 0 ≤ t ∧ t < cfg.maxTypes then u16 (ctrGet c t) else 0 := by
  unfold timingEntries ctrGet
  induction c with
  | nil => simp [u16]
  | cons p c ih =>
    have hn' : (keys c).Nodup := by unfold keys at *; simp at hn; exact hn.2
    have hnot : ∀ q ∈ c, q.1 ≠ p.1 := by
      intro q hq e; unfold keys at hn; simp at hn; exact hn.1 q.2 (by rw [← e]; exact hq)
    have ih := ih hn'
    simp only [List.filter_cons, List.find?_cons]
    by_cases hr : (decide (0 ≤ p.1) && decide (p.1 < cfg.maxTypes)) = true
    · simp only [hr, if_true, List.map_cons, List.filter_cons]
      by_cases hz : (u16 p.2 != 0) = true
      · simp only [hz, if_true, List.find?_cons]
        by_cases hpt : p.1 = t
        · subst hpt
          have hr' : 0 ≤ p.1 ∧ p.1 < cfg.maxTypes := by simpa using hr
          simp [hr']
        · have hpt' : (p.1 == t) = false := by simpa using hpt
          simp only [hpt']; exact ih
      · have hz' : (u16 p.2 != 0) = false := by simpa using hz
        simp only [hz', Bool.false_eq_true, if_false]
        by_cases hpt : p.1 = t
        · subst hpt
          have hr' : 0 ≤ p.1 ∧ p.1 < cfg.maxTypes := by simpa using hr
          have hnone : c.find? (·.1 == p.1) = none := by
            rw [List.find?_eq_none]; intro q hq; simpa using hnot q hq
          have e0 : u16 0 = 0 := rfl
          have hz'' : u16 p.2 = 0 := by simpa using hz'
          rw [ih]; simp [hr', hnone, hz'', e0]
        · have hpt' : (p.1 == t) = false := by simpa using hpt
          simp only [hpt']; exact ih
    · have hr' : (decide (0 ≤ p.1) && decide (p.1 < cfg.maxTypes)) = false := by simpa using hr
      simp only [hr', Bool.false_eq_true, if_false]
      by_cases hpt : p.1 = t
      · subst hpt
        have hnone : c.find? (·.1 == p.1) = none := by
          rw [List.find?_eq_none]; intro q hq; simpa using hnot q hq
        have hrr : ¬(0 ≤ p.1 ∧ p.1 < cfg.maxTypes) := by simpa using hr'
        rw [ih]; simp [hrr]
      · have hpt' : (p.1 == t) = false := by simpa using hpt
        simp only [hpt']; exact ih

/-! ## MESSAGE_TRAFFIC: the split into sub-messages -/

theorem chunks_flatten (n : Nat) (hn : 0 < n) : ∀ (fuel : Nat) (l : List (Int × Nat)), l.length < fuel →
    (chunks n l fuel).flatten = l
  | 0, l, h => by omega
  | fuel + 1, l, h => by
    unfold chunks
    split
    · split <;> simp_all
    · rename_i hc
      have hlen : n < l.length := by omega
      rw [List.flatten_cons, chunks_flatten n hn fuel (l.drop n) (by simp; omega), List.take_append_drop]

/-- every sub-message carries between 1 and `MESSAGE_TRAFFIC_SIZE` real entries; all but the last are full -/
theorem chunks_sizes (n : Nat) (hn : 0 < n) : ∀ (fuel : Nat) (l : List (Int × Nat)) (c : List (Int × Nat)),
    c ∈ chunks n l fuel → 0 < c.length ∧ c.length ≤ n
  | 0, l, c, h => by simp [chunks] at h
  | fuel + 1, l, c, h => by
    unfold chunks at h
    split at h
    · rename_i hc
      split at h
      · simp at h
      · rename_i he
        simp at h; subst h
        have : c ≠ [] := by simpa using he
        exact ⟨List.length_pos_iff.mpr this, by omega⟩
    · rename_i hc
      simp only [List.mem_cons] at h
      rcases h with rfl | h
      · simp; omega
      · exact chunks_sizes n hn fuel _ c h

theorem enumFrom1_fst : ∀ (i : Nat) (l : List (List (Int × Nat))),
    (enumFrom1 i l).map (·.1) = (List.range l.length).map (· + i)
  | i, [] => rfl
  | i, c :: r => by
    simp only [enumFrom1, List.map_cons, List.length_cons, List.range_succ_eq_map, List.map_map, enumFrom1_fst (i + 1) r]
    simp; intro a _; omega

theorem enumFrom1_snd : ∀ (i : Nat) (l : List (List (Int × Nat))), (enumFrom1 i l).map (·.2) = l
  | _, [] => rfl
  | i, c :: r => by simp [enumFrom1, enumFrom1_snd (i + 1) r]

/-- the real (non-filler) entries of one sub-message -/
def realEntries (b : Body) (len : Nat) : List (Int × Nat) :=
  match b with
  | .traffic _ _ ts cs => (ts.take len).zip (cs.take len)
  | _ => []

/-- **One interval is reported exactly.**  The sub-messages of an interval have `sub_seqno = 1, 2, …, k`, all carry the
interval's `seqno`, each has exactly `MESSAGE_TRAFFIC_SIZE` slots with fillers `-1` / `0` after its real entries, and the
real entries of all sub-messages, concatenated in order, are exactly the counter: every type seen in the interval once,
with its count (mod 2¹⁶), and nothing else — for a counter of any size. -/
theorem traffic_partition (cfg : Cfg) (seqno : Nat) (c : List (Int × Nat)) (hsz : 0 < cfg.trafficSize) :
    let cs := chunks cfg.trafficSize c (c.length + 1)
    let fs := trafficFrames cfg seqno c
    cs.flatten = c ∧
    (∀ ch ∈ cs, 0 < ch.length ∧ ch.length ≤ cfg.trafficSize) ∧
    fs.map (·.body) = (enumFrom1 1 cs).map (fun p => Body.traffic seqno p.1
        (p.2.map (·.1) ++ List.replicate (cfg.trafficSize - p.2.length) (-1))
        (p.2.map (fun q => u16 q.2) ++ List.replicate (cfg.trafficSize - p.2.length) 0)) ∧
    (enumFrom1 1 cs).map (·.1) = (List.range cs.length).map (· + 1) ∧
    (∀ f ∈ fs, f.mtype = cfg.mtTraffic ∧ f.src = 0 ∧ f.dest = 0 ∧ f.nbytes = cfg.szTraffic) := by
  refine ⟨chunks_flatten _ hsz _ _ (by omega), fun ch h => chunks_sizes _ hsz _ _ ch h, ?_, enumFrom1_fst 1 _, ?_⟩
  · simp [trafficFrames, trafficBody, mgrFrame]
  · intro f hf
    simp only [trafficFrames, List.mem_map] at hf
    obtain ⟨p, _, rfl⟩ := hf
    exact ⟨rfl, rfl, rfl, rfl⟩

/-- nothing is sent for an empty interval -/
theorem traffic_empty (cfg : Cfg) (seqno : Nat) : trafficFrames cfg seqno [] = [] := by
  simp [trafficFrames, chunks, enumFrom1]

/-- **The statistics messages themselves are not counted**: while `sending_traffic` is set, `forward_message` leaves
both counters alone. -/
theorem stats_not_counted (cfg : Cfg) (s : State) (t : Int) (h : s.inTraffic = true) :
    (countMsg cfg s t).counts = s.counts ∧ (countMsg cfg s t).traffic = s.traffic := by
  unfold countMsg; simp [h]

/-- …and outside of it every forwarded frame is counted once in each counter (the TIMING one only when enabled) -/
theorem forward_counted (cfg : Cfg) (s : State) (t t' : Int) (h : s.inTraffic = false) :
    ctrGet (countMsg cfg s t).traffic t' = ctrGet s.traffic t' + (if t' = t then 1 else 0) ∧
    (cfg.timing = true → ctrGet (countMsg cfg s t).counts t' = ctrGet s.counts t' + (if t' = t then 1 else 0)) := by
  unfold countMsg; simp only [h, Bool.false_eq_true, if_false]
  exact ⟨ctrInc_get _ _ _, fun ht => by simp only [ht, if_true]; exact ctrInc_get _ _ _⟩

/-! ### Non-vacuity: with 4 slots per sub-message, 10 distinct types make three sub-messages of 4, 4 and 2 entries -/
def exCfg : Cfg := { trafficSize := 4 }
def exCounter : List (Int × Nat) := [(6000, 1), (6001, 2), (6002, 3), (6003, 4), (6004, 5), (6005, 6), (6006, 7), (6007, 8), (-1, 9), (6009, 65537)]
example : (trafficFrames exCfg 7 exCounter).map (·.body) =
    [.traffic 7 1 [6000, 6001, 6002, 6003] [1, 2, 3, 4], .traffic 7 2 [6004, 6005, 6006, 6007] [5, 6, 7, 8],
     .traffic 7 3 [-1, 6009, -1, -1] [9, 1, 0, 0]] := by decide
example : (keys exCounter).Nodup := by decide
example : ctrGet (timingEntries {} [(5, 65537), (-5, 3), (10000, 1), (9999, 65536)]) 5 = 1 := by decide
example : ctrGet (timingEntries {} [(5, 65537), (-5, 3), (10000, 1), (9999, 65536)]) 9995 = 0 := by decide

end Pyrtma.C18
