import Pyrtma.Proofs.ManagerStatsRun
/-!
# C18 — manager traffic statistics are exact

Per operation (pure theorems about the counter `ctrInc` = `Counter[t] += 1`, the TIMING payload `timingEntries` and the
split of one MESSAGE_TRAFFIC interval into sub-messages `chunks` / `trafficFrames`, for counters of every size):
`ctrInc_get`, `timing_exact`, `traffic_partition`, `traffic_empty`, `stats_not_counted`, `forward_counted`.

Globally, for every history (`Proofs/ManagerStats.lean`; the ghost history `State.hist` records every frame `forward`
handles and every report tick): `every_forward_counted` (each `forward` call marks its frame once and both counters move
by exactly the marks made, at every depth of the nested recursion — a forward nested inside a removal inside a forward
still counts its CLIENT_CLOSED / FAILED_MESSAGE / RTMA_LOG frame), `counts_exact_always` (after any history both counter
tables *are* the tally of the frames handled outside a statistics send since the last report of their kind),
`counts_exact_per_type`, `history_only_grows`.

Link theorems, for every history (`Proofs/ManagerStatsSim.lean` and the other `Proofs/ManagerStats*.lean`: a simulation
between the model state and the abstract state `Spec.round` computes from the model's own events of each round — clocks,
who is alive, id / pid / connected / logger flag of every table entry, its subscriptions against the model's reverse
index, the writable set, the tallies of client frames = the client marks of the ghost history since the last report, the
per-observer tallies as lower bounds): `spec_timing_clause_passes_on_model` (every clause of `Spec.checkTiming`, u16 wrap
included, and "no TIMING_MESSAGE before its period"), `spec_traffic_clause_passes_on_model` (every clause of
`Spec.checkTraffic`, the subscribers that are owed a report included), `spec_round_adds_no_c18_error_on_model`, and the
per-property corollary `spec_c18_clauses_pass_on_model_run`: `Spec.runSpec` on the driver's `modelRun` reports no C18 error,
whatever the rounds.  `model_and_spec_state_agree` is the simulation itself.  Hypotheses (documented at the theorems, each
with an `example` on a non-trivial history): `CfgOK`, `cfg.fuel = 0`, `MgrNotAll`, `OrderGood`, `RoundOK`,
`0 < MESSAGE_TRAFFIC_SIZE`, "-1 is no manager type", `NoWrap`.
-/
namespace Pyrtma.C18
open Pyrtma.Mgr

/-- `Counter[t]` -/
abbrev ctrGet (c : List (Int × Nat)) (t : Int) : Nat := ctrVal c t

abbrev keys (c : List (Int × Nat)) : List Int := ctrKeys c

theorem ctrInc_keys (c : List (Int × Nat)) (t : Int) :
    keys (ctrInc c t) = if t ∈ keys c then keys c else keys c ++ [t] := ctrKeys_inc c t

/-- every type appears at most once in the counter -/
theorem ctrInc_nodup (c : List (Int × Nat)) (t : Int) (h : (keys c).Nodup) : (keys (ctrInc c t)).Nodup :=
  ctrKeys_nodup_inc c t h

/-- **Each handled message counts exactly once, against its own type** -/
theorem ctrInc_get (c : List (Int × Nat)) (t t' : Int) :
    ctrGet (ctrInc c t) t' = ctrGet c t' + (if t' = t then 1 else 0) := ctrVal_inc c t t'

/-! ## TIMING_MESSAGE -/

/-- **TIMING reports, for every type in range, the handled count modulo 2¹⁶** (the array is `uint16`), and nothing for
a type out of range: in particular a negative type id is never attributed to `MAX_MESSAGE_TYPES + id`. -/
theorem timing_exact (cfg : Cfg) (c : List (Int × Nat)) (hn : (keys c).Nodup) (t : Int) :
    ctrGet (timingEntries cfg c) t =
      if 0 ≤ t ∧ t < cfg.maxTypes then u16 (ctrGet c t) else 0 := timingEntries_val cfg c hn t

/-! ## MESSAGE_TRAFFIC: the split into sub-messages -/

/-- the real (non-filler) entries of one sub-message -/
def realEntries (b : Body) (len : Nat) : List (Int × Nat) :=
  match b with
  | .traffic _ _ ts cs => (ts.take len).zip (cs.take len)
  | _ => []

/-- **One interval is reported exactly.**  The sub-messages of an interval have `sub_seqno = 1, 2, …, k`, all carry the
interval's `seqno`, each has exactly `MESSAGE_TRAFFIC_SIZE` slots with fillers `-1` / `0` after its real entries, and the
real entries of all sub-messages, concatenated in order, are exactly the counter: every type seen in the interval once,
with its count (mod 2¹⁶), and nothing else — for a counter of any size. -/
theorem traffic_partition (cfg : Cfg) (seqno : Nat) (c : List (Int × Nat)) (hsz : 0 < cfg.trafficSize) :
    let cs := chunks cfg.trafficSize c (c.length + 1)
    let fs := trafficFrames cfg seqno c
    cs.flatten = c ∧
    (∀ ch ∈ cs, 0 < ch.length ∧ ch.length ≤ cfg.trafficSize) ∧
    fs.map (·.body) = (enumFrom1 1 cs).map (fun p => Body.traffic seqno p.1
        (p.2.map (·.1) ++ List.replicate (cfg.trafficSize - p.2.length) (-1))
        (p.2.map (fun q => u16 q.2) ++ List.replicate (cfg.trafficSize - p.2.length) 0)) ∧
    (enumFrom1 1 cs).map (·.1) = (List.range cs.length).map (· + 1) ∧
    (∀ f ∈ fs, f.mtype = cfg.mtTraffic ∧ f.src = 0 ∧ f.dest = 0 ∧ f.nbytes = cfg.szTraffic) := by
  refine ⟨chunks_flatten _ hsz _ _ (by omega), fun ch h => chunks_sizes _ hsz _ _ ch h, ?_, enumFrom1_fst 1 _, ?_⟩
  · simp [trafficFrames, trafficBody, mgrFrame]
  · intro f hf
    simp only [trafficFrames, List.mem_map] at hf
    obtain ⟨p, _, rfl⟩ := hf
    exact ⟨rfl, rfl, rfl, rfl⟩

/-- nothing is sent for an empty interval -/
theorem traffic_empty (cfg : Cfg) (seqno : Nat) : trafficFrames cfg seqno [] = [] := by
  simp [trafficFrames, chunks, enumFrom1]

/-- **The statistics messages themselves are not counted**: while `sending_traffic` is set, `forward_message` leaves
both counters alone. -/
theorem stats_not_counted (cfg : Cfg) (s : State) (t : Int) (h : s.inTraffic = true) :
    (countMsg cfg s t).counts = s.counts ∧ (countMsg cfg s t).traffic = s.traffic := by
  unfold countMsg; simp [h]

/-- …and outside of it every forwarded frame is counted once in each counter (the TIMING one only when enabled) -/
theorem forward_counted (cfg : Cfg) (s : State) (t t' : Int) (h : s.inTraffic = false) :
    ctrGet (countMsg cfg s t).traffic t' = ctrGet s.traffic t' + (if t' = t then 1 else 0) ∧
    (cfg.timing = true → ctrGet (countMsg cfg s t).counts t' = ctrGet s.counts t' + (if t' = t then 1 else 0)) := by
  unfold countMsg; simp only [h, Bool.false_eq_true, if_false]
  exact ⟨ctrInc_get _ _ _, fun ht => by simp only [ht, if_true]; exact ctrInc_get _ _ _⟩

/-! ## Globally: the counters against the history of handled frames, for every history

`State.hist` is a ghost history the model never reads (newest mark first): `forward` — the model of `forward_message` —
pushes `Mark.fwd t stats` for every frame it handles (`t` its type, `stats` = "inside a statistics send"), at every
depth of the recursion `forward → remove_module → send_client_close → forward`, `… → send_failed_message → forward`,
`… → logger.error → forward`; a report pushes `Mark.timingTick` / `Mark.trafficTick` when it is out.
`sinceTick tick hist` are the marks after the last `tick`; `handled e t` counts the marks `fwd t false` in `e`;
`tallyOn [] e` is the counter table obtained by `Counter[t] += 1` for these marks, oldest first. -/

/-- **Every frame is marked exactly once by the `forward` that handles it, and everything nested in it is counted.**
For any fuel `n`, state and frame: the marks `forward` leaves are, oldest first, the frame's own (unless it is out of fuel
or the manager has crashed: then nothing happens at all) and then those of the CLIENT_CLOSED / FAILED_MESSAGE / RTMA_LOG
frames forwarded inside it at any depth (`e'`); all carry the statistics flag of the moment; and *both counters moved by
exactly these marks* (`AccE.traffic`, `AccE.counts`: `+= 1` per mark outside a statistics send, nothing inside one), the
clocks, the interval number and the statistics flag are unchanged. -/
theorem every_forward_counted (cfg : Cfg) (n : Nat) (s : State) (g : Frame) :
    ∃ e', Marks (nestedType cfg) s.inTraffic e' ∧
      AccE cfg (fun _ => true) s (forward cfg n s g)
        (e' ++ (if n = 0 ∨ s.crashed.isSome = true then [] else [.fwd g.mtype s.inTraffic])) :=
  forward_accE cfg n s g

/-- **Global counting theorem.**  After any history `rs` — any frames, readiness sets, socket failures, removals nested
in deliveries nested in removals, log level, clock — the manager is outside the statistics context, `traffic_counter` is
*exactly* the tally of the frames `forward_message` handled outside a statistics send since the last MESSAGE_TRAFFIC
report, and `message_counts` that of those since the last TIMING_MESSAGE (empty when TIMING is off): equal as tables —
same types, same counts, same (insertion) order. -/
theorem counts_exact_always (cfg : Cfg) (rs : List Round) :
    (run cfg rs).inTraffic = false ∧
    (run cfg rs).traffic = tallyOn [] (sinceTick .trafficTick (run cfg rs).hist) ∧
    (run cfg rs).counts = (if cfg.timing then tallyOn [] (sinceTick .timingTick (run cfg rs).hist) else []) :=
  ⟨(run_statInv cfg rs).idle, (run_statInv cfg rs).traffic, (run_statInv cfg rs).counts⟩

/-- …read per type: the traffic counter of type `t` is the number of `forward` calls for frames of type `t` made outside a
statistics send since the start of the traffic interval, the TIMING counter (when on) the number since the last TIMING
tick; each type is listed at most once, and a type is listed iff at least one such frame was handled (no count is
attributed to a type that was not seen). -/
theorem counts_exact_per_type (cfg : Cfg) (rs : List Round) (t : Int) :
    ctrGet (run cfg rs).traffic t = handled (sinceTick .trafficTick (run cfg rs).hist) t ∧
    (cfg.timing = true → ctrGet (run cfg rs).counts t = handled (sinceTick .timingTick (run cfg rs).hist) t) ∧
    (keys (run cfg rs).traffic).Nodup ∧ (keys (run cfg rs).counts).Nodup ∧
    (t ∈ keys (run cfg rs).traffic ↔ 0 < handled (sinceTick .trafficTick (run cfg rs).hist) t) ∧
    (cfg.timing = true → (t ∈ keys (run cfg rs).counts ↔ 0 < handled (sinceTick .timingTick (run cfg rs).hist) t)) := by
  obtain ⟨_, h1, h2⟩ := counts_exact_always cfg rs
  have e0 : ∀ e, ctrVal (tallyOn [] e) t = handled e t := fun e => by rw [ctrVal_tallyOn]; simp [ctrVal]
  have n0 : ∀ e, (ctrKeys (tallyOn [] e)).Nodup := fun e => tallyOn_nodup [] e (by simp [ctrKeys])
  have p0 : ∀ e, CtrPos (tallyOn [] e) := fun e => tallyOn_pos [] e (fun _ h => by cases h)
  refine ⟨by rw [h1]; exact e0 _, fun ht => by rw [h2]; simp only [ht, if_true]; exact e0 _, by rw [h1]; exact n0 _, ?_,
    by rw [h1, ctrVal_pos_iff (p0 _), e0], fun ht => by rw [h2]; simp only [ht, if_true]; rw [ctrVal_pos_iff (p0 _), e0]⟩
  rw [h2]; split
  · exact n0 _
  · simp [ctrKeys]

/-- **The history is monotone**: one more round only adds marks in front of those made so far. -/
theorem history_only_grows (cfg : Cfg) (rs : List Round) (r : Round) :
    ∃ e, (run cfg (rs ++ [r])).hist = e ++ (run cfg rs).hist := by
  unfold run; rw [List.foldl_append]; exact hist_suffix_step cfg _ r

/-! ### Non-vacuity: a failed write inside a delivery — the CLIENT_CLOSED (33) and the FAILED_MESSAGE (8) forwarded inside
the removal that is nested in the forward of frame 7 (type 5000) are counted; the TIMING report itself (80) is not -/
def exSub (u k lo hi : Nat) : Read := { uid := u, h := { k := k, mtype := 15, nbytes := 4 }, avail := 4, pay := [lo, hi, 0, 0] }
def exConn (u k : Nat) (id : Int) : Read := { uid := u, h := { k := k, mtype := 13, src := id } }
def exHist : List Round :=
  [{ accept := true }, { accept := true }, { accept := true },
   { reads := [exConn 1 1 10, exConn 2 2 11, exConn 3 3 12], writable := [1, 2, 3] },
   { reads := [exSub 1 4 136 19, exSub 2 5 33 0, exSub 3 6 8 0], writable := [1, 2, 3] },
   { failSet := [(1, some .hdr)], reads := [{ uid := 2, h := { k := 7, mtype := 5000 } }], writable := [1, 2, 3] }]
example : (run {} exHist).hist = [.fwd 8 false, .fwd 33 false, .fwd 5000 false, .fwd 32 false, .fwd 32 false, .fwd 32 false] ∧
    (run {} exHist).traffic = [(32, 3), (5000, 1), (33, 1), (8, 1)] ∧ (run {} exHist).counts = [(32, 3), (5000, 1), (33, 1), (8, 1)] := by
  decide
example : (run {} (exHist ++ [{ dt := 950 }])).hist =
      [.timingTick, .fwd 80 true, .fwd 8 false, .fwd 33 false, .fwd 5000 false, .fwd 32 false, .fwd 32 false, .fwd 32 false] ∧
    (run {} (exHist ++ [{ dt := 950 }])).counts = [] ∧
    (run {} (exHist ++ [{ dt := 950 }])).traffic = [(32, 3), (5000, 1), (33, 1), (8, 1)] := by
  decide
example : handled (sinceTick .trafficTick (run {} exHist).hist) 33 = 1 ∧ handled (sinceTick .timingTick (run {} (exHist ++ [{ dt := 950 }])).hist) 33 = 0 := by
  decide

/-! ## Link theorems: the Spec's C18 clauses on the model's own run, for every history

`mrPair cfg rs = (x, a)`: the model state after the rounds `rs`, played the way the driver's `modelRun` plays them (the
event log starts afresh every round), and the abstract state `Spec.round` has computed from the model's own events of
these rounds.  `stepR cfg x r` is the next round of the model, `Spec.roundPre cfg a r evs` the abstract state just before
the periodic section of `Spec.round` (everything up to `Spec.tail`), `Spec.lastEvs evs` the last stretch of the round's
events, in which `Spec.tail` looks for the reports (`Spec.round_eq`, `Spec.tail_parts`: `round = tail ∘ roundPre`, and
`tail` is `timingPart`, the TIMING reset, `trafficPart`, the TRAFFIC reset, the INFO clock — provably equal pieces).

Hypotheses, all satisfied by every case the generator produces (examples below): `CfgOK cfg`, `cfg.fuel = 0` (as for
`model_never_crashes`), `MgrNotAll cfg` (no manager type is the ALL sentinel), `OrderGood cfg` (the iteration order of a
subscriber set is a permutation of it), `RoundOK r` (no frame is "read from" the manager's own table entry, uid 0),
`NoWrap` (fewer than 65536 manager-originated frames of one type in the whole history: the Spec's lower-bound clause
presupposes it; *client* counters may wrap, the clause `counts` below is proved modulo 2¹⁶). -/

/-- **TIMING link theorem.**  After any history `rs`, in the next round `r`, the TIMING clause of `Spec.tail` — when the
period has elapsed: for every TIMING_MESSAGE in the round's last stretch, (1) every client type the Spec tallied is
reported with exactly its tally modulo 2¹⁶, (2) no client type is reported that was not tallied, (3) for every observer
and manager type the reported count is at least what that observer alone received, (4) every live connected module with
a non-zero id held by it alone is reported with its pid; otherwise: no TIMING_MESSAGE at all — adds **no error** on the
model's own events: the abstract state passes through unchanged. -/
theorem spec_timing_clause_passes_on_model (cfg : Cfg) (ok : CfgOK cfg) (hfuel : cfg.fuel = 0) (hna : MgrNotAll cfg)
    (hord : OrderGood cfg) (rs : List Round) (r : Round) (hrs : ∀ r' ∈ rs, RoundOK r') (hr : RoundOK r)
    (hnw : NoWrap cfg (stepR cfg (mrPair cfg rs).1 r).hist) :
    Spec.timingPart cfg (Spec.roundPre cfg (mrPair cfg rs).2 r (stepR cfg (mrPair cfg rs).1 r).out)
        (Spec.lastEvs (stepR cfg (mrPair cfg rs).1 r).out) =
      Spec.roundPre cfg (mrPair cfg rs).2 r (stepR cfg (mrPair cfg rs).1 r).out :=
  timing_round ok hfuel (rinv_all ok hfuel hna hord rs hrs) hna hord r hr hnw

/-- **TRAFFIC link theorem.**  After any history `rs`, in the next round `r`, the MESSAGE_TRAFFIC clause of `Spec.tail` (it
runs on the abstract state after the TIMING clause and its reset) — when the period has elapsed: (0) if a client type
was tallied in the interval, every live subscriber of MESSAGE_TRAFFIC that is writable or a logger, not failing and not
closed in the stretch got a report; and for every connection that got MESSAGE_TRAFFIC frames in the round's last stretch:
(1) the sub-sequence numbers are 1, 2, …, (2) all carry the current interval number, (3) all have exactly
`MESSAGE_TRAFFIC_SIZE` slots, (4) no type is reported twice, (5) every client type the Spec tallied is reported with its
tally modulo 2¹⁶, (6) no client type is reported that was not tallied, (7) for every manager type the reported count is at
least what that observer alone received — adds **no error** on the model's own events.  `0 < MESSAGE_TRAFFIC_SIZE` and "-1
(the filler) is no manager type" hold of every configuration (examples below). -/
theorem spec_traffic_clause_passes_on_model (cfg : Cfg) (ok : CfgOK cfg) (hfuel : cfg.fuel = 0) (hna : MgrNotAll cfg)
    (hord : OrderGood cfg) (hsz : 0 < cfg.trafficSize) (hneg : mgrType cfg (-1) = false)
    (rs : List Round) (r : Round) (hrs : ∀ r' ∈ rs, RoundOK r') (hr : RoundOK r)
    (hnw : NoWrap cfg (stepR cfg (mrPair cfg rs).1 r).hist) :
    let a7 := Spec.roundPre cfg (mrPair cfg rs).2 r (stepR cfg (mrPair cfg rs).1 r).out
    Spec.trafficPart cfg (Spec.timingReset cfg a7 a7) (Spec.lastEvs (stepR cfg (mrPair cfg rs).1 r).out) =
      Spec.timingReset cfg a7 a7 :=
  traffic_round ok hfuel (rinv_all ok hfuel hna hord rs hrs) hna hord hsz hneg r hr hnw _ rfl

/-- **One round of the Spec adds no C18 error** on the model's own events of that round, after any history: the two link
theorems put together along `Spec.round = Spec.tail ∘ Spec.roundPre` (no other clause of `Spec.round` files under C18). -/
theorem spec_round_adds_no_c18_error_on_model (cfg : Cfg) (ok : CfgOK cfg) (hfuel : cfg.fuel = 0) (hna : MgrNotAll cfg)
    (hord : OrderGood cfg) (hsz : 0 < cfg.trafficSize) (hneg : mgrType cfg (-1) = false)
    (rs : List Round) (r : Round) (hrs : ∀ r' ∈ rs, RoundOK r') (hr : RoundOK r)
    (hnw : NoWrap cfg (stepR cfg (mrPair cfg rs).1 r).hist) :
    (Spec.round cfg (mrPair cfg rs).2 r (stepR cfg (mrPair cfg rs).1 r).out).errs.filter (·.1 == "C18") =
      (mrPair cfg rs).2.errs.filter (·.1 == "C18") :=
  round_e18 ok hfuel (rinv_all ok hfuel hna hord rs hrs) hna hord hsz hneg r hr hnw

/-- **The model passes the Spec's C18 clauses, for every history.**  The Spec, run the way `./check` runs it
(`Spec.runSpec` on the per-round event logs the driver's `modelRun` produces, no crash), reports **no C18 error**, whatever
the rounds — every TIMING and every MESSAGE_TRAFFIC clause, in every round, u16 wrap of client counters included.
`NoWrap` of the final ghost history: fewer than 65536 manager-originated frames of any one manager type in the whole run
(the Spec's lower-bound clause for manager types presupposes it; every generated case is far below). -/
theorem spec_c18_clauses_pass_on_model_run (cfg : Cfg) (ok : CfgOK cfg) (hfuel : cfg.fuel = 0) (hna : MgrNotAll cfg)
    (hord : OrderGood cfg) (hsz : 0 < cfg.trafficSize) (hneg : mgrType cfg (-1) = false)
    (rs : List Round) (hrs : ∀ r ∈ rs, RoundOK r)
    (hnw : NoWrap cfg (Pyrtma.Drv.Manager.modelRun cfg rs).2.hist) :
    (Spec.runSpec cfg rs (Pyrtma.Drv.Manager.modelRun cfg rs).1 none).errs.filter (·.1 == "C18") = [] :=
  runSpec_e18 ok hfuel hna hord hsz hneg rs hrs (by rw [← modelRun_state]; exact hnw)

/-- the simulation behind the link theorems: after any history the Spec's abstract state agrees with the model state on
the clocks, on who is alive, on id / pid / connected flag of every table entry, its tallies of client frames are exactly
the client marks of the ghost history since the last report, and its per-observer tallies are lower bounds -/
theorem model_and_spec_state_agree (cfg : Cfg) (ok : CfgOK cfg) (hfuel : cfg.fuel = 0) (hna : MgrNotAll cfg)
    (hord : OrderGood cfg) (rs : List Round) (hrs : ∀ r' ∈ rs, RoundOK r') :
    RInv cfg (mrPair cfg rs).1 (mrPair cfg rs).2 := rinv_all ok hfuel hna hord rs hrs

/-! ### Non-vacuity of the link theorems: the default configuration meets the hypotheses; in the last round of the
history below the TIMING period has elapsed, module 3 (subscribed to TIMING_MESSAGE, type 80) gets the report and the
Spec has tallied client type 5000 -/
theorem cfgOK_default : CfgOK {} := ⟨by decide, by decide, by decide, fun _ _ h => h⟩
example : MgrNotAll {} := by
  intro t ht e
  subst e
  revert ht; decide
example : OrderGood {} := fun l hl => ⟨hl, fun _ => Iff.rfl⟩
def exHist2 : List Round :=
  [{ accept := true }, { accept := true }, { accept := true },
   { reads := [exConn 1 1 10, exConn 2 2 11, exConn 3 3 12], writable := [1, 2, 3] },
   { reads := [exSub 1 4 136 19, exSub 2 5 33 0, exSub 3 6 80 0], writable := [1, 2, 3] },
   { failSet := [(1, some .hdr)], reads := [{ uid := 2, h := { k := 7, mtype := 5000 } }], writable := [1, 2, 3] }]
def exLast : Round := { dt := 950, writable := [1, 2, 3], reads := [{ uid := 2, h := { k := 8, mtype := 5000 } }] }
example : (∀ r ∈ exHist2, RoundOK r) ∧ RoundOK exLast := by decide
example : NoWrap {} (stepR {} (mrPair {} exHist2).1 exLast).hist := by
  intro t _
  have : (stepR {} (mrPair {} exHist2).1 exLast).hist.length = 9 := by decide
  exact Nat.lt_of_le_of_lt List.count_le_length (by omega)
example : (Spec.sends (Spec.lastEvs (stepR {} (mrPair {} exHist2).1 exLast).out)).map (fun p => (p.1, p.2.2.mtype)) = [(3, 80)] ∧
    (Spec.roundPre {} (mrPair {} exHist2).2 exLast (stepR {} (mrPair {} exHist2).1 exLast).out).pubT = [(5000, 2)] := by
  decide +kernel

/-! ### Non-vacuity of the TRAFFIC link theorem and of the whole-run theorem: in the history below module 3 subscribes to
MESSAGE_TRAFFIC (type 30); in the last round both periods have elapsed, the Spec has tallied client type 5000 twice,
considers module 3 owed the report, and module 3 gets it (one sub-message, interval number 1) -/
example : 0 < ({} : Cfg).trafficSize ∧ mgrType {} (-1) = false := by decide
def exHist3 : List Round :=
  [{ accept := true }, { accept := true }, { accept := true },
   { reads := [exConn 1 1 10, exConn 2 2 11, exConn 3 3 12], writable := [1, 2, 3] },
   { reads := [exSub 1 4 136 19, exSub 2 5 33 0, exSub 3 6 30 0], writable := [1, 2, 3] },
   { failSet := [(1, some .hdr)], reads := [{ uid := 2, h := { k := 7, mtype := 5000 } }], writable := [1, 2, 3] }]
def exLastR : Round := { dt := 1100, writable := [1, 2, 3], reads := [{ uid := 2, h := { k := 8, mtype := 5000 } }] }
example : (∀ r ∈ exHist3, RoundOK r) ∧ RoundOK exLastR := by decide
example : NoWrap {} (stepR {} (mrPair {} exHist3).1 exLastR).hist := by
  intro t _
  have : (stepR {} (mrPair {} exHist3).1 exLastR).hist.length = 11 := by decide
  exact Nat.lt_of_le_of_lt List.count_le_length (by omega)
example :
    let a7 := Spec.roundPre {} (mrPair {} exHist3).2 exLastR (stepR {} (mrPair {} exHist3).1 exLastR).out
    let a9 := Spec.timingReset {} a7 a7
    let evs := Spec.lastEvs (stepR {} (mrPair {} exHist3).1 exLastR).out
    a9.now - a9.tTraffic > 1000 ∧ a9.pubR = [(5000, 2)] ∧ (owedOf {} a9 evs).map (·.uid) = [3] ∧
    (trOf evs).map (fun row => (row.1, row.2.1, row.2.2.1)) = [(3, 1, 1)] := by
  decide +kernel
/-- the whole run of that history contains the report, and the hypotheses of `spec_c18_clauses_pass_on_model_run` hold -/
example : (∀ r ∈ exHist3 ++ [exLastR], RoundOK r) ∧
    ((Pyrtma.Drv.Manager.modelRun {} (exHist3 ++ [exLastR])).1.map (fun evs => (trOf evs).length)) = [0, 0, 0, 0, 0, 0, 0, 1] := by
  decide +kernel
example : NoWrap {} (Pyrtma.Drv.Manager.modelRun {} (exHist3 ++ [exLastR])).2.hist := by
  intro t _
  have : (Pyrtma.Drv.Manager.modelRun {} (exHist3 ++ [exLastR])).2.hist.length = 11 := by decide +kernel
  exact Nat.lt_of_le_of_lt List.count_le_length (by omega)

/-! ### Non-vacuity: with 4 slots per sub-message, 10 distinct types make three sub-messages of 4, 4 and 2 entries -/
def exCfg : Cfg := { trafficSize := 4 }
def exCounter : List (Int × Nat) := [(6000, 1), (6001, 2), (6002, 3), (6003, 4), (6004, 5), (6005, 6), (6006, 7), (6007, 8), (-1, 9), (6009, 65537)]
example : (trafficFrames exCfg 7 exCounter).map (·.body) =
    [.traffic 7 1 [6000, 6001, 6002, 6003] [1, 2, 3, 4], .traffic 7 2 [6004, 6005, 6006, 6007] [5, 6, 7, 8],
     .traffic 7 3 [-1, 6009, -1, -1] [9, 1, 0, 0]] := by decide
example : (keys exCounter).Nodup := by decide
example : ctrGet (timingEntries {} [(5, 65537), (-5, 3), (10000, 1), (9999, 65536)]) 5 = 1 := by decide
example : ctrGet (timingEntries {} [(5, 65537), (-5, 3), (10000, 1), (9999, 65536)]) 9995 = 0 := by decide

end Pyrtma.C18
