import Pyrtma.Proofs.ClientEntry
import Pyrtma.Proofs.ClientLife
/-!
# C06, last sentence — "the options a caller passes when connecting (logger, daemon, allow-multiple, name, id) take
effect at the manager exactly as named, through every public way of connecting" — and the client half of the
dynamic-id sentence

Theorems about `Model/ClientEntry.lean` (Python's argument binding along `Client(...)` / `Client.connect(...)` /
`client_context(...)` → `_connect_helper(...)` → the fields of CONNECT_V2 and CONNECT), for **every** legal call of
the entry points (any mix of positional and keyword actuals, any subset of the options, any values); the one
value-dependent step on the way, `Client.__init__`'s auto-naming from the context's registered module ids
(`storedName`): `explicit_name_is_kept`, `dynamic_client_keeps_name`, `default_name_is_registered`,
`stored_name_meets_spec`, and both entry points against the Spec for every context table
(`direct_call_meets_spec`, `context_call_meets_spec`; `registered_name_must_not_override` is the seeded change C06h
as a counter-model); and the identity theorems of the M2 life-cycle model (`Model/ClientLife.lean`) restated here so that the C06 check audits them.
What the *manager* does with the fields is M1 (`Props/C06.lean`).
-/
namespace Pyrtma.C06Entry
open Pyrtma.ClientEntry

/-- the four signatures have no repeated parameter names (Python would not compile them otherwise) -/
theorem signatures_nodup : (prog.ctor.map (·.1)).Nodup ∧ (prog.connect.map (·.1)).Nodup ∧
    (prog.helper.map (·.1)).Nodup ∧ (prog.ctx.map (·.1)).Nodup := by decide

/-- **Python's binding, stated once for all four signatures**: in the environment of a legal call the `j`-th formal
`n` holds the `j`-th positional actual if there is one, else the keyword actual named `n` if there is one, else its
default (`argFor`); a parameter given twice or not at all makes the call illegal. -/
theorem actual_lands_in_its_formal {α : Type} (dflt : Val → α) (sig : Sig) (a : Actuals α) (e : Env α)
    (h : bindArgs dflt sig a = some e) (hnd : (sig.map (·.1)).Nodup) (j : Nat) (n : Nm) (d : Option Val)
    (hj : sig[j]? = some (n, d)) : lookup e n = argFor dflt a.pos a.kw n d j :=
  bindArgs_lookup dflt sig a e h hnd j n d hj

/-- the three cases of `argFor`, readable -/
theorem argFor_cases {α : Type} (dflt : Val → α) (pos : List α) (kw : List (Nm × α)) (n : Nm) (d : Option Val) (j : Nat) :
    (∀ v, pos[j]? = some v → lookup kw n = none → argFor dflt pos kw n d j = some v) ∧
    (∀ v, pos[j]? = none → lookup kw n = some v → argFor dflt pos kw n d j = some v) ∧
    (pos[j]? = none → lookup kw n = none → argFor dflt pos kw n d j = d.map dflt) ∧
    (∀ v w, pos[j]? = some v → lookup kw n = some w → argFor dflt pos kw n d j = none) := by
  refine ⟨?_, ?_, ?_, ?_⟩ <;> intros <;> simp_all [argFor]

/-- `connect` hands its three options to `_connect_helper` under the same names -/
theorem connect_forwards_by_name (ke : Env Val) (l d a : Val)
    (hl : lookup ke .logger_status = some l) (hd : lookup ke .daemon_status = some d)
    (ha : lookup ke .allow_multiple = some a) :
    (evalCall id ke prog.connectToHelper).bind (bindArgs id prog.helper) =
      some [(.logger_status, l), (.daemon_status, d), (.allow_multiple, a)] := by
  simp [evalCall, prog, evalExpr, hl, hd, ha, allSome, bindArgs, bindFrom, argFor, lookup_nil]

/-- **`Client(...)` + `Client.connect(...)`: every option reaches the field of the same name.**  For every legal
pair of calls — positional, keyword, mixed, options omitted — CONNECT_V2 carries `logger_status`, `daemon_status`,
`allow_multiple` as `connect` was given them (by position or by name, default `False` when omitted), `mod_id` and
`name` as the constructor was given them, and CONNECT carries the same `logger_status` / `daemon_status`. -/
theorem direct_options_reach_fields (c k : Actuals Val) (ce ke : Env Val)
    (hc : bindArgs id prog.ctor c = some ce) (hk : bindArgs id prog.connect k = some ke) :
    ∃ l d a i n, lookup ke .logger_status = some l ∧ lookup ke .daemon_status = some d ∧
      lookup ke .allow_multiple = some a ∧ lookup ce .module_id = some i ∧ lookup ce .name = some n ∧
      payload id prog (.direct c k) =
        some ([(.logger, l), (.daemon, d), (.allow, a), (.modId, i), (.name, n)], [(.logger, l), (.daemon, d)]) := by
  have hkn := bindArgs_names id prog.connect k ke hk
  have hcn := bindArgs_names id prog.ctor c ce hc
  obtain ⟨l, hl⟩ := lookup_of_names ke _ hkn .logger_status (by decide)
  obtain ⟨d, hd⟩ := lookup_of_names ke _ hkn .daemon_status (by decide)
  obtain ⟨a, ha⟩ := lookup_of_names ke _ hkn .allow_multiple (by decide)
  obtain ⟨i, hi⟩ := lookup_of_names ce _ hcn .module_id (by decide)
  obtain ⟨n, hn⟩ := lookup_of_names ce _ hcn .name (by decide)
  refine ⟨l, d, a, i, n, hl, hd, ha, hi, hn, ?_⟩
  have hfw := connect_forwards_by_name ke l d a hl hd ha
  cases hev : evalCall id ke prog.connectToHelper with
  | none => simp [hev] at hfw
  | some ha' =>
    simp only [hev, Option.bind_some] at hfw
    simp only [payload, envs, hc, hk, hev, hfw]
    simp [frameFields, prog, fieldVal, allSome, lookup_nil, lookup_cons, hi, hn]

/-- what `client_context` hands to the constructor and to `connect` -/
theorem context_forwards_by_name (xe : Env Val) (i h t n s l a : Val)
    (hi : lookup xe .module_id = some i) (hh : lookup xe .host_id = some h) (ht : lookup xe .timecode = some t)
    (hn : lookup xe .name = some n) (hs : lookup xe .server_name = some s) (hl : lookup xe .logger_status = some l)
    (ha : lookup xe .allow_multiple = some a) :
    (evalCall id xe prog.ctxToCtor).bind (bindArgs id prog.ctor) =
      some [(.module_id, i), (.host_id, h), (.timecode, t), (.name, n)] ∧
    (evalCall id xe prog.ctxToConnect).bind (bindArgs id prog.connect) =
      some [(.server_name, s), (.logger_status, l), (.daemon_status, .b false), (.allow_multiple, a)] := by
  constructor <;>
    simp [evalCall, prog, evalExpr, hi, hh, ht, hn, hs, hl, ha, allSome, bindArgs, bindFrom, argFor, lookup_nil,
      lookup_cons]

/-- **`client_context(...)`: every option reaches the field of the same name.**  For every legal call, CONNECT_V2
carries `logger_status`, `allow_multiple`, `mod_id` (= `module_id`) and `name` as `client_context` was given them;
`daemon_status`, which `client_context` does not offer, is `False` (and not, as in the defect C06-F1, the value of
`allow_multiple`). -/
theorem context_options_reach_fields (x : Actuals Val) (xe : Env Val) (hx : bindArgs id prog.ctx x = some xe) :
    ∃ l a i n, lookup xe .logger_status = some l ∧ lookup xe .allow_multiple = some a ∧
      lookup xe .module_id = some i ∧ lookup xe .name = some n ∧
      payload id prog (.context x) =
        some ([(.logger, l), (.daemon, .b false), (.allow, a), (.modId, i), (.name, n)],
              [(.logger, l), (.daemon, .b false)]) := by
  have hxn := bindArgs_names id prog.ctx x xe hx
  obtain ⟨i, hi⟩ := lookup_of_names xe _ hxn .module_id (by decide)
  obtain ⟨h, hh⟩ := lookup_of_names xe _ hxn .host_id (by decide)
  obtain ⟨t, ht⟩ := lookup_of_names xe _ hxn .timecode (by decide)
  obtain ⟨n, hn⟩ := lookup_of_names xe _ hxn .name (by decide)
  obtain ⟨s, hs⟩ := lookup_of_names xe _ hxn .server_name (by decide)
  obtain ⟨l, hl⟩ := lookup_of_names xe _ hxn .logger_status (by decide)
  obtain ⟨a, ha⟩ := lookup_of_names xe _ hxn .allow_multiple (by decide)
  refine ⟨l, a, i, n, hl, ha, hi, hn, ?_⟩
  obtain ⟨h1, h2⟩ := context_forwards_by_name xe i h t n s l a hi hh ht hn hs hl ha
  cases hev1 : evalCall id xe prog.ctxToCtor with
  | none => simp [hev1] at h1
  | some ca =>
    cases hev2 : evalCall id xe prog.ctxToConnect with
    | none => simp [hev2] at h2
    | some ka =>
      simp only [hev1, hev2, Option.bind_some] at h1 h2
      have hfw := connect_forwards_by_name
        [(.server_name, s), (.logger_status, l), (.daemon_status, .b false), (.allow_multiple, a)] l (.b false) a
        (by simp [lookup_cons]) (by simp [lookup_cons]) (by simp [lookup_cons])
      cases hev3 : evalCall id [(Nm.server_name, s), (.logger_status, l), (.daemon_status, .b false), (.allow_multiple, a)]
          prog.connectToHelper with
      | none => simp [hev3] at hfw
      | some ha' =>
        simp only [hev3, Option.bind_some] at hfw
        simp only [payload, envs, hx, hev1, hev2, h1, h2, hev3, hfw]
        simp [frameFields, prog, fieldVal, allSome, lookup_nil, lookup_cons]

/-! ### the three documented ways of calling, written out -/

/-- `Client(module_id=i, name=n).connect(srv, l, d, a)` — positional -/
theorem connect_positional (i : Int) (n srv : String) (l d a : Bool) :
    (payload id prog (.direct ⟨[], [(.module_id, .i i), (.name, .s n)]⟩ ⟨[.s srv, .b l, .b d, .b a], []⟩)).bind wroteOf =
      some ⟨⟨l, d, a, i, n⟩, l, d⟩ := by
  simp [payload, envs, bindArgs, bindFrom, argFor, lookup_nil, lookup_cons, prog, evalCall, evalExpr, allSome,
    frameFields, fieldVal, wroteOf]

/-- `Client(i, name=n).connect(server_name=srv, allow_multiple=a, daemon_status=d, logger_status=l)` — keywords in
another order -/
theorem connect_keyword (i : Int) (n srv : String) (l d a : Bool) :
    (payload id prog (.direct ⟨[.i i], [(.name, .s n)]⟩
      ⟨[], [(.server_name, .s srv), (.allow_multiple, .b a), (.daemon_status, .b d), (.logger_status, .b l)]⟩)).bind wroteOf =
      some ⟨⟨l, d, a, i, n⟩, l, d⟩ := by
  simp [payload, envs, bindArgs, bindFrom, argFor, lookup_nil, lookup_cons, prog, evalCall, evalExpr, allSome,
    frameFields, fieldVal, wroteOf]

/-- `client_context(module_id=i, server_name=srv, logger_status=l, allow_multiple=a, name=n)` -/
theorem context_keyword (i : Int) (n srv : String) (l a : Bool) :
    (payload id prog (.context ⟨[], [(.module_id, .i i), (.server_name, .s srv), (.logger_status, .b l),
      (.allow_multiple, .b a), (.name, .s n)]⟩)).bind wroteOf = some ⟨⟨l, false, a, i, n⟩, l, false⟩ := by
  simp [payload, envs, bindArgs, bindFrom, argFor, lookup_nil, lookup_cons, prog, evalCall, evalExpr, allSome,
    frameFields, fieldVal, wroteOf]

/-! ### the name on its way through `Client.__init__` (the context's registered module names) -/

/-- a name the caller gives is the name the constructor keeps - whatever the module id, registered or not -/
theorem explicit_name_is_kept (mids : Mids) (i : Int) (n : String) (h : n ≠ "") : storedName mids i n = n := by
  simp [storedName, h]

/-- a dynamic client (id 0) gets no default name -/
theorem dynamic_client_keeps_name (mids : Mids) (n : String) : storedName mids 0 n = n := by
  simp [storedName]

/-- without a name, a static id gets a name the context registers for it, if there is one, else the empty name -/
theorem default_name_is_registered (mids : Mids) (i : Int) :
    (∃ p ∈ mids, p.2 = i ∧ storedName mids i "" = p.1) ∨
    ((∀ p ∈ mids, p.2 ≠ i) ∨ i = 0) ∧ storedName mids i "" = "" := by
  by_cases hi : i = 0
  · right; exact ⟨Or.inr hi, by simp [storedName, hi]⟩
  · cases hf : mids.find? (fun p => p.2 == i) with
    | none =>
      right
      refine ⟨Or.inl ?_, by simp [storedName, hi, hf]⟩
      intro p hp hpi
      have := List.find?_eq_none.1 hf p hp
      simp [hpi] at this
    | some q =>
      left
      have hq := List.find?_some hf
      have hm := List.mem_of_find?_eq_some hf
      exact ⟨q, hm, by simpa using hq, by simp [storedName, hi, hf]⟩

/-- the name rule of the Spec holds of what the constructor keeps, for every context table, id and name -/
theorem stored_name_meets_spec (mids : Mids) (l d a : Bool) (i : Int) (n : String) :
    nameOk mids ⟨l, d, a, i, n⟩ (storedName mids i n) = true := by
  by_cases hn : n = ""
  · subst hn
    by_cases hi : i = 0
    · simp [nameOk, storedName, hi]
    · cases hf : mids.find? (fun p => p.2 == i) with
      | none =>
        have hnil : mids.filter (fun p => p.2 == i) = [] := by
          rw [List.filter_eq_nil_iff]
          intro x hx
          exact List.find?_eq_none.1 hf x hx
        simp [nameOk, storedName, hi, hf, hnil]
      | some q =>
        have hq := List.find?_some hf
        have hm := List.mem_of_find?_eq_some hf
        have hmem : q ∈ mids.filter (fun p => p.2 == i) := List.mem_filter.2 ⟨hm, hq⟩
        cases hl : mids.filter (fun p => p.2 == i) with
        | nil => simp [hl] at hmem
        | cons x xs =>
          have hany : (x :: xs).any (fun p => p.1 == q.1) = true := by
            rw [← hl]; exact List.any_eq_true.2 ⟨q, hmem, by simp⟩
          have hs : storedName mids i "" = q.1 := by simp [storedName, hi, hf]
          rw [hs]
          simp only [nameOk, hl]
          simpa [hi] using hany
  · simp [nameOk, storedName, hn]

/-- **`Client(...)` + `connect(...)` meets the Spec**: for every legal pair of calls with well-typed option values, in
every context table, the frames the model writes satisfy `honoured` for the options as the caller named them - the name
included: an explicit name arrives unchanged, no name gives the registered default. -/
theorem direct_call_meets_spec (mids : Mids) (c k : Actuals Val) (ce ke : Env Val)
    (hc : bindArgs id prog.ctor c = some ce) (hk : bindArgs id prog.connect k = some ke)
    (l d a : Bool) (i : Int) (n : String)
    (hl : lookup ke .logger_status = some (.b l)) (hd : lookup ke .daemon_status = some (.b d))
    (ha : lookup ke .allow_multiple = some (.b a)) (hi : lookup ce .module_id = some (.i i))
    (hn : lookup ce .name = some (.s n)) :
    ∃ w, wroteBy mids (.direct c k) = some w ∧ honouredOk mids ⟨l, d, a, i, n⟩ w = true := by
  obtain ⟨l', d', a', i', n', hl', hd', ha', hi', hn', hp⟩ := direct_options_reach_fields c k ce ke hc hk
  rw [hl] at hl'; rw [hd] at hd'; rw [ha] at ha'; rw [hi] at hi'; rw [hn] at hn'
  cases hl'; cases hd'; cases ha'; cases hi'; cases hn'
  refine ⟨initName mids ⟨⟨l, d, a, i, n⟩, l, d⟩, by simp [wroteBy, hp, wroteOf], ?_⟩
  simp [honouredOk, honoured, initName, stored_name_meets_spec]

/-- **`client_context(...)` meets the Spec** (its `daemon_status` is the documented `False`) -/
theorem context_call_meets_spec (mids : Mids) (x : Actuals Val) (xe : Env Val) (hx : bindArgs id prog.ctx x = some xe)
    (l a : Bool) (i : Int) (n : String)
    (hl : lookup xe .logger_status = some (.b l)) (ha : lookup xe .allow_multiple = some (.b a))
    (hi : lookup xe .module_id = some (.i i)) (hn : lookup xe .name = some (.s n)) :
    ∃ w, wroteBy mids (.context x) = some w ∧ honouredOk mids ⟨l, false, a, i, n⟩ w = true := by
  obtain ⟨l', a', i', n', hl', ha', hi', hn', hp⟩ := context_options_reach_fields x xe hx
  rw [hl] at hl'; rw [ha] at ha'; rw [hi] at hi'; rw [hn] at hn'
  cases hl'; cases ha'; cases hi'; cases hn'
  refine ⟨initName mids ⟨⟨l, false, a, i, n⟩, l, false⟩, by simp [wroteBy, hp, wroteOf], ?_⟩
  simp [honouredOk, honoured, initName, stored_name_meets_spec]

/-- the seeded change C06h as a counter-model: a constructor that lets the registered name win over a name the caller
gave does not meet the Spec -/
theorem registered_name_must_not_override :
    nameOk [("QUICK_LOGGER", 5)] ⟨false, false, false, 5, "my_recorder"⟩ "QUICK_LOGGER" = false := by decide

/-- the defect C06-F1 as a counter-model: `client_context` forwarding positionally `(server_name, logger_status,
allow_multiple)` puts `allow_multiple` into `daemon_status` -/
def progF1 : Prog := { prog with ctxToConnect := ⟨[.var .server_name, .var .logger_status, .var .allow_multiple], []⟩ }

theorem f1_breaks_the_property :
    (payload id progF1 (.context ⟨[], [(.allow_multiple, .b true)]⟩)).bind wroteOf =
      some ⟨⟨false, true, false, 0, ""⟩, false, true⟩ := by
  decide +kernel

/-! ### the client half of the dynamic-id sentence (M2 life cycle; proofs in `Proofs/ClientLife.lean`) -/
open Pyrtma.ClientSub in
/-- every connect of a client object asks for the id it was created with — in every reachable state -/
theorem connect_requests_created_id {cfg : IdCfg} {s : LSys} (h : LInv cfg s) (allow : Bool) :
    (connectOp cfg s allow).1.req = some s.cl.created := by
  obtain ⟨hf, hs⟩ := connectOp_facts h allow
  obtain ⟨q, hq⟩ := Option.isSome_iff_exists.1 hs
  rw [hq, (hf.req q hq).1]

open Pyrtma.ClientSub in
/-- the id reported after an accepted connect is the ACK's; a dynamic one lies in the dynamic range and is held by no
other record of the manager's table -/
theorem reported_id_is_acked_and_fresh {cfg : IdCfg} {s : LSys} (h : LInv cfg s) (allow : Bool)
    (hok : (connectOp cfg s allow).1.status = .ok) :
    (connectOp cfg s allow).1.ack = some (connectOp cfg s allow).1.cl.modId ∧
    (s.cl.created = 0 →
      (connectOp cfg s allow).1.cl.modId ∉ lheld (connectOp cfg s allow).1.cl (connectOp cfg s allow).2 ∧
      cfg.dynStart ≤ (connectOp cfg s allow).1.cl.modId ∧ (connectOp cfg s allow).1.cl.modId < cfg.maxModules) := by
  obtain ⟨hf, hs⟩ := connectOp_facts h allow
  obtain ⟨q, hq⟩ := Option.isSome_iff_exists.1 hs
  obtain ⟨_, _, hack, _, hd⟩ := (hf.req q hq).2 hok
  exact ⟨hack, hd⟩

/-! ### Non-vacuity -/
section Examples
/-- positional and keyword mixed; an option omitted -/
example : (payload id prog (.direct ⟨[.i 12], []⟩ ⟨[.s "h:1", .b true], [(.allow_multiple, .b true)]⟩)).bind wroteOf =
    some ⟨⟨true, false, true, 12, ""⟩, true, false⟩ := by decide +kernel
/-- illegal calls are `TypeError`s, not silently mis-bound ones: an option given twice, an unknown keyword, too many
positionals -/
example : payload id prog (.direct ⟨[], []⟩ ⟨[.s "h:1", .b true], [(.logger_status, .b true)]⟩) = none := by decide +kernel
example : payload id prog (.context ⟨[], [(.daemon_status, .b true)]⟩) = none := by decide +kernel
example : payload id prog (.direct ⟨[], []⟩ ⟨[.s "h", .b true, .b true, .b true, .b true], []⟩) = none := by
  decide +kernel
/-- the hypotheses of the general theorems are satisfiable -/
example : ∃ ke, bindArgs id prog.connect ⟨[.s "h:1"], [(.daemon_status, .b true)]⟩ = some ke := ⟨_, rfl⟩
example : honouredOk [] ⟨true, false, true, 12, "x"⟩ ⟨⟨true, true, false, 12, "x"⟩, true, false⟩ = false := by decide
/-- the name rule: explicit name on a registered id, default on a registered / unregistered / dynamic id -/
example : wroteBy [("DATA_LOGGER", 4), ("QUICK_LOGGER", 5)] (.direct ⟨[.i 5], [(.name, .s "my_recorder")]⟩ ⟨[.s "h:1"], []⟩) =
    some ⟨⟨false, false, false, 5, "my_recorder"⟩, false, false⟩ := by decide +kernel
example : wroteBy [("DATA_LOGGER", 4), ("QUICK_LOGGER", 5)] (.context ⟨[.i 5], []⟩) =
    some ⟨⟨false, false, false, 5, "QUICK_LOGGER"⟩, false, false⟩ := by decide +kernel
example : storedName [("DATA_LOGGER", 4)] 12 "" = "" ∧ storedName [("A", 0)] 0 "" = "" := by decide
example : nameOk [("A", 7), ("B", 7)] ⟨false, false, false, 7, ""⟩ "B" = true := by decide
end Examples

end Pyrtma.C06Entry
