import Pyrtma.Proofs.ManagerInv
import Pyrtma.Proofs.ManagerSimDrv
/-!
# C01 — pub/sub routing is exact: right recipients, exactly once, unmodified

Theorems about `Model/Manager.lean`'s `forward` (the model of `MessageManager.forward_message`, including everything it
triggers recursively: removal of subscribers whose write fails, the CLIENT_CLOSED / FAILED_MESSAGE / RTMA_LOG forwards
nested inside, removals those cause in turn …), for **every** state, every frame, every fuel, every iteration order of
the subscriber sets (`cfg.order` is an arbitrary function), every set of failing sockets and every writable set.

`dataSends (· == .data k) out` is the list of `(recipient, frame)` for every copy of input frame `k` found in `out`.

For every history (the refinement link, `Proofs/ManagerSim*.lean`): `spec_data_clause_passes_on_model` — run the model on
any well-formed history and give the history-based Spec (`Spec.runSpec`, the function the driver evaluates on what the
real `MessageManager` did) the events the model itself wrote: the verdict contains **no C01 entry**.  The C01 clauses of
the Spec (`Spec.checkData`: while a data frame is handled no other data frame is written; every copy carries the
published type, source, destination ids and length; every live subscriber — to the type or to everything — that is ready
(writable, or a logger), passes the destination filter and whose connection works gets exactly one copy; nobody else
gets one) are stated over the Spec's own abstract table; the proof carries a simulation relation between that table and
the model's tables (`SimM`, incl. "the subscription index lists a module under exactly the types of its `subs`") through
every round and uses `forward_copies` (the statement of `routing_exact` for the top-level forward).
-/
namespace Pyrtma.C01
open Pyrtma.Mgr

/-- is this the copy of input frame `k`? -/
abbrev isCopy (k : Nat) : Body → Bool := fun b => b == .data k

/-- the destination ids of the header are outside the valid range -/
def outOfRange (cfg : Cfg) (f : Frame) : Bool :=
  (f.dest < 0 || f.dest > cfg.maxModules) || (f.destHost < 0 || f.destHost > cfg.maxHosts)

theorem recipients_count (cfg : Cfg) (s : State) (t t' : Int) :
    recipients cfg (countMsg cfg s t') t = recipients cfg s t := by
  unfold recipients countMsg; split <;> rfl

/-- **Routing is exact.**  Forwarding the data frame `f` (input frame `k`) appends, to whatever copies of `k` were
already written, exactly one copy per occurrence in the subscriber snapshot `subscribers(type) ++ subscribers(ALL)`
of a module that is still in the table, whose socket works, and that is writable and passes the destination filter
(destination 0, or its own id, or it is a logger) or is a logger — and nothing when the destination module/host id is
out of range.  Each copy is the frame `f` itself: type, source, destination, declared length and payload identity
unchanged.  This holds whatever happens *during* the delivery (write failures, nested removals and notices). -/
theorem routing_exact (cfg : Cfg) (fuel : Nat) (s : State) (f : Frame) (k : Nat)
    (hb : f.body = .data k) (hc : s.crashed = none) :
    dataSends (isCopy k) (forward cfg (fuel + 1) s f).out =
      dataSends (isCopy k) s.out ++
        (if outOfRange cfg f then []
         else ((recipients cfg s f.mtype).filter (elig f s)).map (fun u => (u, f))) := by
  have hB := tag_data cfg k
  have ih := forward_ok cfg hB fuel
  have hBf : isCopy k f.body = true := by simp [isCopy, hb]
  unfold forward
  simp only [hc, Option.isSome_none, Bool.false_eq_true, if_false]
  have pc := countMsg_pres cfg s f.mtype
  have qc : dataSends (isCopy k) (countMsg cfg s f.mtype).out = dataSends (isCopy k) s.out := by rw [countMsg_out]
  by_cases h1 : (f.dest < 0 || f.dest > cfg.maxModules) = true
  · have hr : outOfRange cfg f = true := by unfold outOfRange; rw [h1]; rfl
    rw [hr]
    simp only [h1, if_true]
    have := logAt_ok cfg hB ih 40 (countMsg cfg s f.mtype)
    rw [this.2, qc]; simp
  · have h1' : (f.dest < 0 || f.dest > cfg.maxModules) = false := by simpa using h1
    simp only [h1', Bool.false_eq_true, if_false]
    by_cases h2 : (f.destHost < 0 || f.destHost > cfg.maxHosts) = true
    · have hr : outOfRange cfg f = true := by unfold outOfRange; rw [h1', h2]; rfl
      rw [hr]
      simp only [h2, if_true]
      have := logAt_ok cfg hB ih 40 (countMsg cfg s f.mtype)
      rw [this.2, qc]; simp
    · have h2' : (f.destHost < 0 || f.destHost > cfg.maxHosts) = false := by simpa using h2
      have hr : outOfRange cfg f = false := by unfold outOfRange; rw [h1', h2']; rfl
      rw [hr]
      simp only [h2', Bool.false_eq_true, if_false]
      have := deliver_ok cfg hB ih f (recipients cfg (countMsg cfg s f.mtype) f.mtype) (countMsg cfg s f.mtype)
      rw [this.2, qc, recipients_count]
      have he : (recipients cfg s f.mtype).filter (elig f (countMsg cfg s f.mtype)) =
                (recipients cfg s f.mtype).filter (elig f s) := by
        congr 1; funext v; exact elig_pres pc f v
      rw [he]
      have hBf' : ((fun b => b == Body.data k) f.body) = true := hBf
      simp only [hBf', if_true]

/-- **No other module receives it, and nothing else is disturbed**: forwarding frame `k` writes no copy of any
other input frame `k'`. -/
theorem other_frames_untouched (cfg : Cfg) (fuel : Nat) (s : State) (f : Frame) (k k' : Nat)
    (hb : f.body = .data k) (hne : k' ≠ k) :
    dataSends (isCopy k') (forward cfg fuel s f).out = dataSends (isCopy k') s.out :=
  (forward_ok cfg (tag_data cfg k') fuel s f (by simp [isCopy, hb]; omega)).2

/-- **Manager-originated forwards never carry client data**: forwarding any frame that is not a copy of an input frame
(CLIENT_INFO, CLIENT_CLOSED, FAILED_MESSAGE, TIMING, TRAFFIC, ACTIVE_CLIENTS, RTMA_LOG …) writes no data copy at all. -/
theorem manager_frames_carry_no_data (cfg : Cfg) (fuel : Nat) (s : State) (g : Frame) (k : Nat)
    (hg : ∀ j, g.body ≠ .data j) :
    dataSends (isCopy k) (forward cfg fuel s g).out = dataSends (isCopy k) s.out :=
  (forward_ok cfg (tag_data cfg k) fuel s g (by simp [isCopy]; exact hg k)).2

/-- **Out-of-range destinations are delivered to nobody.** -/
theorem out_of_range_dropped (cfg : Cfg) (fuel : Nat) (s : State) (f : Frame) (k : Nat)
    (hb : f.body = .data k) (hc : s.crashed = none) (hr : outOfRange cfg f = true) :
    dataSends (isCopy k) (forward cfg (fuel + 1) s f).out = dataSends (isCopy k) s.out := by
  rw [routing_exact cfg fuel s f k hb hc]; simp [hr]

/-- **Exactly once**: when the subscriber snapshot has no repetition (which is the case whenever no module is both in
the type's subscriber set and in the subscribe-to-all set, see `Inv` in C02/C07), every module gets at most one copy,
and it gets one iff it is in the snapshot and eligible. -/
theorem exactly_once (cfg : Cfg) (fuel : Nat) (s : State) (f : Frame) (k : Nat)
    (hb : f.body = .data k) (hc : s.crashed = none) (hr : outOfRange cfg f = false)
    (hnd : (recipients cfg s f.mtype).Nodup) (hfresh : dataSends (isCopy k) s.out = []) (u : Nat) :
    ((dataSends (isCopy k) (forward cfg (fuel + 1) s f).out).filter (·.1 == u)).length =
      if u ∈ recipients cfg s f.mtype ∧ elig f s u = true then 1 else 0 := by
  rw [routing_exact cfg fuel s f k hb hc, hfresh]
  simp only [hr, Bool.false_eq_true, if_false, List.nil_append, List.filter_map]
  have hnd' : ((recipients cfg s f.mtype).filter (elig f s)).Nodup := hnd.filter (elig f s)
  rw [List.length_map]
  have hfe : (((recipients cfg s f.mtype).filter (elig f s)).filter ((fun p : Nat × Frame => p.1 == u) ∘ fun u => (u, f))) =
      ((recipients cfg s f.mtype).filter (elig f s)).filter (· == u) := by
    congr 1
  rw [hfe, ← List.count_eq_length_filter, List.Nodup.count hnd']
  simp [List.mem_filter]

/-- an iteration order of a Python `set`: neither invents nor repeats elements -/
def OrderOK (cfg : Cfg) : Prop := ∀ l : List Nat, l.Nodup → (cfg.order l).Nodup ∧ ∀ x, x ∈ cfg.order l → x ∈ l

/-- **In every reachable state the subscriber snapshot of a real type lists nobody twice.**  `SubInv` (a module is listed
under a type only if the type is in its own subscription set; no list has a repetition; subscribing to all types is
exclusive) holds initially and is preserved by every round of `run()` — every accept, every frame of every kind,
every failure and everything nested in its handling, every periodic message (`reachable_inv`) — and it implies that no
module is both in the type's subscriber set and in the subscribe-to-all set. -/
theorem snapshot_never_repeats (cfg : Cfg) (hord : OrderOK cfg) (rs : List Round) (t : Int) (ht : t ≠ cfg.allTypes) :
    (recipients cfg (run cfg rs) t).Nodup :=
  snapshot_nodup (reachable_inv cfg rs) t ht hord

/-- **Exactly once, unconditionally**: in any state satisfying the invariant (every reachable state does, and so does
every intermediate state inside a round, since each operation preserves it), forwarding a fresh data frame of a type other
than the ALL sentinel with in-range destination gives every module exactly one copy if it is a subscriber (to the type
or to all) that is eligible, and none otherwise. -/
theorem exactly_once_inv (cfg : Cfg) (hord : OrderOK cfg) (fuel : Nat) (s : State) (hinv : SubInv cfg s) (f : Frame) (k : Nat)
    (hb : f.body = .data k) (ht : f.mtype ≠ cfg.allTypes) (hc : s.crashed = none) (hr : outOfRange cfg f = false)
    (hfresh : dataSends (isCopy k) s.out = []) (u : Nat) :
    ((dataSends (isCopy k) (forward cfg (fuel + 1) s f).out).filter (·.1 == u)).length =
      if u ∈ recipients cfg s f.mtype ∧ elig f s u = true then 1 else 0 :=
  exactly_once cfg fuel s f k hb hc hr (snapshot_nodup hinv f.mtype ht hord) hfresh u

/-! ### The Spec's C01 clauses on every run of the model -/

/-- **The Spec's routing clauses hold on every run of the model.**  For every configuration meeting the side conditions
(`CfgOK`, automatic fuel, CLIENT_CLOSED is not the ALL_MESSAGE_TYPES sentinel;
`OrdPerm`: the iteration order of a Python `set` visits every element once — insertion order
and its reverse, which the driver uses, are instances) and every history whose frames are read from connections (never
from the manager's own table entry, uid 0 — true of every generated history), the verdict `Spec.runSpec` computes from
the history and the model's own events has no C01 entry: whatever sequence of accepts, connects, (un)subscriptions,
pauses, disconnects, socket failures, writable sets and clock values precedes it, every published frame reaches exactly
the eligible subscribers the Spec's own bookkeeping expects, once, unmodified. -/
theorem spec_data_clause_passes_on_model (cfg : Cfg) (ok : CfgOK cfg) (hfuel : cfg.fuel = 0) (hperm : OrdPerm cfg)
    (hmt : cfg.mtClosed ≠ cfg.allTypes) (rs : List Round) (hwf : RoundsWF rs) :
    (Spec.runSpec cfg rs (Pyrtma.Drv.Manager.modelRun cfg rs).1 none).errs.filter (·.1 == "C01") = [] :=
  spec_passes_on_model ok hfuel hperm hmt rs hwf "C01" (by simp [provenCore]) (fun h => absurd h (by decide))

/-! ### Non-vacuity: a concrete three-module state, one subscribe-all logger, one addressed message -/

def exCfg : Cfg := {}
def exState : State :=
  { mods := [{ uid := 0, connected := true }, { uid := 1, modId := 10, connected := true, subs := [5000] },
             { uid := 2, modId := 11, connected := true, subs := [5000] },
             { uid := 3, modId := 12, connected := true, isLogger := true, subs := [2147483647] }],
    idx := [(5000, [1, 2]), (2147483647, [3])], loggers := [3], wlist := [1, 2], nextUid := 3 }
def exFrame : Frame := { mtype := 5000, src := 10, dest := 11, destHost := 0, nbytes := 4, body := .data 7 }

/-- addressed to id 11: module 2 (addressed) and module 3 (logger, not even writable) get it, module 1 does not -/
example : dataSends (isCopy 7) (forward exCfg 9 exState exFrame).out = [(2, exFrame), (3, exFrame)] := by decide
example : OrderOK exCfg := fun l h => ⟨h, fun _ hx => hx⟩
example : (recipients exCfg exState 5000).Nodup ∧ exState.crashed = none ∧ outOfRange exCfg exFrame = false := by decide

/-- a history: two connections connect, both subscribe to type 5000, the first publishes frame 7 — the second (and only
    the second: the sender is a subscriber too, but only connection 2 is writable in that round) gets it -/
def exHist : List Round :=
  [{ accept := true }, { accept := true },
   { reads := [{ uid := 1, h := { k := 1, mtype := 13, src := 10 } }], writable := [1, 2] },
   { reads := [{ uid := 2, h := { k := 2, mtype := 13, src := 11 } }], writable := [1, 2] },
   { reads := [{ uid := 1, h := { k := 3, mtype := 15, nbytes := 4 }, avail := 4, pay := [136, 19, 0, 0] },
               { uid := 2, h := { k := 4, mtype := 15, nbytes := 4 }, avail := 4, pay := [136, 19, 0, 0] }],
     writable := [1, 2] },
   { reads := [{ uid := 1, h := { k := 7, mtype := 5000, src := 10, nbytes := 4 }, avail := 4, pay := [1, 2, 3, 4] }],
     writable := [2] }]

example : RoundsWF exHist := by
  intro r hr rd hrd
  simp only [exHist, List.mem_cons, List.not_mem_nil, or_false] at hr
  rcases hr with rfl | rfl | rfl | rfl | rfl | rfl <;> simp at hrd
  all_goals (first | (subst hrd; decide) | (rcases hrd with rfl | rfl <;> decide))

example : (Spec.dmine 7 (modelObs {} exHist).flatten).map (·.1) = [2] := by decide +kernel

example : (Spec.runSpec {} exHist (Pyrtma.Drv.Manager.modelRun {} exHist).1 none).errs = [] := by decide +kernel

end Pyrtma.C01
