import Pyrtma.Proofs.ManagerSafe
import Pyrtma.Proofs.ManagerSimDrv
/-!
# C03 — no client can take the manager down

Proved here, for the model of the *repaired* manager:

* `model_never_crashes` — after ANY sequence of rounds (any accepts, any frames with any header values and payload
  bytes, truncated or reset at any point, any writable sets, any sockets failing at any time, any clock) the model's
  explicit crash outcome is unreachable: no write ever goes to a socket the manager has closed, nothing is removed
  twice, and the recursion `forward → remove → CLIENT_CLOSED forward → …` always has enough fuel (`forward_safe`: the
  measure is `2·(open modules) + [type outside the recursion guard] + [destination out of range] + 1`).  The proof
  carries the subscription-index invariant and "a half-removed module is in no subscriber list" through the nested
  recursion.  It was this proof attempt that exposed C03-F12 (double removal) in the real code.
* whatever one delivery does it only ever drops modules whose own socket failed and leaves every other module's record
  untouched (`healthy_modules_untouched`), adds nothing to any table (`tables_only_shrink`); a frame that cannot be read
  produces no delivery and no acknowledgement (`broken_frame_is_quiet`).

Partial, because “the process keeps running” is finally a statement about CPython: the model lists the raising
primitives (see `Model/Manager.lean`) and an exception from a primitive that is not listed is outside the theorem.  That
part is decided on the implementation on every run: any exception escaping `MessageManager.run()` on any generated history
is the observation `CRASH` (Spec clause C03).  DEBUG-level log forwarding is inside the model (every `logger.debug` call
of the `run()` path; before it was, the DEBUG stream was judged by the history-based Spec only — that stream found
C03-F13), so `model_never_crashes` covers a manager started with `log_level=DEBUG` too.

For every history (the refinement link, `Proofs/ManagerSim*.lean`): `spec_liveness_clause_passes_on_model` — run the model
on any well-formed history and give the history-based Spec (`Spec.runSpec`, the function the driver evaluates on what the
real `MessageManager` did) the events the model itself wrote: the verdict contains **no C03 entry**.  The C03 clauses
of the Spec are: `run()` was not terminated and played every round of the script; every frame the script delivers to a
live connection is read (in the order of the script, `Spec.roundBody.go`) and nothing is read that was not pending; a
connect request with a name that is not ascii is not acknowledged; no frame the manager wrote is malformed (payload not
matching its header: `Proofs/ManagerSimLog.lean: run_lok` — the model's log never holds such a frame).
-/
namespace Pyrtma.C03
open Pyrtma.Mgr

/-- **The worst outcome is the offender's own connection.**  Across any forward (any frame, any nesting), a module whose
socket works keeps its record — id, pid, name, flags, subscriptions, open socket — exactly; only the two counters move. -/
theorem healthy_modules_untouched (cfg : Cfg) (fuel : Nat) (s : State) (g : Frame) (v : Nat)
    (hv : failOf s v = none) :
    ((forward cfg fuel s g).find v).map Module.core = (s.find v).map Module.core := by
  by_cases hg : ∃ k, g.body = .data k
  · obtain ⟨k, hk⟩ := hg
    exact (forward_ok cfg (tag_data cfg (k + 1)) fuel s g (by simp [hk])).1.keep v hv
  · exact (forward_ok cfg (tag_data cfg 0) fuel s g (by simp; intro h; exact hg ⟨0, h⟩)).1.keep v hv

/-- **Nothing is ever added by failure handling**: no module appears, no module gets (re)connected or changes identity,
no subscription and no logger entry is created, the writable set and the socket states are not touched. -/
theorem tables_only_shrink (cfg : Cfg) (fuel : Nat) (s : State) (g : Frame) :
    let s' := forward cfg fuel s g
    (∀ u m', s'.find u = some m' → ∃ m, s.find u = some m ∧ m'.ident = m.ident ∧ (m'.connected = true → m.connected = true)) ∧
    (∀ t u, u ∈ idxGet s'.idx t → u ∈ idxGet s.idx t) ∧ (∀ u, u ∈ s'.loggers → u ∈ s.loggers) ∧
    s'.wlist = s.wlist ∧ s'.fail = s.fail := by
  intro s'
  have hp : Pres s s' := by
    by_cases hg : ∃ k, g.body = .data k
    · obtain ⟨k, hk⟩ := hg
      exact (forward_ok cfg (tag_data cfg (k + 1)) fuel s g (by simp [hk])).1
    · exact (forward_ok cfg (tag_data cfg 0) fuel s g (by simp; intro h; exact hg ⟨0, h⟩)).1
  exact ⟨hp.sub, hp.idx, hp.loggers, hp.wlist, hp.fail⟩

/-- **A frame that cannot be processed delivers nothing and acknowledges nothing**: dropping its sender (with the
CLIENT_CLOSED notice, the log line and everything nested) writes no copy of any client frame and no ACKNOWLEDGE. -/
theorem broken_frame_is_quiet (cfg : Cfg) (lvl : Nat) (s : State) (u : Nat) (k : Nat) :
    dataSends (fun b => b == .data k) (logAt cfg (fwdTop cfg) lvl (removeModule cfg (fwdTop cfg) s u)).out =
      dataSends (fun b => b == .data k) s.out ∧
    dataSends (fun b => b == .ack) (logAt cfg (fwdTop cfg) lvl (removeModule cfg (fwdTop cfg) s u)).out =
      dataSends (fun b => b == .ack) s.out := by
  constructor
  · have h1 := removeModule_quiet cfg (tag_data cfg k) (fwdTop_ok cfg (tag_data cfg k)) s u
    have h2 := (logAt_ok cfg (tag_data cfg k) (fwdTop_ok cfg (tag_data cfg k)) lvl (removeModule cfg (fwdTop cfg) s u)).2
    exact Eq.trans h2 h1
  · have h1 := removeModule_quiet cfg (tag_ack cfg) (fwdTop_ok cfg (tag_ack cfg)) s u
    have h2 := (logAt_ok cfg (tag_ack cfg) (fwdTop_ok cfg (tag_ack cfg)) lvl (removeModule cfg (fwdTop cfg) s u)).2
    exact Eq.trans h2 h1

/-- an impossible declared length never reaches `recv_into`: the frame is not processed, its sender is dropped -/
theorem impossible_length_drops_sender (cfg : Cfg) (s : State) (r : Read) (m : Module)
    (hm : s.find r.uid = some m) (hcr : s.crashed = none) (h1 : r.hdrErr = false) (h2 : r.hdrOk = true)
    (h3 : r.h.nbytes < 0 ∨ r.h.nbytes > cfg.bufMax) :
    readOne cfg s r = logAt cfg (fwdTop cfg) 30 (removeModule cfg (fwdTop cfg) (s.emit (.rd r.uid)) r.uid) := by
  unfold readOne; simp only [hcr, Option.isSome_none, Bool.false_eq_true, if_false, hm, h1, h2, Bool.not_true]
  have : (decide (r.h.nbytes < 0) || decide (r.h.nbytes > cfg.bufMax)) = true := by
    rcases h3 with h | h <;> simp [h]
  simp [this]

/-- a name that is not ascii never reaches the table: CONNECT_V2 with such a name is refused -/
theorem non_ascii_name_refused (cfg : Cfg) (s : State) (u : Nat) (h : Hdr)
    (hv2 : h.mtype = cfg.mtConnectV2) (hnc : (lookupMod s u).connected = false) (hbad : cstr s.buf 12 32 = none) :
    (connectModule cfg s u h).2 = false := by
  unfold connectModule
  simp [hnc, hv2, hbad]

/-- the constants of the source tree meet the model's side conditions (re-checked at the generated values in `Gen`) -/
theorem defaultCfgOK : CfgOK ({} : Cfg) :=
  ⟨by decide, by decide, by decide, fun _ _ h => h⟩

/-- **The manager model never crashes**, for every history, every iteration order of the subscriber sets that invents
no element (`CfgOK.order`), every log level of the model, with the fuel computed by the model itself. -/
theorem model_never_crashes (cfg : Cfg) (ok : CfgOK cfg) (hfuel : cfg.fuel = 0) (rs : List Round) :
    (run cfg rs).crashed = none :=
  (never_crashes ok hfuel rs).1

/-- …and in every reachable state no module is left half-removed and the subscription index is consistent -/
theorem model_always_tidy (cfg : Cfg) (ok : CfgOK cfg) (hfuel : cfg.fuel = 0) (rs : List Round) :
    AllOpen (run cfg rs) ∧ SubInv cfg (run cfg rs) :=
  ⟨(never_crashes ok hfuel rs).2.aopen, (never_crashes ok hfuel rs).2.good.inv⟩

/-- one forward needs at most `2·(open modules) + 3` units of fuel and never crashes (any frame, any state meeting the
invariant, any nesting of failures) -/
theorem forward_never_crashes (cfg : Cfg) (ok : CfgOK cfg) (n : Nat) (s : State) (g : Frame) (h : Good cfg s)
    (hn : need cfg s g ≤ n) : (forward cfg n s g).crashed = none :=
  (forward_safe ok n s g h hn).1.ok

/-! ### The Spec's C03 clauses on every run of the model -/

/-- **The Spec's C03 clauses hold on every run of the model.**  For every configuration meeting the side conditions
(`CfgOK`, automatic fuel, CLIENT_CLOSED is not the ALL_MESSAGE_TYPES sentinel;
`OrdPerm`: the iteration order of a Python `set` visits every element once — insertion order
and its reverse, which the driver uses, are instances) and every history whose frames are read from connections (never
from the manager's own table entry, uid 0 — true of every generated history), the verdict `Spec.runSpec` computes from
the history and the model's own events has no C03 entry. -/
theorem spec_liveness_clause_passes_on_model (cfg : Cfg) (ok : CfgOK cfg) (hfuel : cfg.fuel = 0) (hperm : OrdPerm cfg)
    (hmt : cfg.mtClosed ≠ cfg.allTypes) (rs : List Round) (hwf : RoundsWF rs) :
    (Spec.runSpec cfg rs (Pyrtma.Drv.Manager.modelRun cfg rs).1 none).errs.filter (·.1 == "C03") = [] :=
  spec_passes_on_model ok hfuel hperm hmt rs hwf "C03" (by simp [provenCore]) (fun h => absurd h (by decide))

/-- a history with a frame that is never read: connection 1 dies on the header of its first frame, its second frame of
    the same round stays unread — and the Spec agrees that it was not pending any more -/
def exHist : List Round :=
  [{ accept := true }, { accept := true },
   { reads := [{ uid := 1, hdrErr := true }, { uid := 2, h := { k := 1, mtype := 13, src := 11 } },
               { uid := 1, h := { k := 2, mtype := 5000 } }], writable := [1, 2] }]

example : RoundsWF exHist := by
  intro r hr rd hrd
  simp only [exHist, List.mem_cons, List.not_mem_nil, or_false] at hr
  rcases hr with rfl | rfl | rfl <;> simp at hrd
  rcases hrd with rfl | rfl | rfl <;> decide

example : ((run {} exHist).mods.map (fun m => (m.uid, m.modId, m.connected))) = [(0, 0, true), (2, 11, true)] := by
  decide +kernel

example : (Spec.runSpec {} exHist (Pyrtma.Drv.Manager.modelRun {} exHist).1 none).errs = [] := by decide +kernel

/-! ### Non-vacuity: the header fields of a broken frame are arbitrary -/
example : (readOne {} { mods := [{ uid := 0 }, { uid := 1 }], nextUid := 1 }
    { uid := 1, h := { mtype := 5000, nbytes := -1 } }).mods.map (·.uid) = [0] := by decide
example : (readOne {} { mods := [{ uid := 0 }, { uid := 1 }], nextUid := 1 }
    { uid := 1, h := { mtype := 5000, nbytes := 1048577 } }).out = [.rd 1, .close 1] := by decide

end Pyrtma.C03
