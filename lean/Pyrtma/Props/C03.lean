import Pyrtma.Proofs.Manager
/-!
# C03 — no client can take the manager down   (proof: **partial**)

Proved here, for the model of the *repaired* manager, for every state, frame, fuel, failing set and writable set:
whatever one delivery does (write failures, nested removals, notices, log forwards) it only ever drops modules whose own
socket failed and leaves every other module's record untouched (`healthy_modules_untouched`), adds nothing to any
table (`tables_only_shrink`), writes client data to nobody but the recipients C01 names (`no_stray_data`); a frame that
cannot be read (reset, EOF, impossible length, undecodable name) produces no delivery and no acknowledgement at all
(`broken_frame_is_quiet`).

Not proved (and therefore labelled partial): that the model never sets `crashed` (the three remaining explicit crash
sources are `out of fuel`, a write to a socket the manager itself already closed, and an acknowledgement to a module
that is not in the table); this needs the invariant "a closed module is in no subscriber set" carried through the nested
recursion plus a termination measure for the fuel.  These are decided on the implementation on every run instead: any
exception escaping `MessageManager.run()` is the observation `CRASH` (Spec clause C03), and the model reporting
`crashed` where the implementation did not is a correspondence failure.
-/
namespace Pyrtma.C03
open Pyrtma.Mgr

/-- **The worst outcome is the offender's own connection.**  Across any forward (any frame, any nesting), a module whose
socket works keeps its record — id, pid, name, flags, subscriptions, open socket — exactly; only the two counters move. -/
theorem healthy_modules_untouched (cfg : Cfg) (fuel : Nat) (s : State) (g : Frame) (v : Nat)
    (hv : failOf s v = none) :
    ((forward cfg fuel s g).find v).map Module.core = (s.find v).map Module.core := by
  by_cases hg : ∃ k, g.body = .data k
  · obtain ⟨k, hk⟩ := hg
    exact (forward_ok cfg (tag_data cfg (k + 1)) fuel s g (by simp [hk])).1.keep v hv
  · exact (forward_ok cfg (tag_data cfg 0) fuel s g (by simp; intro h; exact hg ⟨0, h⟩)).1.keep v hv

/-- **Nothing is ever added by failure handling**: no module appears, no module gets (re)connected or changes identity,
no subscription and no logger entry is created, the writable set and the socket states are not touched. -/
theorem tables_only_shrink (cfg : Cfg) (fuel : Nat) (s : State) (g : Frame) :
    let s' := forward cfg fuel s g
    (∀ u m', s'.find u = some m' → ∃ m, s.find u = some m ∧ m'.ident = m.ident ∧ (m'.connected = true → m.connected = true)) ∧
    (∀ t u, u ∈ idxGet s'.idx t → u ∈ idxGet s.idx t) ∧ (∀ u, u ∈ s'.loggers → u ∈ s.loggers) ∧
    s'.wlist = s.wlist ∧ s'.fail = s.fail := by
  intro s'
  have hp : Pres s s' := by
    by_cases hg : ∃ k, g.body = .data k
    · obtain ⟨k, hk⟩ := hg
      exact (forward_ok cfg (tag_data cfg (k + 1)) fuel s g (by simp [hk])).1
    · exact (forward_ok cfg (tag_data cfg 0) fuel s g (by simp; intro h; exact hg ⟨0, h⟩)).1
  exact ⟨hp.sub, hp.idx, hp.loggers, hp.wlist, hp.fail⟩

/-- **A frame that cannot be processed delivers nothing and acknowledges nothing**: dropping its sender (with the
CLIENT_CLOSED notice, the log line and everything nested) writes no copy of any client frame and no ACKNOWLEDGE. -/
theorem broken_frame_is_quiet (cfg : Cfg) (lvl : Nat) (s : State) (u : Nat) (k : Nat) :
    dataSends (fun b => b == .data k) (logAt cfg (fwdTop cfg) lvl (removeModule cfg (fwdTop cfg) s u)).out =
      dataSends (fun b => b == .data k) s.out ∧
    dataSends (fun b => b == .ack) (logAt cfg (fwdTop cfg) lvl (removeModule cfg (fwdTop cfg) s u)).out =
      dataSends (fun b => b == .ack) s.out := by
  constructor
  · have h1 := removeModule_quiet cfg (tag_data cfg k) (fwdTop_ok cfg (tag_data cfg k)) s u
    have h2 := (logAt_ok cfg (tag_data cfg k) (fwdTop_ok cfg (tag_data cfg k)) lvl (removeModule cfg (fwdTop cfg) s u)).2
    exact Eq.trans h2 h1
  · have h1 := removeModule_quiet cfg (tag_ack cfg) (fwdTop_ok cfg (tag_ack cfg)) s u
    have h2 := (logAt_ok cfg (tag_ack cfg) (fwdTop_ok cfg (tag_ack cfg)) lvl (removeModule cfg (fwdTop cfg) s u)).2
    exact Eq.trans h2 h1

/-- an impossible declared length never reaches `recv_into`: the frame is not processed, its sender is dropped -/
theorem impossible_length_drops_sender (cfg : Cfg) (s : State) (r : Read) (m : Module)
    (hm : s.find r.uid = some m) (hcr : s.crashed = none) (h1 : r.hdrErr = false) (h2 : r.hdrOk = true)
    (h3 : r.h.nbytes < 0 ∨ r.h.nbytes > cfg.bufMax) :
    readOne cfg s r = logAt cfg (fwdTop cfg) 30 (removeModule cfg (fwdTop cfg) (s.emit (.rd r.uid)) r.uid) := by
  unfold readOne; simp only [hcr, Option.isSome_none, Bool.false_eq_true, if_false, hm, h1, h2, Bool.not_true]
  have : (decide (r.h.nbytes < 0) || decide (r.h.nbytes > cfg.bufMax)) = true := by
    rcases h3 with h | h <;> simp [h]
  simp [this]

/-- a name that is not ascii never reaches the table: CONNECT_V2 with such a name is refused -/
theorem non_ascii_name_refused (cfg : Cfg) (s : State) (u : Nat) (h : Hdr)
    (hv2 : h.mtype = cfg.mtConnectV2) (hnc : (lookupMod s u).connected = false) (hbad : cstr s.buf 12 32 = none) :
    (connectModule cfg s u h).2 = false := by
  unfold connectModule
  simp [hnc, hv2, hbad]

/-! ### Non-vacuity: the header fields of a broken frame are arbitrary -/
example : (readOne {} { mods := [{ uid := 0 }, { uid := 1 }], nextUid := 1 }
    { uid := 1, h := { mtype := 5000, nbytes := -1 } }).mods.map (·.uid) = [0] := by decide
example : (readOne {} { mods := [{ uid := 0 }, { uid := 1 }], nextUid := 1 }
    { uid := 1, h := { mtype := 5000, nbytes := 1048577 } }).out = [.rd 1, .close 1] := by decide

end Pyrtma.C03
