import Pyrtma.Spec.Serial
import Pyrtma.Props.C09
import Pyrtma.Proofs.Serial
import Pyrtma.Proofs.Json
import Pyrtma.Proofs.Heap
/-!
# C10 — serialisation round trips are the identity

Three model parts (M5): `Model/Serial.lean` (bytes ↔ dictionary), `Model/Json.lean` (dictionary ↔ JSON text),
`Model/Heap.lean` (storage: buffers, views, copies).

## 1. dictionary
A message class is a **descriptor** `Desc` — the walk of `_fields_` that `_to_dict` / `_from_dict` perform: leaf
descriptor fields of M4 (ints of every width, float/double, char, byte, string, byte array, numeric array of length n),
nested structs (field list with the padding ctypes puts in front of each field and after the last), arrays of structs.
`toDict d b` is the Python value `to_dict()` returns for an object with bytes `b`; `fromDict d v` is `_from_dict` on a
fresh (all-zero) object: every leaf is assigned through M4's **validated** `setField` / `setItem` (`fromDictLeaf`), a
string field accepts a list of characters, a missing key / short list / value of the wrong shape is an explicit error
outcome, list items beyond a struct array's length are ignored.

* `dict_roundtrip`: **for every descriptor `d` and every well-formed content `b` (`WFD d b`),
  `fromDict d (toDict d b) = (b, none)`** — structural induction over the descriptor (mutual with the field-list
  induction `fields_roundtrip`; the struct-array case is the induction over element positions `fromElems_roundtrip`).
* its leaf cases, each for all widths / lengths / contents: `int_`, `byte_`, `char_`, `str_`, `f64_`, `f32_leaf_roundtrip`,
  `int_array_roundtrip`, `float_array_roundtrip`, `byte_array_roundtrip` (the induction over the positions of the ctypes
  slice store `storeMany` / `writeAt` is `Proofs/Serial.lean: storeMany_fill`), collected in `leaf_roundtrip`.
* `wfB_sound` / `dict_roundtrip_of_check`: the decidable well-formedness check the driver runs on the bytes the real code
  built implies `WFD`, hence the round trip.
* well-formedness of string fields is a theorem about M4 (`wf_of_validated_str`, `str_assign_then_roundtrip`; this is
  where C10-F1 lived: before the fix a short string written over a long one left stale bytes, which are not well-formed
  and do not round-trip).
* `Message.from_json` refuses exactly the non-zero foreign versions (`json_version_refused`, `json_version_accepted`) -
  and does so **before it looks at the data segment, for every class** (`msgFromJson`: header, class lookup, version
  check, data; `foreign_version_refused_whatever_the_data`, `own_or_unset_version_reaches_the_data`,
  `msgFromJson_meets_version_clause`).  The driver compares the real `Message.from_json` with `msgFromJson` on every class,
  the ones without fields (signals) included, on minified and indented text and on texts whose "data" member is missing,
  `{}` or `null` (seeded change C10h: an early return for signal classes in front of the check).

Floats: values cross as IEEE bit patterns.  `double` leaves and arrays round-trip **exactly** (every finite value, -0.0,
every NaN payload; the validators never store an infinity, which is part of `WF`).  `float` (binary32) leaves and arrays
round-trip under the **explicit hypothesis** `narrow (widen x) = x` for each stored element (part of `WFelem`; rounding is
an opaque parameter of M4) — the driver evaluates this hypothesis on every `float` the real code stored.

What `WFD` demands beyond "right length": strings NUL-terminated ASCII followed by NULs only, chars ASCII, no infinities,
the `float` hypothesis, every padding byte zero, field names of a struct distinct, and the descriptor shapes the validator
classes can build (`leafOk`: `String(n)`/`ByteArray(n)` with n > 1, `IntArray` of length ≥ 1 — a zero-length `IntArray`,
which the message compiler refuses, would indeed not round-trip: see the examples).

## 2. JSON text
`render` = `json.dumps(..., cls=RTMAJSONEncoder)` (minified and indented layouts, every string escape the encoder emits,
floats as opaque tokens), `parse` = `json.loads` on that subset (`Model/Json.lean`).

* `json_text_roundtrip_min` / `_pretty` / `_indent`: **`parse (render v) = some v` for every document of the subset**
  (`J.okB`: strings of Unicode scalar values, float tokens that the JSON grammar classes as floats), for both layouts —
  one mutual induction over documents with the layout as a parameter (`Proofs/Json.lean: parseV_render`, …).
* `toJ_ok`, `message_json_text_roundtrip`: every `to_dict()` of a well-formed message is encoded to a document of the
  subset, so the text `to_json` writes is read back as that document.
* `message_json_roundtrip` (with `json_dict_roundtrip`, `byte_array_list_roundtrip`): **message → text → message**:
  `fromJson fparse d (renderMin j) = some (b, none)` (and for the indented text), where `j` is the encoder's document for
  the message with bytes `b`.  Hypotheses, all about Python's float formatter/reader, which stay opaque: `ftok x` is a
  float token, and `fparse (ftok x) = x` for the floats *of this message* (true for every double except NaNs with a sign
  or payload — JSON has one NaN); and the class shapes `descOkJ` (struct arrays non-empty, of structs).

## 3. copies
`Model/Heap.lean`: objects are references (buffer address, offset, size) into a heap of buffers; `from_buffer_copy`
allocates a fresh buffer, nested-struct attribute access gives a view into the same buffer, writes are `memmove`s.

* `copy_is_equal`, `copy_is_fresh`, `write_to_copy_leaves_source`, `write_to_source_leaves_copy`: a copy has the class
  and bytes of its source and lives alone in a new buffer: **writing any bytes into the copy leaves the source (and every
  other live object, views of the source included) unchanged, and vice versa**.
* `message_copy_spec`: `Message.copy` keeps the header **class** and bytes and the data class and bytes; the two new
  objects are in two fresh buffers, disjoint from each other and from everything that existed.

## not theorems (decided on the implementation on every run, `harness/serial_corr.py`)
`bytes()` / `from_buffer_copy` as value operations of ctypes (the heap model is compared with real ctypes objects on
random scripts, but that ctypes allocates fresh memory is an observation, not a theorem); Python's float `repr` / `float()`
(tokens are supplied by the harness and checked against the JSON grammar); "every value constructible through the validated
field API is well-formed" is a theorem for strings only — for the other kinds it is `wfB` evaluated on what the API built.
Open finding **C10-F3**: the dictionary / JSON of a `TimeCodeMessageHeader` lacks the inherited header fields (examples at
the end).
-/
namespace Pyrtma.C10
open Pyrtma.Validators Pyrtma.Serial Pyrtma.Json Pyrtma.Heap

/-- **Version check**: header+data JSON is refused iff the header's version is non-zero and differs from the local hash -/
theorem json_version_refused (v h : Nat) : versionRefused v h = true ↔ (v ≠ 0 ∧ v ≠ h) := by
  simp [versionRefused]

theorem json_version_accepted (v h : Nat) : versionRefused v h = false ↔ (v = 0 ∨ v = h) := by
  simp [versionRefused]; omega

/-- **A foreign version is refused whatever the data segment is** - present or missing, `{}`, `null`, decodable or not -
and for every message class: `msgFromJson` has no class parameter, so classes without fields (signals: EXIT, KILL,
ACKNOWLEDGE, …) are refused like any other.  (The seeded change C10h returns early for such classes *before* the check;
the driver compares `Message.from_json` with `msgFromJson` on every class, zero-size ones included.) -/
theorem foreign_version_refused_whatever_the_data (v h : Nat) (hv : v ≠ 0) (hh : v ≠ h) (dataOk : Bool) :
    msgFromJson v h dataOk = .refused := by
  have : versionRefused v h = true := (json_version_refused v h).2 ⟨hv, hh⟩
  simp [msgFromJson, this]

/-- … and only a foreign version is refused: with the own hash or with 0 the outcome is decided by the data segment -/
theorem own_or_unset_version_reaches_the_data (v h : Nat) (hv : v = 0 ∨ v = h) (dataOk : Bool) :
    msgFromJson v h dataOk = if dataOk then .decoded else .failed := by
  have : versionRefused v h = false := (json_version_accepted v h).2 hv
  simp [msgFromJson, this]

/-- an observation that consists of one version probe -/
def probeObs (v h : Nat) (refused : Bool) (what : String) (altered : Bool) : Pyrtma.Serial.Obs :=
  { orig := [], trips := [], copyShares := false, vers := [{ version := v, localHash := h, refused := refused, what := what, altered := altered }] }

/-- the Spec's clause for one probe is met by the model's outcome: as written (both directions) and with an altered
data segment (refusal direction) -/
theorem msgFromJson_meets_version_clause (v h : Nat) (dataOk altered : Bool) (what : String)
    (hd : altered = false → dataOk = true) :
    ∀ c ∈ Pyrtma.Serial.clauses (probeObs v h (decide (msgFromJson v h dataOk = .refused)) what altered), c.2 = true := by
  intro c hc
  simp only [probeObs, Pyrtma.Serial.clauses, List.map_nil, List.nil_append, List.map_cons, List.cons_append,
    List.mem_cons, List.not_mem_nil, or_false] at hc
  rcases hc with rfl | rfl
  · rfl
  · cases hr : versionRefused v h <;> cases altered <;> cases hdo : dataOk <;>
      simp_all [msgFromJson]

/-! ### little-endian, the other direction -/
theorem toLE_fromLE : ∀ (b : Bytes), (∀ x ∈ b, x < 256) → toLE b.length (fromLE b) = b
  | [], _ => rfl
  | x :: xs, h => by
    have hx : x < 256 := h x (by simp)
    have ih := toLE_fromLE xs (fun y hy => h y (by simp [hy]))
    simp only [List.length_cons, toLE, fromLE]
    have h1 : (x + 256 * fromLE xs) % 256 = x := by omega
    have h2 : (x + 256 * fromLE xs) / 256 = fromLE xs := by omega
    rw [h1, h2, ih]

theorem fromLE_lt : ∀ (b : Bytes), (∀ x ∈ b, x < 256) → fromLE b < 256 ^ b.length
  | [], _ => by simp [fromLE]
  | x :: xs, h => by
    have hx : x < 256 := h x (by simp)
    have ih := fromLE_lt xs (fun y hy => h y (by simp [hy]))
    simp only [List.length_cons, fromLE, Nat.pow_succ]
    omega

/-- **integer leaves** of every width and signedness: dict round trip is the identity on every content -/
theorem int_leaf_roundtrip (k : IK) (b : Bytes) (hw : WF (.int k) b) :
    fromDictLeaf (.int k) (toDictLeaf (.int k) b) = (b, none) := by
  obtain ⟨hlen, hby, _⟩ := hw
  have hlt := fromLE_lt b hby
  have hle := toLE_fromLE b hby
  simp only [FTy.size] at hlen
  rw [hlen] at hlt hle
  have hr : k.lo ≤ decInt k b ∧ decInt k b ≤ k.hi ∧
      ((decInt k b) % (2 ^ (8 * k.size) : Int)).toNat = fromLE b := by
    unfold decInt
    cases k <;> simp only [IK.size, IK.signed, IK.lo, IK.hi] at hlt ⊢ <;> simp at hlt ⊢ <;> omega
  have e : elemStore (.int k) (.int (decInt k b)) = .ok (encInt k (decInt k b)) := rfl
  simp only [fromDictLeaf, toDictLeaf, setField, setScalar, validateOne, if_true, hr.1, hr.2.1, and_self, e, lift]
  simp only [encInt, hr.2.2, hle]

/-- **byte leaves** -/
theorem byte_leaf_roundtrip (b : Bytes) (hw : WF .byte b) : fromDictLeaf .byte (toDictLeaf .byte b) = (b, none) := by
  obtain ⟨hlen, hby, _⟩ := hw
  simp only [FTy.size] at hlen
  match b, hlen, hby with
  | [x], _, hby =>
    have hx : x < 256 := hby x (by simp)
    have h0 : (0 : Int) ≤ (x : Int) ∧ (x : Int) ≤ 255 := by omega
    have e : elemStore .byte (.int (x : Int)) = .ok (encInt .u8 x) := rfl
    have e2 : encInt .u8 (x : Int) = [x] := by
      simp only [encInt, IK.size, toLE]
      have : (((x : Int) % (2 ^ (8 * 1) : Int)).toNat) = x := by simp; omega
      rw [this]; simp; omega
    simp only [fromDictLeaf, toDictLeaf, fromLE, setField, setScalar, validateOne, if_true, Nat.mul_zero, Nat.add_zero,
      h0.1, h0.2, and_self, e, e2, lift]

/-- **char leaves** (ASCII, including NUL) -/
theorem char_leaf_roundtrip (b : Bytes) (hw : WF .char b) : fromDictLeaf .char (toDictLeaf .char b) = (b, none) := by
  obtain ⟨hlen, _, hasc⟩ := hw
  simp only [FTy.size] at hlen
  match b, hlen, hasc with
  | [x], _, hasc =>
    have hx : x < 128 := hasc x (by simp)
    have h1 : decide (x ≥ 128) = false := by simp; omega
    simp [fromDictLeaf, toDictLeaf, setField, setStr, strCheck, strStore, lift, h1]

theorem upToNul_id : ∀ (cs : List Nat), (∀ c ∈ cs, 0 < c) → upToNul cs = cs
  | [], _ => rfl
  | c :: cs, h => by
    have hc : 0 < c := h c (by simp)
    have : (c == 0) = false := by simp; omega
    simp only [upToNul, this, Bool.false_eq_true, if_false]
    rw [upToNul_id cs (fun d hd => h d (by simp [hd]))]

/-- **string leaves**: NUL-terminated ASCII followed by NULs only (what the patched `String.__set__` leaves behind)
goes through `to_dict` / `from_dict` unchanged, for every field width and every content -/
theorem str_leaf_roundtrip (n : Nat) (hn : 1 < n) (b : Bytes) (hw : WF (.str n) b) :
    fromDictLeaf (.str n) (toDictLeaf (.str n) b) = (b, none) := by
  obtain ⟨_, _, cs, hcs, hlen, rfl⟩ := hw
  have hnz : ∀ c ∈ cs, c ≠ 0 := fun c hc => by have := (hcs c hc).1; omega
  have hup : upToNul (cs ++ List.replicate (n - cs.length) 0) = cs := C09.upToNul_append_zeros cs _ hnz
  have hid : upToNul cs = cs := upToNul_id cs (fun c hc => (hcs c hc).1)
  have hasc : cs.any (fun c => decide (c ≥ 128)) = false := by
    simp only [List.any_eq_false, decide_eq_true_eq]
    intro c hc; have := (hcs c hc).2; omega
  have hn1 : ¬ n = 1 := by omega
  have hl1 : ¬ cs.length > n - 1 := by omega
  have hl2 : ¬ cs.length > n := by omega
  simp [fromDictLeaf, toDictLeaf, setField, setStr, strCheck, strStore, lift, hup, hid, hasc, hn1, hl1, hl2]

/-- **double leaves**: every finite or NaN content, bit for bit (including -0.0 and NaN payloads) -/
theorem f64_leaf_roundtrip (b : Bytes) (hw : WF (.flt .f64) b) :
    fromDictLeaf (.flt .f64) (toDictLeaf (.flt .f64) b) = (b, none) := by
  obtain ⟨hlen, hby, hinf⟩ := hw
  simp only [FTy.size, FK.size] at hlen
  have hle := toLE_fromLE b hby
  rw [hlen] at hle
  have e : elemStore (.flt .f64) (.flt (fromLE b)) = .ok (encFlt .f64 (fromLE b)) := rfl
  simp only at hinf
  simp only [fromDictLeaf, toDictLeaf, setField, setScalar, validateOne, toDouble, infAfter, hinf, if_true, e, lift,
    Bool.false_eq_true, if_false, encFlt, hle]

/-! ### arrays: the induction over element positions -/
/-- what ctypes reads from `k.size` bytes is in the validator's range and is written back as the same bytes -/
theorem decInt_facts (k : IK) (c : Bytes) (hlen : c.length = k.size) (hby : ∀ x ∈ c, x < 256) :
    k.lo ≤ decInt k c ∧ decInt k c ≤ k.hi ∧ encInt k (decInt k c) = c := by
  have hlt := fromLE_lt c hby
  have hle := toLE_fromLE c hby
  rw [hlen] at hlt hle
  have hr : k.lo ≤ decInt k c ∧ decInt k c ≤ k.hi ∧
      ((decInt k c) % (2 ^ (8 * k.size) : Int)).toNat = fromLE c := by
    unfold decInt
    cases k <;> simp only [IK.size, IK.signed, IK.lo, IK.hi] at hlt ⊢ <;> simp at hlt ⊢ <;> omega
  refine ⟨hr.1, hr.2.1, ?_⟩
  simp only [encInt, hr.2.2, hle]

theorem vk_int_ne_byte (k : IK) : (VK.int k == VK.byte) = false := by cases k <;> decide

/-- **integer arrays** of every element width and every length ≥ 1: `to_dict` gives the list of element values,
`from_dict` assigns it with `field[:] = list` (range check through Python's `max` / `min`, then the ctypes slice store,
one element after the other) and every byte comes back -/
theorem int_array_roundtrip (k : IK) (n : Nat) (hn : 0 < n) (b : Bytes) (hw : WF (.arr .intArray (.int k) n) b) :
    fromDictLeaf (.arr .intArray (.int k) n) (toDictLeaf (.arr .intArray (.int k) n) b) = (b, none) := by
  obtain ⟨hlen, hby, _⟩ := hw
  simp only [FTy.size, VK.esize] at hlen
  have hlen' : b.length = n * k.size := by rw [hlen, Nat.mul_comm]
  have hcl := chunks_elem_length k.size n b hlen'
  have hcb := chunks_elem_bytes k.size n b hby
  let pairs : List (Scalar × Bytes) := (chunks k.size n b).map fun c => (Scalar.int (decInt k c), c)
  have hp1 : pairs.map (·.1) = decodeItems (.int k) n b := by
    simp [pairs, decodeItems, VK.esize, Function.comp_def]
  have hp2 : (pairs.map (·.2)).flatten = b := by
    simp only [pairs, List.map_map, Function.comp_def, List.map_id']
    exact chunks_flatten k.size n b hlen'
  have hpl : pairs.length = n := by simp [pairs, chunks_length]
  have hst : ∀ p ∈ pairs, elemStore (.int k) p.1 = .ok p.2 ∧ p.2.length = (VK.int k).esize := by
    intro p hp
    simp only [pairs, List.mem_map] at hp
    obtain ⟨c, hc, rfl⟩ := hp
    have := decInt_facts k c (hcl c hc) (hcb c hc)
    simp only [elemStore, this.2.2, VK.esize, hcl c hc, and_self]
  -- the Python-level check
  have hchk : intMany k.lo k.hi false (decodeItems (.int k) n b) = .ok () := by
    rw [← hp1]
    unfold intMany
    have h1 : (pairs.map (·.1)).any (fun x => !isIntLike x) = false := by
      simp [pairs, isIntLike]
    simp only [h1, Bool.false_eq_true, if_false]
    have hvals : (pairs.map (·.1)).map intVal = (chunks k.size n b).map (decInt k) := by
      simp [pairs, intVal, Function.comp_def]
    rw [hvals]
    have hin : ∀ y ∈ (chunks k.size n b).map (decInt k), k.lo ≤ y ∧ y ≤ k.hi := by
      intro y hy
      simp only [List.mem_map] at hy
      obtain ⟨c, hc, rfl⟩ := hy
      have := decInt_facts k c (hcl c hc) (hcb c hc)
      exact ⟨this.1, this.2.1⟩
    match hm : (chunks k.size n b).map (decInt k), hin with
    | [], _ =>
      have : ((chunks k.size n b).map (decInt k)).length = n := by simp [chunks_length]
      rw [hm] at this; simp at this; omega
    | y :: ys, hin =>
      have hy := hin y (by simp)
      have h2 := pyMax_le k.hi ys y hy.2 (fun z hz => (hin z (by simp [hz])).2)
      have h3 := pyMin_ge k.lo ys y hy.1 (fun z hz => (hin z (by simp [hz])).1)
      have : ¬ (pyMax y ys > k.hi ∨ pyMin y ys < k.lo) := by omega
      simp only [this, if_false]
  have hfill := storeSlice_fill (.int k) n pairs hpl hst
  rw [hp1, hp2] at hfill
  simp only [fromDictLeaf, toDictLeaf, setItem, itemCheck, iterable, validateMany, items, oneShot, hchk, if_true,
    vk_int_ne_byte, Bool.and_false, Bool.false_eq_true, if_false, FTy.size]
  exact hfill

theorem vk_flt_ne_byte (k : FK) : (VK.flt k == VK.byte) = false := by cases k <;> decide

/-- the Python float `to_dict` shows for the stored bytes `c` of a `double` / `float` element -/
def fdec (k : FK) (c : Bytes) : Nat := match k with | .f64 => fromLE c | .f32 => widen (fromLE c)

theorem decodeItems_flt (k : FK) (n : Nat) (b : Bytes) :
    decodeItems (.flt k) n b = (chunks k.size n b).map fun c => Scalar.flt (fdec k c) := by
  cases k <;> simp [decodeItems, fdec, VK.esize]

/-- one float element: the value read is accepted by the validator and is stored back as the same bytes -/
theorem flt_elem_facts (k : FK) (c : Bytes) (hlen : c.length = k.size) (hby : ∀ x ∈ c, x < 256)
    (hw : WFelem (.flt k) c) : infAfter k (fdec k c) = false ∧ encFlt k (fdec k c) = c := by
  have hle := toLE_fromLE c hby
  rw [hlen] at hle
  cases k with
  | f64 =>
    simp only [WFelem] at hw
    simp only [FK.size] at hle
    exact ⟨by simp only [infAfter, fdec, hw], by simp only [encFlt, fdec, hle]⟩
  | f32 =>
    simp only [WFelem] at hw
    simp only [FK.size] at hle
    exact ⟨by simp only [infAfter, fdec, hw.2, hw.1], by simp only [encFlt, fdec, hw.2, hle]⟩

theorem elemStore_flt (k : FK) (w : Nat) : elemStore (.flt k) (.flt w) = .ok (encFlt k w) := by cases k <;> rfl

theorem fltMany_ok (k : FK) : ∀ (ws : List Nat), (∀ w ∈ ws, infAfter k w = false) → fltMany k (ws.map Scalar.flt) = .ok ()
  | [], _ => rfl
  | w :: ws, h => by
    simp only [List.map_cons, fltMany, toDouble, h w (by simp), Bool.false_eq_true, if_false]
    exact fltMany_ok k ws (fun v hv => h v (by simp [hv]))

/-- **float arrays**, every length: `double` elements bit for bit (every finite value, -0.0, every NaN payload);
`float` elements under the explicit rounding hypothesis of `WFelem` (`narrow (widen x) = x` for each stored element) -/
theorem float_array_roundtrip (k : FK) (n : Nat) (b : Bytes) (hw : WF (.arr .floatArray (.flt k) n) b) :
    fromDictLeaf (.arr .floatArray (.flt k) n) (toDictLeaf (.arr .floatArray (.flt k) n) b) = (b, none) := by
  obtain ⟨hlen, hby, hel⟩ := hw
  simp only [FTy.size, VK.esize] at hlen
  simp only [VK.esize] at hel
  have hlen' : b.length = n * k.size := by rw [hlen, Nat.mul_comm]
  have hcl := chunks_elem_length k.size n b hlen'
  have hcb := chunks_elem_bytes k.size n b hby
  let pairs : List (Scalar × Bytes) := (chunks k.size n b).map fun c => (Scalar.flt (fdec k c), c)
  have hp1 : pairs.map (·.1) = decodeItems (.flt k) n b := by
    simp [pairs, decodeItems_flt, Function.comp_def]
  have hp2 : (pairs.map (·.2)).flatten = b := by
    simp only [pairs, List.map_map, Function.comp_def, List.map_id']
    exact chunks_flatten k.size n b hlen'
  have hpl : pairs.length = n := by simp [pairs, chunks_length]
  have hst : ∀ p ∈ pairs, elemStore (.flt k) p.1 = .ok p.2 ∧ p.2.length = (VK.flt k).esize := by
    intro p hp
    simp only [pairs, List.mem_map] at hp
    obtain ⟨c, hc, rfl⟩ := hp
    have := flt_elem_facts k c (hcl c hc) (hcb c hc) (hel c hc)
    simp only [elemStore_flt, this.2, VK.esize, hcl c hc, and_self]
  have hchk : fltMany k (decodeItems (.flt k) n b) = .ok () := by
    rw [decodeItems_flt]
    have := fltMany_ok k ((chunks k.size n b).map (fdec k)) (by
      intro w hw
      simp only [List.mem_map] at hw
      obtain ⟨c, hc, rfl⟩ := hw
      exact (flt_elem_facts k c (hcl c hc) (hcb c hc) (hel c hc)).1)
    simpa [Function.comp_def] using this
  have hfill := storeSlice_fill (.flt k) n pairs hpl hst
  rw [hp1, hp2] at hfill
  simp only [fromDictLeaf, toDictLeaf, setItem, itemCheck, iterable, validateMany, items, hchk, if_true,
    vk_flt_ne_byte, Bool.and_false, Bool.false_eq_true, if_false, FTy.size]
  exact hfill

/-- **byte arrays** (`ByteArray(n)`, n ≥ 2): `to_dict` gives `bytes`, `from_dict` assigns them with `field[:] = bytes`
(converted to a list of ints, stored element by element) -/
theorem byte_array_roundtrip (n : Nat) (hn : 1 < n) (b : Bytes) (hw : WF (.arr .byteArray .byte n) b) :
    fromDictLeaf (.arr .byteArray .byte n) (toDictLeaf (.arr .byteArray .byte n) b) = (b, none) := by
  obtain ⟨hlen, hby, _⟩ := hw
  simp only [FTy.size, VK.esize, Nat.one_mul] at hlen
  let pairs : List (Scalar × Bytes) := b.map fun (x : Nat) => (Scalar.int (x : Int), [x])
  have hp1 : pairs.map (·.1) = b.map fun (x : Nat) => Scalar.int (x : Int) := by simp [pairs, Function.comp_def]
  have hsing : ∀ (l : List Nat), (l.map fun x => [x]).flatten = l := by
    intro l; induction l with
    | nil => rfl
    | cons x xs ih => simp [ih]
  have hp2 : (pairs.map (·.2)).flatten = b := by
    simp only [pairs, List.map_map, Function.comp_def]
    exact hsing b
  have hpl : pairs.length = n := by simp [pairs, hlen]
  have hst : ∀ p ∈ pairs, elemStore .byte p.1 = .ok p.2 ∧ p.2.length = VK.byte.esize := by
    intro p hp
    simp only [pairs, List.mem_map] at hp
    obtain ⟨x, hx, rfl⟩ := hp
    have hx' := hby x hx
    have e2 : encInt .u8 (x : Int) = [x] := by
      simp only [encInt, IK.size, toLE]
      have : (((x : Int) % (2 ^ (8 * 1) : Int)).toNat) = x := by simp; omega
      rw [this]; simp; omega
    simp only [elemStore, e2, VK.esize, List.length_cons, List.length_nil, and_self]
  have hfill := storeSlice_fill .byte n pairs hpl hst
  rw [hp1, hp2] at hfill
  have hconv : byteConv (.sc (.bytes b)) = .seq .list (b.map fun (x : Nat) => Scalar.int (x : Int)) := by
    match b, hlen with
    | [], h => simp at h; omega
    | [_], h => simp at h; omega
    | _ :: _ :: _, _ => rfl
  simp only [fromDictLeaf, toDictLeaf, setItem, itemCheck, iterable, validateMany, if_true, hconv,
    Bool.and_self, beq_self_eq_true, FTy.size]
  simpa [VK.esize] using hfill

theorem flt_scalar_store (k : FK) (w : Nat) (b : Bytes) (h1 : infAfter k w = false) (h2 : encFlt k w = b) :
    fromDictLeaf (.flt k) (.sc (.flt w)) = (b, none) := by
  simp only [fromDictLeaf, setField, setScalar, validateOne, toDouble, h1, if_true, elemStore_flt, lift,
    Bool.false_eq_true, if_false, h2]

/-- **float (binary32) scalar leaves**, under the explicit rounding hypothesis of `WFelem` -/
theorem f32_leaf_roundtrip (b : Bytes) (hw : WF (.flt .f32) b) :
    fromDictLeaf (.flt .f32) (toDictLeaf (.flt .f32) b) = (b, none) := by
  obtain ⟨hlen, hby, hel⟩ := hw
  have hf := flt_elem_facts .f32 b hlen hby hel
  exact flt_scalar_store .f32 _ b hf.1 hf.2

theorem upToNul_subset : ∀ (cs : List Nat) (c : Nat), c ∈ upToNul cs → c ∈ cs
  | [], c, h => by simp [upToNul] at h
  | x :: xs, c, h => by
    unfold upToNul at h
    split at h
    · simp at h
    · simp only [List.mem_cons] at h ⊢
      rcases h with rfl | h
      · exact Or.inl rfl
      · exact Or.inr (upToNul_subset xs c h)

theorem upToNul_length_le : ∀ (cs : List Nat), (upToNul cs).length ≤ cs.length
  | [] => by simp [upToNul]
  | x :: xs => by
    have := upToNul_length_le xs
    unfold upToNul
    split <;> simp <;> omega

/-- **What the validated API writes into a string field is well-formed** (`wf_of_validated`): after any accepted
assignment, whatever the field held before (a longer string, arbitrary bytes). -/
theorem wf_of_validated_str (n : Nat) (hn : 1 < n) (old : Bytes) (s : Scalar) (post : Bytes)
    (h : setField true (.str n) old .whole (.sc s) = (post, none)) : WF (.str n) post := by
  obtain ⟨cs, _, hlen, hasc, hpost, _⟩ := C09.str_field_sound n hn old s post h
  have hnz := C09.upToNul_no_zero cs
  have hsub := upToNul_subset cs
  have hul := upToNul_length_le cs
  refine ⟨?_, ?_, upToNul cs, ?_, by omega, hpost⟩
  · rw [hpost]; simp [FTy.size]; omega
  · rw [hpost]; intro x hx
    simp only [List.mem_append, List.mem_replicate] at hx
    rcases hx with hx | ⟨_, rfl⟩
    · have := hasc x (hsub x hx); omega
    · omega
  · intro c hc
    exact ⟨by have := hnz c hc; omega, hasc c (hsub c hc)⟩

/-- consequently: assign any string through the validated API over *anything*, and the dict round trip is the identity -/
theorem str_assign_then_roundtrip (n : Nat) (hn : 1 < n) (old : Bytes) (s : Scalar) (post : Bytes)
    (h : setField true (.str n) old .whole (.sc s) = (post, none)) :
    fromDictLeaf (.str n) (toDictLeaf (.str n) post) = (post, none) :=
  str_leaf_roundtrip n hn post (wf_of_validated_str n hn old s post h)

/-! ### whole classes -/
/-- **every leaf descriptor the validator classes can build** round-trips through `to_dict` / `from_dict` on every
well-formed content -/
theorem leaf_roundtrip (ty : FTy) (hok : leafOk ty = true) (b : Bytes) (hw : WF ty b) :
    fromDictLeaf ty (toDictLeaf ty b) = (b, none) := by
  match ty, hok, hw with
  | .int k, _, hw => exact int_leaf_roundtrip k b hw
  | .flt .f64, _, hw => exact f64_leaf_roundtrip b hw
  | .flt .f32, _, hw => exact f32_leaf_roundtrip b hw
  | .char, _, hw => exact char_leaf_roundtrip b hw
  | .byte, _, hw => exact byte_leaf_roundtrip b hw
  | .str n, hok, hw => exact str_leaf_roundtrip n (by simpa [leafOk] using hok) b hw
  | .arr .byteArray .byte n, hok, hw => exact byte_array_roundtrip n (by simpa [leafOk] using hok) b hw
  | .arr .intArray (.int k) n, hok, hw => exact int_array_roundtrip k n (by simpa [leafOk] using hok) b hw
  | .arr .floatArray (.flt k) n, _, hw => exact float_array_roundtrip k n b hw

theorem leafArg_toDictLeaf (ty : FTy) (b : Bytes) : leafArg ty (toDictLeaf ty b) = toDictLeaf ty b := by
  cases ty <;> rfl

theorem Vals_toList_ofList : ∀ (l : List Val), (Vals.ofList l).toList = l
  | [] => rfl
  | v :: vs => by simp [Vals.ofList, Vals.toList, Vals_toList_ofList vs]

theorem fromElems_roundtrip (f : Val → Bytes × Option DErr) (g : Bytes → Val) (esz : Nat) :
    ∀ (cs : List Bytes), (∀ c ∈ cs, f (g c) = (c, none)) → fromElems f esz cs.length (cs.map g) = (cs.flatten, none)
  | [], _ => rfl
  | c :: cs, h => by
    have ih := fromElems_roundtrip f g esz cs (fun d hd => h d (by simp [hd]))
    simp only [List.length_cons, List.map_cons, fromElems, h c (by simp), ih, List.flatten_cons]

theorem lookup_append (name : String) (v : Val) (rest : KVs) :
    ∀ (pre : KVs), name ∉ pre.keys → (pre.append (.cons name v rest)).lookup name = some v
  | .nil, _ => by simp [KVs.append, KVs.lookup]
  | .cons k w r, h => by
    simp only [KVs.keys, List.mem_cons, not_or] at h
    have hk : (k == name) = false := by simpa using fun e => h.1 e.symm
    simp only [KVs.append, KVs.lookup, hk, Bool.false_eq_true, if_false]
    exact lookup_append name v rest r h.2

theorem append_assoc_one (name : String) (v : Val) (rest : KVs) :
    ∀ (pre : KVs), pre.append (.cons name v rest) = (pre.append (.cons name v .nil)).append rest
  | .nil => rfl
  | .cons k w r => by simp only [KVs.append, append_assoc_one name v rest r]

theorem keys_append_one (name : String) (v : Val) : ∀ (pre : KVs), (pre.append (.cons name v .nil)).keys = pre.keys ++ [name]
  | .nil => rfl
  | .cons k w r => by simp only [KVs.append, KVs.keys, keys_append_one name v r, List.cons_append]

theorem WFF_length : ∀ (fs : Fields) (b : Bytes), WFF fs b → b.length = fs.size
  | .nil, b, h => by simp only [WFF] at h; simp [h, Fields.size]
  | .cons name pad d r, b, h => by
    simp only [WFF] at h
    obtain ⟨db, rb, rfl, hl, _, hr, _⟩ := h
    have := WFF_length r rb hr
    simp [Fields.size, zeros_length, hl, this]; omega

mutual
/-- **Whole-message dict round trip**: for every class descriptor (any nesting of structs, struct arrays, and leaf
fields of every kind and length) and every well-formed content, `from_dict(to_dict(m))` has exactly the bytes of `m`
and raises nothing.  Structural induction over the descriptor; the struct-array case is the induction over element
positions, the struct case the induction over the field list with the dictionary built so far as accumulator. -/
theorem dict_roundtrip : ∀ (d : Desc) (b : Bytes), WFD d b → fromDict d (toDict d b) = (b, none)
  | .leaf ty, b, h => by
    simp only [WFD] at h
    simp only [toDict, fromDict, leafArg_toDictLeaf, leaf_roundtrip ty h.1 b h.2, Option.map_none]
  | .strct fs tail, b, h => by
    simp only [WFD] at h
    obtain ⟨fb, rfl, hf⟩ := h
    have := fields_roundtrip fs fb (zeros tail) .nil hf (by simp [KVs.keys])
    simp only [KVs.append] at this
    simp only [toDict, fromDict, this]
  | .sarr n e, b, h => by
    simp only [WFD] at h
    obtain ⟨hl, hc⟩ := h
    have ih : ∀ c ∈ chunks e.size n b, fromDict e (toDict e c) = (c, none) := fun c hcm => dict_roundtrip e c (hc c hcm)
    have := fromElems_roundtrip (fun v => fromDict e v) (fun c => toDict e c) e.size (chunks e.size n b) ih
    rw [chunks_length, chunks_flatten e.size n b hl] at this
    simp only [toDict, fromDict, Vals_toList_ofList, this]
/-- the field-list induction: `kvs` is the whole dictionary (`pre` are the entries of the fields already done) -/
theorem fields_roundtrip : ∀ (fs : Fields) (b rest : Bytes) (pre : KVs), WFF fs b → (∀ nm ∈ fs.names, nm ∉ pre.keys) →
    fromDictFields fs (pre.append (toDictFields fs (b ++ rest))) = (b, none)
  | .nil, b, rest, pre, h, _ => by
    simp only [WFF] at h
    simp [fromDictFields, h]
  | .cons name pad d r, b, rest, pre, h, hn => by
    simp only [WFF] at h
    obtain ⟨db, rb, rfl, hl, hd, hr, hnr⟩ := h
    have hz : (zeros pad).length = pad := zeros_length pad
    have e1 : ((zeros pad ++ db ++ rb ++ rest).drop pad).take d.size = db := by
      rw [List.append_assoc, List.append_assoc, List.drop_left' hz, List.take_left' hl]
    have e2 : (zeros pad ++ db ++ rb ++ rest).drop (pad + d.size) = rb ++ rest := by
      rw [List.append_assoc]
      exact List.drop_left' (by simp [hz, hl])
    have hname : name ∉ pre.keys := hn name (by simp [Fields.names])
    simp only [toDictFields, e1, e2, fromDictFields, lookup_append name _ _ pre hname, dict_roundtrip d db hd]
    rw [append_assoc_one]
    have hn' : ∀ nm ∈ r.names, nm ∉ (pre.append (.cons name (toDict d db) .nil)).keys := by
      intro nm hnm
      rw [keys_append_one]
      simp only [List.mem_append, List.mem_singleton, not_or]
      exact ⟨hn nm (by simp [Fields.names, hnm]), fun e => hnr (e ▸ hnm)⟩
    rw [fields_roundtrip r rb rest _ hr hn']
end

/-! ### the decidable form of well-formedness -/
theorem wfElemB_sound (vk : VK) (c : Bytes) (h : wfElemB vk c = true) : WFelem vk c := by
  unfold wfElemB at h
  unfold WFelem
  split at h <;> simp_all

theorem wfLeafB_sound (ty : FTy) (b : Bytes) (h : wfLeafB ty b = true) : WF ty b := by
  unfold wfLeafB at h
  simp only [Bool.and_eq_true, beq_iff_eq, List.all_eq_true, decide_eq_true_eq] at h
  obtain ⟨⟨hl, hb⟩, hm⟩ := h
  refine ⟨hl, hb, ?_⟩
  match ty, hm with
  | .char, hm => simpa using hm
  | .flt .f64, hm => simpa using hm
  | .flt .f32, hm => exact wfElemB_sound _ _ hm
  | .str n, hm =>
    simp only [Bool.and_eq_true, List.all_eq_true, decide_eq_true_eq, beq_iff_eq] at hm
    obtain ⟨⟨h1, h2⟩, h3⟩ := hm
    refine ⟨upToNul b, ?_, h2, h3⟩
    intro c hc
    have := C09.upToNul_no_zero b c hc
    exact ⟨by omega, h1 c hc⟩
  | .arr _ vk n, hm =>
    simp only [List.all_eq_true] at hm
    exact fun c hc => wfElemB_sound vk c (hm c hc)
  | .int _, _ => trivial
  | .byte, _ => trivial
  | .strct _ _, _ => trivial

mutual
/-- the decidable check the driver runs on the real bytes implies the hypothesis of `dict_roundtrip` -/
theorem wfB_sound : ∀ (d : Desc) (b : Bytes), wfB d b = true → WFD d b
  | .leaf ty, b, h => by
    simp only [wfB, Bool.and_eq_true] at h
    simp only [WFD]
    exact ⟨h.1, wfLeafB_sound ty b h.2⟩
  | .strct fs tail, b, h => by
    simp only [wfB, Bool.and_eq_true, beq_iff_eq] at h
    simp only [WFD]
    refine ⟨b.take fs.size, ?_, wfFieldsB_sound fs _ h.1⟩
    rw [← h.2, List.take_append_drop]
  | .sarr n e, b, h => by
    simp only [wfB, Bool.and_eq_true, beq_iff_eq, List.all_eq_true] at h
    simp only [WFD]
    exact ⟨h.1, fun c hc => wfB_sound e c (h.2 c hc)⟩
theorem wfFieldsB_sound : ∀ (fs : Fields) (b : Bytes), wfFieldsB fs b = true → WFF fs b
  | .nil, b, h => by
    simp only [wfFieldsB, List.isEmpty_iff] at h
    simp only [WFF, h]
  | .cons name pad d r, b, h => by
    simp only [wfFieldsB, Bool.and_eq_true, beq_iff_eq, Bool.not_eq_true', List.contains_eq_mem,
      decide_eq_false_iff_not] at h
    obtain ⟨⟨⟨⟨h1, h2⟩, h3⟩, h4⟩, h5⟩ := h
    simp only [WFF]
    refine ⟨(b.drop pad).take d.size, b.drop (pad + d.size), ?_, h2, wfB_sound d _ h3, wfFieldsB_sound r _ h4, h5⟩
    rw [← h1, ← List.drop_drop, List.append_assoc, List.take_append_drop, List.take_append_drop]
end

/-- consequently: whatever bytes pass the driver's check round-trip in the model -/
theorem dict_roundtrip_of_check (d : Desc) (b : Bytes) (h : wfB d b = true) : fromDict d (toDict d b) = (b, none) :=
  dict_roundtrip d b (wfB_sound d b h)

/-! ### the JSON text layer -/

/-- **`json.loads(json.dumps(v)) == v`, minified form** (`to_json(minify=True)`): every document of the modelled subset
— integers, strings of Unicode scalar values (every escape the encoder emits), opaque float tokens, arrays, objects —
is read back as itself -/
theorem json_text_roundtrip_min (v : J) (hv : v.okB = true) : parse (renderMin v) = some v :=
  parse_render none 0 v hv

/-- the same for the indented form (`to_json()`, `indent=2`) — and for any other indentation width -/
theorem json_text_roundtrip_pretty (v : J) (hv : v.okB = true) : parse (renderPretty v) = some v :=
  parse_render (some 2) 0 v hv

theorem json_text_roundtrip_indent (k : Nat) (v : J) (hv : v.okB = true) : parse (render (some k) 0 v) = some v :=
  parse_render (some k) 0 v hv

theorem ascii_valid (c : Nat) (h : c < 128) : validCp c = true := by
  simp [validCp]; omega

theorem keyOf_valid (k : String) : (keyOf k).all validCp = true := by
  simp only [keyOf, List.all_eq_true, List.mem_map]
  rintro c ⟨ch, _, rfl⟩
  have := ch.valid
  simp only [validCp, Bool.or_eq_true, Bool.and_eq_true, decide_eq_true_eq]
  simp only [UInt32.isValidChar, Nat.isValidChar] at this
  exact this

theorem ofList_ints_ok : ∀ (bs : List Nat), (JL.ofList (bs.map fun (b : Nat) => J.int (b : Int))).okB = true
  | [] => rfl
  | b :: bs => by simp [JL.ofList, JL.okB, J.okB, ofList_ints_ok bs]

theorem seqJ_ok (ftok : Nat → List Char) (hf : ∀ x, floatTokOk (ftok x) = true) :
    ∀ (xs : List Scalar), (∀ x ∈ xs, (∃ n, x = .int n) ∨ (∃ w, x = .flt w)) → ∃ js, seqJ ftok xs = some js ∧ js.okB = true
  | [], _ => ⟨.nil, rfl, rfl⟩
  | x :: xs, h => by
    obtain ⟨js, he, hok⟩ := seqJ_ok ftok hf xs (fun y hy => h y (by simp [hy]))
    rcases h x (by simp) with ⟨n, rfl⟩ | ⟨w, rfl⟩
    · exact ⟨.cons (.int n) js, by simp [seqJ, scalarJ, he], by simp [JL.okB, J.okB, hok]⟩
    · exact ⟨.cons (.flt (ftok w)) js, by simp [seqJ, scalarJ, he], by simp [JL.okB, J.okB, hok, hf]⟩

/-- every leaf value `to_dict` produces from well-formed bytes is encoded to a document of the subset -/
theorem leaf_toJ_ok (ftok : Nat → List Char) (hf : ∀ x, floatTokOk (ftok x) = true) (ty : FTy) (hok : leafOk ty = true)
    (b : Bytes) (hw : WF ty b) : ∃ j, pyValJ ftok (toDictLeaf ty b) = some j ∧ j.okB = true := by
  match ty, hok, hw with
  | .int k, _, _ => exact ⟨_, rfl, rfl⟩
  | .flt .f64, _, _ => exact ⟨_, rfl, hf _⟩
  | .flt .f32, _, _ => exact ⟨_, rfl, hf _⟩
  | .byte, _, _ => exact ⟨_, rfl, rfl⟩
  | .char, _, hw =>
    refine ⟨.str b, rfl, ?_⟩
    simp only [J.okB, List.all_eq_true]
    exact fun c hc => ascii_valid c (hw.2.2 c hc)
  | .str n, _, hw =>
    refine ⟨.str (upToNul b), rfl, ?_⟩
    obtain ⟨_, _, cs, hcs, _, rfl⟩ := hw
    simp only [J.okB, List.all_eq_true]
    intro c hc
    have := upToNul_subset _ c hc
    simp only [List.mem_append, List.mem_replicate] at this
    rcases this with h | ⟨_, rfl⟩
    · exact ascii_valid c (hcs c h).2
    · rfl
  | .arr .byteArray .byte n, _, _ => exact ⟨_, rfl, ofList_ints_ok b⟩
  | .arr .intArray (.int k) n, _, _ =>
    obtain ⟨js, he, hok⟩ := seqJ_ok ftok hf (decodeItems (.int k) n b) (by
      intro x hx; simp only [decodeItems, List.mem_map] at hx
      obtain ⟨c, _, rfl⟩ := hx; exact Or.inl ⟨_, rfl⟩)
    exact ⟨.arr js, by simp [toDictLeaf, pyValJ, he], hok⟩
  | .arr .floatArray (.flt k) n, _, _ =>
    obtain ⟨js, he, hok⟩ := seqJ_ok ftok hf (decodeItems (.flt k) n b) (by
      intro x hx; rw [decodeItems_flt] at hx; simp only [List.mem_map] at hx
      obtain ⟨c, _, rfl⟩ := hx; exact Or.inr ⟨_, rfl⟩)
    exact ⟨.arr js, by simp [toDictLeaf, pyValJ, he], hok⟩

theorem toJL_ofList (ftok : Nat → List Char) : ∀ (vs : List Val),
    (∀ v ∈ vs, ∃ j, toJ ftok v = some j ∧ j.okB = true) → ∃ js, toJL ftok (Vals.ofList vs) = some js ∧ js.okB = true
  | [], _ => ⟨.nil, rfl, rfl⟩
  | v :: vs, h => by
    obtain ⟨j, he, hok⟩ := h v (by simp)
    obtain ⟨js, hes, hoks⟩ := toJL_ofList ftok vs (fun w hw => h w (by simp [hw]))
    exact ⟨.cons j js, by simp [Vals.ofList, toJL, he, hes], by simp [JL.okB, hok, hoks]⟩

mutual
/-- every `to_dict()` of a well-formed message is encoded to a document of the subset (given that the float formatter
yields float tokens — `float.__repr__`, opaque) -/
theorem toJ_ok (ftok : Nat → List Char) (hf : ∀ x, floatTokOk (ftok x) = true) :
    ∀ (d : Desc) (b : Bytes), WFD d b → ∃ j, toJ ftok (toDict d b) = some j ∧ j.okB = true
  | .leaf ty, b, h => by
    simp only [WFD] at h
    simpa only [toDict, toJ] using leaf_toJ_ok ftok hf ty h.1 b h.2
  | .strct fs tail, b, h => by
    simp only [WFD] at h
    obtain ⟨fb, rfl, hfb⟩ := h
    obtain ⟨js, he, hok⟩ := toJO_ok ftok hf fs fb (zeros tail) hfb
    exact ⟨.obj js, by simp [toDict, toJ, he], hok⟩
  | .sarr n e, b, h => by
    simp only [WFD] at h
    obtain ⟨js, he, hok⟩ := toJL_ofList ftok ((chunks e.size n b).map fun c => toDict e c) (by
      intro v hv; simp only [List.mem_map] at hv
      obtain ⟨c, hc, rfl⟩ := hv
      exact toJ_ok ftok hf e c (h.2 c hc))
    exact ⟨.arr js, by simp [toDict, toJ, he], hok⟩
theorem toJO_ok (ftok : Nat → List Char) (hf : ∀ x, floatTokOk (ftok x) = true) :
    ∀ (fs : Fields) (b rest : Bytes), WFF fs b → ∃ js, toJO ftok (toDictFields fs (b ++ rest)) = some js ∧ js.okB = true
  | .nil, _, _, _ => ⟨.nil, rfl, rfl⟩
  | .cons name pad d r, b, rest, h => by
    simp only [WFF] at h
    obtain ⟨db, rb, rfl, hl, hd, hr, _⟩ := h
    have hz : (zeros pad).length = pad := zeros_length pad
    have e1 : ((zeros pad ++ db ++ rb ++ rest).drop pad).take d.size = db := by
      rw [List.append_assoc, List.append_assoc, List.drop_left' hz, List.take_left' hl]
    have e2 : (zeros pad ++ db ++ rb ++ rest).drop (pad + d.size) = rb ++ rest := by
      rw [List.append_assoc]
      exact List.drop_left' (by simp [hz, hl])
    obtain ⟨j, he, hok⟩ := toJ_ok ftok hf d db hd
    obtain ⟨js, hes, hoks⟩ := toJO_ok ftok hf r rb rest hr
    exact ⟨.cons (keyOf name) j js, by simp only [toDictFields, e1, e2, toJO, he, hes],
      by simp [JO.okB, keyOf_valid, hok, hoks]⟩
end

/-- **message level**: for every class and every well-formed content, the JSON text `to_json` writes (either layout)
is read back by `json.loads` as exactly the document the encoder was given -/
theorem message_json_text_roundtrip (ftok : Nat → List Char) (hf : ∀ x, floatTokOk (ftok x) = true)
    (d : Desc) (b : Bytes) (h : WFD d b) :
    ∃ j, toJ ftok (toDict d b) = some j ∧ parse (renderMin j) = some j ∧ parse (renderPretty j) = some j := by
  obtain ⟨j, he, hok⟩ := toJ_ok ftok hf d b h
  exact ⟨j, he, json_text_roundtrip_min j hok, json_text_roundtrip_pretty j hok⟩

/-! ### JSON and back to bytes -/

theorem strOfKey_keyOf (k : String) : strOfKey (keyOf k) = k := by
  simp only [strOfKey, keyOf, List.map_map]
  have : (Char.ofNat ∘ Char.toNat) = id := by funext c; simp
  rw [this, List.map_id]
  exact String.ofList_toList

/-- **byte arrays, the JSON way**: `json.loads` hands `from_dict` a list of ints for a `ByteArray` -/
theorem byte_array_list_roundtrip (n : Nat) (hn : 1 < n) (b : Bytes) (hw : WF (.arr .byteArray .byte n) b) :
    fromDictLeaf (.arr .byteArray .byte n) (.seq .list (b.map fun (x : Nat) => Scalar.int (x : Int))) = (b, none) := by
  obtain ⟨hlen, hby, _⟩ := hw
  simp only [FTy.size, VK.esize, Nat.one_mul] at hlen
  let pairs : List (Scalar × Bytes) := b.map fun (x : Nat) => (Scalar.int (x : Int), [x])
  have hp1 : pairs.map (·.1) = b.map fun (x : Nat) => Scalar.int (x : Int) := by simp [pairs, Function.comp_def]
  have hsing : ∀ (l : List Nat), (l.map fun x => [x]).flatten = l := by
    intro l; induction l with
    | nil => rfl
    | cons x xs ih => simp [ih]
  have hp2 : (pairs.map (·.2)).flatten = b := by
    simp only [pairs, List.map_map, Function.comp_def]
    exact hsing b
  have hpl : pairs.length = n := by simp [pairs, hlen]
  have hst : ∀ p ∈ pairs, elemStore .byte p.1 = .ok p.2 ∧ p.2.length = VK.byte.esize := by
    intro p hp
    simp only [pairs, List.mem_map] at hp
    obtain ⟨x, hx, rfl⟩ := hp
    have hx' := hby x hx
    have e2 : encInt .u8 (x : Int) = [x] := by
      simp only [encInt, IK.size, toLE]
      have : (((x : Int) % (2 ^ (8 * 1) : Int)).toNat) = x := by simp; omega
      rw [this]; simp; omega
    simp only [elemStore, e2, VK.esize, List.length_cons, List.length_nil, and_self]
  have hfill := storeSlice_fill .byte n pairs hpl hst
  rw [hp1, hp2] at hfill
  -- the Python-level check: `Byte.validate_many` on a list of ints
  have hchk : intMany 0 255 false (b.map fun (x : Nat) => Scalar.int (x : Int)) = .ok () := by
    unfold intMany
    have h1 : (b.map fun (x : Nat) => Scalar.int (x : Int)).any (fun x => !isIntLike x) = false := by
      simp [isIntLike]
    simp only [h1, Bool.false_eq_true, if_false]
    have hvals : (b.map fun (x : Nat) => Scalar.int (x : Int)).map intVal = b.map fun (x : Nat) => (x : Int) := by
      simp [intVal, Function.comp_def]
    rw [hvals]
    have hin : ∀ y ∈ b.map (fun (x : Nat) => (x : Int)), (0 : Int) ≤ y ∧ y ≤ 255 := by
      intro y hy
      simp only [List.mem_map] at hy
      obtain ⟨x, hx, rfl⟩ := hy
      have := hby x hx
      omega
    match hm : b.map (fun (x : Nat) => (x : Int)), hin with
    | [], _ =>
      have : (b.map (fun (x : Nat) => (x : Int))).length = n := by simp [hlen]
      rw [hm] at this; simp at this; omega
    | y :: ys, hin =>
      have hy := hin y (by simp)
      have h2 := pyMax_le 255 ys y hy.2 (fun z hz => (hin z (by simp [hz])).2)
      have h3 := pyMin_ge 0 ys y hy.1 (fun z hz => (hin z (by simp [hz])).1)
      have : ¬ (pyMax y ys > 255 ∨ pyMin y ys < 0) := by omega
      simp only [this, if_false]
  simp only [fromDictLeaf, setItem, itemCheck, iterable, validateMany, items, oneShot, hchk, if_true, byteConv,
    Bool.and_self, beq_self_eq_true, FTy.size]
  simpa [VK.esize] using hfill

theorem fromDict_leaf (ty : FTy) (hok : leafOk ty = true) (b : Bytes) (hw : WF ty b) :
    fromDict (.leaf ty) (.leaf (toDictLeaf ty b)) = (b, none) := by
  simp only [fromDict, leafArg_toDictLeaf, leaf_roundtrip ty hok b hw, Option.map_none]

/-- a list of ints and floats goes through the encoder and `json.loads` unchanged (floats: by the hypothesis on the
formatter / reader pair) -/
theorem seqJ_back (ftok : Nat → List Char) (fparse : List Char → Nat) : ∀ (xs : List Scalar),
    (∀ x ∈ xs, (∃ n, x = .int n) ∨ (∃ w, x = .flt w ∧ fparse (ftok w) = w)) →
    ∃ js, seqJ ftok xs = some js ∧ js.hasObj = false ∧ js.toScalars fparse = xs
  | [], _ => ⟨.nil, rfl, rfl, rfl⟩
  | x :: xs, h => by
    obtain ⟨js, he, ho, ht⟩ := seqJ_back ftok fparse xs (fun y hy => h y (by simp [hy]))
    rcases h x (by simp) with ⟨n, rfl⟩ | ⟨w, rfl, hw⟩
    · exact ⟨.cons (.int n) js, by simp [seqJ, scalarJ, he], by simp [JL.hasObj, ho],
        by simp [JL.toScalars, scalarOfJ, ht]⟩
    · exact ⟨.cons (.flt (ftok w)) js, by simp [seqJ, scalarJ, he], by simp [JL.hasObj, ho],
        by simp [JL.toScalars, scalarOfJ, ht, hw]⟩

theorem ofList_ints_back (fparse : List Char → Nat) : ∀ (bs : List Nat),
    (JL.ofList (bs.map fun (b : Nat) => J.int (b : Int))).hasObj = false ∧
    (JL.ofList (bs.map fun (b : Nat) => J.int (b : Int))).toScalars fparse = bs.map fun (x : Nat) => Scalar.int (x : Int)
  | [] => ⟨rfl, rfl⟩
  | b :: bs => by
    have := ofList_ints_back fparse bs
    exact ⟨by simp [JL.ofList, JL.hasObj, this.1], by simp [JL.ofList, JL.toScalars, scalarOfJ, this.2]⟩

/-- every leaf: value → JSON document → `json.loads` → `from_dict` gives the bytes back -/
theorem leaf_json_roundtrip (ftok : Nat → List Char) (fparse : List Char → Nat) (ty : FTy) (hok : leafOk ty = true)
    (b : Bytes) (hw : WF ty b) (hrt : ∀ x ∈ leafFloats ty b, fparse (ftok x) = x) :
    ∃ j, pyValJ ftok (toDictLeaf ty b) = some j ∧ fromDict (.leaf ty) (ofJ fparse j) = (b, none) ∧
      ∀ kvs, j ≠ .obj kvs := by
  match ty, hok, hw, hrt with
  | .int k, hok, hw, _ => exact ⟨_, rfl, fromDict_leaf _ hok b hw, by intro kvs h; cases h⟩
  | .byte, hok, hw, _ => exact ⟨_, rfl, fromDict_leaf _ hok b hw, by intro kvs h; cases h⟩
  | .char, hok, hw, _ => exact ⟨_, rfl, fromDict_leaf _ hok b hw, by intro kvs h; cases h⟩
  | .str n, hok, hw, _ => exact ⟨_, rfl, fromDict_leaf _ hok b hw, by intro kvs h; cases h⟩
  | .flt .f64, hok, hw, hrt =>
    refine ⟨.flt (ftok (fromLE b)), rfl, ?_, by intro kvs h; cases h⟩
    have := hrt (fromLE b) (by simp [leafFloats, toDictLeaf])
    simp only [ofJ, this]
    exact fromDict_leaf _ hok b hw
  | .flt .f32, hok, hw, hrt =>
    refine ⟨.flt (ftok (widen (fromLE b))), rfl, ?_, by intro kvs h; cases h⟩
    have := hrt (widen (fromLE b)) (by simp [leafFloats, toDictLeaf])
    simp only [ofJ, this]
    exact fromDict_leaf _ hok b hw
  | .arr .byteArray .byte n, hok, hw, _ =>
    refine ⟨_, rfl, ?_, by intro kvs h; cases h⟩
    have hb := ofList_ints_back fparse b
    simp only [ofJ, hb.1, Bool.false_eq_true, if_false, hb.2, fromDict, leafArg,
      byte_array_list_roundtrip n (by simpa [leafOk] using hok) b hw, Option.map_none]
  | .arr .intArray (.int k) n, hok, hw, _ =>
    obtain ⟨js, he, ho, ht⟩ := seqJ_back ftok fparse (decodeItems (.int k) n b) (by
      intro x hx; simp only [decodeItems, List.mem_map] at hx
      obtain ⟨c, _, rfl⟩ := hx; exact Or.inl ⟨_, rfl⟩)
    refine ⟨.arr js, by simp [toDictLeaf, pyValJ, he], ?_, by intro kvs h; cases h⟩
    simp only [ofJ, ho, Bool.false_eq_true, if_false, ht]
    exact fromDict_leaf _ hok b hw
  | .arr .floatArray (.flt k) n, hok, hw, hrt =>
    obtain ⟨js, he, ho, ht⟩ := seqJ_back ftok fparse (decodeItems (.flt k) n b) (by
      intro x hx
      have hx' := hx
      rw [decodeItems_flt] at hx; simp only [List.mem_map] at hx
      obtain ⟨c, _, rfl⟩ := hx
      refine Or.inr ⟨_, rfl, hrt _ ?_⟩
      simp only [leafFloats, toDictLeaf, List.mem_filterMap]
      exact ⟨_, hx', rfl⟩)
    refine ⟨.arr js, by simp [toDictLeaf, pyValJ, he], ?_, by intro kvs h; cases h⟩
    simp only [ofJ, ho, Bool.false_eq_true, if_false, ht]
    exact fromDict_leaf _ hok b hw

/-! the struct-array case: one document per element, in step with the chunks -/
inductive InStep (P : Bytes → J → Prop) : List Bytes → List J → Prop
  | nil : InStep P [] []
  | cons {c : Bytes} {j : J} {cs : List Bytes} {js : List J} : P c j → InStep P cs js → InStep P (c :: cs) (j :: js)

theorem InStep.imp {P Q : Bytes → J → Prop} (hpq : ∀ c j, P c j → Q c j) :
    ∀ {cs : List Bytes} {js : List J}, InStep P cs js → InStep Q cs js
  | _, _, .nil => .nil
  | _, _, .cons h t => .cons (hpq _ _ h) (InStep.imp hpq t)

theorem toJL_chunks (ftok : Nat → List Char) (g : Bytes → Val) (P : Bytes → J → Prop) : ∀ (cs : List Bytes),
    (∀ c ∈ cs, ∃ j, toJ ftok (g c) = some j ∧ P c j) →
    ∃ js : List J, toJL ftok (Vals.ofList (cs.map g)) = some (JL.ofList js) ∧ InStep P cs js
  | [], _ => ⟨[], rfl, .nil⟩
  | c :: cs, h => by
    obtain ⟨j, he, hp⟩ := h c (by simp)
    obtain ⟨js, hes, hps⟩ := toJL_chunks ftok g P cs (fun d hd => h d (by simp [hd]))
    exact ⟨j :: js, by simp [Vals.ofList, toJL, he, hes, JL.ofList], .cons hp hps⟩

theorem fromElems_forall₂ (fparse : List Char → Nat) (f : Val → Bytes × Option DErr) (esz : Nat) :
    ∀ (cs : List Bytes) (js : List J), InStep (fun c j => f (ofJ fparse j) = (c, none)) cs js →
    fromElems f esz cs.length (ofJL fparse (JL.ofList js)).toList = (cs.flatten, none)
  | [], [], _ => rfl
  | c :: cs, j :: js, h => by
    cases h with
    | cons h1 h2 =>
      have ih := fromElems_forall₂ fparse f esz cs js h2
      simp only [List.length_cons, JL.ofList, ofJL, Vals.toList, fromElems, h1, ih, List.flatten_cons]

mutual
/-- **`from_json(to_json(m))` has the bytes of `m`** at the level of documents: the encoder's document for a
well-formed message, read back as `json.loads` values and handed to `from_dict`, restores every byte.  Hypotheses: the
class shapes of `descOkJ`, and for every float *in this message* `fparse (ftok x) = x` (Python's `float(repr(x)) == x`;
false only for NaNs with a sign or payload, which JSON cannot express). -/
theorem json_dict_roundtrip (ftok : Nat → List Char) (fparse : List Char → Nat) :
    ∀ (d : Desc) (b : Bytes), WFD d b → descOkJ d = true → (∀ x ∈ floatsOf d b, fparse (ftok x) = x) →
    ∃ j, toJ ftok (toDict d b) = some j ∧ fromDict d (ofJ fparse j) = (b, none) ∧
      ((∃ fs t, d = .strct fs t) → ∃ kvs, j = .obj kvs)
  | .leaf ty, b, h, _, hrt => by
    simp only [WFD] at h
    obtain ⟨j, he, hf, _⟩ := leaf_json_roundtrip ftok fparse ty h.1 b h.2 (by simpa only [floatsOf] using hrt)
    exact ⟨j, by simpa only [toDict, toJ] using he, hf, by rintro ⟨fs, t, h⟩; cases h⟩
  | .strct fs tail, b, h, hok, hrt => by
    simp only [WFD] at h
    obtain ⟨fb, rfl, hfb⟩ := h
    simp only [descOkJ] at hok
    simp only [floatsOf] at hrt
    obtain ⟨js, he, hf⟩ := json_fields_roundtrip ftok fparse fs fb (zeros tail) .nil hfb hok hrt (by simp [KVs.keys])
    simp only [KVs.append] at hf
    exact ⟨.obj js, by simp only [toDict, toJ, he, Option.map_some], by simp only [ofJ, fromDict, hf], fun _ => ⟨js, rfl⟩⟩
  | .sarr n e, b, h, hok, hrt => by
    simp only [WFD] at h
    simp only [descOkJ, Bool.and_eq_true, decide_eq_true_eq] at hok
    obtain ⟨⟨hn, hst⟩, hoke⟩ := hok
    simp only [floatsOf, List.mem_flatMap] at hrt
    have hes : ∃ fs t, e = .strct fs t := by
      cases e with
      | strct fs t => exact ⟨fs, t, rfl⟩
      | leaf _ => simp at hst
      | sarr _ _ => simp at hst
    obtain ⟨js, he, hall⟩ := toJL_chunks ftok (fun c => toDict e c)
      (fun c j => fromDict e (ofJ fparse j) = (c, none) ∧ ∃ kvs, j = .obj kvs) (chunks e.size n b) (by
        intro c hc
        obtain ⟨j, hj, hf, ho⟩ := json_dict_roundtrip ftok fparse e c (h.2 c hc) hoke (fun x hx => hrt x ⟨c, hc, hx⟩)
        exact ⟨j, hj, hf, ho hes⟩)
    have hel := fromElems_forall₂ fparse (fun v => fromDict e v) e.size (chunks e.size n b) js
      (hall.imp fun _ _ hp => hp.1)
    rw [chunks_length, chunks_flatten e.size n b h.1] at hel
    -- the decoded list is recognised as a list of struct dictionaries: its first element is one
    have hobj : (JL.ofList js).hasObj = true := by
      match hc : chunks e.size n b, js, hall with
      | [], _, _ =>
        have := chunks_length e.size n b; rw [hc] at this; simp at this; omega
      | c :: cs, j :: js', hall =>
        cases hall with
        | cons h1 _ => obtain ⟨kvs, rfl⟩ := h1.2; simp [JL.ofList, JL.hasObj]
    exact ⟨.arr (JL.ofList js), by simp only [toDict, toJ, he, Option.map_some],
      by simp only [ofJ, hobj, if_true, fromDict, hel], by rintro ⟨fs, t, h⟩; cases h⟩
theorem json_fields_roundtrip (ftok : Nat → List Char) (fparse : List Char → Nat) :
    ∀ (fs : Fields) (b rest : Bytes) (pre : KVs), WFF fs b → fieldsOkJ fs = true →
    (∀ x ∈ floatsOfFields fs (b ++ rest), fparse (ftok x) = x) → (∀ nm ∈ fs.names, nm ∉ pre.keys) →
    ∃ js, toJO ftok (toDictFields fs (b ++ rest)) = some js ∧
      fromDictFields fs (pre.append (ofJO fparse js)) = (b, none)
  | .nil, b, rest, pre, h, _, _, _ => by
    simp only [WFF] at h
    exact ⟨.nil, rfl, by simp [fromDictFields, h]⟩
  | .cons name pad d r, b, rest, pre, h, hok, hrt, hn => by
    simp only [WFF] at h
    obtain ⟨db, rb, rfl, hl, hd, hr, hnr⟩ := h
    simp only [fieldsOkJ, Bool.and_eq_true] at hok
    have hz : (zeros pad).length = pad := zeros_length pad
    have e1 : ((zeros pad ++ db ++ rb ++ rest).drop pad).take d.size = db := by
      rw [List.append_assoc, List.append_assoc, List.drop_left' hz, List.take_left' hl]
    have e2 : (zeros pad ++ db ++ rb ++ rest).drop (pad + d.size) = rb ++ rest := by
      rw [List.append_assoc]
      exact List.drop_left' (by simp [hz, hl])
    simp only [floatsOfFields, e1, e2, List.mem_append] at hrt
    obtain ⟨j, hj, hf, _⟩ := json_dict_roundtrip ftok fparse d db hd hok.1 (fun x hx => hrt x (Or.inl hx))
    have hname : name ∉ pre.keys := hn name (by simp [Fields.names])
    have hn' : ∀ nm ∈ r.names, nm ∉ (pre.append (.cons name (ofJ fparse j) .nil)).keys := by
      intro nm hnm
      rw [keys_append_one]
      simp only [List.mem_append, List.mem_singleton, not_or]
      exact ⟨hn nm (by simp [Fields.names, hnm]), fun e => hnr (e ▸ hnm)⟩
    obtain ⟨js, hjs, hfs⟩ := json_fields_roundtrip ftok fparse r rb rest _ hr hok.2 (fun x hx => hrt x (Or.inr hx)) hn'
    refine ⟨.cons (keyOf name) j js, by simp only [toDictFields, e1, e2, toJO, hj, hjs], ?_⟩
    simp only [ofJO, strOfKey_keyOf, fromDictFields, lookup_append name _ _ pre hname, hf]
    rw [append_assoc_one, hfs]
end

/-- **message → JSON text → message**: for every class (shapes of `descOkJ`) and every well-formed content, the text
`to_json` writes — minified or indented — is read by `json.loads` and decoded by `from_dict` to an object with exactly
the original bytes.  Hypotheses about the opaque float formatter / reader pair: `ftok` yields float tokens, and
`fparse (ftok x) = x` for the floats of this message. -/
theorem message_json_roundtrip (ftok : Nat → List Char) (fparse : List Char → Nat)
    (hf : ∀ x, floatTokOk (ftok x) = true) (d : Desc) (b : Bytes) (h : WFD d b) (hok : descOkJ d = true)
    (hrt : ∀ x ∈ floatsOf d b, fparse (ftok x) = x) :
    ∃ j, toJ ftok (toDict d b) = some j ∧
      fromJson fparse d (renderMin j) = some (b, none) ∧ fromJson fparse d (renderPretty j) = some (b, none) := by
  obtain ⟨j, he, hfd, _⟩ := json_dict_roundtrip ftok fparse d b h hok hrt
  obtain ⟨j', he', hok'⟩ := toJ_ok ftok hf d b h
  have : j' = j := by rw [he] at he'; exact (Option.some.inj he').symm
  subst this
  exact ⟨j', he, by simp only [fromJson, json_text_roundtrip_min j' hok', Option.map_some, hfd],
    by simp only [fromJson, json_text_roundtrip_pretty j' hok', Option.map_some, hfd]⟩

/-! ### copies share no storage -/

theorem slice_self (b : Bytes) (off n : Nat) : slice (slice b off n) 0 n = slice b off n := by
  simp [slice, List.take_take]

/-- **`cls.copy(m)` is an equal object**: same class, same bytes -/
theorem copy_is_equal (s : St) (o : Obj) (hv : s.valid o.ref) :
    ∃ s' c, s.copy o = some (s', c) ∧ c.cls = o.cls ∧ s'.read c.ref = s.read o.ref ∧ c.ref.size = o.ref.size := by
  obtain ⟨s', c, he, hc, hr, hrd, _, _⟩ := copyAs_spec s o.cls o.ref.size o.ref hv (Nat.le_refl _)
  refine ⟨s', c, he, hc, ?_, by rw [hr]⟩
  rw [hrd]; exact slice_self _ _ _

/-- **writing any bytes into the copy leaves the source — and every other live object, every view of the source
included — unchanged** -/
theorem write_to_copy_leaves_source (s s' : St) (o c : Obj) (hv : s.valid o.ref) (hc : s.copy o = some (s', c))
    (r : Ref) (hr : s.valid r) (off : Nat) (data : Bytes) : (s'.write c.ref off data).read r = s.read r := by
  obtain ⟨s1, c1, he, _, _, _, _, hfr⟩ := copyAs_spec s o.cls o.ref.size o.ref hv (Nat.le_refl _)
  have : (s', c) = (s1, c1) := by
    have h1 : s.copy o = some (s1, c1) := he
    rw [hc] at h1; exact Option.some.inj h1
  obtain ⟨rfl, rfl⟩ := Prod.mk.inj this
  obtain ⟨_, hrd, hne⟩ := hfr r hr
  rw [write_frame _ _ _ _ _ (fun e => hne e.symm), hrd]

/-- **and vice versa: writing any bytes into the source (or through any view of it, or into any other live object)
leaves the copy unchanged** -/
theorem write_to_source_leaves_copy (s s' : St) (o c : Obj) (hv : s.valid o.ref) (hc : s.copy o = some (s', c))
    (r : Ref) (hr : s.valid r) (off : Nat) (data : Bytes) : (s'.write r off data).read c.ref = s'.read c.ref := by
  obtain ⟨s1, c1, he, _, _, _, _, hfr⟩ := copyAs_spec s o.cls o.ref.size o.ref hv (Nat.le_refl _)
  have : (s', c) = (s1, c1) := by
    have h1 : s.copy o = some (s1, c1) := he
    rw [hc] at h1; exact Option.some.inj h1
  obtain ⟨rfl, rfl⟩ := Prod.mk.inj this
  exact write_frame _ _ _ _ _ (hfr r hr).2.2

/-- the copy lives in a buffer of its own -/
theorem copy_is_fresh (s s' : St) (o c : Obj) (hv : s.valid o.ref) (hc : s.copy o = some (s', c)) :
    c.ref.addr = s.heap.length ∧ c.ref.off = 0 ∧ ∀ r, s.valid r → r.addr ≠ c.ref.addr := by
  obtain ⟨s1, c1, he, _, hrf, _, _, hfr⟩ := copyAs_spec s o.cls o.ref.size o.ref hv (Nat.le_refl _)
  have : (s', c) = (s1, c1) := by
    have h1 : s.copy o = some (s1, c1) := he
    rw [hc] at h1; exact Option.some.inj h1
  obtain ⟨rfl, rfl⟩ := Prod.mk.inj this
  exact ⟨by rw [hrf], by rw [hrf], fun r hr => (hfr r hr).2.2⟩

/-- **`Message.copy`**: the copy's header has the class and the bytes of the original header (so a time-code header
stays a time-code header), the data likewise; the two new objects live in two fresh buffers: writing into either
leaves every object that existed before (source header, source data, anything else) unchanged, and writing into any
of those leaves both new objects unchanged -/
theorem message_copy_spec (s : St) (h d : Obj) (hh : s.valid h.ref) (hd : s.valid d.ref) :
    ∃ s' h' d', s.msgCopy h d = some (s', h', d') ∧
      h'.cls = h.cls ∧ d'.cls = d.cls ∧ s'.read h'.ref = s.read h.ref ∧ s'.read d'.ref = s.read d.ref ∧
      h'.ref.addr ≠ d'.ref.addr ∧
      (∀ r, s.valid r → ∀ off data,
        (s'.write h'.ref off data).read r = s.read r ∧ (s'.write d'.ref off data).read r = s.read r ∧
        (s'.write r off data).read h'.ref = s'.read h'.ref ∧ (s'.write r off data).read d'.ref = s'.read d'.ref) := by
  obtain ⟨s1, h', e1, hc1, hrf1, hrd1, hv1, hfr1⟩ := copyAs_spec s h.cls h.ref.size h.ref hh (Nat.le_refl _)
  have hd1 := hfr1 d.ref hd
  obtain ⟨s2, d', e2, hc2, hrf2, hrd2, hv2, hfr2⟩ := copyAs_spec s1 d.cls d.ref.size d.ref hd1.1 (Nat.le_refl _)
  have hh2 := hfr2 h'.ref hv1
  refine ⟨s2, h', d', ?_, hc1, hc2, ?_, ?_, hh2.2.2, ?_⟩
  · have e1' : s.copy h = some (s1, h') := e1
    have e2' : s1.copy d = some (s2, d') := e2
    simp only [St.msgCopy, e1', e2']
  · rw [hh2.2.1, hrd1]; exact slice_self _ _ _
  · rw [hrd2, hd1.2.1]; exact slice_self _ _ _
  · intro r hr off data
    have a1 := hfr1 r hr
    have a2 := hfr2 r a1.1
    refine ⟨?_, ?_, ?_, ?_⟩
    · rw [write_frame _ _ _ _ _ (fun e => a1.2.2 e.symm), a2.2.1, a1.2.1]
    · rw [write_frame _ _ _ _ _ (fun e => a2.2.2 e.symm), a2.2.1, a1.2.1]
    · exact write_frame _ _ _ _ _ a1.2.2
    · exact write_frame _ _ _ _ _ a2.2.2

/-- `cls.copy(m)` with a class larger than `m` is refused (`ValueError` of `from_buffer_copy`) -/
theorem copy_as_too_small (s : St) (cls size : Nat) (src : Ref) (h : src.size < size) : s.copyAs cls size src = none := by
  simp [St.copyAs]; omega

/-! ### non-vacuity -/
/-- "hello" then "hi" in a `char[8]`: the patched store leaves `hi` + six NULs, which round-trips -/
example : setField true (.str 8) [104, 101, 108, 108, 111, 0, 0, 0] .whole (.sc (.str [104, 105])) = ([104, 105, 0, 0, 0, 0, 0, 0], none) := by decide
example : fromDictLeaf (.str 8) (toDictLeaf (.str 8) [104, 105, 0, 0, 0, 0, 0, 0]) = ([104, 105, 0, 0, 0, 0, 0, 0], none) := by decide
/-- the stale content the unpatched code produced (`hi\0lo\0\0\0`) is *not* a fixed point of the dict round trip -/
example : fromDictLeaf (.str 8) (toDictLeaf (.str 8) [104, 105, 0, 108, 111, 0, 0, 0]) = ([104, 105, 0, 0, 0, 0, 0, 0], none) := by decide
example : fromDictLeaf (.int .i16) (toDictLeaf (.int .i16) [0, 128]) = ([0, 128], none) := by decide
example : toDictLeaf (.int .i16) [0, 128] = .sc (.int (-32768)) := by decide
example : fromDictLeaf (.arr .intArray (.int .i8) 3) (toDictLeaf (.arr .intArray (.int .i8) 3) [255, 0, 127]) = ([255, 0, 127], none) := by decide
example : fromDictLeaf (.arr .byteArray .byte 2) (toDictLeaf (.arr .byteArray .byte 2) [255, 0]) = ([255, 0], none) := by decide
example : versionRefused 5 6 = true ∧ versionRefused 0 6 = false ∧ versionRefused 6 6 = false := by decide
/-- non-vacuity: the three outcomes occur; a wrong version is refused also when the data segment would not decode -/
example : msgFromJson 5 6 true = .refused ∧ msgFromJson 5 6 false = .refused ∧ msgFromJson 6 6 true = .decoded ∧
    msgFromJson 0 6 false = .failed := by decide
/-- the clause separates observations: a foreign version *accepted* on a text without "data" fails it, a matching version
that fails on such a text does not -/
example : (Pyrtma.Serial.clauses (probeObs 5 6 false "min_no_data" true)).any (!·.2) = true ∧
    (Pyrtma.Serial.clauses (probeObs 6 6 true "min_no_data" true)).all (·.2) = true ∧
    (Pyrtma.Serial.clauses (probeObs 6 6 true "pretty" false)).any (!·.2) = true := by
  decide

/-! #### whole classes -/
/-- a class with a leading `int16`, two bytes of padding, then `StructArray(S, 2)` where `S = {uint8 x; char t[3]}` -/
def exDesc : Desc :=
  .strct (.cons "a" 0 (.leaf (.int .i16)) (.cons "s" 2
    (.sarr 2 (.strct (.cons "x" 0 (.leaf (.int .u8)) (.cons "t" 0 (.leaf (.str 3)) .nil)) 0)) .nil)) 0
def exBytes : Bytes := [1, 2, 0, 0, 5, 104, 0, 0, 6, 104, 105, 0]
example : exDesc.size = 12 := by decide
example : wfB exDesc exBytes = true := by decide
example : toDict exDesc exBytes = .dict (.cons "a" (.leaf (.sc (.int 513))) (.cons "s" (.list
    (.cons (.dict (.cons "x" (.leaf (.sc (.int 5))) (.cons "t" (.leaf (.sc (.str [104]))) .nil)))
    (.cons (.dict (.cons "x" (.leaf (.sc (.int 6))) (.cons "t" (.leaf (.sc (.str [104, 105]))) .nil))) .nil))) .nil)) := by
  decide
example : fromDict exDesc (toDict exDesc exBytes) = (exBytes, none) := by decide
/-- non-zero padding is not well-formed and does not come back -/
example : wfB exDesc [1, 2, 9, 0, 5, 104, 0, 0, 6, 104, 105, 0] = false := by decide
example : fromDict exDesc (toDict exDesc [1, 2, 9, 0, 5, 104, 0, 0, 6, 104, 105, 0]) = (exBytes, none) := by decide
/-- a missing key, a short list: explicit errors -/
example : (fromDict exDesc (.dict (.cons "a" (.leaf (.sc (.int 1))) .nil))).2 = some .key := by decide
example : (fromDict exDesc (.dict (.cons "a" (.leaf (.sc (.int 1))) (.cons "s" (.list .nil) .nil)))).2 = some .index := by decide
/-- list of characters for a string field -/
example : fromDict (.leaf (.str 3)) (.leaf (.seq .list [.str [104], .str [105]])) = ([104, 105, 0], none) := by decide
/-- arrays -/
example : WF (.arr .intArray (.int .i16) 2) [255, 255, 0, 128] := wfLeafB_sound _ _ (by decide)
example : toDictLeaf (.arr .intArray (.int .i16) 2) [255, 255, 0, 128] = .seq .list [.int (-1), .int (-32768)] := by decide
example : fromDictLeaf (.arr .floatArray (.flt .f64) 2) (toDictLeaf (.arr .floatArray (.flt .f64) 2)
    [0, 0, 0, 0, 0, 0, 0, 128, 1, 0, 0, 0, 0, 0, 248, 255]) = ([0, 0, 0, 0, 0, 0, 0, 128, 1, 0, 0, 0, 0, 0, 248, 255], none) := by
  decide
/-- the rounding hypothesis for `float` elements is satisfiable (a quiet NaN needs no rounding) and excludes signalling NaNs -/
example : wfElemB (.flt .f32) [0, 0, 192, 127] = true := by decide +kernel
example : wfElemB (.flt .f32) [1, 0, 128, 127] = false := by decide +kernel
/-- the zero-length `IntArray` is outside `leafOk`, and indeed does not round-trip (Python's `max()` of an empty list) -/
example : fromDictLeaf (.arr .intArray (.int .i8) 0) (toDictLeaf (.arr .intArray (.int .i8) 0) []) = ([], some .valueError) := by
  decide

/-! #### JSON text -/
def exJ : J := .obj (.cons [97] (.arr (.cons (.int (-5)) (.cons (.flt ['1', '.', '5']) (.cons (.flt ['N', 'a', 'N']) .nil))))
  (.cons [98] (.str [34, 10, 127, 233, 128512]) (.cons [99] (.arr .nil) .nil)))
example : exJ.okB = true := by decide +kernel
example : renderMin exJ = "{\"a\":[-5,1.5,NaN],\"b\":\"\\\"\\n\\u007f\\u00e9\\ud83d\\ude00\",\"c\":[]}".toList := by
  decide +kernel
example : renderPretty exJ =
    "{\n  \"a\": [\n    -5,\n    1.5,\n    NaN\n  ],\n  \"b\": \"\\\"\\n\\u007f\\u00e9\\ud83d\\ude00\",\n  \"c\": []\n}".toList := by
  decide +kernel
example : parse (renderMin exJ) = some exJ := by decide +kernel
example : parse (renderPretty exJ) = some exJ := by decide +kernel
/-- the parser is not a rubber stamp: trailing comma, trailing garbage, a control character, a bad escape are refused;
a surrogate pair is joined -/
example : parse "[1,]".toList = none ∧ parse "1 2".toList = none ∧ parse "\"\t\"".toList = none ∧
    parse "\"\\x\"".toList = none ∧ parse "01".toList = none := by decide +kernel
example : parse "\"\\ud83d\\ude00\"".toList = some (.str [128512]) := by decide +kernel
example : floatTokOk "1e+22".toList = true ∧ floatTokOk "-0.0".toList = true ∧ floatTokOk "12".toList = false ∧
    floatTokOk "1.".toList = false ∧ floatTokOk "-Infinity".toList = true := by decide +kernel
/-- the message of `exDesc`, as JSON text (no floats in it, so any formatter will do) -/
example : (toJ (fun _ => []) (toDict exDesc exBytes)).map renderMin =
    some "{\"a\":513,\"s\":[{\"x\":5,\"t\":\"h\"},{\"x\":6,\"t\":\"hi\"}]}".toList := by decide +kernel

/-! #### the open finding C10-F3 (`TimeCodeMessageHeader`)
`_to_dict` / `_from_dict` walk `obj._fields_`, and ctypes puts only the two fields the subclass adds into it: the
descriptor of that walk is "48 bytes the walk does not see, then two `uint32`".  A header with an inherited field set
(here `msg_type = 5`) is outside `WFD` and does not come back. -/
def tcHeaderWalk : Desc :=
  .strct (.cons "utc_seconds" 48 (.leaf (.int .u32)) (.cons "utc_fraction" 0 (.leaf (.int .u32)) .nil)) 0
def tcHeaderBytes : Bytes := [5, 0, 0, 0] ++ List.replicate 44 0 ++ [1, 0, 0, 0, 2, 0, 0, 0]
example : tcHeaderWalk.size = 56 ∧ tcHeaderBytes.length = 56 := by decide
example : wfB tcHeaderWalk tcHeaderBytes = false := by decide
example : toDict tcHeaderWalk tcHeaderBytes =
    .dict (.cons "utc_seconds" (.leaf (.sc (.int 1))) (.cons "utc_fraction" (.leaf (.sc (.int 2))) .nil)) := by decide
example : fromDict tcHeaderWalk (toDict tcHeaderWalk tcHeaderBytes) ≠ (tcHeaderBytes, none) := by decide

/-! #### storage -/
def exSt : St := { heap := [[1, 2, 3, 4]] }
def exObj : Obj := { cls := 7, ref := { addr := 0, off := 0, size := 4 } }
example : exSt.valid exObj.ref := ⟨by decide, by decide⟩
example : exSt.copy exObj = some ({ heap := [[1, 2, 3, 4], [1, 2, 3, 4]] }, { cls := 7, ref := { addr := 1, off := 0, size := 4 } }) := by
  decide
/-- write into the copy: the source keeps its bytes; write into the source: the copy keeps its bytes -/
example : (({ heap := [[1, 2, 3, 4], [1, 2, 3, 4]] } : St).write { addr := 1, off := 0, size := 4 } 1 [9, 9]).heap =
    [[1, 2, 3, 4], [1, 9, 9, 4]] := by decide
example : (({ heap := [[1, 2, 3, 4], [1, 2, 3, 4]] } : St).write { addr := 0, off := 0, size := 4 } 0 [8]).heap =
    [[8, 2, 3, 4], [1, 2, 3, 4]] := by decide
/-- in contrast a *view* (`msg.field` of a nested struct) shares: a write through it shows in the parent -/
example : view exObj.ref 1 2 = some { addr := 0, off := 1, size := 2 } := by decide
example : (exSt.write { addr := 0, off := 1, size := 2 } 0 [9, 9]).read exObj.ref = [1, 9, 9, 4] := by decide
/-- a copy of the view is a fresh two-byte object -/
example : exSt.copyAs 3 2 { addr := 0, off := 1, size := 2 } =
    some ({ heap := [[1, 2, 3, 4], [2, 3]] }, { cls := 3, ref := { addr := 1, off := 0, size := 2 } }) := by decide
example : exSt.copyAs 3 5 exObj.ref = none := by decide
example : ({ heap := [[1, 2], [5, 6, 7]] } : St).msgCopy { cls := 1, ref := ⟨0, 0, 2⟩ } { cls := 2, ref := ⟨1, 0, 3⟩ } =
    some ({ heap := [[1, 2], [5, 6, 7], [1, 2], [5, 6, 7]] }, { cls := 1, ref := ⟨2, 0, 2⟩ }, { cls := 2, ref := ⟨3, 0, 3⟩ }) := by
  decide

/-! #### JSON and back -/
/-- the message of `exDesc` through `to_json(minify=True)` and `from_json` -/
example : fromJson (fun _ => 0) exDesc "{\"a\":513,\"s\":[{\"x\":5,\"t\":\"h\"},{\"x\":6,\"t\":\"hi\"}]}".toList =
    some (exBytes, none) := by decide +kernel
example : floatsOf exDesc exBytes = [] ∧ descOkJ exDesc = true := by decide +kernel
/-- a byte array arrives as a list of ints -/
example : fromJson (fun _ => 0) (.strct (.cons "b" 0 (.leaf (.arr .byteArray .byte 3)) .nil) 0) "{\"b\": [255, 0, 7]}".toList =
    some ([255, 0, 7], none) := by decide +kernel
/-- a missing key and malformed text are refused -/
example : (fromJson (fun _ => 0) exDesc "{\"a\":513}".toList).map (·.2) = some (some .key) := by decide +kernel
example : fromJson (fun _ => 0) exDesc "{\"a\":513,}".toList = none := by decide +kernel

end Pyrtma.C10
