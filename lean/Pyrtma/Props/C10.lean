import Pyrtma.Spec.Serial
import Pyrtma.Props.C09
/-!
# C10 — serialisation round trips are the identity

Model M5 flattens a class to its leaf fields; `_to_dict` reads a leaf (`toDictLeaf`), `_from_dict` assigns the value
back through M4's validated `setField` on a fresh all-zero object (`fromDictLeaf`).  Theorems: the dict round trip
of a leaf is the identity on every *well-formed* content (`WF`: what the validated API can produce), for all widths
and all contents; well-formedness of string fields is a theorem about M4 (this is where C10-F1 lived: before the fix a
short string written over a long one left stale bytes, which are not well-formed and do not round-trip);
`Message.from_json` refuses exactly the non-zero foreign versions.

Not theorems (checked on the implementation for every class, see harness/serial_corr.py): the array leaves
(`leaf_roundtrip` below covers scalars, chars, bytes and strings; arrays are element-wise the same facts but the
induction over `storeMany`/`writeAt` positions is not done), float32 leaves (need `narrow (widen x) = x`, rounding is
an opaque parameter), the JSON *text* layer (Python's `json`), `bytes()/from_buffer_copy` and `copy` (ctypes).
-/
namespace Pyrtma.C10
open Pyrtma.Validators Pyrtma.Serial

/-- **Version check**: header+data JSON is refused iff the header's version is non-zero and differs from the local hash -/
theorem json_version_refused (v h : Nat) : versionRefused v h = true ↔ (v ≠ 0 ∧ v ≠ h) := by
  simp [versionRefused]

theorem json_version_accepted (v h : Nat) : versionRefused v h = false ↔ (v = 0 ∨ v = h) := by
  simp [versionRefused]; omega

/-! ### little-endian, the other direction -/
theorem toLE_fromLE : ∀ (b : Bytes), (∀ x ∈ b, x < 256) → toLE b.length (fromLE b) = b
  | [], _ => rfl
  | x :: xs, h => by
    have hx : x < 256 := h x (by simp)
    have ih := toLE_fromLE xs (fun y hy => h y (by simp [hy]))
    simp only [List.length_cons, toLE, fromLE]
    have h1 : (x + 256 * fromLE xs) % 256 = x := by omega
    have h2 : (x + 256 * fromLE xs) / 256 = fromLE xs := by omega
    rw [h1, h2, ih]

theorem fromLE_lt : ∀ (b : Bytes), (∀ x ∈ b, x < 256) → fromLE b < 256 ^ b.length
  | [], _ => by simp [fromLE]
  | x :: xs, h => by
    have hx : x < 256 := h x (by simp)
    have ih := fromLE_lt xs (fun y hy => h y (by simp [hy]))
    simp only [List.length_cons, fromLE, Nat.pow_succ]
    omega

/-- **integer leaves** of every width and signedness: dict round trip is the identity on every content -/
theorem int_leaf_roundtrip (k : IK) (b : Bytes) (hw : WF (.int k) b) :
    fromDictLeaf (.int k) (toDictLeaf (.int k) b) = (b, none) := by
  obtain ⟨hlen, hby, _⟩ := hw
  have hlt := fromLE_lt b hby
  have hle := toLE_fromLE b hby
  simp only [FTy.size] at hlen
  rw [hlen] at hlt hle
  have hr : k.lo ≤ decInt k b ∧ decInt k b ≤ k.hi ∧
      ((decInt k b) % (2 ^ (8 * k.size) : Int)).toNat = fromLE b := by
    unfold decInt
    cases k <;> simp only [IK.size, IK.signed, IK.lo, IK.hi] at hlt ⊢ <;> simp at hlt ⊢ <;> omega
  have e : elemStore (.int k) (.int (decInt k b)) = .ok (encInt k (decInt k b)) := rfl
  simp only [fromDictLeaf, toDictLeaf, setField, setScalar, validateOne, if_true, hr.1, hr.2.1, and_self, e, lift]
  simp only [encInt, hr.2.2, hle]

/-- **byte leaves** -/
theorem byte_leaf_roundtrip (b : Bytes) (hw : WF .byte b) : fromDictLeaf .byte (toDictLeaf .byte b) = (b, none) := by
  obtain ⟨hlen, hby, _⟩ := hw
  simp only [FTy.size] at hlen
  match b, hlen, hby with
  | [x], _, hby =>
    have hx : x < 256 := hby x (by simp)
    have h0 : (0 : Int) ≤ (x : Int) ∧ (x : Int) ≤ 255 := by omega
    have e : elemStore .byte (.int (x : Int)) = .ok (encInt .u8 x) := rfl
    have e2 : encInt .u8 (x : Int) = [x] := by
      simp only [encInt, IK.size, toLE]
      have : (((x : Int) % (2 ^ (8 * 1) : Int)).toNat) = x := by simp; omega
      rw [this]; simp; omega
    simp only [fromDictLeaf, toDictLeaf, fromLE, setField, setScalar, validateOne, if_true, Nat.mul_zero, Nat.add_zero,
      h0.1, h0.2, and_self, e, e2, lift]

/-- **char leaves** (ASCII, including NUL) -/
theorem char_leaf_roundtrip (b : Bytes) (hw : WF .char b) : fromDictLeaf .char (toDictLeaf .char b) = (b, none) := by
  obtain ⟨hlen, _, hasc⟩ := hw
  simp only [FTy.size] at hlen
  match b, hlen, hasc with
  | [x], _, hasc =>
    have hx : x < 128 := hasc x (by simp)
    have h1 : decide (x ≥ 128) = false := by simp; omega
    simp [fromDictLeaf, toDictLeaf, setField, setStr, strCheck, strStore, lift, h1]

theorem upToNul_id : ∀ (cs : List Nat), (∀ c ∈ cs, 0 < c) → upToNul cs = cs
  | [], _ => rfl
  | c :: cs, h => by
    have hc : 0 < c := h c (by simp)
    have : (c == 0) = false := by simp; omega
    simp only [upToNul, this, Bool.false_eq_true, if_false]
    rw [upToNul_id cs (fun d hd => h d (by simp [hd]))]

/-- **string leaves**: NUL-terminated ASCII followed by NULs only (what the patched `String.__set__` leaves behind)
goes through `to_dict` / `from_dict` unchanged, for every field width and every content -/
theorem str_leaf_roundtrip (n : Nat) (hn : 1 < n) (b : Bytes) (hw : WF (.str n) b) :
    fromDictLeaf (.str n) (toDictLeaf (.str n) b) = (b, none) := by
  obtain ⟨_, _, cs, hcs, hlen, rfl⟩ := hw
  have hnz : ∀ c ∈ cs, c ≠ 0 := fun c hc => by have := (hcs c hc).1; omega
  have hup : upToNul (cs ++ List.replicate (n - cs.length) 0) = cs := C09.upToNul_append_zeros cs _ hnz
  have hid : upToNul cs = cs := upToNul_id cs (fun c hc => (hcs c hc).1)
  have hasc : cs.any (fun c => decide (c ≥ 128)) = false := by
    simp only [List.any_eq_false, decide_eq_true_eq]
    intro c hc; have := (hcs c hc).2; omega
  have hn1 : ¬ n = 1 := by omega
  have hl1 : ¬ cs.length > n - 1 := by omega
  have hl2 : ¬ cs.length > n := by omega
  simp [fromDictLeaf, toDictLeaf, setField, setStr, strCheck, strStore, lift, hup, hid, hasc, hn1, hl1, hl2]

/-- **double leaves**: every finite or NaN content, bit for bit (including -0.0 and NaN payloads) -/
theorem f64_leaf_roundtrip (b : Bytes) (hw : WF (.flt .f64) b) :
    fromDictLeaf (.flt .f64) (toDictLeaf (.flt .f64) b) = (b, none) := by
  obtain ⟨hlen, hby, hinf⟩ := hw
  simp only [FTy.size, FK.size] at hlen
  have hle := toLE_fromLE b hby
  rw [hlen] at hle
  have e : elemStore (.flt .f64) (.flt (fromLE b)) = .ok (encFlt .f64 (fromLE b)) := rfl
  simp only at hinf
  simp only [fromDictLeaf, toDictLeaf, setField, setScalar, validateOne, toDouble, infAfter, hinf, if_true, e, lift,
    Bool.false_eq_true, if_false, encFlt, hle]

theorem upToNul_subset : ∀ (cs : List Nat) (c : Nat), c ∈ upToNul cs → c ∈ cs
  | [], c, h => by simp [upToNul] at h
  | x :: xs, c, h => by
    unfold upToNul at h
    split at h
    · simp at h
    · simp only [List.mem_cons] at h ⊢
      rcases h with rfl | h
      · exact Or.inl rfl
      · exact Or.inr (upToNul_subset xs c h)

theorem upToNul_length_le : ∀ (cs : List Nat), (upToNul cs).length ≤ cs.length
  | [] => by simp [upToNul]
  | x :: xs => by
    have := upToNul_length_le xs
    unfold upToNul
    split <;> simp <;> omega

/-- **What the validated API writes into a string field is well-formed** (`wf_of_validated`): after any accepted
assignment, whatever the field held before (a longer string, arbitrary bytes). -/
theorem wf_of_validated_str (n : Nat) (hn : 1 < n) (old : Bytes) (s : Scalar) (post : Bytes)
    (h : setField true (.str n) old .whole (.sc s) = (post, none)) : WF (.str n) post := by
  obtain ⟨cs, _, hlen, hasc, hpost, _⟩ := C09.str_field_sound n hn old s post h
  have hnz := C09.upToNul_no_zero cs
  have hsub := upToNul_subset cs
  have hul := upToNul_length_le cs
  refine ⟨?_, ?_, upToNul cs, ?_, by omega, hpost⟩
  · rw [hpost]; simp [FTy.size]; omega
  · rw [hpost]; intro x hx
    simp only [List.mem_append, List.mem_replicate] at hx
    rcases hx with hx | ⟨_, rfl⟩
    · have := hasc x (hsub x hx); omega
    · omega
  · intro c hc
    exact ⟨by have := hnz c hc; omega, hasc c (hsub c hc)⟩

/-- consequently: assign any string through the validated API over *anything*, and the dict round trip is the identity -/
theorem str_assign_then_roundtrip (n : Nat) (hn : 1 < n) (old : Bytes) (s : Scalar) (post : Bytes)
    (h : setField true (.str n) old .whole (.sc s) = (post, none)) :
    fromDictLeaf (.str n) (toDictLeaf (.str n) post) = (post, none) :=
  str_leaf_roundtrip n hn post (wf_of_validated_str n hn old s post h)

/-! ### non-vacuity -/
/-- "hello" then "hi" in a `char[8]`: the patched store leaves `hi` + six NULs, which round-trips -/
example : setField true (.str 8) [104, 101, 108, 108, 111, 0, 0, 0] .whole (.sc (.str [104, 105])) = ([104, 105, 0, 0, 0, 0, 0, 0], none) := by decide
example : fromDictLeaf (.str 8) (toDictLeaf (.str 8) [104, 105, 0, 0, 0, 0, 0, 0]) = ([104, 105, 0, 0, 0, 0, 0, 0], none) := by decide
/-- the stale content the unpatched code produced (`hi\0lo\0\0\0`) is *not* a fixed point of the dict round trip -/
example : fromDictLeaf (.str 8) (toDictLeaf (.str 8) [104, 105, 0, 108, 111, 0, 0, 0]) = ([104, 105, 0, 0, 0, 0, 0, 0], none) := by decide
example : fromDictLeaf (.int .i16) (toDictLeaf (.int .i16) [0, 128]) = ([0, 128], none) := by decide
example : toDictLeaf (.int .i16) [0, 128] = .sc (.int (-32768)) := by decide
example : fromDictLeaf (.arr .intArray (.int .i8) 3) (toDictLeaf (.arr .intArray (.int .i8) 3) [255, 0, 127]) = ([255, 0, 127], none) := by decide
example : fromDictLeaf (.arr .byteArray .byte 2) (toDictLeaf (.arr .byteArray .byte 2) [255, 0]) = ([255, 0], none) := by decide
example : versionRefused 5 6 = true ∧ versionRefused 0 6 = false ∧ versionRefused 6 6 = false := by decide

end Pyrtma.C10
