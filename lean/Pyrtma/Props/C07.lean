import Pyrtma.Proofs.Manager
import Pyrtma.Proofs.ManagerClose
import Pyrtma.Proofs.ManagerNotice
import Pyrtma.Proofs.ManagerSimDrv
/-!
# C07 — a departed client leaves no trace

For every history (the refinement link, `Proofs/ManagerSim*.lean`, `Proofs/ManagerSpecDep.lean`):
`spec_departure_clauses_pass_on_model` — run the model on any well-formed history, give the history-based Spec (`Spec.runSpec`) the events the model itself
wrote, round by round: the Spec's verdict contains **no C07 entry**.  Every C07 clause of the Spec is covered: the
clauses of `checkDepartures` in each stretch of events (a connection that had to be dropped is closed; every close has
a reason — it left, or a write to it failed; a failed write is followed by the close; nothing is closed twice; a
CLIENT_CLOSED frame is only written about a connection closed in the same stretch; *every* observer — alive, subscribed,
writable or a logger, not failing — gets *exactly one* notice about each departure: the lower bound is
`Proofs/ManagerSimDep.lean`, a contract-based induction through the nested `forward` riding on crash-freedom, the upper
bound is `closed_notice_at_most_once`), "nothing is written to a connection that left on the read side while its
departure is handled", the reuse clauses of `checkConnect`, and the whole-history clause of `checkC05`
(`nothing_written_after_failure`).  The stretch of events before the first frame read in a round is judged as
`Spec.roundBody` says: the accept branch (its INFO log line and whatever that delivery triggers) runs *before* the round's
poll for writable sockets, so readiness there is what the previous poll left — `exStale` below; when no frame is read the
stretch also holds the periodic section, which runs after the poll — `exTick`.
-/
namespace Pyrtma.C07
open Pyrtma.Mgr

theorem idxGet_discard_self (idx : List (Int × List Nat)) (t : Int) (u : Nat) : u ∉ idxGet (idxDiscard idx t u) t := by
  unfold idxGet idxDiscard
  induction idx with
  | nil => simp
  | cons p idx ih =>
    simp only [List.map_cons, List.find?_cons]
    cases hp : (p.1 == t)
    · simp only [Bool.false_eq_true, if_false, hp]; exact ih
    · simp [hp]

theorem idxGet_discards_self (ts : List Int) (idx : List (Int × List Nat)) (t : Int) (u : Nat) (ht : t ∈ ts) :
    u ∉ idxGet (ts.foldl (fun i t => idxDiscard i t u) idx) t := by
  induction ts generalizing idx with
  | nil => cases ht
  | cons a ts ih =>
    simp only [List.foldl_cons]
    by_cases hin : t ∈ ts
    · exact ih _ hin
    · have : t = a := by cases ht with | head => rfl | tail _ h => exact absurd h hin
      subst this
      intro hmem
      exact idxGet_discard_self idx t u (idxGet_discards ts _ t u u hmem)

/-- **Removed is gone, in the same step.**  After `remove_module(u)` — whatever the CLIENT_CLOSED forward nested in it
did — `u` is in no table: not in the module table (so its id and name are free for the very next CONNECT, and no later
frame can be routed or acknowledged to it: C01's and C19's recipients are found through the table), not in the logger
set, and in the subscriber set of none of the types it was subscribed to. -/
theorem removed_is_gone (cfg : Cfg) {fwd : Fwd} {B : Body → Bool} (hB : Tag cfg B) (hf : FwdOK B fwd) (s : State)
    (u : Nat) (m : Module) (hm : s.find u = some m) :
    (removeModule cfg fwd s u).find u = none ∧ (∀ x ∈ (removeModule cfg fwd s u).mods, x.uid ≠ u) ∧
    u ∉ (removeModule cfg fwd s u).loggers ∧ (∀ t ∈ m.subs, u ∉ idxGet (removeModule cfg fwd s u).idx t) := by
  have hp := (logAt_ok cfg hB hf 10 (removePrep s u m)).1.trans
    (hf (logAt cfg fwd 10 (removePrep s u m)) (closedFrame cfg { m with connected := false })
      (by simp [closedFrame, mgrFrame, hB.1])).1
  unfold removeModule
  simp only [hm]
  refine ⟨find_filter_eq _ _, fun x hx => by simpa using (List.mem_filter.mp hx).2, fun h => ?_, fun t ht h => ?_⟩
  · have := hp.loggers u h
    rw [removePrep_loggers] at this; simp at this
  · have := hp.idx t u h
    rw [removePrep_idx] at this
    exact idxGet_discards_self m.subs s.idx t u ht this

/-- with the index consistent (`u` is listed only under types in its own `subs`), `u` is in *no* subscriber set at all -/
theorem removed_from_every_type (cfg : Cfg) {fwd : Fwd} {B : Body → Bool} (hB : Tag cfg B) (hf : FwdOK B fwd) (s : State)
    (u : Nat) (m : Module) (hm : s.find u = some m) (hcons : ∀ t, u ∈ idxGet s.idx t → t ∈ m.subs) (t : Int) :
    u ∉ idxGet (removeModule cfg fwd s u).idx t := by
  by_cases ht : t ∈ m.subs
  · exact (removed_is_gone cfg hB hf s u m hm).2.2.2 t ht
  · intro h
    apply ht; apply hcons
    have hp := (logAt_ok cfg hB hf 10 (removePrep s u m)).1.trans
      (hf (logAt cfg fwd 10 (removePrep s u m)) (closedFrame cfg { m with connected := false })
        (by simp [closedFrame, mgrFrame, hB.1])).1
    unfold removeModule at h
    simp only [hm] at h
    have h2 := hp.idx t u h
    rw [removePrep_idx] at h2
    exact idxGet_discards m.subs s.idx t u u h2

/-- **A failed write removes the module at once** (read side or write side makes no difference to what follows): after
`trySend` met a `ConnectionError` on `u`'s socket, `u` is no longer in the table — before the error is logged and before
the FAILED_MESSAGE is forwarded, so neither can be routed to it. -/
theorem failed_write_removes_at_once (cfg : Cfg) (s : State) (u : Nat) (f : Frame) (m : Module) (fuel : Nat)
    (hm : s.find u = some m) (hc : m.closed = false) (hfl : failOf s u ≠ none) (hcr : s.crashed = none) :
    (trySend cfg (forward cfg fuel) s u f).find u = none := by
  have hB := tag_data cfg 0
  have hf := forward_ok cfg hB fuel
  have hok : (sendRaw s u f).2 = false := by
    rw [sendRaw_ok]; unfold canTake; simp [hm]
    cases h : failOf s u with
    | none => exact absurd h hfl
    | some _ => simp
  have hnc : (sendRaw s u f).1.crashed.isSome = false := by
    unfold sendRaw; simp only [hm, hc, Bool.false_eq_true, if_false]
    have hfo : failOf (s.upd u fun m => { m with msgCount := m.msgCount + 1 }) u = failOf s u := rfl
    rw [hfo]
    cases h : failOf s u with
    | none => exact absurd h hfl
    | some x => cases x <;> simp [State.emit, State.upd, hcr]
  unfold trySend
  simp only [hm, hok, Bool.false_eq_true, if_false, hnc]
  -- after sendRaw the module is still there; removeModule drops it; log + notice never bring anything back
  obtain ⟨m1, hm1⟩ : ∃ m1, (sendRaw s u f).1.find u = some m1 := by
    unfold sendRaw; simp only [hm, hc, Bool.false_eq_true, if_false]
    have hfo : failOf (s.upd u fun m => { m with msgCount := m.msgCount + 1 }) u = failOf s u := rfl
    rw [hfo]
    cases h : failOf s u with
    | none => exact absurd h hfl
    | some x =>
      cases x <;> simp only [find_emit] <;>
        exact ⟨_, find_upd_self s u (fun m => { m with msgCount := m.msgCount + 1 }) (fun _ => rfl) hm⟩
  have hgone := (removed_is_gone cfg hB hf (sendRaw s u f).1 u m1 hm1).1
  have h2 := (logAt_ok cfg hB hf 40 (removeModule cfg (forward cfg fuel) (sendRaw s u f).1 u)).1.gone u hgone
  exact (failedMsg_ok cfg hB hf _ m.modId f).1.gone u h2

/-- **Every way of leaving on the read side ends in `remove_module(sender)`**: DISCONNECT, a reset while reading the
header or the payload, EOF inside the header or inside the payload, a declared length that can not be read. -/
theorem read_side_departures (cfg : Cfg) (s : State) (r : Read) (m : Module)
    (hm : s.find r.uid = some m) (hcr : s.crashed = none) :
    (r.hdrErr = true → readOne cfg s r = logAt cfg (fwdTop cfg) 40 (removeModule cfg (fwdTop cfg) (s.emit (.rd r.uid)) r.uid)) ∧
    (r.hdrErr = false → r.hdrOk = false →
      readOne cfg s r = logAt cfg (fwdTop cfg) 30 (removeModule cfg (fwdTop cfg) (s.emit (.rd r.uid)) r.uid)) ∧
    (r.hdrErr = false → r.hdrOk = true → (r.h.nbytes < 0 ∨ r.h.nbytes > cfg.bufMax) →
      readOne cfg s r = logAt cfg (fwdTop cfg) 30 (removeModule cfg (fwdTop cfg) (s.emit (.rd r.uid)) r.uid)) := by
  refine ⟨fun h1 => ?_, fun h1 h2 => ?_, fun h1 h2 h3 => ?_⟩
  · unfold readOne; simp [hcr, hm, h1]
  · unfold readOne; simp [hcr, hm, h1, h2]
  · unfold readOne; simp only [hcr, Option.isSome_none, Bool.false_eq_true, if_false, hm, h1, h2, Bool.not_true]
    have : (decide (r.h.nbytes < 0) || decide (r.h.nbytes > cfg.bufMax)) = true := by
      rcases h3 with h | h <;> simp [h]
    simp [this]

/-- the CLIENT_CLOSED notice describes the departed module: its uid, pid, id, logger and uniqueness flags and name -/
theorem closed_notice_describes (cfg : Cfg) (m : Module) :
    (closedFrame cfg m).body = .closed m.uid m.pid m.modId m.isLogger m.unique m.name ∧
    (closedFrame cfg m).mtype = cfg.mtClosed ∧ (closedFrame cfg m).src = 0 ∧ (closedFrame cfg m).dest = 0 :=
  ⟨rfl, rfl, rfl, rfl⟩

/-! ### Globally: for every history (any rounds, readiness sets, socket failures, frames), in the state reached -/

/-- **A connection is closed at most once** — whatever combination of read-side and write-side discoveries, nested
removals and log forwards happened (`closeCnt` counts the `close` events of connection `u` in the whole event log). -/
theorem closed_at_most_once (cfg : Cfg) (rs : List Round) (u : Nat) : closeCnt (run cfg rs).out u ≤ 1 := by
  have := (run_J cfg rs).phi u
  unfold phi at this; omega

/-- a connection that is still in the table with an open socket has never been closed, and one that was closed is not in
the table with an open socket any more (its uid is never handed out again: `nextUid` only grows) -/
theorem open_iff_never_closed (cfg : Cfg) (rs : List Round) (u : Nat) (h : isOpen (run cfg rs) u = true) :
    closeCnt (run cfg rs).out u = 0 := by
  have := (run_J cfg rs).phi u
  unfold phi at this; rw [h] at this; simp at this; omega

theorem closed_stays_closed (cfg : Cfg) (rs : List Round) (u : Nat) (h : 0 < closeCnt (run cfg rs).out u) :
    isOpen (run cfg rs) u = false ∧ u ≤ (run cfg rs).nextUid := by
  have := (run_J cfg rs).phi u
  unfold phi at this
  constructor
  · cases ho : isOpen (run cfg rs) u with
    | false => rfl
    | true => rw [ho] at this; simp at this; omega
  · by_cases hn : (run cfg rs).nextUid < u
    · simp only [hn, if_true] at this; omega
    · omega

/-- nothing is closed before it was accepted -/
theorem never_accepted_never_closed (cfg : Cfg) (rs : List Round) (u : Nat) (h : (run cfg rs).nextUid < u) :
    closeCnt (run cfg rs).out u = 0 := by
  have := (run_J cfg rs).phi u
  unfold phi at this; simp only [h, if_true] at this; omega

/-- **The manager stops treating a departed client as a recipient at once and for good**: split the event log of any
history anywhere after the close of connection `u`; in the rest there is no write, no partial write and no failed write on
`u` — not for the frame during whose delivery the failure was discovered, not for a notice, a log message, an
acknowledgement or a statistics frame, not in any later round. -/
theorem nothing_after_close (cfg : Cfg) (rs : List Round) (u : Nat) (a b : List Ev)
    (h : (run cfg rs).out = a ++ b) (hc : 0 < closeCnt a u) : ∀ e ∈ b, touches u e = false :=
  NS_split ((run_J cfg rs).ns u) a b h hc

/-- **At most one CLIENT_CLOSED notice per departed client at every observer** — after any history, connection `o` has
been written at most one CLIENT_CLOSED frame about connection `v` (`nTo` counts them in the whole event log), and none
while `v` is still in the table with an open socket or has not been accepted yet.  Needs what `model_never_crashes` needs
of the constants, plus: CLIENT_CLOSED is not the ALL sentinel, and set iteration neither invents nor repeats elements. -/
theorem closed_notice_at_most_once (cfg : Cfg) (ok : CfgOK cfg) (hmt : cfg.mtClosed ≠ cfg.allTypes) (hord : OrdOK cfg)
    (hfuel : cfg.fuel = 0) (rs : List Round) (o v : Nat) :
    nTo (run cfg rs).out o v ≤ 1 ∧
    (isOpen (run cfg rs) v = true ∨ (run cfg rs).nextUid < v → nTo (run cfg rs).out o v = 0) := by
  have := run_T ok hmt hord hfuel rs o v
  unfold opn at this
  refine ⟨by omega, fun h => ?_⟩
  rcases h with h | h
  · rw [h] at this; simp at this; omega
  · simp only [h, if_true] at this; omega

/-- the shipped constants and both iteration orders the driver uses meet the side conditions -/
theorem default_side_conditions : CfgOK ({} : Cfg) ∧ ({} : Cfg).mtClosed ≠ ({} : Cfg).allTypes ∧ OrdOK ({} : Cfg) ∧
    OrdOK ({ order := List.reverse } : Cfg) :=
  ⟨⟨by decide, by decide, by decide, fun _ _ h => h⟩, by decide, fun l h => ⟨h, fun _ hx => hx⟩,
   fun l h => ⟨by unfold List.Nodup at h ⊢; rw [List.pairwise_reverse]; exact h.imp (fun hab => hab.symm), fun _ hx => List.mem_reverse.mp hx⟩⟩

/-! ### The Spec's C07 clauses on every run of the model -/

/-- **In every run a failed write is followed at once by the close of the connection** (`Adj`: every `wfail v` event is
    immediately followed by `close v`). -/
theorem failed_write_followed_by_close (cfg : Cfg) (ok : CfgOK cfg) (hfuel : cfg.fuel = 0) (hperm : OrdPerm cfg)
    (rs : List Round) : Adj (run cfg rs).out :=
  run_adj ok (OrdAll_of_perm hperm) hfuel rs

/-- **In every run nothing is written to a connection after the first failed write to it, or its close** (the
    whole-history C07 clause of `Spec.checkC05`, verbatim). -/
theorem nothing_written_after_failure (cfg : Cfg) (ok : CfgOK cfg) (hfuel : cfg.fuel = 0) (hperm : OrdPerm cfg)
    (rs : List Round) (u : Nat) :
    (Spec.sends (((run cfg rs).out.dropWhile (fun e => !(e == .wfail u || e == .close u))).drop 1)).any (·.1 == u) = false :=
  nothing_after_fail (run_J cfg rs) (run_adj ok (OrdAll_of_perm hperm) hfuel rs) u

/-- **The Spec's departure clauses hold on every run of the model** (and with them the whole of property C07 as the Spec
decides it on a run that does not crash — `model_never_crashes`).  For every configuration meeting the side conditions
(`CfgOK`, automatic fuel, `OrdPerm`, and CLIENT_CLOSED is not the ALL_MESSAGE_TYPES sentinel: `default_side_conditions`)
and every history whose frames are read from connections (`RoundsWF`), the verdict `Spec.runSpec` computes from the history and the model's own events has no
C07 entry. -/
theorem spec_departure_clauses_pass_on_model (cfg : Cfg) (ok : CfgOK cfg) (hfuel : cfg.fuel = 0) (hperm : OrdPerm cfg)
    (hmt : cfg.mtClosed ≠ cfg.allTypes) (rs : List Round) (hwf : RoundsWF rs) :
    (Spec.runSpec cfg rs (Pyrtma.Drv.Manager.modelRun cfg rs).1 none).errs.filter (·.1 == "C07") = [] :=
  spec_passes_on_model ok hfuel hperm hmt rs hwf "C07" (by simp [provenCore]) (fun h => absurd h (by decide))

/-! ### Non-vacuity -/
/-- connection 2 listens to CLIENT_CLOSED; connection 1 resets: exactly one notice about 1 reaches 2 -/
def exRounds2 : List Round :=
  [{ accept := true }, { accept := true },
   { reads := [{ uid := 2, h := { mtype := 15, nbytes := 4 }, avail := 4, pay := [33, 0, 0, 0] }], writable := [1, 2] },
   { reads := [{ uid := 1, hdrErr := true }], writable := [1, 2] }]
example : nTo (run {} exRounds2).out 2 1 = 1 ∧ nTo (run {} exRounds2).out 2 2 = 0 := by decide

/-- that history meets the hypotheses of `spec_departure_clauses_pass_on_model`, and the Spec has nothing to object to -/
example : RoundsWF exRounds2 := by
  intro r hr rd hrd
  simp only [exRounds2, List.mem_cons, List.not_mem_nil, or_false] at hr
  rcases hr with rfl | rfl | rfl | rfl <;> simp at hrd <;> subst hrd <;> decide
example : (Spec.runSpec {} exRounds2 (Pyrtma.Drv.Manager.modelRun {} exRounds2).1 none).errs = [] := by decide +kernel

/-- a write fails: connection 1 listens to type 5000 and is broken when connection 2 publishes it — failed write, close,
    one CLIENT_CLOSED notice to connection 2 (which listens to CLIENT_CLOSED), all in the segment of that frame -/
def exRounds3 : List Round :=
  [{ accept := true }, { accept := true },
   { reads := [{ uid := 2, h := { k := 1, mtype := 15, nbytes := 4 }, avail := 4, pay := [33, 0, 0, 0] }], writable := [1, 2] },
   { reads := [{ uid := 1, h := { k := 2, mtype := 15, nbytes := 4 }, avail := 4, pay := [136, 19, 0, 0] }], writable := [1, 2] },
   { failSet := [(1, some .hdr)], reads := [{ uid := 2, h := { k := 3, mtype := 5000 } }], writable := [1, 2] }]
example : (modelObs {} exRounds3).getLast? =
    some [.rd 2, .wfail 1, .close 1, .send 2 2 (closedFrame {} { uid := 1, subs := [5000] })] := by decide +kernel
example : (Spec.runSpec {} exRounds3 (Pyrtma.Drv.Manager.modelRun {} exRounds3).1 none).errs = [] := by decide +kernel

/-- **The accept branch is routed by the previous poll** (observed behaviour, not a finding).  Log lines of level INFO
are forwarded; connection 1 listens to them, connection 2 to CLIENT_CLOSED.  The last round both accepts a connection and
delivers a frame, and connection 2 — not writable at the previous `select` — is writable now.  The INFO line of `accept`
goes to connection 1, whose socket is broken: it is dropped, and the CLIENT_CLOSED notice about it is *not* written to
connection 2, because `run()` samples `self.wlist` only after the accept branch: readiness there is the previous poll's.
The Spec judges the stretch before the first frame read by that set (`Spec.roundBody`), and has nothing to object to. -/
def exStale : List Round :=
  [{ accept := true }, { accept := true }, { accept := true },
   { reads := [{ uid := 1, h := { k := 1, mtype := 15, nbytes := 4 }, avail := 4, pay := [44, 0, 0, 0] }], writable := [1, 2, 3] },
   { reads := [{ uid := 2, h := { k := 2, mtype := 15, nbytes := 4 }, avail := 4, pay := [33, 0, 0, 0] }], writable := [1, 2, 3] },
   { reads := [{ uid := 3, h := { k := 3, mtype := 5000 } }], writable := [1, 3] },
   { accept := true, failSet := [(1, some .hdr)], reads := [{ uid := 3, h := { k := 4, mtype := 5000 } }],
     writable := [1, 2, 3, 4] }]
example : (modelObs { logLevel := 20 } exStale).getLast? = some [.wfail 1, .close 1, .rd 3] := by decide +kernel
example : (Spec.runSpec { logLevel := 20 } exStale (Pyrtma.Drv.Manager.modelRun { logLevel := 20 } exStale).1 none).errs = [] := by
  decide +kernel

/-- …and the periodic section by the current one.  Connection 1 is a logger that listens to TIMING_MESSAGE, connection 2
listens to CLIENT_CLOSED and was writable at the previous poll.  The last round accepts a connection and reads nothing
(so the manager does not poll: nobody is writable), the TIMING report is due and goes to the logger, whose socket is
broken: it is dropped, and nobody but loggers can be handed the notice.  No frame is read, the whole round is one stretch
of events: the Spec counts as ready only what is ready by both polls. -/
def exTick : List Round :=
  [{ accept := true }, { accept := true }, { accept := true },
   { reads := [{ uid := 1, h := { k := 1, mtype := 4, nbytes := 44 }, avail := 44,
                 pay := [1, 0, 0, 0, 0, 0, 11, 0, 7, 0, 0, 0] }], writable := [1, 2, 3] },
   { reads := [{ uid := 1, h := { k := 2, mtype := 15, nbytes := 4 }, avail := 4, pay := [80, 0, 0, 0] }], writable := [1, 2, 3] },
   { reads := [{ uid := 2, h := { k := 3, mtype := 15, nbytes := 4 }, avail := 4, pay := [33, 0, 0, 0] }], writable := [1, 2, 3] },
   { accept := true, dt := 2000, failSet := [(1, some .hdr)], writable := [1, 2, 3, 4] }]
example : (modelObs {} exTick).getLast? = some [.wfail 1, .close 1] := by decide +kernel
example : (Spec.runSpec {} exTick (Pyrtma.Drv.Manager.modelRun {} exTick).1 none).errs = [] := by decide +kernel

/-- a history in which connection 1 is accepted, resets while its header is read, and connection 2 lives on -/
def exRounds : List Round :=
  [{ accept := true }, { accept := true }, { reads := [{ uid := 1, hdrErr := true }], writable := [1, 2] },
   { reads := [{ uid := 2, h := { mtype := 1234, nbytes := 0 } }], writable := [2] }]
example : closeCnt (run {} exRounds).out 1 = 1 ∧ closeCnt (run {} exRounds).out 2 = 0 ∧
          isOpen (run {} exRounds) 2 = true ∧ isOpen (run {} exRounds) 1 = false := by decide

def exState : State :=
  { mods := [{ uid := 0, connected := true }, { uid := 1, modId := 10, connected := true, subs := [5000], isLogger := true },
             { uid := 2, modId := 11, connected := true, subs := [33] }],
    idx := [(5000, [1]), (33, [2])], loggers := [1], wlist := [1, 2], nextUid := 2 }
example : (removeModule {} (fwdTop {}) exState 1).mods.map (·.uid) = [0, 2] ∧
          (removeModule {} (fwdTop {}) exState 1).loggers = [] ∧
          idxGet (removeModule {} (fwdTop {}) exState 1).idx 5000 = [] ∧
          (removeModule {} (fwdTop {}) exState 1).out =
            [.close 1, .send 2 1 (closedFrame {} { uid := 1, modId := 10, subs := [5000], isLogger := true })] := by decide

end Pyrtma.C07
