import Pyrtma.Proofs.Emit
import Pyrtma.Props.C04tables
/-!
# C15 — accepted definitions yield outputs that load in their language

Theorems about `Model/Emit.lean` (`elaborate` = the registry-building part of `Parser.parse_text`, `emit` = the four
back ends, `loads` = the evaluation discipline of each target language).
-/
namespace Pyrtma.C15
open Pyrtma.Emit Pyrtma.Layout

theorem check_error_alignment (ap : Bool) {fs : List Fld} (hw : wfInput fs = true) (hne : fs ≠ []) {e : Layout.Err}
    (h : checkAlignment ap fs = .error e) : e = .alignment := by
  cases hl : lead ap fs 0 with
  | error e' =>
    have := C11.lead_error_is_alignment ap fs 0 e' hl
    simp [checkAlignment, hl] at h; subst h; exact this
  | ok v =>
    obtain ⟨lf, ptr⟩ := v
    rw [check_closed ap fs hw hne hl] at h
    unfold closed at h
    simp only at h
    split at h
    · simp at h
    · split at h
      · simp at h; exact h.symm
      · simp at h

/-- `validate_msg_def` on a non-empty, well-formed field list never ends in an internal error -/
theorem layoutDef_not_internal {T : Tables} (hC : TablesCt T) {R : Reg} {ap : Bool} {fs : List FieldR}
    (hf : ∀ x ∈ fs, AlDiv x.align x.esize) (hne : fs.isEmpty = false) : layoutDef T R ap fs ≠ .error .internal := by
  unfold layoutDef
  rw [if_neg (by simp [hne])]
  have hw := toFld_wf hf
  have hne' : fs.map FieldR.toFld ≠ [] := by cases fs <;> simp_all
  split
  · simp
  · rename_i e hna hc
    have := check_error_alignment ap hw hne' hc
    exact absurd this hna
  · rename_i o hc
    have h2 : T.charName ∈ T.parserCt := by simpa using hC.2
    simp [ctOk_true hC, h2]
    split <;> simp

theorem elabFields_not_internal {T : Tables} {R : Reg} :
    ∀ (fs : List (Name × Name × Option Int)),
      (fs.all (fun f => match lookupTy T R f.2.1 with | some (_, _, _, sg) => !sg | none => true)) = true →
      elabFields T R fs ≠ .error .internal
  | [], _ => by simp [elabFields]
  | f :: fs, h => by
    simp only [List.all_cons, Bool.and_eq_true] at h
    unfold elabFields
    have ih := elabFields_not_internal fs h.2
    split
    · rename_i e he
      unfold elabField at he
      split at he
      · simp at he; subst he; simp
      · rename_i k al es sg hl
        have h1 := h.1
        simp [hl] at h1
        subst h1
        simp at he
        split at he
        · simp at he
        · split at he
          · simp at he; subst he; simp
          · simp at he
    · split
      · rename_i e he
        intro h'; simp at h'; subst h'; exact ih he
      · simp

/-- **`compile_total` (parse half).**  For tables in which the sizes are 1/2/4/8 and the parser's ctypes table is
total, the parse of a closure that uses only documented constructs never ends in an exception that is not a
`ParserError`: `elaborate` never returns `internal`, whatever the items, their order, the nesting depth, the array
lengths or the `auto_pad` setting.  (Name/id conflicts — C12 — are outside this model.) -/
theorem compile_total {T : Tables} (hT : TablesWf T) (hC : TablesCt T) (ap : Bool) :
    ∀ (items : List (Bool × Item)) (R : Reg), RegWf R → documented T ap items R = true →
      elaborate T ap items R ≠ .error .internal
  | [], R, _, _ => by simp [elaborate]
  | (c, it) :: r, R, hR, hd => by
    unfold documented at hd
    simp only [Bool.and_eq_true] at hd
    unfold elaborate
    split
    · rename_i e he
      intro h; simp at h; subst h
      -- the item itself failed with `internal`: impossible
      cases it with
      | const n v => simp [elabItem] at he
      | strConst n s => simp [elabItem] at he
      | hostId n v => simp [elabItem] at he
      | moduleId n v => simp [elabItem] at he
      | signal n id h => simp only [elabItem] at he; split at he <;> simp at he
      | reserved n id h => simp only [elabItem] at he; split at he <;> simp at he
      | alias n t =>
        simp only [elabItem] at he
        unfold elabAlias at he
        split at he
        · simp at he
        · split at he
          · simp at he
          · split at he <;> simp at he
      | struct n hsh f =>
        have hdoc := hd.1
        simp only [itemDocumented, specDocumented, Bool.and_eq_true] at hdoc
        simp only [elabItem] at he
        split at he
        · rename_i e' hs
          simp at he; subst he
          cases f with
          | list fs => simp only [specFields] at hs; exact elabFields_not_internal fs hdoc.1 hs
          | reuse m =>
            simp only [specFields] at hs
            split at hs
            · simp at hs
            · split at hs <;> simp at hs
        · rename_i fs hfs
          have hne : fs.isEmpty = false := by have := hdoc.2; simp [hfs] at this; simpa using this
          split at he
          · rename_i e' hl
            simp at he; subst he
            exact layoutDef_not_internal hC (specFields_wf hT hR hfs) hne hl
          · simp at he
      | message n id hsh f =>
        have hdoc := hd.1
        simp only [itemDocumented, specDocumented, Bool.and_eq_true] at hdoc
        simp only [elabItem] at he
        split at he
        · simp at he
        split at he
        · rename_i e' hs
          simp at he; subst he
          cases f with
          | list fs => simp only [specFields] at hs; exact elabFields_not_internal fs hdoc.1 hs
          | reuse m =>
            simp only [specFields] at hs
            split at hs
            · simp at hs
            · split at hs <;> simp at hs
        · rename_i fs hfs
          have hne : fs.isEmpty = false := by have := hdoc.2; simp [hfs] at this; simpa using this
          split at he
          · rename_i e' hl
            simp at he; subst he
            exact layoutDef_not_internal hC (specFields_wf hT hR hfs) hne hl
          · simp at he
    · rename_i R1 h1
      have h2 := hd.2
      simp [h1] at h2
      exact compile_total hT hC ap r R1 (elabItem_wf hT hR h1) h2

/-- **`js_fresh`.**  Every array field of every factory the JavaScript back end prints is built by evaluating the
element factory once per element (`Array.from({length: n}, () => f())`), for every registry. -/
theorem jsField_fresh (T : Tables) (R : Reg) (f : FieldR) : fieldFreshOk (jsField T R f) = true := by
  unfold jsField fieldFreshOk
  split <;> (try split) <;> simp <;> split <;> simp_all

theorem js_fresh (T : Tables) (R : Reg) : jsFresh (emitJs T R) = true := by
  have hd : ∀ sp d, stmtFresh (jsDef T R sp d) = true := by
    intro sp d; simp [stmtFresh, jsDef, jsField_fresh]
  have ha : ∀ a, stmtFresh (jsAlias T R a) = true := by
    intro a; unfold jsAlias refAlias; split <;> (try split) <;> (try split) <;> (try split) <;> simp [stmtFresh]
  unfold jsFresh emitJs
  simp only [List.all_append, List.all_map, Bool.and_eq_true, List.all_eq_true]
  refine ⟨⟨⟨⟨⟨⟨⟨⟨⟨⟨⟨?_, ?_⟩, ?_⟩, ?_⟩, ?_⟩, ?_⟩, ?_⟩, ?_⟩, ?_⟩, ?_⟩, ?_⟩, ?_⟩ <;> intro x _ <;>
    first | exact hd _ _ | exact ha _ | (simp at *; try (subst_vars; rfl)) | rfl

end Pyrtma.C15

namespace Pyrtma.C15
open Pyrtma.Emit Pyrtma.Emit.Inst Pyrtma.Layout

instance : DecidablePred Al := fun a => by unfold Al; infer_instance

theorem tables_wf : TablesWf tables := by unfold TablesWf; decide +kernel

theorem tables_ct : TablesCt tables := by unfold TablesCt; decide +kernel

/-- `compile_total` for the tables of the working tree (regenerated on every run): in particular every native type
name the parser accepts is known to its own size check — the statement is false while `signed char` is missing there. -/
theorem compile_total_inst (ap : Bool) (items : List (Bool × Item)) (h : documented tables ap items {} = true) :
    elaborate tables ap items {} ≠ .error .internal :=
  compile_total tables_wf tables_ct ap items {} regWf_empty h

/-! ### Loadability

Full statement (`loadable`): `elaborate T ap items {} = .ok R → ∀ l, progBad (emit T R l) = false ∧ loads l (emit T R l) = true`.
It is **false** for the emission order of the code (aliases, then structs, then messages) — refuted below with the two
concrete closures of the open findings C15-F3 / C15-F4 — and true for the closures outside their signatures, which
is what the harness checks on the real outputs with CPython, gcc, node and the `.m` interpreter.  A general proof of
the restricted statement (an induction over the emission order with the parse-order invariant "defined before used")
is not done; `js_fresh` and `compile_total` above are proved at full strength. -/

/-- imported file: `struct Inner {uint8 p; int32 q}`; importer: `alias AS = Inner`, `struct Outer {AS d}` -/
def f3Items : List (Bool × Item) :=
  [(false, .struct 500 1 (.list [(501, idOf "uint8", none), (502, idOf "int32", none)])),
   (false, .alias 503 500),
   (false, .struct 504 2 (.list [(505, 503, none)]))]

/-- **C15-F3 refuted with a witness**: the closure parses, no back end raises, and the Python, C, JavaScript and
MATLAB programs all fail to load (the alias line precedes the struct it names). -/
theorem loadable_refuted_alias_of_struct :
    (match elaborate tables true f3Items {} with
     | .ok R => [Lang.py, .c, .js, .m].map (fun l => (progBad (emit tables R l), loads l (emit tables R l)))
     | .error _ => []) = [(false, false), (false, false), (false, false), (false, false)] := by decide +kernel

/-- imported file: `message BM {double v}`; importer: `struct Holder {BM m}`, `message MH {Holder h}` -/
def f4Items : List (Bool × Item) :=
  [(false, .message 500 1801 1 (.list [(501, idOf "double", none)])),
   (false, .struct 502 2 (.list [(503, 500, none)])),
   (false, .message 504 1800 3 (.list [(505, 502, none)]))]

/-- **C15-F4 refuted with a witness**: Python, C and MATLAB fail (struct printed before the message), JavaScript —
whose factories resolve references when called — loads. -/
theorem loadable_refuted_struct_uses_message :
    (match elaborate tables true f4Items {} with
     | .ok R => [Lang.py, .c, .js, .m].map (fun l => (progBad (emit tables R l), loads l (emit tables R l)))
     | .error _ => []) = [(false, false), (false, false), (false, true), (false, false)] := by decide +kernel

/-- non-vacuity of the positive side: a closure with an alias chain, nesting, arrays of structs, a message in a
message and a signal loads in all four languages (MATLAB's trailer reference to RTMA_MSG_HEADER aside: the closure
defines it) -/
theorem loadable_witness :
    (match elaborate tables true
        [(false, .alias 510 (idOf "int16")), (false, .alias 511 510),
         (false, .struct (idOf "RTMA_MSG_HEADER") 1 (.list [(501, 511, none), (502, idOf "double", some 2)])),
         (false, .struct 503 2 (.list [(504, idOf "RTMA_MSG_HEADER", some 3), (505, idOf "char", some 5)])),
         (false, .message 506 1000 3 (.list [(507, 503, none)])),
         (false, .signal 508 1001 4),
         (false, .message 509 1002 5 (.list [(512, 506, some 2), (513, 511, none)]))] {} with
     | .ok R => [Lang.py, .c, .js, .m].all (fun l => !progBad (emit tables R l) && loads l (emit tables R l)) &&
                documented tables true [] R
     | .error _ => false) = true := by decide +kernel

end Pyrtma.C15
