import Pyrtma.Proofs.Emit
import Pyrtma.Proofs.Loads
import Pyrtma.Props.C04tables
/-!
# C15 — accepted definitions yield outputs that load in their language

Theorems about `Model/Emit.lean` (`elaborate` = the registry-building part of `Parser.parse_text`, `emit` = the four
back ends, `loads` = the evaluation discipline of each target language).

* `compile_total(_inst)` — the parse of a documented closure never ends in an internal error;
* `no_backend_error` — for every closure that parses (distinct names) no back end raises;
* `loadable` — **for every registry the parser can produce**, outside the two finding classes, the Python module
  imports, the C header compiles after `RTMA.h`, the JavaScript module loads with callable factories, the MATLAB script
  reads only what it has assigned (closures that define `RTMA_MSG_HEADER`);
* `python_loads_iff`, `matlab_loads_iff`, `javascript_loads_iff` — the side conditions are exact: the output loads
  **iff** `R.aliasOfStruct = false` (class of the open finding C15-F3) and, for Python / MATLAB, `R.structUsesMsg = false`
  (class of C15-F4); JavaScript is not affected by the second (its factories resolve names when called);
* `js_fresh` — arrays of objects are built with one factory call per element;
* kernel-evaluated witnesses of both finding classes (`loadable_refuted_*`) and of the positive side.
Supporting proofs: `Proofs/Scoped.lean` (`RegOK`: every alias / field of the registry names what the parser resolved it
to, structs and messages refer backwards; disjoint name tables), `Proofs/Loads.lean` (`loadEager` / `loadJs` calculus,
`eager_loads`, `eager_necessary`, the four printers).
Decided on the implementation every run: that the real `.py/.h/.js/.m` are the model's statements (CORR emit.*), that
CPython / gcc / node / the `.m` interpreter agree with `loads` on them (CORR loads.*), and that the tools' verdicts are
what the theorems predict from the model's registry alone (CORR predict.*).  Partial: "loads in its language" is those
tools; no converse for C; identifiers are assumed legal in all four languages.
-/
namespace Pyrtma.C15
open Pyrtma.Emit Pyrtma.Layout

theorem check_error_alignment (ap : Bool) {fs : List Fld} (hw : wfInput fs = true) (hne : fs ≠ []) {e : Layout.Err}
    (h : checkAlignment ap fs = .error e) : e = .alignment := by
  cases hl : lead ap fs 0 with
  | error e' =>
    have := C11.lead_error_is_alignment ap fs 0 e' hl
    simp [checkAlignment, hl] at h; subst h; exact this
  | ok v =>
    obtain ⟨lf, ptr⟩ := v
    rw [check_closed ap fs hw hne hl] at h
    unfold closed at h
    simp only at h
    split at h
    · simp at h
    · split at h
      · simp at h; exact h.symm
      · simp at h

/-- `validate_msg_def` on a non-empty, well-formed field list never ends in an internal error -/
theorem layoutDef_not_internal {T : Tables} (hC : TablesCt T) {R : Reg} {ap : Bool} {fs : List FieldR}
    (hf : ∀ x ∈ fs, AlDiv x.align x.esize) (hne : fs.isEmpty = false) : layoutDef T R ap fs ≠ .error .internal := by
  unfold layoutDef
  rw [if_neg (by simp [hne])]
  have hw := toFld_wf hf
  have hne' : fs.map FieldR.toFld ≠ [] := by cases fs <;> simp_all
  split
  · simp
  · rename_i e hna hc
    have := check_error_alignment ap hw hne' hc
    exact absurd this hna
  · rename_i o hc
    have h2 : T.charName ∈ T.parserCt := by simpa using hC.2
    simp [ctOk_true hC, h2]
    split <;> simp

theorem elabFields_not_internal {T : Tables} {R : Reg} :
    ∀ (fs : List (Name × Name × Option Int)),
      (fs.all (fun f => match lookupTy T R f.2.1 with | some (_, _, _, sg) => !sg | none => true)) = true →
      elabFields T R fs ≠ .error .internal
  | [], _ => by simp [elabFields]
  | f :: fs, h => by
    simp only [List.all_cons, Bool.and_eq_true] at h
    unfold elabFields
    have ih := elabFields_not_internal fs h.2
    split
    · rename_i e he
      unfold elabField at he
      split at he
      · simp at he; subst he; simp
      · rename_i k al es sg hl
        have h1 := h.1
        simp [hl] at h1
        subst h1
        simp at he
        split at he
        · simp at he
        · split at he
          · simp at he; subst he; simp
          · simp at he
    · split
      · rename_i e he
        intro h'; simp at h'; subst h'; exact ih he
      · simp

/-- **`compile_total` (parse half).**  For tables in which the sizes are 1/2/4/8 and the parser's ctypes table is
total, the parse of a closure that uses only documented constructs never ends in an exception that is not a
`ParserError`: `elaborate` never returns `internal`, whatever the items, their order, the nesting depth, the array
lengths or the `auto_pad` setting.  (Name/id conflicts — C12 — are outside this model.) -/
theorem compile_total {T : Tables} (hT : TablesWf T) (hC : TablesCt T) (ap : Bool) :
    ∀ (items : List (Bool × Item)) (R : Reg), RegWf R → documented T ap items R = true →
      elaborate T ap items R ≠ .error .internal
  | [], R, _, _ => by simp [elaborate]
  | (c, it) :: r, R, hR, hd => by
    unfold documented at hd
    simp only [Bool.and_eq_true] at hd
    unfold elaborate
    split
    · rename_i e he
      intro h; simp at h; subst h
      -- the item itself failed with `internal`: impossible
      cases it with
      | const n v => simp [elabItem] at he
      | strConst n s => simp [elabItem] at he
      | hostId n v => simp [elabItem] at he
      | moduleId n v => simp [elabItem] at he
      | signal n id h => simp only [elabItem] at he; split at he <;> simp at he
      | reserved n id h => simp only [elabItem] at he; split at he <;> simp at he
      | alias n t =>
        simp only [elabItem] at he
        unfold elabAlias at he
        split at he
        · simp at he
        · split at he
          · simp at he
          · split at he <;> simp at he
      | struct n hsh f =>
        have hdoc := hd.1
        simp only [itemDocumented, specDocumented, Bool.and_eq_true] at hdoc
        simp only [elabItem] at he
        split at he
        · rename_i e' hs
          simp at he; subst he
          cases f with
          | list fs => simp only [specFields] at hs; exact elabFields_not_internal fs hdoc.1 hs
          | reuse m =>
            simp only [specFields] at hs
            split at hs
            · simp at hs
            · split at hs <;> simp at hs
        · rename_i fs hfs
          have hne : fs.isEmpty = false := by have := hdoc.2; simp [hfs] at this; simpa using this
          split at he
          · rename_i e' hl
            simp at he; subst he
            exact layoutDef_not_internal hC (specFields_wf hT hR hfs) hne hl
          · simp at he
      | message n id hsh f =>
        have hdoc := hd.1
        simp only [itemDocumented, specDocumented, Bool.and_eq_true] at hdoc
        simp only [elabItem] at he
        split at he
        · simp at he
        split at he
        · rename_i e' hs
          simp at he; subst he
          cases f with
          | list fs => simp only [specFields] at hs; exact elabFields_not_internal fs hdoc.1 hs
          | reuse m =>
            simp only [specFields] at hs
            split at hs
            · simp at hs
            · split at hs <;> simp at hs
        · rename_i fs hfs
          have hne : fs.isEmpty = false := by have := hdoc.2; simp [hfs] at this; simpa using this
          split at he
          · rename_i e' hl
            simp at he; subst he
            exact layoutDef_not_internal hC (specFields_wf hT hR hfs) hne hl
          · simp at he
    · rename_i R1 h1
      have h2 := hd.2
      simp [h1] at h2
      exact compile_total hT hC ap r R1 (elabItem_wf hT hR h1) h2

/-- **`js_fresh`.**  Every array field of every factory the JavaScript back end prints is built by evaluating the
element factory once per element (`Array.from({length: n}, () => f())`), for every registry. -/
theorem jsField_fresh (T : Tables) (R : Reg) (f : FieldR) : fieldFreshOk (jsField T R f) = true := by
  unfold jsField fieldFreshOk
  split <;> (try split) <;> simp <;> split <;> simp_all

theorem js_fresh (T : Tables) (R : Reg) : jsFresh (emitJs T R) = true := by
  have hd : ∀ sp d, stmtFresh (jsDef T R sp d) = true := by
    intro sp d; simp [stmtFresh, jsDef, jsField_fresh]
  have ha : ∀ a, stmtFresh (jsAlias T R a) = true := by
    intro a; unfold jsAlias refAlias; split <;> (try split) <;> (try split) <;> (try split) <;> simp [stmtFresh]
  unfold jsFresh emitJs
  simp only [List.all_append, List.all_map, Bool.and_eq_true, List.all_eq_true]
  refine ⟨⟨⟨⟨⟨⟨⟨⟨⟨⟨⟨?_, ?_⟩, ?_⟩, ?_⟩, ?_⟩, ?_⟩, ?_⟩, ?_⟩, ?_⟩, ?_⟩, ?_⟩, ?_⟩ <;> intro x _ <;>
    first | exact hd _ _ | exact ha _ | (simp at *; try (subst_vars; rfl)) | rfl

end Pyrtma.C15

namespace Pyrtma.C15
open Pyrtma.Emit Pyrtma.Emit.Inst Pyrtma.Layout

instance : DecidablePred Al := fun a => by unfold Al; infer_instance

theorem tables_wf : TablesWf tables := by unfold TablesWf; decide +kernel

theorem tables_ct : TablesCt tables := by unfold TablesCt; decide +kernel

/-- `compile_total` for the tables of the working tree (regenerated on every run): in particular every native type
name the parser accepts is known to its own size check — the statement is false while `signed char` is missing there. -/
theorem compile_total_inst (ap : Bool) (items : List (Bool × Item)) (h : documented tables ap items {} = true) :
    elaborate tables ap items {} ≠ .error .internal :=
  compile_total tables_wf tables_ct ap items {} regWf_empty h

/-! ### Loadability (`Proofs/Scoped.lean`: the registries are well scoped; `Proofs/Loads.lean`: the four programs)

`loads l (emit T R l)` is the evaluation discipline of the target language applied to the model's program (Python module
body, C translation unit after `RTMA.h`, MATLAB script: every name must have been defined by an earlier statement;
JavaScript: every name space initialised before it is written, every factory refers to callables).  For every closure
that parses and whose alias / struct / message names are distinct (C12), with the tables of the working tree:

* no back end raises (`no_backend_error`);
* `loadable`: under the two side conditions `R.aliasOfStruct = false` (no alias resolves to a struct) and
  `R.structUsesMsg = false` (no struct has a message-typed field) all four outputs load;
* the side conditions are *exactly* the classes of the open findings: `python_loads_iff`, `matlab_loads_iff`
  (both conditions), `javascript_loads_iff` (the first only: factories resolve names when called).
  For C the converse is not stated (what `RTMA.h` provides can rescue a header), only `loadable`. -/

theorem tables_total : TablesTotal tables := tablesTotal_of (by decide +kernel)

/-- what `elaborate` guarantees about the registry it returns -/
theorem elaborate_ok_facts {ap : Bool} {items : List (Bool × Item)} {R : Reg}
    (h : elaborate tables ap items {} = .ok R) (hnd : (defNames items).Nodup) :
    RegOK tables R ∧ Disj R ∧ StructsNE R :=
  ⟨elaborate_regOK tables_total.char items (regOK_empty tables) h, elaborate_disj h hnd,
   elaborate_structsNE tables_wf items regWf_empty (by intro d hd; simp at hd) h⟩

/-- **`no_backend_error`.**  For every closure that parses (names distinct), none of the four back ends hits its
`raise RuntimeError("Unknown field ...")` / `KeyError` paths. -/
theorem no_backend_error {ap : Bool} {items : List (Bool × Item)} {R : Reg}
    (h : elaborate tables ap items {} = .ok R) (hnd : (defNames items).Nodup) (l : Lang) :
    progBad (emit tables R l) = false := by
  obtain ⟨hR, hD, _⟩ := elaborate_ok_facts h hnd
  cases l
  · exact py_notBad hR hD tables_total
  · exact c_notBad hR hD tables_total
  · exact js_notBad hR hD tables_total
  · exact m_notBad hR hD tables_total

theorem sideA {R : Reg} (h : R.aliasOfStruct = false) : ∀ a ∈ R.aliases, a.isStruct = false := by
  simpa [Reg.aliasOfStruct] using h

theorem sideM {R : Reg} (h : R.structUsesMsg = false) : ∀ d ∈ R.structs, ∀ f ∈ d.fields, f.kind ≠ .message := by
  simpa [Reg.structUsesMsg] using h

/-- **`loadable`.**  Every closure that parses (names distinct) and is outside the classes of C15-F3 / C15-F4 yields
a Python module that imports, a C header that compiles after `RTMA.h` (`cPre R`: the core definitions), a JavaScript
module that loads with callable factories, and — if it defines `RTMA_MSG_HEADER` — a MATLAB script that only reads
what it has assigned. -/
theorem loadable {ap : Bool} {items : List (Bool × Item)} {R : Reg}
    (h : elaborate tables ap items {} = .ok R) (hnd : (defNames items).Nodup)
    (hA : R.aliasOfStruct = false) (hM : R.structUsesMsg = false) :
    loads .py (emit tables R .py) = true ∧ loads .c (emit tables R .c) (cPre R) = true ∧
    loads .js (emit tables R .js) = true ∧
    (tables.hdrName ∈ structNames R → loads .m (emit tables R .m) = true) := by
  obtain ⟨hR, hD, hN⟩ := elaborate_ok_facts h hnd
  exact ⟨py_loads hR hD tables_total (sideA hA) (sideM hM), c_loads hR hD tables_total (sideA hA) (sideM hM) hN,
    js_loads hR hD tables_total (sideA hA), m_loads hR hD tables_total (sideA hA) (sideM hM)⟩

/-- **`python_loads_iff`**: the generated Python module imports iff the closure is outside both finding classes -/
theorem python_loads_iff {ap : Bool} {items : List (Bool × Item)} {R : Reg}
    (h : elaborate tables ap items {} = .ok R) (hnd : (defNames items).Nodup) :
    loads .py (emit tables R .py) = true ↔ (R.aliasOfStruct = false ∧ R.structUsesMsg = false) := by
  obtain ⟨hR, hD, _⟩ := elaborate_ok_facts h hnd
  rw [show emit tables R .py = emitPy tables R from rfl, py_loads_iff hR hD tables_total]
  simp [Reg.aliasOfStruct, Reg.structUsesMsg]

/-- **`matlab_loads_iff`** (closures that define `RTMA_MSG_HEADER`) -/
theorem matlab_loads_iff {ap : Bool} {items : List (Bool × Item)} {R : Reg}
    (h : elaborate tables ap items {} = .ok R) (hnd : (defNames items).Nodup) (hh : tables.hdrName ∈ structNames R) :
    loads .m (emit tables R .m) = true ↔ (R.aliasOfStruct = false ∧ R.structUsesMsg = false) := by
  obtain ⟨hR, hD, _⟩ := elaborate_ok_facts h hnd
  rw [show emit tables R .m = emitM tables R from rfl, m_loads_iff hR hD tables_total hh]
  simp [Reg.aliasOfStruct, Reg.structUsesMsg]

/-- **`javascript_loads_iff`**: a struct using a message does not hurt (factories resolve names when called), an alias of a
struct does (it is stored under `RTMA.SDF` before `RTMA.SDF` exists) -/
theorem javascript_loads_iff {ap : Bool} {items : List (Bool × Item)} {R : Reg}
    (h : elaborate tables ap items {} = .ok R) (hnd : (defNames items).Nodup) :
    loads .js (emit tables R .js) = true ↔ R.aliasOfStruct = false := by
  obtain ⟨hR, hD, _⟩ := elaborate_ok_facts h hnd
  rw [show emit tables R .js = emitJs tables R from rfl, js_loads_iff hR hD tables_total]
  simp [Reg.aliasOfStruct]

/-- imported file: `struct Inner {uint8 p; int32 q}`; importer: `alias AS = Inner`, `struct Outer {AS d}` -/
def f3Items : List (Bool × Item) :=
  [(false, .struct 500 1 (.list [(501, idOf "uint8", none), (502, idOf "int32", none)])),
   (false, .alias 503 500),
   (false, .struct 504 2 (.list [(505, 503, none)]))]

/-- **C15-F3 refuted with a witness**: the closure parses, no back end raises, and the Python, C, JavaScript and
MATLAB programs all fail to load (the alias line precedes the struct it names). -/
theorem loadable_refuted_alias_of_struct :
    (match elaborate tables true f3Items {} with
     | .ok R => [Lang.py, .c, .js, .m].map (fun l => (progBad (emit tables R l), loads l (emit tables R l)))
     | .error _ => []) = [(false, false), (false, false), (false, false), (false, false)] := by decide +kernel

/-- imported file: `message BM {double v}`; importer: `struct Holder {BM m}`, `message MH {Holder h}` -/
def f4Items : List (Bool × Item) :=
  [(false, .message 500 1801 1 (.list [(501, idOf "double", none)])),
   (false, .struct 502 2 (.list [(503, 500, none)])),
   (false, .message 504 1800 3 (.list [(505, 502, none)]))]

/-- **C15-F4 refuted with a witness**: Python, C and MATLAB fail (struct printed before the message), JavaScript —
whose factories resolve references when called — loads. -/
theorem loadable_refuted_struct_uses_message :
    (match elaborate tables true f4Items {} with
     | .ok R => [Lang.py, .c, .js, .m].map (fun l => (progBad (emit tables R l), loads l (emit tables R l)))
     | .error _ => []) = [(false, false), (false, false), (false, true), (false, false)] := by decide +kernel

/-- non-vacuity of the positive side: a closure with an alias chain, nesting, arrays of structs, a message in a
message and a signal loads in all four languages (MATLAB's trailer reference to RTMA_MSG_HEADER aside: the closure
defines it) -/
theorem loadable_witness :
    (match elaborate tables true
        [(false, .alias 510 (idOf "int16")), (false, .alias 511 510),
         (false, .struct (idOf "RTMA_MSG_HEADER") 1 (.list [(501, 511, none), (502, idOf "double", some 2)])),
         (false, .struct 503 2 (.list [(504, idOf "RTMA_MSG_HEADER", some 3), (505, idOf "char", some 5)])),
         (false, .message 506 1000 3 (.list [(507, 503, none)])),
         (false, .signal 508 1001 4),
         (false, .message 509 1002 5 (.list [(512, 506, some 2), (513, 511, none)]))] {} with
     | .ok R => [Lang.py, .c, .js, .m].all (fun l => !progBad (emit tables R l) && loads l (emit tables R l)) &&
                documented tables true [] R &&
                -- the hypotheses of `loadable` hold for it
                !R.aliasOfStruct && !R.structUsesMsg && (structNames R).contains tables.hdrName
     | .error _ => false) = true := by decide +kernel

/-- the two witnesses are in the finding classes the iff theorems name, with distinct names -/
example : (match elaborate tables true f3Items {}, elaborate tables true f4Items {} with
    | .ok R3, .ok R4 => R3.aliasOfStruct && !R3.structUsesMsg && !R4.aliasOfStruct && R4.structUsesMsg &&
        decide ((defNames f3Items).Nodup) && decide ((defNames f4Items).Nodup)
    | _, _ => false) = true := by decide +kernel

end Pyrtma.C15
