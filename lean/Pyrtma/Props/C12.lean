import Pyrtma.Proofs.Registry
import Pyrtma.Proofs.RegistryDetect
import Pyrtma.Proofs.ResRegex
import Pyrtma.Proofs.ImportPath
/-!
# C12 — id and name conflicts are always detected, never invented

Theorems about `Model/Registry.lean` (the model of `Parser.parse / parse_file / parse_text / handle_*`), for **every**
table of files, every import relation on it (repeats, diamonds, cycles, self imports, missing files), every root,
with and without the shipped core definitions, every `MAX_MESSAGE_TYPES`.

The reserved-id syntax is covered as it is parsed: `Model/ResRegex.lean` holds the regular expression of
`handle_reserve` (pattern as data, backtracking matcher), `reserved_regex_is_rangeSearch` proves it equal to the scan
`rangeSearch` on every string, `reserved_accepts_iff / reserved_sound / reserved_canonical / reserved_text_reserves /
reserved_rejected` characterise the accepted language, the numbers read and what is rejected.  Not a theorem: that this
matcher is CPython's `re` (decided on the implementation: the real `re.search` with the pattern read from the source,
and `\s`, `[0-9]` over every code point, on every run).

Import paths are inside the model too: `Model/ImportPath.lean` turns the *texts* of the `imports:` entries into files the
way `handle_import` / `parse_file` do (pathlib parsing, `is_dir()`, the suffix test, `(cwd / text).resolve()` as the key of
`included_files`, cwd = directory of the importing file) and lowers a path-level input to the index-level input the
theorems below are about.  `each_path_read_once`: for pairwise distinct file paths the paths opened in one compilation
are pairwise distinct, whatever spellings reach them — no side condition, because the real key is the resolved path;
`spelling_*` say which spellings share a key; `imports_by_any_spelling_are_read` is the other inclusion.  Out of scope:
symbolic links to directories / inside a path, hard links, case-insensitive file systems, `.yml` (interactive prompt).

Reading guide: `flatten i` (Spec) is the import closure as the property describes it; `flawsOf` are the declarative
conflict notions (two definitions claiming one key; an id outside its range); `parse i` is the model of the code.
-/
namespace Pyrtma.C12
open Pyrtma.Registry

/-! ## the import walk -/

/-- **The parser's result depends only on the flattened closure.**  Threading `included_files` and the registries
through the recursive `parse_file` is the same as folding the handlers over `flatten i`, the depth-first closure in
which every file occurs once: repeated, diamond-shaped and cyclic imports add nothing. -/
theorem parse_eq_run_flatten (i : Input) : parse i = run i.cfg (flatten i) {} := by
  unfold parse flatten flattenInc
  cases hc : i.cfg.coreOn with
  | false =>
    simp only [Bool.false_eq_true, if_false, List.nil_append]
    rw [parseFile_eq]
    cases run i.cfg (walkFile i.files i.fuel i.root []).1 {} <;> rfl
  | true =>
    simp only [if_true]
    rw [parseFile_eq, run_append]
    cases h1 : run i.cfg (walkFile i.files i.fuel i.core []).1 {} with
    | error e => rfl
    | ok st1 =>
      simp only [lift]
      rw [parseFile_eq]
      cases run i.cfg (walkFile i.files i.fuel i.root (walkFile i.files i.fuel i.core []).2).1 st1 <;> rfl

/-- invariants of the two walks `flatten` is made of -/
theorem flatten_walk (i : Input) :
    WalkOK i.files i.fuel [] (flattenInc i) ∧ (i.root ∈ (flattenInc i).2 ∨ i.files.length ≤ i.root) ∧
    (i.cfg.coreOn = true → i.core ∈ (flattenInc i).2 ∨ i.files.length ≤ i.core) := by
  have hk : ∀ inc : List Nat, i.files.length < i.fuel + inc.length := by intro inc; simp [Input.fuel]; omega
  unfold flattenInc
  cases hc : i.cfg.coreOn with
  | false =>
    simp only [Bool.false_eq_true, if_false, List.nil_append]
    obtain ⟨w, r⟩ := walkFile_ok i.files i.fuel i.root [] List.nodup_nil (by intro x hx; simp at hx)
    exact ⟨w, r (hk _), by simp⟩
  | true =>
    simp only [if_true]
    obtain ⟨wa, ra⟩ := walkFile_ok i.files i.fuel i.core [] List.nodup_nil (by intro x hx; simp at hx)
    obtain ⟨wb, rb⟩ := walkFile_ok i.files i.fuel i.root _ wa.nodup wa.valid
    have hsub : ∀ x ∈ (walkFile i.files i.fuel i.core []).2,
        x ∈ (walkFile i.files i.fuel i.root (walkFile i.files i.fuel i.core []).2).2 := by
      intro x hx; rw [wb.ext]; exact List.mem_append_left _ hx
    refine ⟨⟨wb.nodup, wb.valid, ?_, fun _ => ⟨?_, ?_⟩⟩, rb (hk _), fun _ => ?_⟩
    · rw [wb.ext, wa.ext, enteredOf_append]; simp
    · intro hm; rcases List.mem_append.mp hm with hm | hm
      · exact (wa.fuel (hk _)).1 hm
      · exact (wb.fuel (hk _)).1 hm
    · intro fid f he
      rcases List.mem_append.mp he with he | he
      · exact importsDone_mono (wa.fuel (hk _)).2 hsub fid f he
      · exact (wb.fuel (hk _)).2 fid f he
    · rcases ra (hk _) with h | h
      · exact Or.inl (hsub _ h)
      · exact Or.inr h

/-- **A file reached by several import paths is read once**: no file is opened twice in the closure, whatever the
import relation. -/
theorem flatten_reads_each_file_once (i : Input) : (enteredOf (flatten i)).Nodup := by
  have w := (flatten_walk i).1
  have := w.nodup
  rw [w.ext] at this
  simpa [flatten] using this

/-- **Nothing reachable is skipped**: the root is opened (and the core file when switched on), and every import of
every opened, readable file is opened too (or does not exist) — so every file reachable from the root is read. -/
theorem flatten_import_closed (i : Input) :
    (i.root ∈ enteredOf (flatten i) ∨ i.files.length ≤ i.root) ∧
    (i.cfg.coreOn = true → i.core ∈ enteredOf (flatten i) ∨ i.files.length ≤ i.core) ∧
    ImportsDone i.files (flatten i) (enteredOf (flatten i)) := by
  obtain ⟨w, hr, hc⟩ := flatten_walk i
  have hk : i.files.length < i.fuel + ([] : List Nat).length := by simp [Input.fuel]
  have he : (flattenInc i).2 = enteredOf (flatten i) := by rw [w.ext]; simp [flatten]
  rw [he] at hr hc
  exact ⟨hr, hc, by simpa [he, flatten] using (w.fuel hk).2⟩

/-- the depth bound of the model is never the reason of a failure: `Err.fuel` is unreachable -/
theorem flatten_no_fuel (i : Input) : Ev.fail .fuel ∉ flatten i := by
  have hk : i.files.length < i.fuel + ([] : List Nat).length := by simp [Input.fuel]
  exact ((flatten_walk i).1.fuel hk).1

theorem flatten_fail_kinds (i : Input) (e : Err) (h : Ev.fail e ∈ flatten i) :
    e = .yamlDup ∨ e = .emptyFile ∨ e = .fileNotFound ∨ e = .fileFormat := by
  have hk : walkFailKind e := by
    unfold flatten flattenInc at h
    rcases List.mem_append.mp h with h | h
    · split at h
      · exact walkFile_fails _ _ _ _ _ h
      · simp at h
    · exact walkFile_fails _ _ _ _ _ h
  rcases hk with h1 | h1 | h1 | h1 | h1
  · exact Or.inl h1
  · exact Or.inr (Or.inl h1)
  · exact Or.inr (Or.inr (Or.inl h1))
  · exact Or.inr (Or.inr (Or.inr h1))
  · subst h1; exact absurd h (flatten_no_fuel i)

/-! ## detection is complete -/

theorem dupOf_false_of_nodup {evs : List Ev} (h : (keysOf evs).Nodup) (p : Key → Bool) : dupOf p evs = false := by
  unfold dupOf; rw [hasDupK_false_iff]; exact h.filter _

theorem any_false_of_all {evs : List Ev} {p : Ev → Bool} (h : ∀ ev ∈ evs, p ev = false) : evs.any p = false := by
  rw [List.any_eq_false]; intro ev hev; simp [h ev hev]

theorem foldTables_eq (evs : List Ev) : foldTables {} evs = tablesOf evs := rfl

/-- **Conflicts are always detected; on success exactly the closure is registered.**  If the model accepts, then in
the whole closure no two definitions claim the same key (shared name space of constants / string constants / aliases
/ structs / messages; metadata, host and module names; message ids including signals and every expanded reserved id;
module ids; host ids), every id is inside its range, no mapping had a repeated key — and none of the other modelled
flaws is present.  The registries then hold exactly the definitions of the closure, each once, in closure order. -/
theorem accepted_conflict_free (i : Input) (st : St) (h : parse i = .ok st) :
    (flawsOf i.cfg (flatten i)).conflict = false ∧
    (flawsOf i.cfg (flatten i)).badName = false ∧ (flawsOf i.cfg (flatten i)).notInt = false ∧
    (flawsOf i.cfg (flatten i)).resSyntax = false ∧ (flawsOf i.cfg (flatten i)).resNotList = false ∧
    (flawsOf i.cfg (flatten i)).fileNotFound = false ∧ (flawsOf i.cfg (flatten i)).fileFormat = false ∧
    (flawsOf i.cfg (flatten i)).emptyFile = false ∧
    st = tablesOf (flatten i) := by
  rw [parse_eq_run_flatten] at h
  obtain ⟨hst, hfl, hnd, _⟩ := run_ok h
  have hev : ∀ (p : Ev → Bool), (∀ ev, evFlawless i.cfg ev = true → p ev = false) → (flatten i).any p = false :=
    fun p hp => any_false_of_all (fun ev hev => hp ev (hfl ev hev))
  have hitem : ∀ (q : Item → Bool), (∀ c it, evFlawless i.cfg (.item c it) = true → q it = false) →
      (flatten i).any (onItem q) = false := by
    intro q hq; apply hev; intro ev h1
    cases ev with
    | item c it => exact hq c it h1
    | _ => rfl
  have hfail : ∀ e, (flatten i).any (isFail e) = false := by
    intro e; apply hev; intro ev h1
    cases ev with
    | fail e' => simp [evFlawless] at h1
    | _ => rfl
  refine ⟨?_, ?_, ?_, ?_, ?_, hfail _, hfail _, hfail _, by rw [hst, foldTables_eq]⟩
  · simp only [Flaws.conflict, flawsOf, dupOf_false_of_nodup hnd, hfail, Bool.false_or, Bool.or_false]
    apply hev; intro ev h1
    cases ev with
    | item c it => simp [evFlawless] at h1; simp [evOutOfRange, h1.1.1.1.1]
    | _ => rfl
  · exact hitem _ (fun c it h1 => by simp [evFlawless] at h1; exact h1.1.1.1.2)
  · exact hitem _ (fun c it h1 => by simp [evFlawless] at h1; exact h1.1.1.2)
  · exact hitem _ (fun c it h1 => by simp [evFlawless] at h1; exact h1.1.2)
  · exact hitem _ (fun c it h1 => by simp [evFlawless] at h1; exact h1.2)

/-- contrapositive reading of `accepted_conflict_free`: any of the listed conflicts anywhere in the closure — same
file, parent/child, siblings, distant cousins, first seen through a cycle — makes compilation fail -/
theorem detect_complete (i : Input) (h : (flawsOf i.cfg (flatten i)).conflict = true) : ∃ e, parse i = .error e := by
  cases hp : parse i with
  | error e => exact ⟨e, rfl⟩
  | ok st => have := (accepted_conflict_free i st hp).1; rw [h] at this; cases this

/-! ## detection is sound: never a conflict where there is none -/

theorem shared_reserved_is_flaw {evs : List Ev} (h : Key.shared reservedKey ∈ keysOf evs) :
    evs.any (onItem itemReservedAsName) = true := by
  simp only [keysOf, List.mem_flatMap] at h
  obtain ⟨ev, hev, hk⟩ := h
  rw [List.any_eq_true]
  refine ⟨ev, hev, ?_⟩
  cases ev with
  | item c it =>
    cases it with
    | host n v => cases v <;> simp [evKeys, itemKeys] at hk
    | module n v => cases v <;> simp [evKeys, itemKeys] at hk
    | msg n v => cases v <;> simp [evKeys, itemKeys] at hk <;> simp [onItem, itemReservedAsName, hk]
    | reserved ids => simp [evKeys, itemKeys] at hk
    | mdata n => simp [evKeys, itemKeys] at hk
    | const n => simp [evKeys, itemKeys] at hk; simp [onItem, itemReservedAsName, hk]
    | str n => simp [evKeys, itemKeys] at hk; simp [onItem, itemReservedAsName, hk]
    | alias n => simp [evKeys, itemKeys] at hk; simp [onItem, itemReservedAsName, hk]
    | struct n => simp [evKeys, itemKeys] at hk; simp [onItem, itemReservedAsName, hk]
  | enter n => simp [evKeys] at hk
  | fail e => simp [evKeys] at hk

theorem filter_kind_trivial {e : Err} (h : ∀ k, kindOf e k = false) (l : List Key) : (l.filter (kindOf e)).Nodup := by
  have : l.filter (kindOf e) = [] := List.filter_eq_nil_iff.mpr (fun k _ => by simp [h k])
  rw [this]; exact List.nodup_nil

theorem has_of_dup (cfg : Cfg) (e : Err) (evs : List Ev) (h : ¬ ((keysOf evs).filter (kindOf e)).Nodup) :
    (flawsOf cfg evs).has e = true := by
  have hd : dupOf (kindOf e) evs = true := by unfold dupOf; rw [hasDupK_true_iff]; exact h
  cases e
  case dupName => exact hd
  case msgId => exact hd
  case moduleId => exact hd
  case hostId => exact hd
  all_goals exact absurd (filter_kind_trivial (fun _ => rfl) _) h

/-- **Every rejection is justified by a flaw of its own kind in the closure.**  `DuplicateNameError` only if two
definitions of the closure claim one name of one name space; `MessageIDError` / `ModuleIDError` / `HostIDError`
only if two claim one id of that registry; the range error only if some id is outside its range; and likewise
for every other modelled error.  (`reservedAsName`: a constant / string constant / alias / struct / message
literally named `_RESERVED_` is outside the property's domain — the reserved block is looked up by that key.) -/
theorem rejected_justified (i : Input) (e : Err) (h : parse i = .error e)
    (hres : (flawsOf i.cfg (flatten i)).reservedAsName = false) :
    (flawsOf i.cfg (flatten i)).has e = true := by
  rw [parse_eq_run_flatten] at h
  rcases run_err h with ⟨ev, hev, h1 | h1⟩ | h1 | ⟨k, _, _, _, hreg⟩ | ⟨rfl, h1 | h1⟩
  · have hany : ∀ p : Ev → Bool, p ev = true → (flatten i).any p = true :=
      fun p hp => List.any_eq_true.mpr ⟨ev, hev, hp⟩
    cases e <;> simp only [evHas, Bool.false_eq_true] at h1 <;> simp only [Flaws.has, flawsOf] <;> exact hany _ h1
  · subst h1
    have hany : (flatten i).any (isFail e) = true := List.any_eq_true.mpr ⟨_, hev, by simp [isFail]⟩
    rcases flatten_fail_kinds i e hev with rfl | rfl | rfl | rfl <;> simpa [Flaws.has, flawsOf] using hany
  · exact has_of_dup _ _ _ h1
  · cases k <;> simp [reg, inShared] at hreg
  · simp [reg, inShared] at h1
  · have := shared_reserved_is_flaw h1
    simp [flawsOf] at hres
    rw [List.any_eq_true] at this
    obtain ⟨ev, hev, hp⟩ := this
    have := hres ev hev
    rw [hp] at this; cases this

/-- **The corresponding error.**  When every flaw of the closure is of one kind `K` (one of the conflicts the
property lists, nothing else wrong), compilation fails with exactly the error of that kind. -/
theorem detect_class (i : Input) (K : Err) (hK : (flawsOf i.cfg (flatten i)).has K = true)
    (hconf : K = .dupName ∨ K = .msgId ∨ K = .moduleId ∨ K = .hostId ∨ K = .range ∨ K = .yamlDup)
    (honly : ∀ e, e ≠ K → (flawsOf i.cfg (flatten i)).has e = false)
    (hres : (flawsOf i.cfg (flatten i)).reservedAsName = false) : parse i = .error K := by
  have hc : (flawsOf i.cfg (flatten i)).conflict = true := by
    rcases hconf with rfl | rfl | rfl | rfl | rfl | rfl <;> simp_all [Flaws.conflict, Flaws.has]
  obtain ⟨e, he⟩ := detect_complete i hc
  have := rejected_justified i e he hres
  by_cases hek : e = K
  · rw [he, hek]
  · rw [honly e hek] at this; cases this

/-- `Err.fuel` never comes out of `parse` -/
theorem parse_never_fuel (i : Input) : parse i ≠ .error .fuel := by
  intro h
  rw [parse_eq_run_flatten] at h
  rcases run_err h with ⟨ev, hev, h1 | h1⟩ | h1 | ⟨k, _, hk, _⟩ | ⟨h1, _⟩
  · simp [evHas] at h1
  · subst h1; exact flatten_no_fuel i hev
  · exact h1 (filter_kind_trivial (fun _ => rfl) _)
  · simp [kindOf] at hk
  · cases h1

/-! ## reserved ranges -/

theorem mem_natRange (a n v : Nat) : v ∈ natRange a n ↔ a ≤ v ∧ v < a + n := by
  induction n generalizing a with
  | zero => simp [natRange]
  | succ n ih => simp [natRange, ih]; omega

/-- **A reserved range `a-b` / `a to b` reserves exactly the ids `a … b`, both ends included** — whatever text
surrounds the match, for every span of at most 100 ids (`rangeSearch` is the model of the `re.search`). -/
theorem reserved_range_ids (s : List Char) (a b : Nat) (h : rangeSearch s = some (a, b)) (hab : a ≤ b)
    (hspan : b + 1 - a ≤ 100) (v : Nat) :
    (Int.ofNat v ∈ reservedIds (some [.text s])) ↔ a ≤ v ∧ v ≤ b := by
  have he : expandEntry (.text s) = .ok ((natRange a (b + 1 - a)).map Int.ofNat) := by
    have hna : ¬ (a > b) := by omega
    have hns : ¬ (b + 1 - a > 100) := by omega
    simp only [expandEntry, h, hna, hns, if_false]
  have hr : reservedIds (some [.text s]) = (natRange a (b + 1 - a)).map Int.ofNat := by
    simp [reservedIds, expandAll, he]
  rw [hr, List.mem_map]
  constructor
  · rintro ⟨w, hw, hwv⟩
    have : w = v := Int.ofNat.inj hwv
    subst this
    have := (mem_natRange a (b + 1 - a) w).mp hw
    omega
  · intro hv
    exact ⟨v, (mem_natRange a (b + 1 - a) v).mpr (by omega), rfl⟩

/-- a reserved id anywhere in the closure and a message with that id anywhere else: never accepted -/
theorem reserved_vs_message_detected (i : Input) (c₁ c₂ : Bool) (ids : Option (List ResEntry)) (n : String) (v : Int)
    (pre mid post : List Ev) (hfl : flatten i = pre ++ Ev.item c₁ (.reserved ids) :: mid ++ Ev.item c₂ (.msg n (some v)) :: post)
    (hv : v ∈ reservedIds ids) : ∃ e, parse i = .error e := by
  apply detect_complete
  have : (flawsOf i.cfg (flatten i)).msgId = true := by
    show dupOf Key.isMsgI (flatten i) = true
    rw [hfl, List.append_assoc]
    have h1 : Key.msgI v ∈ keysOf (pre ++ Ev.item c₁ (.reserved ids) :: mid) := by
      rw [keysOf_append, keysOf_cons]
      exact List.mem_append_right _ (List.mem_append_left _ (by simp [evKeys, itemKeys, hv]))
    have := dupOf_of_mem (p := Key.isMsgI) (rest := post) (ev := Ev.item c₂ (.msg n (some v))) h1
      (by simp [evKeys, itemKeys]) rfl
    simpa [List.append_assoc] using this
  simp [Flaws.conflict, this]

/-! ## the reserved-id syntax as `re` parses it (`Model/ResRegex.lean`)

`handle_reserve` accepts an entry that is an `int` as a single id and runs
`re.search(r"\s*(?P<start>[0-9]+)\s*(\-|to)\s*(?P<end>[0-9]+)\s*", e)` on an entry that is a `str`; everything else, a
string without a match, `start > end` and a span of more than 100 ids are `RTMASyntaxError`s.  `reRange` is that
`re.search` — the pattern with the backtracking semantics of CPython's matcher; `rangeSearch` is the deterministic
scan all other theorems of this file use. -/

open Pyrtma.ResRegex in
/-- **The regular expression and the scan agree on every string** (start and end as `int()` reads them, or no match). -/
theorem reserved_regex_is_rangeSearch (s : List Char) : reRange s = rangeSearch s := reRange_eq_rangeSearch s

open Pyrtma.ResRegex in
/-- **The accepted language, exactly**: a string entry has a match iff somewhere in it there is a run of ASCII
digits, optional blanks (`\s`, Unicode blanks included), `-` or `to`, optional blanks, a run of ASCII digits.  What
surrounds it is irrelevant (`search`); everything else is rejected. -/
theorem reserved_accepts_iff (s : List Char) : (rangeSearch s).isSome = true ↔ InLang s := by
  constructor
  · intro h
    cases hr : rangeSearch s with
    | none => rw [hr] at h; cases h
    | some r =>
      obtain ⟨pre, d1, w1, sep, w2, d2, post, e, h1, h2, h3, h4, h5, h6, h7, _⟩ := rangeSearch_sound (a := r.1) (b := r.2) hr
      exact ⟨pre, d1, w1, sep, w2, d2, post, e, h1, h2, h3, h4, h5, h6, h7⟩
  · rintro ⟨pre, d1, w1, sep, w2, d2, post, rfl, h1, h2, h3, h4, h5, h6, h7⟩
    apply rangeSearch_append_isSome
    rw [rangeSearch_of_rangeAt (rangeAt_shape h1 h2 h3 h4 h5 h6 h7)]
    rfl

open Pyrtma.ResRegex in
/-- **Soundness**: whatever is found is the value of a digit run followed — blanks aside — by `-` or `to` and the value
of a *maximal* digit run (the text after it does not begin with a digit). -/
theorem reserved_sound (s : List Char) (a b : Nat) (h : rangeSearch s = some (a, b)) :
    ∃ pre d1 w1 sep w2 d2 post, s = pre ++ (d1 ++ (w1 ++ (sep ++ (w2 ++ (d2 ++ post))))) ∧
      d1 ≠ [] ∧ d1.all isDigit = true ∧ w1.all isWs = true ∧ (sep = ['-'] ∨ sep = ['t', 'o']) ∧
      w2.all isWs = true ∧ d2 ≠ [] ∧ d2.all isDigit = true ∧ NoHead isDigit post ∧
      a = digitsVal d1 ∧ b = digitsVal d2 := rangeSearch_sound h

open Pyrtma.ResRegex in
/-- **Completeness on the intended language**: every way of writing `a-b` / `a to b` — any blanks before, between
and after, any digit strings (leading zeros included) — yields exactly the two numbers written. -/
theorem reserved_canonical (w0 d1 w1 sep w2 d2 w3 : List Char) (hw0 : w0.all isWs = true)
    (h1 : d1 ≠ []) (hd1 : d1.all isDigit = true) (hw1 : w1.all isWs = true) (hsep : sep = ['-'] ∨ sep = ['t', 'o'])
    (hw2 : w2.all isWs = true) (h2 : d2 ≠ []) (hd2 : d2.all isDigit = true) (hw3 : w3.all isWs = true) :
    rangeSearch (w0 ++ (d1 ++ (w1 ++ (sep ++ (w2 ++ (d2 ++ w3)))))) = some (digitsVal d1, digitsVal d2) := by
  rw [rangeSearch_skip_ws _ hw0, rangeSearch_of_rangeAt (rangeAt_shape h1 hd1 hw1 hsep hw2 h2 hd2)]
  have : w3.takeWhile isDigit = [] := by
    apply takeWhile_of_noHead
    intro c t e; subst e
    simp only [List.all_cons, Bool.and_eq_true] at hw3
    exact ws_not_digit hw3.1
  rw [this, List.append_nil]

/-- `int()` of what Python's `str(n)` prints is `n` -/
theorem digitsVal_repr (n : Nat) : digitsVal (toString n).toList = n := by
  rw [Nat.toString_eq_repr, Nat.toList_repr]
  exact Nat.ofDigitChars_ten_toDigits

theorem repr_digits (n : Nat) : (toString n).toList ≠ [] ∧ (toString n).toList.all isDigit = true := by
  rw [Nat.toString_eq_repr, Nat.toList_repr]
  refine ⟨Nat.toDigits_ne_nil, ?_⟩
  rw [List.all_eq_true]
  intro c hc
  have := Nat.isDigit_of_mem_toDigits (by decide) (by decide) hc
  simpa [Char.isDigit, isDigit, Char.le_def] using this

/-- leading zeros do not change the number -/
theorem digitsVal_leading_zeros (k : Nat) (ds : List Char) : digitsVal (List.replicate k '0' ++ ds) = digitsVal ds := by
  show Nat.ofDigitChars 10 _ 0 = Nat.ofDigitChars 10 _ 0
  rw [Nat.ofDigitChars_append, Nat.ofDigitChars_replicate_zero, Nat.mul_zero]

/-- **`"a-b"`, `"a to b"`, `" a  -\tb "`, … with `a ≤ b` and at most 100 ids reserve exactly `a … b`**, for the
decimal spelling Python prints (the end-to-end statement: syntax, then `reserved_range_ids`). -/
theorem reserved_text_reserves (w0 w1 sep w2 w3 : List Char) (a b : Nat) (hw0 : w0.all isWs = true)
    (hw1 : w1.all isWs = true) (hsep : sep = ['-'] ∨ sep = ['t', 'o']) (hw2 : w2.all isWs = true)
    (hw3 : w3.all isWs = true) (hab : a ≤ b) (hspan : b + 1 - a ≤ 100) (v : Nat) :
    (Int.ofNat v ∈ reservedIds (some [.text
      (w0 ++ ((toString a).toList ++ (w1 ++ (sep ++ (w2 ++ ((toString b).toList ++ w3))))))])) ↔ a ≤ v ∧ v ≤ b := by
  apply reserved_range_ids _ a b _ hab hspan
  have := reserved_canonical w0 (toString a).toList w1 sep w2 (toString b).toList w3 hw0 (repr_digits a).1 (repr_digits a).2
    hw1 hsep hw2 (repr_digits b).1 (repr_digits b).2 hw3
  rw [digitsVal_repr, digitsVal_repr] at this
  exact this

/-- what is rejected: no match, `start > end`, more than 100 ids — and every entry that is neither an int nor a
string -/
theorem reserved_rejected (s : List Char) :
    expandEntry (.text s) = .error .resSyntax ↔
      (rangeSearch s = none ∨ ∃ a b, rangeSearch s = some (a, b) ∧ (a > b ∨ b + 1 - a > 100)) := by
  cases h : rangeSearch s with
  | none => simp [expandEntry, h]
  | some r =>
    obtain ⟨a, b⟩ := r
    simp only [expandEntry, h, Option.some.injEq, Prod.mk.injEq, reduceCtorEq, false_or]
    constructor
    · intro h1
      refine ⟨a, b, ⟨rfl, rfl⟩, ?_⟩
      by_cases h2 : a > b
      · exact Or.inl h2
      · by_cases h3 : b + 1 - a > 100
        · exact Or.inr h3
        · simp [h2, h3] at h1
    · rintro ⟨a', b', ⟨rfl, rfl⟩, h2 | h2⟩
      · simp [h2]
      · by_cases h3 : a > b <;> simp [h2, h3]

theorem reserved_other_rejected : expandEntry .other = .error .resSyntax := rfl

/-! ## import paths: the spelled text, the key of `included_files`, and reading each file once

`Model/ImportPath.lean`: `parse_file` keys `included_files` by `(cwd / text).resolve()` — the absolute path with `.`,
empty components and `x/..` removed lexically and a final symbolic link expanded — and handles a file's imports with
the cwd set to that file's directory.  `lower` turns a path-level input (files under absolute paths, import *texts*)
into the index-level input every theorem above is about, so all of them hold for `pparse` as they stand. -/

open Pyrtma.ImportPath in
/-- the path of file number `n` -/
def pathOf (i : PInput) (n : Nat) : APath := ((i.files[n]?).map (·.path)).getD []

theorem nodup_map_of_inj_on {α β} {f : α → β} : ∀ {l : List α}, l.Nodup → (∀ a ∈ l, ∀ b ∈ l, f a = f b → a = b) →
    (l.map f).Nodup
  | [], _, _ => List.nodup_nil
  | x :: l, hn, hinj => by
    rw [List.map_cons, List.nodup_cons]
    obtain ⟨hx, hl⟩ := List.nodup_cons.mp hn
    refine ⟨?_, nodup_map_of_inj_on hl (fun a ha b hb => hinj a (List.mem_cons_of_mem _ ha) b (List.mem_cons_of_mem _ hb))⟩
    intro hm
    obtain ⟨y, hy, hxy⟩ := List.mem_map.mp hm
    have := hinj y (List.mem_cons_of_mem _ hy) x List.mem_cons_self hxy
    subst this; exact hx hy

open Pyrtma.ImportPath in
theorem lower_files_length (i : PInput) : (lower i).files.length = i.files.length := by simp [lower]

open Pyrtma.ImportPath in
/-- **Every file of the closure is read exactly once, whatever spellings reach it.**  For every file system with
pairwise distinct file paths, every import relation and every way of writing each import (relative to the importing
file, `./`, `x/../`, repeated slashes, absolute, a symbolic link to the file): the *paths* opened during a compilation
are pairwise distinct.  No side condition on the spellings is needed, because the real key is the resolved path. -/
theorem each_path_read_once (i : PInput) (hnd : (i.files.map (·.path)).Nodup) :
    ((enteredOf (flatten (lower i))).map (pathOf i)).Nodup := by
  have hE := flatten_reads_each_file_once (lower i)
  have hv : ∀ n ∈ enteredOf (flatten (lower i)), n < i.files.length := by
    intro n hn
    have w := (flatten_walk (lower i)).1
    have := w.valid n (by rw [w.ext]; simpa [flatten] using hn)
    rwa [lower_files_length] at this
  apply nodup_map_of_inj_on hE
  intro a ha b hb hab
  have la := hv a ha
  have lb := hv b hb
  have ga : pathOf i a = (i.files.map (·.path))[a]'(by simpa using la) := by
    simp [pathOf, List.getElem?_eq_getElem la]
  have gb : pathOf i b = (i.files.map (·.path))[b]'(by simpa using lb) := by
    simp [pathOf, List.getElem?_eq_getElem lb]
  rw [ga, gb] at hab
  exact (List.getElem_inj hnd).mp hab

open Pyrtma.ImportPath in
/-- **Nothing reachable is skipped, however it is spelled**: every import text of every opened, readable file that
denotes a definition file of the file system gets that file opened. -/
theorem imports_by_any_spelling_are_read (i : PInput) (fid : Nat) (pf : PFile) (t : List Char) (n : Nat)
    (hent : fid ∈ enteredOf (flatten (lower i))) (hf : i.files[fid]? = some pf)
    (hd : (lowerFile i.fs pf).dupKeys = false) (he : (lowerFile i.fs pf).empty = false)
    (ht : t ∈ pf.importTexts) (hr : resolveImp i.fs pf.path.dropLast t = .file n) :
    n ∈ enteredOf (flatten (lower i)) := by
  obtain ⟨_, _, hdone⟩ := flatten_import_closed (lower i)
  have hf' : (lower i).files[fid]? = some (lowerFile i.fs pf) := by simp [lower, hf]
  have hmem : Imp.file n ∈ (lowerFile i.fs pf).imports := by
    simp only [lowerFile, List.mem_map]
    exact ⟨t, ht, hr⟩
  rcases hdone fid _ (mem_enteredOf.mp hent) hf' hd he n hmem with h | h
  · exact h
  · have := (List.getElem?_eq_some_iff.mp (resolveImp_file hr).1).1
    rw [lower_files_length] at h
    simp [PInput.fs] at this
    omega

open Pyrtma.ImportPath in
/-- pathlib drops empty components (repeated and trailing slashes) and `.` before anything else looks at the text -/
theorem spelling_dot_and_empty_vanish (t : List Char) : ∀ s ∈ (parsePath t).parts, s ≠ [] ∧ s ≠ ['.'] := by
  intro s hs
  simp only [parsePath, List.mem_filter, keepSeg, Bool.and_eq_true, bne_iff_ne, ne_eq] at hs
  exact hs.2

open Pyrtma.ImportPath in
/-- `x/..` cancels anywhere in a path, whether or not `x` exists (`resolve()` is not strict) -/
theorem spelling_dotdot_cancels (acc : APath) (a : List Seg) (x : Seg) (r : List Seg) (hx : x ≠ dotdot) :
    normalize acc (a ++ x :: dotdot :: r) = normalize acc (a ++ r) := normalize_cancel_inside acc a x r hx

open Pyrtma.ImportPath in
/-- from every directory, enough `..` followed by the target's components reaches the target -/
theorem spelling_up_down (cwd target : APath) (n : Nat) (hn : cwd.length ≤ n) (ht : ∀ s ∈ target, s ≠ dotdot) :
    lexical cwd ⟨false, List.replicate n dotdot ++ target⟩ = target := by
  simpa [lexical] using normalize_up_down cwd target n hn ht

open Pyrtma.ImportPath in
/-- an absolute text means the same file from every importing directory -/
theorem spelling_absolute_ignores_cwd (fs : FS) (cwd cwd' : APath) (p : PPath) (h : p.abs = true) :
    fs.key cwd p = fs.key cwd' p := by
  simp [FS.key, lexical_abs cwd cwd' p h]

open Pyrtma.ImportPath in
/-- **two spellings of one key are one import** (same file number handed to the walk) -/
theorem spelling_same_key_same_file (fs : FS) (cwd₁ cwd₂ : APath) (t₁ t₂ : List Char)
    (hk : fs.key cwd₁ (parsePath t₁) = fs.key cwd₂ (parsePath t₂))
    (hd₁ : fs.isDirOS cwd₁ (parsePath t₁) = false) (hd₂ : fs.isDirOS cwd₂ (parsePath t₂) = false)
    (hs₁ : goodSuffix (parsePath t₁) = true) (hs₂ : goodSuffix (parsePath t₂) = true) :
    resolveImp fs cwd₁ t₁ = resolveImp fs cwd₂ t₂ := same_key_same_imp fs cwd₁ cwd₂ t₁ t₂ hk hd₁ hd₂ hs₁ hs₂

open Pyrtma.ImportPath in
/-- … and two different keys are two different files: the file number is the key -/
theorem spelling_file_number_iff_key (fs : FS) (hnd : fs.files.Nodup) (cwd₁ cwd₂ : APath) (t₁ t₂ : List Char) (n₁ n₂ : Nat)
    (h₁ : resolveImp fs cwd₁ t₁ = .file n₁) (h₂ : resolveImp fs cwd₂ t₂ = .file n₂) :
    n₁ = n₂ ↔ fs.key cwd₁ (parsePath t₁) = fs.key cwd₂ (parsePath t₂) :=
  file_number_iff_key fs hnd cwd₁ cwd₂ t₁ t₂ n₁ n₂ h₁ h₂

open Pyrtma.ImportPath in
/-- the path-level compilation is the fold of the handlers over the flattened closure of the lowered input, so
every theorem of this file (`detect_complete`, `rejected_justified`, `detect_class`, …) speaks about it -/
theorem pparse_eq_run_flatten (i : PInput) : pparse i = run i.cfg (flatten (lower i)) {} :=
  parse_eq_run_flatten (lower i)

open Pyrtma.ImportPath in
theorem path_level_detect_complete (i : PInput) (h : (flawsOf i.cfg (flatten (lower i))).conflict = true) :
    ∃ e, pparse i = .error e := detect_complete (lower i) h

/-! ## the oracle used on the implementation is the one the model always satisfies -/

def obsOf (r : Except Err St) : Obs :=
  match r with
  | .ok st => .ok st
  | .error e => .err e.cls

theorem has_justifies {f : Flaws} {e : Err} (h : f.has e = true) : f.justifies e.cls = true := by
  cases e <;> simp_all [Flaws.has, Flaws.justifies, Err.cls]

/-- `judge`, the Spec predicate the harness evaluates on what the **real** parser did, answers `ok` or `skip` —
never `fail …` — on the model's own outcome, for every input. -/
theorem model_meets_oracle (i : Input) : judge i (obsOf (parse i)) = "ok" ∨ judge i (obsOf (parse i)) = "skip" := by
  cases hp : parse i with
  | ok st =>
    obtain ⟨hc, h1, h2, h3, h4, h5, h6, h7, hst⟩ := accepted_conflict_free i st hp
    simp only [Flaws.conflict, Bool.or_eq_false_iff] at hc
    obtain ⟨⟨⟨⟨⟨c1, c2⟩, c3⟩, c4⟩, c5⟩, c6⟩ := hc
    simp only [obsOf, judge, c1, c2, c3, c4, c5, c6, Bool.false_eq_true, if_false]
    split
    · exact Or.inr rfl
    · rw [hst]; simp
  | error e =>
    simp only [obsOf, judge]
    cases hr : (flawsOf i.cfg (flatten i)).reservedAsName with
    | true => exact Or.inr (by simp)
    | false =>
      have := has_justifies (rejected_justified i e hp hr)
      simp [this]

/-! ## non-vacuity: concrete trees exercising the hypotheses -/

private def fA : File := { imports := [.file 1, .file 2, .file 1], consts := ["A"], msgs := [.msg "M" (some 7)] }
private def fB : File := { imports := [.file 2, .file 0], structs := ["B"], msgs := [.reserved (some [.num 9, .text "10-12".toList])] }
private def fC : File := { imports := [.file 0], modules := [("C", some 20)] }
private def cfg0 : Cfg := { coreOn := false, maxMsg := 10000 }

/-- a diamond with a cycle and a repeated import is accepted, each file read once, in depth-first order -/
example : parse { cfg := cfg0, files := [fA, fB, fC], root := 0 } =
    .ok { consts := ["A"], structs := ["B"], modules := [("C", 20)],
          msgs := [("_RESERVED_000009", 9), ("_RESERVED_000010", 10), ("_RESERVED_000011", 11),
                   ("_RESERVED_000012", 12), ("M", 7)] } := by rfl
example : enteredOf (flatten { cfg := cfg0, files := [fA, fB, fC], root := 0 }) = [0, 1, 2] := by rfl
/-- a reserved range in a grandchild against a message id in the root: detected, with the corresponding error -/
example : parse { cfg := cfg0, files := [{ fA with msgs := [.msg "M" (some 11)] }, fB, fC], root := 0 } = .error .msgId := by
  rfl
example : (flawsOf cfg0 (flatten { cfg := cfg0, files := [{ fA with msgs := [.msg "M" (some 11)] }, fB, fC], root := 0 })).msgId
    = true := by rfl
/-- struct `B` in a child against constant `B` in a sibling's child -/
example : parse { cfg := cfg0, files := [fA, fB, { fC with consts := ["B"] }], root := 0 } = .error .dupName := by rfl
/-- a module id in the gap 100..199 is rejected only when the core definitions are on and the file is not `core_defs.yaml` -/
example : parse { cfg := { cfg0 with coreOn := true }, files := [{}, { modules := [("X", some 150)] }], root := 1, core := 0 }
    = .error .range := by rfl
example : parse { cfg := cfg0, files := [{}, { modules := [("X", some 150)] }], root := 1 } =
    .ok { modules := [("X", 150)] } := by rfl

/-- the ways of writing a reserved range the regex accepts (`re.search`, so junk around it is ignored) -/
example : rangeSearch "10-12".toList = some (10, 12) := by decide
example : rangeSearch " 10  to\t12 ".toList = some (10, 12) := by decide
example : rangeSearch "10to12".toList = some (10, 12) := by decide
example : rangeSearch "7 8 10-12-99".toList = some (10, 12) := by decide
example : rangeSearch "10".toList = none := by decide
example : rangeSearch "10 -- 12".toList = none := by decide
example : expandEntry (.text "12-10".toList) = .error .resSyntax := by rfl
example : expandEntry (.text "1-101".toList) = .error .resSyntax := by rfl
example : expandEntry (.text "5-7".toList) = .ok [5, 6, 7] := by rfl

/-- the regular expression itself (backtracking matcher), on the same strings and on near misses -/
example : ResRegex.reRange "10-12".toList = some (10, 12) := by decide
example : ResRegex.reRange " 10  to\t12 ".toList = some (10, 12) := by decide
example : ResRegex.reRange "7 8 10-12-99".toList = some (10, 12) := by decide
example : ResRegex.reRange "1e3-2e3".toList = some (3, 2) := by decide
example : ResRegex.reRange "007-0012".toList = some (7, 12) := by decide
example : ResRegex.reRange "10\u00a0-\u300012".toList = some (10, 12) := by decide     -- NBSP, IDEOGRAPHIC SPACE are `\s`
example : ResRegex.reRange "10\u200b-12".toList = none := by decide                    -- ZERO WIDTH SPACE is not
example : ResRegex.reRange "10 To 12".toList = none := by decide
example : ResRegex.reRange "10 t o 12".toList = none := by decide
example : ResRegex.reRange "١٠-12".toList = none := by decide                          -- ARABIC-INDIC digits are not `[0-9]`
example : ResRegex.search ResRegex.rangeRe "x 007 -\t12y".toList = some [(0, "007".toList), (1, "12".toList)] := by decide
/-- hypotheses of `reserved_canonical` / `reserved_text_reserves` are satisfiable -/
example : rangeSearch (" ".toList ++ ("007".toList ++ ("\t".toList ++ (['t', 'o'] ++ ("  ".toList ++ ("12".toList ++ "\n".toList))))))
    = some (7, 12) :=
  reserved_canonical _ _ _ _ _ _ _ (by decide) (by decide) (by decide) (by decide) (Or.inr rfl) (by decide) (by decide)
    (by decide) (by decide)
example : (Int.ofNat 11 ∈ reservedIds (some [.text ("".toList ++ ((toString 10).toList ++ (" ".toList ++ (['-'] ++ (" ".toList ++
    ((toString 12).toList ++ "".toList))))))])) :=
  (reserved_text_reserves _ _ _ _ _ 10 12 (by decide) (by decide) (Or.inl rfl) (by decide) (by decide) (by decide) (by decide) 11).mpr
    (by decide)
example : ResRegex.InLang "ids 10 - 12 incl".toList :=
  ⟨"ids ".toList, "10".toList, " ".toList, ['-'], " ".toList, "12".toList, " incl".toList, by decide, by decide, by decide,
   by decide, Or.inl rfl, by decide, by decide, by decide⟩


/-! ### import paths: a diamond with a cycle in which every import is spelled differently -/

section PathExamples
open Pyrtma.ImportPath

private def seg (s : String) : Seg := s.toList
private def pA : PFile where
  path := [seg "w", seg "a.yaml"]
  file := { consts := ["A"] }
  importTexts := ["inc/b.yaml".toList, "./inc//b.yaml".toList, "nosuchdir/../inc/c.yaml".toList, "/w/inc/../inc/b.yaml".toList]
private def pB : PFile where
  path := [seg "w", seg "inc", seg "b.yaml"]
  file := { structs := ["B"] }
  importTexts := ["c.yaml".toList, "../a.yaml".toList, "../../w/inc/lnk.yaml".toList]
private def pC : PFile where
  path := [seg "w", seg "inc", seg "c.yaml"]
  file := { msgs := [.msg "M" (some 7)] }
  importTexts := ["../inc/../a.yaml".toList, "/w//inc/./b.yaml".toList]
private def pin : PInput :=
  { cfg := cfg0, files := [pA, pB, pC], cwd := [seg "home"], rootText := "../w/./a.yaml".toList,
    links := [([seg "w", seg "inc", seg "lnk.yaml"], [seg "w", seg "inc", seg "c.yaml"])] }

/-- nine import texts, seven spellings, three files: each read once, in depth-first order -/
example : (lower pin).files.map (·.imports) =
    [[.file 1, .file 1, .file 2, .file 1], [.file 2, .file 0, .file 2], [.file 0, .file 1]] := by decide
example : (lower pin).root = 0 := by decide
example : enteredOf (flatten (lower pin)) = [0, 1, 2] := by decide
example : pparse pin = .ok { consts := ["A"], structs := ["B"], msgs := [("M", 7)] } := by rfl
example : (pin.files.map (·.path)).Nodup := by decide
/-- what is *not* a definition file: a directory, a wrong suffix, a missing file, a path through a regular file -/
example : resolveImp pin.fs [seg "w"] "inc".toList = .dir := by decide
example : resolveImp pin.fs [seg "w"] "".toList = .dir := by decide
example : resolveImp pin.fs [seg "w"] "inc/b.txt".toList = .badSuffix := by decide
example : resolveImp pin.fs [seg "w"] "inc/.yaml".toList = .badSuffix := by decide
example : resolveImp pin.fs [seg "w"] "inc/d.yaml".toList = .missing := by decide
example : resolveImp pin.fs [seg "w"] "a.yaml/x.yaml".toList = .missing := by decide
example : osErrorClass pin.fs [seg "w"] "a.yaml/x.yaml".toList = "NotADirectoryError" := by decide
example : resolveImp pin.fs [seg "w"] "a.yaml/../inc/B.YAML/../b.yaml".toList = .file 1 := by decide
example : resolveImp pin.fs [seg "w"] "inc/b.YAML".toList = .missing := by decide          -- the suffix test is case-blind, the file system is not

end PathExamples

end Pyrtma.C12
