import Pyrtma.Proofs.ManagerCount
import Pyrtma.Proofs.ManagerOrder
import Pyrtma.Spec.Manager
import Pyrtma.Proofs.ManagerSimDrv
/-!
# C05 — per-connection order, whole frames, sequence numbers

Proved about the model, for every history: the counts stamped on one connection are exactly 1, 2, 3, … — counting
acknowledgements, failure notices, log and periodic manager messages — in **every reachable state**, for live and
departed connections alike (`seq_gap_free`, by an invariant carried through the nested failure handling together with
crash-freedom); every frame is stamped with the previous count plus one (`stamped_with_next_count`); a frame is written
whole or its connection is removed in the same step (`whole_or_removed`); the emission order of copies follows the
processing order of the input frames, for all receivers at once (`emission_follows_processing`, `no_late_copies`);
and globally (`fifo_per_receiver`, `same_relative_order`): label the frames the manager reads by their processing order —
then every receiver's data frames are in non-decreasing label order after any history, hence messages of one sender
arrive in the order sent and any two receivers see the frames they both get in the same relative order.

Decided on the implementation (not a theorem): that every captured byte stream parses as whole frames (the model's events
*are* whole frames; the split into two `sendall` calls is below its granularity).

For every history (the refinement link, `Proofs/ManagerSim*.lean`, `Proofs/ManagerSimMult.lean`, `Proofs/ManagerSpecOrd.lean`):
`spec_order_clauses_pass_on_model` — run the model on any well-formed history whose frames carry their serial numbers in
processing order (`IncRounds`), give the history-based Spec (`Spec.runSpec`) the events the model itself wrote, round by
round: the Spec's verdict contains **no C05 entry** — frames are read in the order the script delivers them, no malformed
frame is written, the `msg_count` values on every connection are 1, 2, 3, …, the frames of one sender reach every receiver
in order, and any two receivers see their common frames in the same order (every receiver of a frame gets the same number
of copies of it: one — two for a frame whose type is the ALL sentinel —, `run_mult`).
-/
namespace Pyrtma.C05
open Pyrtma.Mgr

/-- **Stamped with the next count.**  A successful write to `u` appends exactly one event — a whole frame `f` carrying
`msg_count = (count so far) + 1` — and advances the connection's counter to that value; this is the only place
where either happens, for data frames, acknowledgements and manager-originated messages alike. -/
theorem stamped_with_next_count (s : State) (u : Nat) (f : Frame) (m : Module)
    (hm : s.find u = some m) (hc : m.closed = false) (hf : failOf s u = none) :
    (sendRaw s u f).2 = true ∧ (sendRaw s u f).1.out = s.out ++ [.send u (m.msgCount + 1) f] ∧
    ((sendRaw s u f).1.find u).map (·.msgCount) = some (m.msgCount + 1) := by
  have hfo : failOf (s.upd u fun m => { m with msgCount := m.msgCount + 1 }) u = failOf s u := rfl
  unfold sendRaw
  simp only [hm, hc, Bool.false_eq_true, if_false, hfo, hf]
  refine ⟨trivial, rfl, ?_⟩
  rw [find_emit, find_upd_self s u (fun m => { m with msgCount := m.msgCount + 1 }) (fun _ => rfl) hm]; rfl

/-- a failed write stamps nothing: no frame event is appended (only the failure, after a possible partial frame) -/
theorem failed_write_emits_no_frame (s : State) (u : Nat) (f : Frame) (B : Body → Bool)
    (h : canTake s u = false) : dataSends B (sendRaw s u f).1.out = dataSends B s.out := by
  rw [sendRaw_data]; simp [h]

/-- **Whole frames**: a connection's stream ends in a partial frame (header without payload) only if its write failed,
and then the module is gone from the table before anything else is written: whatever `trySend` does on a failing
socket, afterwards `u` is not in the table. -/
theorem whole_or_removed (cfg : Cfg) (s : State) (u : Nat) (f : Frame) (m : Module) (fuel : Nat)
    (hm : s.find u = some m) (hc : m.closed = false) (hfl : failOf s u ≠ none) (hcr : s.crashed = none) :
    (trySend cfg (forward cfg fuel) s u f).find u = none := by
  have hB := tag_data cfg 0
  have hf := forward_ok cfg hB fuel
  have hok : (sendRaw s u f).2 = false := by
    rw [sendRaw_ok]; unfold canTake; simp [hm]
    cases h : failOf s u with
    | none => exact absurd h hfl
    | some _ => simp
  have hnc : (sendRaw s u f).1.crashed.isSome = false := by
    unfold sendRaw; simp only [hm, hc, Bool.false_eq_true, if_false]
    have hfo : failOf (s.upd u fun m => { m with msgCount := m.msgCount + 1 }) u = failOf s u := rfl
    rw [hfo]
    cases h : failOf s u with
    | none => exact absurd h hfl
    | some x => cases x <;> simp [State.emit, State.upd, hcr]
  unfold trySend
  simp only [hm, hok, Bool.false_eq_true, if_false, hnc]
  have hfl1 : failOf (sendRaw s u f).1 u ≠ none := by rw [failOf_congr (sendRaw_pres s u f).fail]; exact hfl
  have h1 := (removeModule_ok cfg hB hf (sendRaw s u f).1 u hfl1).1
  -- removeModule ends with the filter that drops `u`
  have hgone : (removeModule cfg (forward cfg fuel) (sendRaw s u f).1 u).find u = none := by
    unfold removeModule; split
    · assumption
    · exact find_filter_eq _ _
  have h2 := (logAt_ok cfg hB hf 40 (removeModule cfg (forward cfg fuel) (sendRaw s u f).1 u)).1.gone u hgone
  exact (failedMsg_ok cfg hB hf _ m.modId f).1.gone u h2

/-- **Emission order follows processing order, for every receiver at once.**  Forwarding frame `k2` after frame `k1`
only *appends* to the event log, and what it appends contains no copy of `k1`: so on every connection every copy of
`k1` precedes every copy of `k2` — frames of one sender arrive in the order sent (the manager reads one connection's
frames in order), and any two receivers see any two frames in the same relative order. -/
theorem emission_follows_processing (cfg : Cfg) (fuel : Nat) (s1 : State) (f2 : Frame) (k1 k2 : Nat)
    (hb : f2.body = .data k2) (hne : k1 ≠ k2) :
    ∃ ext, (forward cfg fuel s1 f2).out = s1.out ++ ext ∧ dataSends (fun b => b == .data k1) ext = [] := by
  have h := forward_ok cfg (tag_data cfg k1) fuel s1 f2 (by simp [hb]; omega)
  obtain ⟨ext, he⟩ := h.1.out
  refine ⟨ext, he, ?_⟩
  have hq := h.2
  unfold Quiet at hq
  rw [he, dataSends_append] at hq
  exact List.append_right_eq_self.mp hq

/-- the same for anything the manager sends on its own behalf in between (acknowledgements, CLIENT_INFO, statistics …):
nothing but `forward` of frame `k` ever writes a copy of `k`, so later activity never re-delivers an old frame -/
theorem no_late_copies (cfg : Cfg) (fuel : Nat) (s : State) (g : Frame) (k : Nat) (hg : ∀ j, g.body ≠ .data j) :
    ∃ ext, (forward cfg fuel s g).out = s.out ++ ext ∧ dataSends (fun b => b == .data k) ext = [] := by
  have h := forward_ok cfg (tag_data cfg k) fuel s g (by simpa using hg k)
  obtain ⟨ext, he⟩ := h.1.out
  refine ⟨ext, he, ?_⟩
  have hq := h.2
  unfold Quiet at hq
  rw [he, dataSends_append] at hq
  exact List.append_right_eq_self.mp hq

/-- **Gap-free sequence numbers.**  After any sequence of rounds, for every connection `u` (still connected or long
gone), the `msg_count` values of all frames ever written to it are 1, 2, …, n — one per frame, whatever kinds of frames
they were — and if `u` is still in the table its counter is n. -/
theorem seq_gap_free (cfg : Cfg) (ok : CfgOK cfg) (hfuel : cfg.fuel = 0) (rs : List Round) (u : Nat) :
    ∃ n, countsOf (run cfg rs).out u = iota n ∧ ∀ m, (run cfg rs).find u = some m → m.msgCount = n :=
  Pyrtma.Mgr.seq_gap_free ok hfuel rs u

/-! ## Globally: order of delivery, for every history

The serial number `k` of an input frame is a label (`Body.data k`) the model never looks at; `IncRounds 0 rs` says the
frames of the history `rs` are labelled in the order the manager processes them. -/

/-- **Per-connection order**: after any history, the data frames written to any connection `u` appear in processing
order of the input frames (non-decreasing: a frame whose type is the ALL sentinel is written twice to a subscriber of
everything) — whatever write failures, removals, notices, log messages and statistics happen in between, at any log
level.  In particular the frames of one sender reach each receiver in the order they were sent. -/
theorem fifo_per_receiver (cfg : Cfg) (rs : List Round) (hi : IncRounds 0 rs) (u : Nat) :
    (dataKs (run cfg rs).out u).Pairwise (· ≤ ·) :=
  (run_ordered cfg rs hi u).1

/-- `a` occurs in `l` with a later occurrence of `b` -/
def Before (l : List Nat) (a b : Nat) : Prop := ∃ l1 l2, l = l1 ++ a :: l2 ∧ b ∈ l2

/-- **Same relative order at all receivers**: if receiver `u` gets frame `a` before frame `b`, then every receiver `v`
that gets both gets `a` before `b` too. -/
theorem same_relative_order (cfg : Cfg) (rs : List Round) (hi : IncRounds 0 rs) (u v a b : Nat) (hab : a ≠ b)
    (hu : Before (dataKs (run cfg rs).out u) a b)
    (ha : a ∈ dataKs (run cfg rs).out v) (hb : b ∈ dataKs (run cfg rs).out v) :
    Before (dataKs (run cfg rs).out v) a b := by
  have su := fifo_per_receiver cfg rs hi u
  have sv := fifo_per_receiver cfg rs hi v
  obtain ⟨l1, l2, e, hb2⟩ := hu
  rw [e] at su
  have hle : a ≤ b := by
    have := (List.pairwise_append.mp su).2.1
    exact (List.pairwise_cons.mp this).1 b hb2
  obtain ⟨s1, s2, e2⟩ := List.append_of_mem ha
  refine ⟨s1, s2, e2, ?_⟩
  rw [e2] at hb sv
  rcases List.mem_append.mp hb with h1 | h1
  · have := (List.pairwise_append.mp sv).2.2 b h1 a (by simp)
    omega
  · cases h1 with
    | head => exact absurd rfl hab
    | tail _ h2 => exact h2

/-- **The oracle clause holds on every run of the model**: the sequence-number clause of the Spec the driver evaluates on
the implementation (`Spec.isIota (Spec.countsOf log u)`: the counts on connection `u` are 1,2,3,…) is true of the event log of
the model after any history, for every connection. -/
theorem spec_count_clause_passes_on_model (cfg : Cfg) (ok : CfgOK cfg) (hfuel : cfg.fuel = 0) (rs : List Round) (u : Nat) :
    Spec.isIota (Spec.countsOf (run cfg rs).out u) = true := by
  obtain ⟨n, hn⟩ := seq_gap_free cfg ok hfuel rs u
  have he : Spec.countsOf (run cfg rs).out u = countsOf (run cfg rs).out u := rfl
  rw [he, hn.1]
  unfold Spec.isIota iota
  simp

theorem adjacent_of_pairwise : ∀ (l : List Nat), l.Pairwise (· ≤ ·) → (l.zip (l.drop 1)).all (fun p => decide (p.1 ≤ p.2)) = true
  | [], _ => rfl
  | [_], _ => rfl
  | a :: b :: rest, h => by
    have h1 := List.pairwise_cons.mp h
    have ih := adjacent_of_pairwise (b :: rest) h1.2
    simp only [List.drop_succ_cons, List.drop_zero, List.zip_cons_cons, List.all_cons, Bool.and_eq_true, decide_eq_true_eq]
    refine ⟨h1.1 b (by simp), ?_⟩
    simpa using ih

/-- …and so does the per-sender FIFO clause of the Spec (`checkC05`: at every receiver the frames of one sender appear in
the order they were read), whatever function the Spec uses to attribute frames to senders. -/
theorem spec_fifo_clause_passes_on_model (cfg : Cfg) (rs : List Round) (hi : IncRounds 0 rs) (senderOf : Nat → Nat) (u s : Nat) :
    (((Spec.dataKs (run cfg rs).out u).filter (fun k => senderOf k == s)).zip
      (((Spec.dataKs (run cfg rs).out u).filter (fun k => senderOf k == s)).drop 1)).all (fun p => decide (p.1 ≤ p.2)) = true := by
  have he : Spec.dataKs (run cfg rs).out u = dataKs (run cfg rs).out u := rfl
  rw [he]
  exact adjacent_of_pairwise _ ((fifo_per_receiver cfg rs hi u).filter _)

/-- **Every receiver of an input frame gets the same number of copies of it** (one; two for a frame whose type is the ALL
    sentinel, to which a subscriber of everything is listed twice). -/
theorem same_number_of_copies (cfg : Cfg) (ok : CfgOK cfg) (hfuel : cfg.fuel = 0) (hperm : OrdPerm cfg) (rs : List Round)
    (hi : IncRounds 0 rs) (k : Nat) :
    ∃ c, ∀ u, (dataKs (run cfg rs).out u).count k = 0 ∨ (dataKs (run cfg rs).out u).count k = c :=
  run_mult ok hfuel hperm rs hi k

/-- **The Spec's C05 clauses hold on every run of the model** (the whole of property C05 as the Spec decides it).  For every
configuration meeting the side conditions (`CfgOK`, automatic fuel, `OrdPerm`, CLIENT_CLOSED is not the ALL_MESSAGE_TYPES
sentinel) and every history whose frames are read from connections (`RoundsWF`) and carry their serial numbers in
processing order (`IncRounds`: the serial number is the label by which the Spec recognises the copies of a frame; every
generated history numbers its frames so), the verdict `Spec.runSpec` computes from the history and the model's own events
has no C05 entry. -/
theorem spec_order_clauses_pass_on_model (cfg : Cfg) (ok : CfgOK cfg) (hfuel : cfg.fuel = 0) (hperm : OrdPerm cfg)
    (hmt : cfg.mtClosed ≠ cfg.allTypes) (rs : List Round) (hwf : RoundsWF rs) (hi : IncRounds 0 rs) :
    (Spec.runSpec cfg rs (Pyrtma.Drv.Manager.modelRun cfg rs).1 none).errs.filter (·.1 == "C05") = [] :=
  spec_passes_on_model ok hfuel hperm hmt rs hwf "C05" (by simp [provenCore]) (fun _ => hi)

/-! ### Non-vacuity -/
/-- two subscribers of type 5000, two frames published: both get frame 3 before frame 4 -/
def exRounds : List Round :=
  [{ accept := true }, { accept := true },
   { reads := [{ uid := 1, h := { k := 1, mtype := 15, nbytes := 4 }, avail := 4, pay := [136, 19, 0, 0] }], writable := [1, 2] },
   { reads := [{ uid := 2, h := { k := 2, mtype := 15, nbytes := 4 }, avail := 4, pay := [136, 19, 0, 0] }], writable := [1, 2] },
   { reads := [{ uid := 1, h := { k := 3, mtype := 5000 } }, { uid := 2, h := { k := 4, mtype := 5000 } }], writable := [1, 2] }]
example : IncRounds 0 exRounds := by simp [IncRounds, IncFrom, lastBound, exRounds]
example : dataKs (run {} exRounds).out 1 = [3, 4] ∧ dataKs (run {} exRounds).out 2 = [3, 4] := by decide
example : RoundsWF exRounds := by
  intro r hr rd hrd
  simp only [exRounds, List.mem_cons, List.not_mem_nil, or_false] at hr
  rcases hr with rfl | rfl | rfl | rfl | rfl <;> simp at hrd <;> (try (rcases hrd with rfl | rfl)) <;> (try subst hrd) <;> decide
example : (Spec.runSpec {} exRounds (Pyrtma.Drv.Manager.modelRun {} exRounds).1 none).errs = [] := by decide +kernel

/-- a frame whose type is the ALL sentinel is written twice to a subscriber of everything — to each of them -/
def exRoundsAll : List Round :=
  [{ accept := true }, { accept := true }, { accept := true },
   { reads := [{ uid := 1, h := { k := 1, mtype := 15, nbytes := 4 }, avail := 4, pay := [255, 255, 255, 127] }], writable := [1, 2, 3] },
   { reads := [{ uid := 2, h := { k := 2, mtype := 15, nbytes := 4 }, avail := 4, pay := [255, 255, 255, 127] }], writable := [1, 2, 3] },
   { reads := [{ uid := 3, h := { k := 3, mtype := 2147483647 } }, { uid := 3, h := { k := 4, mtype := 5000 } }], writable := [1, 2, 3] }]
example : IncRounds 0 exRoundsAll := by simp [IncRounds, IncFrom, lastBound, exRoundsAll]
example : dataKs (run {} exRoundsAll).out 1 = [3, 3, 4] ∧ dataKs (run {} exRoundsAll).out 2 = [3, 3, 4] := by decide +kernel
example : (Spec.runSpec {} exRoundsAll (Pyrtma.Drv.Manager.modelRun {} exRoundsAll).1 none).errs = [] := by decide +kernel

def exState : State :=
  { mods := [{ uid := 0, connected := true }, { uid := 1, modId := 10, connected := true, subs := [5000], msgCount := 4 }],
    idx := [(5000, [1])], wlist := [1], nextUid := 1 }
example : (sendRaw exState 1 (ackFrame {} 10)).1.out = [.send 1 5 (ackFrame {} 10)] := by decide

end Pyrtma.C05
