import Pyrtma.Proofs.ValidatorsCanon
import Pyrtma.Proofs.ValidatorsProg
import Pyrtma.Proofs.ValidatorsFloat
/-!
# C09 — field validation is sound, complete and atomic

Theorems about M4: `Model/Validators.lean` (`setField` = a descriptor's `__set__` / `__setitem__` followed by the ctypes
store, which writes sequence elements one by one and may stop half way) and `Model/ValidatorsExt.lean` (`readField` =
`__get__` / `__getitem__`; `setAt` = the assignment seen from the whole message buffer; `Stmt` / `execList` = programs of
nested `with disable_message_validation(ignore)` blocks, `try/except`, `raise`, views bound at any point).  All statements
are for **every** field type, width, array length, key (index, any slice shape, whole field), pre-existing content and
right-hand side.

| clause of the property | theorems |
|---|---|
| refused ⇒ every byte unchanged | `refused_atomic` (field), `refused_leaves_message_unchanged` (whole object), `…_kth_bad_all_or_nothing` (k-th element after any prefix; int / float / byte / struct arrays) |
| out-of-domain ⇒ refused, wherever it stands | `int_/float_/byte_/struct_array_bad_element_refused`, `int_field_out_of_range_refused`, `float_inf_refused`, `float_wrong_type_refused`, `float32_overflow_refused(_anywhere)`, `float_huge_int_refused` |
| accepted ⇒ in the domain ∧ stored ∧ read back | `accepted_sound` (every descriptor; per kind: `int_/byte_/char_/str_/struct_/float_field_accepted_sound`, `array_field_accepted_sound`), `accepted_sound_nonfloat` (no assumption), `accepted_sound_under_rounding_hypotheses`, `model_meets_spec_accepted` |
| `get (set x v) = canon v` | `spec_readback_is_canon` (from the Spec alone: holds for any observation, model or implementation), `accepted_readback_canon`, `int_field_readback_exact`, `str_field_sound`, `double_field_exact` |
| nothing else is touched | `accepted_touches_only_the_field`, `unselected_elements_untouched` |
| validation in force outside disable blocks | `switch_restored`, `switch_on_after_any_program`, `outside_blocks_validated`, `outside_blocks_meet_spec`, `inside_blocks_not_validated`, `log_threads_message` (programs); `validation_restored`, `off_only_inside_disable_block`, `exception_exit_restores`, `switch_spec_holds_on_every_history` (the exact behaviour `ctxOk`: compared by the correspondence), `switch_in_force_outside_blocks` / `exact_switch_implies_in_force` (`ctxInForce`, the direction the property states: what PROP evaluates on the implementation) (flat event histories) |
| ctypes instances | `str_ctypes_array_refused`: an instance of a ctypes char-array class `c_char * m` is never stored into a `String(n)` field (of the field's own class: handed to ctypes unvalidated, whose char-array setter refuses it; of another length: no `str`), validation on or off, every byte unchanged |

Hypotheses that appear: `tyWF` / `valWF` (Spec/ValidatorsExt.lean: facts about Python objects the abstract values do not
carry - a `bytes` consists of bytes, a ctypes / struct instance has the size of its class, a double has 64 bits, `String(n)`
has `n > 1`, an array descriptor class goes with its kind of element validator); the field holds `ty.size` bytes.

Floating point: `roundMag` (the rounding done by the C cast / `PyLong_AsDouble`) is `opaque`.  Everything about integer,
byte, char, string and struct kinds is proved without any assumption.  For the float kinds the soundness theorems take
`FloatOK` (three facts), which `Proofs/ValidatorsFloat.lean` derives from the named hypotheses `RoundHyp` (a finite result is
a nearest pattern, ties to even; a value at or beyond the IEEE overflow threshold is not rounded to a finite pattern;
float32 values and integers up to 2^53 are fixed by rounding to double; a big integer still finite after
int → double → float was below the float32 threshold).  **These hypotheses are trusted, not proved**; the driver evaluates
each of them at the operands of every generated float case, and compares the bit patterns with ctypes.
`PARTIAL`: that is the only gap - no theorem here says that the C compiler's cast satisfies `RoundHyp`.
-/
namespace Pyrtma.C09
open Pyrtma.Validators

/-! ## atomicity -/

theorem lift_atomic (old : Bytes) (r : Except PyErr Bytes) : (lift old r).2 ≠ none → (lift old r).1 = old := by
  cases r <;> simp [lift]

theorem storeSlice_atomic (vk : VK) (n : Nat) (old : Bytes) (a b c : Option Int) (v : PyVal)
    (hv : ∀ xs, items v = .ok xs → ∀ x ∈ xs, storable vk x) :
    (storeSlice vk n old a b c v).2 ≠ none → (storeSlice vk n old a b c v).1 = old := by
  unfold storeSlice
  cases hprep : slicePrep n a b c v with
  | error e => intro _; rfl
  | ok p =>
    obtain ⟨idxs, xs⟩ := p
    intro h
    exfalso
    apply h
    simp only
    apply storeMany_ok
    -- the items `slicePrep` returns are the items of `v`
    unfold slicePrep at hprep
    cases hs : sliceIndices n a b c with
    | error e => simp [hs] at hprep
    | ok is =>
      cases hi : items v with
      | error e => simp only [hs, hi] at hprep; split at hprep <;> cases hprep
      | ok ys =>
        simp only [hs, hi] at hprep
        split at hprep
        · cases hprep
        · split at hprep
          · cases hprep
          · cases hprep
            exact hv _ hi

theorem byteConv_items (v : PyVal) : ∀ xs, items (byteConv v) = .ok xs →
    (∃ bs, v = .sc (.bytes bs)) → ∀ x ∈ xs, storable .byte x := by
  intro xs hxs ⟨bs, hb⟩ x hx
  subst hb
  cases bs with
  | nil =>
    simp only [byteConv, List.map_nil, items] at hxs
    cases hxs; simp at hx
  | cons b1 t =>
    cases t with
    | nil => simp only [byteConv, items] at hxs; cases hxs; simp at hx
    | cons b2 t2 =>
      simp only [byteConv, items] at hxs
      cases hxs
      simp only [List.mem_map] at hx
      obtain ⟨y, _, rfl⟩ := hx
      exact ⟨_, rfl⟩

theorem byteConv_other (v : PyVal) (h : ¬ ∃ bs, v = .sc (.bytes bs)) : byteConv v = v := by
  unfold byteConv
  split
  · exact absurd ⟨_, rfl⟩ h
  · exact absurd ⟨_, rfl⟩ h
  · rfl

/-- what `validate_many` lets through can be stored element by element -/
theorem validateMany_storable (vk : VK) (v : PyVal) (hm : validateMany vk v = .ok ())
    (hb : ¬ (vk = .byte ∧ ∃ bs, v = .sc (.bytes bs))) :
    ∀ xs, items v = .ok xs → ∀ x ∈ xs, storable vk x := by
  intro xs hxs
  unfold validateMany at hm
  split at hm
  · exact absurd ⟨rfl, _, rfl⟩ hb
  · rw [hxs] at hm
    simp only at hm
    cases vk with
    | int k => intro x hx; exact intLike_storable_int k x (intMany_intLike hm x hx)
    | byte => intro x hx; exact intLike_storable_byte x (intMany_intLike hm x hx)
    | flt k => exact fltMany_storable k xs hm
    | strct tid sz => exact strctMany_storable tid sz xs hm

theorem items_noniterable (v : PyVal) (h : iterable v = false) : items v = .ok [] := by
  cases v with
  | sc s => cases s <;> first | rfl | (simp [iterable] at h)
  | seq k xs => simp [iterable] at h
  | arr c vk n b => simp [iterable] at h

/-- the value handed to a ctypes *slice* assignment after an accepted check consists of storable items -/
theorem checked_items_storable (vk : VK) (key : Key) (v : PyVal) (hk : key = .whole ∨ ∃ a b c, key = .slice a b c)
    (hchk : itemCheck vk key v = .ok ()) :
    ∀ xs, items (if (true && vk == VK.byte) = true then byteConv v else v) = .ok xs → ∀ x ∈ xs, storable vk x := by
  simp only [Bool.true_and]
  by_cases hit : iterable v = true
  · have hm : validateMany vk v = .ok () := by
      unfold itemCheck at hchk
      cases vk with
      | strct t s => rcases hk with rfl | ⟨a, b, c, rfl⟩ <;> simpa [hit] using hchk
      | int k => simpa [hit] using hchk
      | flt k => simpa [hit] using hchk
      | byte => simpa [hit] using hchk
    by_cases hby : vk = .byte ∧ ∃ bs, v = .sc (.bytes bs)
    · obtain ⟨rfl, hbs⟩ := hby
      intro xs hxs
      simp only [beq_self_eq_true, if_true] at hxs
      exact byteConv_items v xs hxs hbs
    · intro xs hxs
      have e : (if (vk == VK.byte) = true then byteConv v else v) = v := by
        by_cases hk : vk = .byte
        · subst hk
          simp only [beq_self_eq_true, if_true]
          exact byteConv_other v (fun hbs => hby ⟨rfl, hbs⟩)
        · have : (vk == VK.byte) = false := by simpa using hk
          simp [this]
      rw [e] at hxs
      exact validateMany_storable vk v hm hby xs hxs
  · have hit' : iterable v = false := by simpa using hit
    have hi := items_noniterable v hit'
    have hnb : ¬ ∃ bs, v = .sc (.bytes bs) := by
      rintro ⟨bs, rfl⟩; simp [iterable] at hit'
    intro xs hxs
    have e : (if (vk == VK.byte) = true then byteConv v else v) = v := by
      by_cases hk : (vk == VK.byte) = true
      · simp only [hk, if_true]; exact byteConv_other v hnb
      · simp [hk]
    rw [e, hi] at hxs
    cases hxs
    intro x hx; simp at hx

theorem setItem_atomic (vk : VK) (n : Nat) (old : Bytes) (key : Key) (v : PyVal) :
    (setItem true vk n old key v).2 ≠ none → (setItem true vk n old key v).1 = old := by
  intro h
  unfold setItem at h ⊢
  simp only [if_true] at h ⊢
  cases hchk : itemCheck vk key v with
  | error e => rfl
  | ok u =>
    simp only [hchk] at h ⊢
    cases key with
    | bad => rfl
    | idx i => exact lift_atomic _ _ h
    | slice a b c =>
      exact storeSlice_atomic _ _ _ _ _ _ _
        (checked_items_storable vk (.slice a b c) v (Or.inr ⟨a, b, c, rfl⟩) hchk) h
    | whole =>
      exact storeSlice_atomic _ _ _ _ _ _ _
        (checked_items_storable vk .whole v (Or.inl rfl) hchk) h

/-- **Atomicity.**  With validation on, an assignment that raises leaves every byte of the field as it was —
although the underlying ctypes store is element-wise and not atomic (see the first `example` below). -/
theorem refused_atomic (ty : FTy) (old : Bytes) (key : Key) (v : PyVal) :
    (setField true ty old key v).2 ≠ none → (setField true ty old key v).1 = old := by
  intro h
  unfold setField at h ⊢
  cases ty with
  | int k => simp only at h ⊢; split <;> first | rfl | exact lift_atomic _ _ (by simp_all)
  | flt k => simp only at h ⊢; split <;> first | rfl | exact lift_atomic _ _ (by simp_all)
  | byte => simp only at h ⊢; split <;> first | rfl | exact lift_atomic _ _ (by simp_all)
  | strct t sz => simp only at h ⊢; split <;> first | rfl | exact lift_atomic _ _ (by simp_all)
  | char =>
    simp only at h ⊢
    split
    · simp_all
    · exact lift_atomic _ _ (by simp_all)
    · rfl
  | str n =>
    simp only at h ⊢
    split
    · split
      · rfl
      · exact lift_atomic _ _ (by simp_all)
    · exact lift_atomic _ _ (by simp_all)
    · rfl
  | arr cls vk n =>
    simp only at h ⊢
    split
    · split
      · exact lift_atomic _ _ (by simp_all)
      · exact setItem_atomic _ _ _ _ _ (by simp_all)
    · exact setItem_atomic _ _ _ _ _ (by simp_all)

/-- bytes outside the assigned field are not touched by construction: the model returns the field's bytes only
and the harness splices them; the harness checks the outside bytes on the implementation (`OUT`). -/
theorem refused_atomic_err (ty : FTy) (old : Bytes) (key : Key) (v : PyVal) (e : PyErr)
    (h : (setField true ty old key v).2 = some e) : (setField true ty old key v).1 = old :=
  refused_atomic ty old key v (by simp [h])

/-! ## completeness: a bad element is refused wherever it stands -/

theorem fltMany_all (k : FK) : ∀ (xs : List Scalar), fltMany k xs = .ok () →
    ∀ x ∈ xs, ∃ b, toDouble x = .ok b ∧ infAfter k b = false
  | [], _ => by simp
  | y :: ys, h => by
    unfold fltMany at h
    split at h
    · simp at h
    · rename_i b hb
      split at h
      · simp at h
      · rename_i hinf
        intro x hx
        simp only [List.mem_cons] at hx
        rcases hx with rfl | hx
        · exact ⟨b, hb, by simpa using hinf⟩
        · exact fltMany_all k ys h x hx

/-- the sequence forms of the right-hand side: list, tuple, ctypes array, generator -/
theorem int_array_bad_element_refused (k : IK) (n : Nat) (old : Bytes) (a b c : Option Int) (kind : SeqK)
    (pre post : List Scalar) (bad : Scalar) (hbad : intDom k.lo k.hi bad = false) (whole : Bool) :
    (setField true (.arr .intArray (.int k) n) old (if whole then .whole else .slice a b c)
      (.seq kind (pre ++ bad :: post))).2 ≠ none := by
  have key : ∀ key : Key, (setItem true (.int k) n old key (.seq kind (pre ++ bad :: post))).2 ≠ none := by
    intro key
    unfold setItem
    have hm : itemCheck (.int k) key (.seq kind (pre ++ bad :: post)) ≠ .ok () := by
      intro hm
      unfold itemCheck at hm
      simp only [iterable, if_true] at hm
      unfold validateMany at hm
      simp only [items] at hm
      have := intMany_range hm bad (by simp)
      rw [hbad] at this; cases this
    simp only [if_true]
    split
    · simp
    · rename_i hchk; exact absurd hchk hm
  cases whole <;> simp only [setField, Bool.false_eq_true, if_false, if_true] <;> exact key _

/-- **floats**: an element that does not convert (`TypeError`/`OverflowError`) or becomes infinite in the field's
format is refused at any position, whatever surrounds it — NaN neighbours included (this is what C09-F1 broke). -/
theorem float_array_bad_element_refused (k : FK) (n : Nat) (old : Bytes) (a b c : Option Int) (kind : SeqK)
    (pre post : List Scalar) (bad : Scalar)
    (hbad : ∀ d, toDouble bad = .ok d → infAfter k d = true) (whole : Bool) :
    (setField true (.arr .floatArray (.flt k) n) old (if whole then .whole else .slice a b c)
      (.seq kind (pre ++ bad :: post))).2 ≠ none := by
  have key : ∀ key : Key, (setItem true (.flt k) n old key (.seq kind (pre ++ bad :: post))).2 ≠ none := by
    intro key
    unfold setItem
    have hm : itemCheck (.flt k) key (.seq kind (pre ++ bad :: post)) ≠ .ok () := by
      intro hm
      unfold itemCheck at hm
      simp only [iterable, if_true] at hm
      unfold validateMany at hm
      simp only [items] at hm
      obtain ⟨d, hd, hf⟩ := fltMany_all k _ hm bad (by simp)
      rw [hbad d hd] at hf; cases hf
    simp only [if_true]
    split
    · simp
    · rename_i hchk; exact absurd hchk hm
  cases whole <;> simp only [setField, Bool.false_eq_true, if_false, if_true] <;> exact key _

/-- **struct arrays**: anything that is not an instance of the element class is refused at any position -/
theorem struct_array_bad_element_refused (tid sz n : Nat) (old : Bytes) (a b c : Option Int) (kind : SeqK)
    (pre post : List Scalar) (bad : Scalar) (hbad : ∀ raw, bad ≠ .strct tid raw) (whole : Bool) :
    (setField true (.arr .structArray (.strct tid sz) n) old (if whole then .whole else .slice a b c)
      (.seq kind (pre ++ bad :: post))).2 ≠ none := by
  have hm : validateMany (.strct tid sz) (.seq kind (pre ++ bad :: post)) ≠ .ok () := by
    intro hm
    unfold validateMany at hm
    simp only [items] at hm
    obtain ⟨raw, hs⟩ := strctMany_storable tid sz _ hm bad (by simp)
    cases bad with
    | strct t r =>
      have : t = tid := by
        by_cases ht : t = tid
        · exact ht
        · simp [elemStore, ht] at hs
      subst this; exact hbad r rfl
    | _ => simp [elemStore] at hs
  have key : ∀ key : Key, (key = .whole ∨ ∃ a b c, key = .slice a b c) →
      (setItem true (.strct tid sz) n old key (.seq kind (pre ++ bad :: post))).2 ≠ none := by
    intro key hk
    unfold setItem
    have hc : itemCheck (.strct tid sz) key (.seq kind (pre ++ bad :: post)) ≠ .ok () := by
      intro hc
      unfold itemCheck at hc
      rcases hk with rfl | ⟨a, b, c, rfl⟩ <;> simp only [iterable, if_true] at hc <;> exact hm hc
    simp only [if_true]
    split
    · simp
    · rename_i hchk; exact absurd hchk hc
  cases whole <;> simp only [setField, Bool.false_eq_true, if_false, if_true]
  · exact key _ (Or.inr ⟨a, b, c, rfl⟩)
  · exact key _ (Or.inl rfl)

/-- scalar integer fields: accepted ⇒ in the Spec's domain (int in range, bool, or a ctypes instance of the class) -/
theorem int_field_accepted_in_domain (k : IK) (old : Bytes) (key : Key) (v : PyVal)
    (h : (setField true (.int k) old key v).2 = none) : inDom (.int k) key v = true := by
  unfold setField at h
  simp only at h
  split at h
  · rename_i s
    unfold setScalar at h
    simp only [if_true] at h
    split at h
    · simp [lift] at h
    · rename_i hval
      unfold validateOne at hval
      cases s with
      | int n =>
        simp only at hval
        split at hval
        · rename_i hr; simp [inDom, elemDomOne, elemDomSeq, intDom, hr]
        · cases hval
      | bool b => simp [inDom, elemDomOne, elemDomSeq, intDom]
      | cdata t raw =>
        cases t with
        | int k' =>
          simp only at hval
          split at hval
          · rename_i hk; simp [inDom, elemDomOne, elemDomSeq, intDom, hk]
          · cases hval
        | _ => cases hval
      | _ => cases hval
  · simp at h

/-- **integers are read back exactly**: an accepted Python int is what the field's bytes decode to -/
theorem int_field_readback_exact (k : IK) (old : Bytes) (n : Int) (post : Bytes)
    (h : setField true (.int k) old .whole (.sc (.int n)) = (post, none)) : decInt k post = n := by
  unfold setField at h
  simp only at h
  unfold setScalar at h
  simp only [if_true] at h
  unfold validateOne at h
  simp only at h
  split at h
  · simp [lift] at h
  · rename_i hval
    split at hval
    · rename_i hr
      have e : elemStore (.int k) (.int n) = .ok (encInt k n) := rfl
      rw [e] at h
      simp only [lift, Prod.mk.injEq, and_true] at h
      rw [← h]
      exact decInt_encInt k n hr.1 hr.2
    · cases hval

/-- out-of-range ints are refused by every integer field (both boundaries, every width) -/
theorem int_field_out_of_range_refused (k : IK) (old : Bytes) (n : Int) (h : n < k.lo ∨ k.hi < n) :
    (setField true (.int k) old .whole (.sc (.int n))).2 = some .valueError := by
  unfold setField
  simp only
  unfold setScalar
  simp only [if_true]
  unfold validateOne
  simp only
  have : ¬ (k.lo ≤ n ∧ n ≤ k.hi) := by omega
  simp [this, lift]

/-! ## strings -/

theorem upToNul_no_zero : ∀ cs : List Nat, ∀ c ∈ upToNul cs, c ≠ 0
  | [], c, h => by simp [upToNul] at h
  | x :: xs, c, h => by
    unfold upToNul at h
    split at h
    · simp at h
    · rename_i hx
      simp only [List.mem_cons] at h
      rcases h with rfl | h
      · simpa using hx
      · exact upToNul_no_zero xs c h

theorem upToNul_append_zeros : ∀ (ds : List Nat) (k : Nat), (∀ c ∈ ds, c ≠ 0) →
    upToNul (ds ++ List.replicate k 0) = ds
  | [], 0, _ => by simp [upToNul]
  | [], k + 1, _ => by simp [List.replicate, upToNul]
  | d :: ds, k, h => by
    have hd : d ≠ 0 := h d (by simp)
    simp only [List.cons_append, upToNul]
    have : (d == 0) = false := by simpa using hd
    simp only [this, Bool.false_eq_true, if_false]
    rw [upToNul_append_zeros ds k (fun c hc => h c (by simp [hc]))]

/-- **strings**: an accepted string is read back up to its first NUL, the field holds nothing but NULs after it
(no stale bytes of an earlier, longer value: C10-F1), and only ASCII strings shorter than the field are accepted -/
theorem str_field_sound (n : Nat) (hn : 1 < n) (old : Bytes) (s : Scalar) (post : Bytes)
    (h : setField true (.str n) old .whole (.sc s) = (post, none)) :
    ∃ cs, s = .str cs ∧ cs.length ≤ n - 1 ∧ (∀ c ∈ cs, c < 128) ∧
      post = upToNul cs ++ List.replicate (n - (upToNul cs).length) 0 ∧ upToNul post = upToNul cs := by
  unfold setField at h
  simp only at h
  have hn1 : ¬ n = 1 := by omega
  split at h
  · -- an instance of a ctypes char-array class: refused (by ctypes if it is the field's own class, else as "no str")
    split at h
    · simp at h
    · simp [setStr, strCheck, lift] at h
  · rename_i s' _ _ heq
    cases heq
    unfold setStr at h
    simp only [if_true] at h
    split at h
    · simp [lift] at h
    · rename_i hchk
      unfold strCheck at hchk
      unfold strStore at h
      simp only [hn1, if_false] at hchk h
      cases s with
      | str cs =>
        simp only at hchk h
        split at hchk
        · cases hchk
        · rename_i hlen
          split at hchk
          · cases hchk
          · rename_i hasc
            simp only [hasc, Bool.false_eq_true, if_false] at h
            split at h
            · simp [lift] at h
            · simp only [lift, Prod.mk.injEq, and_true] at h
              refine ⟨cs, rfl, by omega, ?_, h.symm, ?_⟩
              · intro c hc
                simp only [List.any_eq_true, not_exists, not_and, decide_eq_true_eq] at hasc
                have := hasc c hc; omega
              · rw [← h]; exact upToNul_append_zeros _ _ (upToNul_no_zero cs)
      | _ => cases hchk
  · exact absurd h (by simp)

/-- **a ctypes char-array instance is never stored into a string field** - of the field's own class `c_char * n` (the
descriptor hands it to ctypes unvalidated, and the setter of a char-array field wants `bytes`) or of any other length,
with validation on or off: an exception comes out and every byte of the field is as before.  (The branch of
`String.__set__` for `isinstance(value, self._ctype)` can therefore never *accept* anything; a change that makes it
accept - by dropping the store, say - accepts a value outside the Spec's domain.) -/
theorem str_ctypes_array_refused (en : Bool) (n m : Nat) (old raw : Bytes) :
    ∃ e, setField en (.str n) old .whole (.sc (.cdata (.chars m) raw)) = (old, some e) := by
  unfold setField
  simp only
  split
  · exact ⟨_, rfl⟩
  · cases en <;> simp [setStr, strCheck, strStore, lift]

example : setField true (.str 3) [104, 105, 0] .whole (.sc (.cdata (.chars 3) [97, 98, 0])) = ([104, 105, 0], some .typeError) ∧
    setField false (.str 3) [104, 105, 0] .whole (.sc (.cdata (.chars 2) [97, 0])) = ([104, 105, 0], some .attributeError) ∧
    inDom (.str 3) .whole (.sc (.cdata (.chars 3) [97, 98, 0])) = false := by decide

/-! ## the validation switch -/

/-- invariant of `disable_message_validation` (with `try/finally`): the flag is off exactly when some open block
really disables, and every open block remembers the flag of its surroundings -/
def CtxInv (init : Bool) : List (Option Bool) → Bool → Prop
  | [], en => en = init
  | none :: st, en => CtxInv init st en
  | some old :: st, en => en = false ∧ CtxInv init st old

theorem ctx_exit_inv (init : Bool) (c : Ctx) (h : CtxInv init c.stack c.enabled) :
    CtxInv init (c.step .exitNormal).stack (c.step .exitNormal).enabled := by
  obtain ⟨en, st⟩ := c
  cases st with
  | nil => simpa [Ctx.step] using h
  | cons x st =>
    cases x with
    | none => simpa [Ctx.step, CtxInv] using h
    | some old => simp only [CtxInv] at h; simpa [Ctx.step] using h.2

theorem ctx_step_inv (init : Bool) (c : Ctx) (e : CtxEv) (h : CtxInv init c.stack c.enabled) :
    CtxInv init (c.step e).stack (c.step e).enabled := by
  cases e with
  | enter ig => cases ig <;> simp [Ctx.step, CtxInv, h]
  | exitNormal => exact ctx_exit_inv init c h
  | exitExc => exact ctx_exit_inv init c h

theorem ctx_run_inv (init : Bool) (evs : List CtxEv) : ∀ (c : Ctx), CtxInv init c.stack c.enabled →
    CtxInv init (c.run evs).stack (c.run evs).enabled := by
  induction evs with
  | nil => intro c h; exact h
  | cons e es ih => intro c h; exact ih (c.step e) (ctx_step_inv init c e h)

/-- **Validation is restored.**  After any sequence of `enter` / `exit` events — blocks left normally or by an
exception, nested to any depth, `ignore` or not — that closes every block it opened (and possibly more: surplus
exits are no-ops), the flag is what it was at the start. -/
theorem validation_restored (init : Bool) (evs : List CtxEv)
    (hclosed : (Ctx.run { enabled := init, stack := [] } evs).stack = []) :
    (Ctx.run { enabled := init, stack := [] } evs).enabled = init := by
  have := ctx_run_inv init evs { enabled := init, stack := [] } rfl
  rw [hclosed] at this
  exact this

/-- **Validation is in force outside disable blocks**: at *every* point of *every* history, if validation is
currently off then some enclosing block entered with `ignore = False` is still open. -/
theorem off_only_inside_disable_block (evs : List CtxEv) :
    (Ctx.run {} evs).enabled = false → ∃ old, some old ∈ (Ctx.run {} evs).stack := by
  have hinv := ctx_run_inv true evs {} rfl
  generalize (Ctx.run {} evs).stack = st at hinv
  generalize (Ctx.run {} evs).enabled = en at hinv
  intro hen
  subst hen
  induction st with
  | nil => simp [CtxInv] at hinv
  | cons x st ih =>
    cases x with
    | none => obtain ⟨o, ho⟩ := ih hinv; exact ⟨o, by simp [ho]⟩
    | some o => exact ⟨o, by simp⟩

/-- an exit by exception restores exactly what a normal exit restores -/
theorem exception_exit_restores (c : Ctx) : c.step .exitExc = c.step .exitNormal := rfl

/-! ## non-vacuity -/

/-- the ctypes store alone is *not* atomic: with validation off, `[1, "a", 3]` into an `int8[3]` leaves the 1 written -/
example : setField false (.arr .intArray (.int .i8) 3) [9, 9, 9] .whole (.seq .list [.int 1, .str [97], .int 3])
    = ([1, 9, 9], some .typeError) := by decide
/-- the same assignment with validation on raises and leaves the bytes alone -/
example : setField true (.arr .intArray (.int .i8) 3) [9, 9, 9] .whole (.seq .list [.int 1, .str [97], .int 3])
    = ([9, 9, 9], some .typeError) := by decide
example : setField true (.arr .intArray (.int .i8) 3) [9, 9, 9] (.slice none none (some (-1))) (.seq .tuple [.int 1, .bool true, .int (-128)])
    = ([128, 1, 1], none) := by decide
example : setField true (.arr .intArray (.int .i8) 3) [9, 9, 9] (.idx (-1)) (.sc (.int 128)) = ([9, 9, 9], some .valueError) := by decide
example : setField true (.int .u16) [0, 0] .whole (.sc (.int 65535)) = ([255, 255], none) := by decide
example : setField true (.int .u16) [0, 0] .whole (.sc (.int 65536)) = ([0, 0], some .valueError) := by decide
example : setField true (.str 6) [104, 101, 108, 108, 111, 0] .whole (.sc (.str [104, 105])) = ([104, 105, 0, 0, 0, 0], none) := by decide
example : setField true (.str 6) [1, 2, 3, 4, 5, 6] .whole (.sc (.str [104, 105, 106, 107, 108, 109])) = ([1, 2, 3, 4, 5, 6], some .valueError) := by decide
example : setField true (.arr .structArray (.strct 1 2) 2) [0, 0, 0, 0] (.idx 0) (.seq .tuple []) = ([0, 0, 0, 0], some .typeError) := by decide
example : Ctx.trace {} [.enter false, .enter true, .exitExc, .enter false, .exitNormal, .exitExc] = [false, false, false, false, false, true] := by decide
example : inDom (.arr .intArray (.int .i8) 3) .whole (.seq .list [.int 1, .int 200, .int 3]) = false := by decide


/-! ## soundness: accepted ⇒ in the domain ∧ stored ∧ read back (every field kind, every key, every value)

`SoundAt ty key v post` = the Spec's `inDom ty key v` ∧ the Spec's `postOk ty key v post rb` with `rb` the model's own
read-back `readField ty key post` (`__get__` / `__getitem__`) ∧ the field keeps its size.  Hypotheses of the theorems:
`tyWF` (a `String(n)` has `n > 1`, an array descriptor class goes with its kind of element validator), `valWF` (facts
about Python objects the abstract values do not carry: a `bytes` consists of bytes, a ctypes / struct instance has the
size of its class, a double has 64 bits), the field holds `ty.size` bytes, and - **only for float element kinds** -
`FloatOK` (three facts about the opaque rounding function, proved from named hypotheses in the § floats below). -/

theorem asciiDecode_ascii (cs : List Nat) (h : ∀ c ∈ cs, c < 128) : asciiDecode cs = .str cs := by
  unfold asciiDecode
  have : cs.any (· ≥ 128) = false := by
    simp only [List.any_eq_false, decide_eq_true_eq]
    intro c hc; have := h c hc; omega
  simp [this]

theorem char_field_sound (old : Bytes) (key : Key) (v : PyVal) (post : Bytes)
    (hw : valWF .byte v = true) (h : setField true .char old key v = (post, none)) :
    inDom .char key v = true ∧ postOk .char key v post (readField .char key post) = true ∧
    post.length = FTy.char.size := by
  unfold setField at h
  simp only at h
  split at h
  · rename_i raw
    simp only [Prod.mk.injEq, and_true] at h; subst h
    have : raw.length = 1 := by
      simp only [valWF, scalarWF, CT.size, Bool.and_eq_true, beq_iff_eq] at hw; exact hw.1
    simp [inDom, postOk, FTy.size, this]
  · rename_i s hnc
    have hs := lift_ok _ _ _ h
    unfold setStr at hs
    simp only [if_true] at hs
    split at hs
    · cases hs
    · rename_i hchk
      unfold strCheck at hchk
      cases s with
      | str cs =>
        simp only [if_true] at hchk
        split at hchk
        · cases hchk
        · rename_i hlen
          split at hchk
          · cases hchk
          · rename_i hasc
            simp only [strStore, hasc, Bool.false_eq_true, if_false, if_true] at hs
            split at hs
            · rename_i hl1
              simp only [Except.ok.injEq] at hs; subst hs
              have hall : ∀ c ∈ cs, c < 128 := by
                intro c hc
                simp only [List.any_eq_true, not_exists, not_and, decide_eq_true_eq] at hasc
                have := hasc c hc; omega
              have hall' : cs.all (· < 128) = true := by simpa using hall
              simp [inDom, strDom, postOk, readField, asciiDecode_ascii cs hall, hl1, hall', FTy.size]
            · cases hs
      | _ => cases hchk
  · simp at h

theorem str_field_accepted_sound (n : Nat) (hn : 1 < n) (old : Bytes) (key : Key) (v : PyVal) (post : Bytes)
    (h : setField true (.str n) old key v = (post, none)) :
    inDom (.str n) key v = true ∧ postOk (.str n) key v post (readField (.str n) key post) = true ∧
    post.length = (FTy.str n).size := by
  have hkv : key = .whole ∧ ∃ s, v = .sc s := by
    unfold setField at h
    simp only at h
    split at h
    · exact ⟨rfl, _, rfl⟩
    · exact ⟨rfl, _, rfl⟩
    · simp at h
  obtain ⟨rfl, s, rfl⟩ := hkv
  obtain ⟨cs, rfl, hlen, hasc, hpost, hup⟩ := str_field_sound n hn old s post h
  have hall : cs.all (· < 128) = true := by simpa using hasc
  have hnz := upToNul_no_zero cs
  have hsub : ∀ c ∈ upToNul cs, c < 128 := by
    intro c hc
    have : ∀ (l : List Nat), ∀ c ∈ upToNul l, c ∈ l := by
      intro l
      induction l with
      | nil => intro c hc; simp [upToNul] at hc
      | cons x xs ih =>
        intro c hc
        unfold upToNul at hc
        split at hc
        · simp at hc
        · simp only [List.mem_cons] at hc ⊢
          rcases hc with rfl | hc
          · left; rfl
          · right; exact ih c hc
    exact hasc c (this cs c hc)
  have hlen2 : (upToNul cs).length ≤ cs.length := by
    have : ∀ (l : List Nat), (upToNul l).length ≤ l.length := by
      intro l
      induction l with
      | nil => simp [upToNul]
      | cons x xs ih => unfold upToNul; split <;> simp <;> omega
    exact this cs
  refine ⟨?_, ?_, ?_⟩
  · simp only [inDom, strDom, hall, Bool.and_true, decide_eq_true_eq]; exact hlen
  · simp only [postOk, readField, hup, beq_self_eq_true, Bool.true_and]
    rw [asciiDecode_ascii _ hsub]; simp
  · rw [hpost]; simp [FTy.size]; omega


theorem int_field_accepted_sound (k : IK) (old : Bytes) (key : Key) (v : PyVal) (post : Bytes)
    (hw : valWF (.int k) v = true) (h : setField true (.int k) old key v = (post, none)) :
    SoundAt (.int k) key v post := int_field_sound k old key v post hw h

theorem byte_field_accepted_sound (old : Bytes) (key : Key) (v : PyVal) (post : Bytes)
    (hw : valWF .byte v = true) (h : setField true .byte old key v = (post, none)) :
    SoundAt .byte key v post := byte_field_sound old key v post hw h

theorem struct_field_accepted_sound (tid sz : Nat) (old : Bytes) (key : Key) (v : PyVal) (post : Bytes)
    (hw : valWF (.strct tid sz) v = true) (h : setField true (.strct tid sz) old key v = (post, none)) :
    SoundAt (.strct tid sz) key v post := strct_field_sound tid sz old key v post hw h

/-- float / double scalar fields, given the first float fact (`FltStoreSound`) -/
theorem float_field_accepted_sound (hF : FltStoreSound) (k : FK) (old : Bytes) (key : Key) (v : PyVal) (post : Bytes)
    (hw : valWF (.flt k) v = true) (h : setField true (.flt k) old key v = (post, none)) :
    SoundAt (.flt k) key v post := flt_field_sound hF k old key v post hw h

/-- **arrays** (`IntArray`, `FloatArray`, `ByteArray`, `StructArray`; key: one index, *any* slice `[a:b:c]` - negative,
out-of-range, extended -, the whole field; value: scalar, list / tuple / ctypes array / generator, `bytes`, `str`,
another message's bound or unbound array object): accepted ⇒ in the domain, every selected element holds its item
(`sliceIndices_spec`: the selected element numbers are pairwise different and inside the array, so no later element store
overwrites an earlier one), the selection reads back as stored. -/
theorem array_field_accepted_sound (cls : ArrCls) (vk : VK) (hF : FloatOK vk) (n : Nat) (old : Bytes) (key : Key)
    (v : PyVal) (post : Bytes) (hc : clsOK cls vk = true) (hold : old.length = vk.esize * n)
    (hw : valWF vk v = true) (h : setField true (.arr cls vk n) old key v = (post, none)) :
    SoundAt (.arr cls vk n) key v post := arr_field_sound cls vk hF n old key v post hc hold hw h

/-- **Soundness, every field descriptor at once.** -/
theorem accepted_sound (ty : FTy) (hF : FloatOK ty.vk) (old : Bytes) (key : Key) (v : PyVal) (post : Bytes)
    (hty : tyWF ty = true) (hold : old.length = ty.size) (hw : valWF ty.vk v = true)
    (h : setField true ty old key v = (post, none)) : SoundAt ty key v post := by
  cases ty with
  | int k => exact int_field_sound k old key v post hw h
  | flt k => exact flt_field_sound (hF k rfl).1 k old key v post hw h
  | byte => exact byte_field_sound old key v post hw h
  | char => exact char_field_sound old key v post hw h
  | str n => exact str_field_accepted_sound n (by simpa [tyWF] using hty) old key v post h
  | strct t z => exact strct_field_sound t z old key v post hw h
  | arr cls vk n =>
    exact arr_field_sound cls vk hF n old key v post (by simpa [tyWF] using hty) (by simpa [FTy.size] using hold) hw h

/-- … and without any assumption about floating point for every field whose elements are not floats -/
theorem accepted_sound_nonfloat (ty : FTy) (hnf : ∀ k, ty.vk ≠ .flt k) (old : Bytes) (key : Key) (v : PyVal)
    (post : Bytes) (hty : tyWF ty = true) (hold : old.length = ty.size) (hw : valWF ty.vk v = true)
    (h : setField true ty old key v = (post, none)) : SoundAt ty key v post :=
  accepted_sound ty (fun k hk => absurd hk (hnf k)) old key v post hty hold hw h

/-- in the form of the Spec's clause list: on an accepted assignment of the model all three clauses of `C09.holds`
are true (the observation being the model's own result and read-back) -/
theorem model_meets_spec_accepted (ty : FTy) (hF : FloatOK ty.vk) (old : Bytes) (key : Key) (v : PyVal) (post : Bytes)
    (hty : tyWF ty = true) (hold : old.length = ty.size) (hw : valWF ty.vk v = true)
    (h : setField true ty old key v = (post, none)) :
    Validators.holds ty key v
      { pre := old, post := post, raised := false, outsideChanged := false, rb := readField ty key post } := by
  obtain ⟨h1, h2, _⟩ := accepted_sound ty hF old key v post hty hold hw h
  intro c hc
  simp only [clauses, List.mem_cons, List.mem_nil_iff, or_false] at hc
  rcases hc with rfl | rfl | rfl <;> simp [h1, h2]

/-! ## `get (set x v) = canon v` -/

/-- **Read-back equals the value assigned, from the Spec alone** (integers exactly, bools as 0/1, a length-one `bytes` as
that byte, strings up to the NUL, structs byte for byte; every non-float kind): whatever *observation* satisfies the
Spec's `inDom` and `postOk` - the model's or the implementation's - has read back `canonVal ty key v`. -/
theorem spec_readback_is_canon (ty : FTy) (hnf : ∀ k, ty.vk ≠ .flt k) (key : Key) (v : PyVal) (post : Bytes)
    (rb : List Scalar) (hw : valWF ty.vk v = true)
    (hraw : ∀ cls vk n, ty = .arr cls vk n → ∀ c k m r, key = .whole → v = .arr c k m (some r) →
      r.length = vk.esize * n)
    (hd : inDom ty key v = true) (hp : postOk ty key v post rb = true) :
    ∀ l, canonVal ty key v = some l → rb = l :=
  spec_readback_canon ty hnf key v post rb hw hraw hd hp

/-- **`get (set x v) = canon v` for the model**: after an accepted assignment the field reads back the canonical value
of what was assigned - every non-float field kind, every key (index, any slice shape, whole), every value. -/
theorem accepted_readback_canon (ty : FTy) (hnf : ∀ k, ty.vk ≠ .flt k) (old : Bytes) (key : Key) (v : PyVal)
    (post : Bytes) (hty : tyWF ty = true) (hold : old.length = ty.size) (hw : valWF ty.vk v = true)
    (h : setField true ty old key v = (post, none)) :
    ∀ l, canonVal ty key v = some l → readField ty key post = l := by
  obtain ⟨hd, hp, _⟩ := accepted_sound_nonfloat ty hnf old key v post hty hold hw h
  refine spec_readback_canon ty hnf key v post _ hw ?_ hd hp
  intro cls vk n hty' c k m r hk hv
  subst hty' hk hv
  exact accepted_raw_size cls vk (fun k' hk' => absurd hk' (hnf k')) n old c k m r post
    (by simpa [tyWF] using hty) hw h

/-- integers in particular: an accepted slice assignment of in-range Python ints reads back those very ints -/
example : canonVal (.arr .intArray (.int .i8) 3) (.slice none none (some (-1)))
    (.seq .tuple [.int 1, .bool true, .int (-128)]) = some [.int 1, .int 1, .int (-128)] := by decide
example : canonVal (.arr .byteArray .byte 4) (.slice (some 0) none (some 2)) (.sc (.bytes [65, 66]))
    = some [.bytes [65], .bytes [66]] := by decide
example : canonVal (.str 6) .whole (.sc (.str [104, 105, 0, 106])) = some [.str [104, 105]] := by decide

/-! ## all or nothing, at full generality

What `refused_atomic` (above) already covers: **every** field descriptor (`FTy`: 8 int widths, 2 float widths, char, byte,
string of any length, Int/Float/Byte/Struct arrays of any length and element type, struct of any size), **every** key
(index, any slice `[a:b:c]`, whole field, non-integer key), **every** content and **every** right-hand side (scalars,
lists / tuples / ctypes arrays / generators of any length with the refused element at any position after any prefix of
valid ones, `bytes`, `str`, ctypes and struct instances, bound / unbound array objects of any family).  It speaks about the
field's own bytes.  Added here:

* the statement for the **whole object**: `refused_leaves_message_unchanged` (the field is a sub-range of the top-level
  buffer - directly, through nested structs, inside struct-array elements, or through a view bound earlier; the view case is
  also part of `exec`, § the validation switch);
* the converse frame: an accepted assignment changes nothing outside the field (`accepted_touches_only_the_field`) and,
  inside an array, nothing outside the selected elements (`unselected_elements_untouched`);
* the "k-th element after any valid prefix" form spelled out for the four array families
  (`…_kth_bad_all_or_nothing`), byte arrays included (`byte_array_bad_element_refused` was missing). -/

open Pyrtma.Validators

theorem splice_same (msg : Bytes) (off sz : Nat) :
    msg.take off ++ (msg.drop off).take sz ++ msg.drop (off + sz) = msg := by
  rw [List.append_assoc, ← List.drop_drop, List.take_append_drop, List.take_append_drop]

theorem splice_frame (A new C : Bytes) (off sz : Nat) (hA : A.length = off) (hn : new.length = sz) :
    (A ++ new ++ C).take off = A ∧ (A ++ new ++ C).drop (off + sz) = C ∧
    ((A ++ new ++ C).drop off).take sz = new := by
  subst hA hn
  refine ⟨?_, ?_, ?_⟩
  · rw [List.append_assoc, List.take_left']; rfl
  · rw [← List.length_append, List.drop_left']; rfl
  · rw [List.append_assoc, List.drop_left' rfl, List.take_left' rfl]

/-- **All or nothing, seen from the whole object.**  The field lives at bytes `off … off + ty.size` of the top-level
message (directly, inside a nested struct, inside an element of a struct array, or reached through a view bound
earlier: all of these are sub-ranges of the one buffer).  With validation on, an assignment that raises leaves
**every byte of the message** as it was. -/
theorem refused_leaves_message_unchanged (msg : Bytes) (off : Nat) (ty : FTy) (key : Key) (v : PyVal) :
    (setAt true msg off ty key v).2 ≠ none → (setAt true msg off ty key v).1 = msg := by
  intro h
  unfold setAt at h ⊢
  simp only at h ⊢
  rw [refused_atomic ty _ key v h]
  exact splice_same msg off ty.size

/-- … and an accepted one changes nothing but the field: same length, same bytes before and after it -/
theorem accepted_touches_only_the_field (msg : Bytes) (off : Nat) (ty : FTy) (hF : FloatOK ty.vk) (key : Key)
    (v : PyVal) (msg' : Bytes) (hfit : off + ty.size ≤ msg.length) (hty : tyWF ty = true)
    (hw : valWF ty.vk v = true) (h : setAt true msg off ty key v = (msg', none)) :
    msg'.length = msg.length ∧ msg'.take off = msg.take off ∧
    msg'.drop (off + ty.size) = msg.drop (off + ty.size) ∧
    (msg'.drop off).take ty.size = (setField true ty ((msg.drop off).take ty.size) key v).1 := by
  unfold setAt at h
  simp only [Prod.mk.injEq] at h
  obtain ⟨h1, h2⟩ := h
  have hold : ((msg.drop off).take ty.size).length = ty.size := by simp; omega
  have hacc : setField true ty ((msg.drop off).take ty.size) key v =
      ((setField true ty ((msg.drop off).take ty.size) key v).1, none) := by
    rw [← h2]
  have hlen := (accepted_sound ty hF _ key v _ hty hold hw hacc).2.2
  generalize (setField true ty ((msg.drop off).take ty.size) key v).1 = new at *
  subst h1
  have hA : (msg.take off).length = off := by simp; omega
  obtain ⟨f1, f2, f3⟩ := splice_frame (msg.take off) new (msg.drop (off + ty.size)) off ty.size hA hlen
  exact ⟨by simp; omega, f1, f2, f3⟩


/-- inside an array an accepted assignment leaves every element it does not select untouched -/
theorem unselected_elements_untouched (cls : ArrCls) (vk : VK) (hF : FloatOK vk) (n : Nat) (old : Bytes) (key : Key)
    (v : PyVal) (post : Bytes) (hold : old.length = vk.esize * n) (hw : valWF vk v = true)
    (h : setField true (.arr cls vk n) old key v = (post, none)) :
    ∀ idxs, selIndices n key = .ok idxs → ∀ j, j < n → j ∉ idxs →
      elemBytes post j vk.esize = elemBytes old j vk.esize :=
  arr_frame cls vk hF n old key v post hold hw h

/-- a refusal of the field assignment is a refusal that leaves the whole message as it was -/
theorem refused_whole (msg : Bytes) (off : Nat) (ty : FTy) (key : Key) (v : PyVal)
    (h : ∀ old, (setField true ty old key v).2 ≠ none) : ∃ e, setAt true msg off ty key v = (msg, some e) := by
  have h2 : (setAt true msg off ty key v).2 ≠ none := h _
  have h1 := refused_leaves_message_unchanged msg off ty key v h2
  cases he : (setAt true msg off ty key v).2 with
  | none => exact absurd he h2
  | some e => exact ⟨e, Prod.ext h1 he⟩

/-- **byte arrays**: an element that is no int in 0..255 is refused at any position -/
theorem byte_array_bad_element_refused (n : Nat) (old : Bytes) (a b c : Option Int) (kind : SeqK)
    (pre post : List Scalar) (bad : Scalar) (hbad : intDom 0 255 bad = false) (whole : Bool) :
    (setField true (.arr .byteArray .byte n) old (if whole then .whole else .slice a b c)
      (.seq kind (pre ++ bad :: post))).2 ≠ none := by
  have key : ∀ key : Key, (setItem true .byte n old key (.seq kind (pre ++ bad :: post))).2 ≠ none := by
    intro key
    unfold setItem
    have hm : itemCheck .byte key (.seq kind (pre ++ bad :: post)) ≠ .ok () := by
      intro hm
      unfold itemCheck at hm
      simp only [iterable, if_true] at hm
      unfold validateMany at hm
      simp only [items] at hm
      have := intMany_range hm bad (by simp)
      rw [hbad] at this; cases this
    simp only [if_true]
    split
    · simp
    · rename_i hchk; exact absurd hchk hm
  cases whole <;> simp only [setField, Bool.false_eq_true, if_false, if_true] <;> exact key _

/-- **the k-th element, after any prefix of valid ones**: one bad element at position `pre.length` of a sequence
assigned to an int array (slice of any shape or whole field; list, tuple, ctypes array or generator) - the assignment
raises and **every byte of the message** is as before.  (`pre`, `post` are arbitrary: valid, invalid, NaN, anything.) -/
theorem int_array_kth_bad_all_or_nothing (msg : Bytes) (off : Nat) (k : IK) (n : Nat) (a b c : Option Int) (kind : SeqK)
    (pre post : List Scalar) (bad : Scalar) (hbad : intDom k.lo k.hi bad = false) (whole : Bool) :
    ∃ e, setAt true msg off (.arr .intArray (.int k) n) (if whole then .whole else .slice a b c)
      (.seq kind (pre ++ bad :: post)) = (msg, some e) :=
  refused_whole msg off _ _ _ (fun old => int_array_bad_element_refused k n old a b c kind pre post bad hbad whole)

theorem float_array_kth_bad_all_or_nothing (msg : Bytes) (off : Nat) (k : FK) (n : Nat) (a b c : Option Int)
    (kind : SeqK) (pre post : List Scalar) (bad : Scalar)
    (hbad : ∀ d, toDouble bad = .ok d → infAfter k d = true) (whole : Bool) :
    ∃ e, setAt true msg off (.arr .floatArray (.flt k) n) (if whole then .whole else .slice a b c)
      (.seq kind (pre ++ bad :: post)) = (msg, some e) :=
  refused_whole msg off _ _ _ (fun old => float_array_bad_element_refused k n old a b c kind pre post bad hbad whole)

theorem byte_array_kth_bad_all_or_nothing (msg : Bytes) (off : Nat) (n : Nat) (a b c : Option Int) (kind : SeqK)
    (pre post : List Scalar) (bad : Scalar) (hbad : intDom 0 255 bad = false) (whole : Bool) :
    ∃ e, setAt true msg off (.arr .byteArray .byte n) (if whole then .whole else .slice a b c)
      (.seq kind (pre ++ bad :: post)) = (msg, some e) :=
  refused_whole msg off _ _ _ (fun old => byte_array_bad_element_refused n old a b c kind pre post bad hbad whole)

theorem struct_array_kth_bad_all_or_nothing (msg : Bytes) (off : Nat) (tid sz n : Nat) (a b c : Option Int)
    (kind : SeqK) (pre post : List Scalar) (bad : Scalar) (hbad : ∀ raw, bad ≠ .strct tid raw) (whole : Bool) :
    ∃ e, setAt true msg off (.arr .structArray (.strct tid sz) n) (if whole then .whole else .slice a b c)
      (.seq kind (pre ++ bad :: post)) = (msg, some e) :=
  refused_whole msg off _ _ _
    (fun old => struct_array_bad_element_refused tid sz n old a b c kind pre post bad hbad whole)

/-- the third element of four is out of range: nothing of a 7-byte message changes, although the first two are valid -/
example : setAt true [1, 2, 3, 4, 5, 6, 7] 2 (.arr .intArray (.int .i8) 4) .whole
    (.seq .list [.int 1, .int 2, .int 300, .int 4]) = ([1, 2, 3, 4, 5, 6, 7], some .valueError) := by decide
/-- the same store with validation off writes the prefix (`c_int8(300)` wraps, so use a wrong type to stop it) -/
example : setAt false [1, 2, 3, 4, 5, 6, 7] 2 (.arr .intArray (.int .i8) 4) .whole
    (.seq .list [.int 9, .int 9, .str [97], .int 4]) = ([1, 2, 9, 9, 5, 6, 7], some .typeError) := by decide
example : setAt true [1, 2, 3, 4, 5, 6, 7] 2 (.arr .intArray (.int .i8) 4) (.slice (some 3) none (some (-2)))
    (.seq .list [.int 9, .int 8]) = ([1, 2, 3, 8, 5, 9, 7], none) := by decide

/-! ## the validation switch over whole programs

`Stmt` / `execList` (Model/ValidatorsExt.lean): `with disable_message_validation(ignore): …` nested to any depth,
`try … except: pass`, `raise`, binding of array objects / sub-structures / struct-array elements at any point, assignments
through a fresh attribute access or through an object bound earlier.  A refused assignment is an exception like any other:
it leaves every enclosing block up to the next `try`.  (The flat event histories of `validation_restored` above are the
special case without assignments.) -/

open Pyrtma.Validators

/-- the model's own observation of one recorded assignment -/
def obsOf (r : AssignRec) : ProgObs :=
  { depth := r.depth, loc := r.loc, key := r.key, val := r.val, pre := r.pre, post := r.post,
    raised := r.err.isSome, rb := readAt r.post r.loc.off r.loc.ty r.key }

/-- **The switch is restored.**  Whatever the program - blocks nested to any depth, `ignore` or not, left normally, by
`raise`, or by a refused assignment; `try/except` anywhere; views bound anywhere - the context variable afterwards is
what it was before, also when the program as a whole ends by an exception. -/
theorem switch_restored (d : Nat) (s : PState) (h : s.flag = decide (d = 0)) (prog : List Stmt) :
    (execList d s prog).1.flag = s.flag := (execList_ok d s h prog).1

theorem switch_on_after_any_program (msg : Bytes) (prog : List Stmt) :
    (execList 0 { msg := msg } prog).1.flag = true := switch_restored 0 { msg := msg } rfl prog

/-- **Every assignment outside a disable block is validated, whatever it goes through**: each assignment the run
executed at lexical depth 0 - after any number of blocks entered and left before it, through a fresh attribute access or
through any object bound earlier (inside or outside a block) - had exactly the effect of the validating
`__set__` / `__setitem__` on the message as it was at that moment. -/
theorem outside_blocks_validated (msg : Bytes) (prog : List Stmt) :
    ∀ rec ∈ (execList 0 { msg := msg } prog).1.log, rec.depth = 0 →
      (rec.post, rec.err) = setAt true rec.pre rec.loc.off rec.loc.ty rec.key rec.val := by
  obtain ⟨_, new, hlog, _, hall⟩ := execList_ok 0 { msg := msg } rfl prog
  intro rec hrec hd
  rw [hlog] at hrec
  simp only [List.append_nil] at hrec
  obtain ⟨hf, hr⟩ := hall rec hrec
  unfold RecOK at hr
  rw [hf, hd] at hr
  simpa using hr

/-- … and inside a disabling block none is (the flag really is off there: the model does not validate more than the code) -/
theorem inside_blocks_not_validated (msg : Bytes) (prog : List Stmt) :
    ∀ rec ∈ (execList 0 { msg := msg } prog).1.log, rec.depth ≠ 0 →
      (rec.post, rec.err) = setAt false rec.pre rec.loc.off rec.loc.ty rec.key rec.val := by
  obtain ⟨_, new, hlog, _, hall⟩ := execList_ok 0 { msg := msg } rfl prog
  intro rec hrec hd
  rw [hlog] at hrec
  simp only [List.append_nil] at hrec
  obtain ⟨hf, hr⟩ := hall rec hrec
  unfold RecOK at hr
  rw [hf] at hr
  simpa [hd] using hr

/-- the recorded assignments thread the message from its initial to its final content: each one started from what
the previous one left behind -/
theorem log_threads_message (msg : Bytes) (prog : List Stmt) :
    Chain msg (execList 0 { msg := msg } prog).1.log.reverse (execList 0 { msg := msg } prog).1.msg := by
  obtain ⟨_, new, hlog, hch, _⟩ := execList_ok 0 { msg := msg } rfl prog
  rw [hlog]; simpa using hch

/-- one validated assignment on the whole message meets every clause of C09 -/
theorem setAt_meets_spec (pre : Bytes) (l : Loc) (hF : FloatOK l.ty.vk) (key : Key) (v : PyVal) (post : Bytes)
    (err : Option PyErr) (hfit : l.off + l.ty.size ≤ pre.length) (hty : tyWF l.ty = true)
    (hw : valWF l.ty.vk v = true) (h : (post, err) = setAt true pre l.off l.ty key v) :
    ∀ c ∈ clauses l.ty key v
      (ProgObs.toObs { depth := 0, loc := l, key := key, val := v, pre := pre, post := post, raised := err.isSome,
                       rb := readAt post l.off l.ty key }), c.2 = true := by
  cases err with
  | some e =>
    have hne : (setAt true pre l.off l.ty key v).2 ≠ none := by rw [← h]; simp
    have hsame := refused_leaves_message_unchanged pre l.off l.ty key v hne
    have hp : post = pre := by rw [← hsame, ← h]
    subst hp
    intro c hc
    simp only [clauses, ProgObs.toObs, List.mem_cons, List.mem_nil_iff, or_false] at hc
    rcases hc with rfl | rfl | rfl <;> simp
  | none =>
    obtain ⟨hlen, h1, h2, h3⟩ := accepted_touches_only_the_field pre l.off l.ty hF key v post hfit hty hw h.symm
    have hold : (fieldOf pre l).length = l.ty.size := by simp [fieldOf]; omega
    have hacc : setField true l.ty (fieldOf pre l) key v = (fieldOf post l, none) := by
      have : (setAt true pre l.off l.ty key v).2 = none := by rw [← h]
      unfold setAt at this
      simp only at this
      unfold fieldOf
      rw [h3]
      exact Prod.ext rfl this
    obtain ⟨hd, hp, _⟩ := accepted_sound l.ty hF _ key v _ hty hold hw hacc
    intro c hc
    simp only [clauses, ProgObs.toObs, List.mem_cons, List.mem_nil_iff, or_false] at hc
    have hrb : readAt post l.off l.ty key = readField l.ty key (fieldOf post l) := rfl
    rcases hc with rfl | rfl | rfl
    · simp
    · simp [hd]
    · simp [hd, hrb, hp]

/-- **Outside disable blocks the whole of C09 holds** for the run of any program: every recorded assignment at depth 0
satisfies the three clauses (refused ⇒ every byte of the message unchanged; accepted ⇒ in the domain, stored, read back,
nothing outside the field touched) - given that the fields lie inside the message and the values are well-formed. -/
theorem outside_blocks_meet_spec (msg : Bytes) (prog : List Stmt) :
    ∀ rec ∈ (execList 0 { msg := msg } prog).1.log,
      FloatOK rec.loc.ty.vk → rec.loc.off + rec.loc.ty.size ≤ rec.pre.length → tyWF rec.loc.ty = true →
      valWF rec.loc.ty.vk rec.val = true → ∀ c ∈ progClauses (obsOf rec), c.2 = true := by
  intro rec hrec hF hfit hty hw c hc
  unfold progClauses obsOf at hc
  simp only at hc
  split at hc
  · rename_i hd
    have hv := outside_blocks_validated msg prog rec hrec hd
    exact setAt_meets_spec rec.pre rec.loc hF rec.key rec.val rec.post rec.err hfit hty hw hv c hc
  · simp at hc


/-- **The Spec's clause about the switch holds on the model for every event history**: after every event of every
sequence of `enter(ignore?)` / `exit(normal | exception)` events the flag is on exactly when no block entered with
`ignore = False` is open (`ctxOk` is the predicate the driver evaluates on the implementation's behaviour). -/
theorem switch_spec_holds_on_every_history (evs : List CtxEv) : ctxOk evs (Ctx.trace {} evs) = true :=
  trace_meets_ctxOk evs

/-- **Validation is in force whenever execution is not inside a disable block** - the direction the property states, as
the driver evaluates it on the implementation (`ctxInForce`): after every event of every history at which no block
entered with `ignore = False` is open, the model's flag is on - also after blocks left through an exception. -/
theorem switch_in_force_outside_blocks (evs : List CtxEv) : ctxInForce evs (Ctx.trace {} evs) = true :=
  ctxOk_imp_ctxInForce evs _ (trace_meets_ctxOk evs)

/-- the implementation-side clause is implied by the exact one: whatever observation satisfies `ctxOk` satisfies
`ctxInForce` (the converse fails: see the example after the theorems) -/
theorem exact_switch_implies_in_force (evs : List CtxEv) (flags : List Bool) (h : ctxOk evs flags = true) :
    ctxInForce evs flags = true := ctxOk_imp_ctxInForce evs flags h

/-- non-vacuity: the in-force clause separates observations.  `[enter, exit-by-exception]` with the flag off inside and
still off afterwards (validation stays off after a block left through an exception) fails it; the same events with the
flag *on* inside the block (a block that does not disable) pass it although they are not the model's exact behaviour. -/
example : ctxInForce [.enter false, .exitExc] [false, false] = false ∧
    ctxInForce [.enter false, .exitExc] [false, true] = true ∧
    ctxInForce [.enter false, .exitExc] [true, true] = true ∧ ctxOk [.enter false, .exitExc] [true, true] = false ∧
    ctxInForce [.enter true, .exitNormal] [false, true] = false := by decide

/-- a view bound *inside* a disable block and used after it: validated (the bad value is refused, nothing changes); used
inside the block: not validated (300 wraps to 44); the switch is on at the end although the last statement raised -/
def demoTy : FTy := .arr .intArray (.int .i8) 3
def demoRun : PState × Bool :=
  execList 0 { msg := [0, 0, 0] }
    [ .block false [.bind 0 ⟨0, demoTy⟩, .assign (.view 0) ⟨0, demoTy⟩ (.idx 0) (.sc (.int 300)),
                    .block true [.tryCatch [.raise]]],
      .tryCatch [.assign (.view 0) ⟨0, demoTy⟩ (.idx 1) (.sc (.int 300)),
                 .assign .fresh ⟨0, demoTy⟩ (.idx 1) (.sc (.int 1))],
      .block false [.block false [.raise]],
      .assign .fresh ⟨0, demoTy⟩ (.idx 2) (.sc (.int 7)) ]
example : demoRun.1.msg = [44, 0, 0] ∧ demoRun.1.flag = true ∧ demoRun.2 = true ∧
    (demoRun.1.log.reverse.map fun x => (x.depth, x.flag, x.err)) =
      [(1, false, none), (0, true, some .valueError)] := by decide

/-! ## floats

`roundMag` stays `opaque`.  Proved here **without** any assumption about it: ±inf refused, NaN accepted and stored as NaN,
a double field holds every finite double bit for bit, wrong types refused, bools accepted.  Proved from **named
hypotheses** (`RoundHyp`, Proofs/ValidatorsFloat.lean - each a property of IEEE round-to-nearest, listed in the trusted
base, and evaluated by the driver at the operands of every generated float case): float32 overflow refused at any position,
ints too large for a double refused, and the three facts `FloatOK` that `accepted_sound` needs - so that accepted ⇒ the value
is in the float domain and the stored pattern is a *nearest* representable finite value (ties to even), for floats, ints,
bools, for scalar fields, elements, slices and copied arrays. -/

open Pyrtma.Validators

/-- **Soundness for every field descriptor under the named rounding hypotheses** (`RoundHyp`: a finite result is a
nearest pattern; a value at or beyond the overflow threshold is not rounded to a finite pattern; float32 values and
integers up to 2^53 are fixed by rounding to double; the big-integer monotonicity clause). -/
theorem accepted_sound_under_rounding_hypotheses (R : RoundHyp) (ty : FTy) (old : Bytes) (key : Key) (v : PyVal)
    (post : Bytes) (hty : tyWF ty = true) (hold : old.length = ty.size) (hw : valWF ty.vk v = true)
    (h : setField true ty old key v = (post, none)) : SoundAt ty key v post :=
  accepted_sound ty (floatOK_of R ty.vk) old key v post hty hold hw h

/-! ### independent of the rounding function -/

theorem flt_scalar_refused (k : FK) (old : Bytes) (s : Scalar) (e : PyErr) (h : validateOne (.flt k) s = .error e) :
    setField true (.flt k) old .whole (.sc s) = (old, some e) := by
  simp [setField, setScalar, h, lift]

/-- **±infinity is refused** by float and double fields alike -/
theorem float_inf_refused (k : FK) (old : Bytes) (b : Nat) (h : isInf64 b = true) :
    setField true (.flt k) old .whole (.sc (.flt b)) = (old, some .valueError) := by
  apply flt_scalar_refused
  simp [validateOne, toDouble, inf_infAfter k b h]

/-- **NaN is accepted** by both kinds and stored as a NaN (the field's magnitude bits are above the infinity pattern) -/
theorem float_nan_accepted (k : FK) (old : Bytes) (b : Nat) (hb : b < 2 ^ 64) (h : isNaN64 b = true) :
    ∃ post, setField true (.flt k) old .whole (.sc (.flt b)) = (post, none) ∧
      fromLE post % (fmtOf k).sign > (fmtOf k).infPat := by
  have hni := nan_not_infAfter k b h
  refine ⟨encFlt k b, by simp [setField, setScalar, validateOne, toDouble, hni, elemStore, lift], ?_⟩
  simp only [isNaN64, decide_eq_true_eq] at h
  cases k with
  | f64 =>
    simp only [encFlt, fromLE_toLE8 b hb, fmtOf64, fmt64_sign]
    rw [fmt64_inf] at h ⊢; omega
  | f32 =>
    have hm : b % 2 ^ 63 < 2 ^ 63 := Nat.mod_lt _ (by decide)
    rcases decodeMag64_cases (b % 2 ^ 63) hm with ⟨hlt, _⟩ | ⟨heq, _⟩ | ⟨_, hd⟩
    · omega
    · omega
    · have hn := narrow_nan b hd
      have hs : b / 2 ^ 63 % 2 < 2 := Nat.mod_lt _ (by decide)
      have hlt : narrow b < 2 ^ 32 := by rw [hn]; omega
      simp only [encFlt, fromLE_toLE4 _ hlt, fmtOf32, fmt32_sign, fmt32_inf]
      rw [hn]; omega

/-- **a double field holds every finite double bit for bit** and reads it back unchanged: no rounding is involved -/
theorem double_field_exact (old : Bytes) (b : Nat) (hb : b < 2 ^ 64) (hfin : isInf64 b = false) :
    setField true (.flt .f64) old .whole (.sc (.flt b)) = (toLE 8 b, none) ∧
    readField (.flt .f64) .whole (toLE 8 b) = [.flt b] := by
  refine ⟨by simp [setField, setScalar, validateOne, toDouble, infAfter, hfin, elemStore, encFlt, lift], ?_⟩
  simp [readField, fromLE_toLE8 b hb]

/-- **wrong types are refused**: a `str`, a `bytes`, `None` / any other object, a struct instance (and a ctypes
instance of another class) are no numbers -/
theorem float_wrong_type_refused (k : FK) (old : Bytes) (s : Scalar)
    (hs : (∃ cs, s = .str cs) ∨ (∃ bs, s = .bytes bs) ∨ s = .other ∨ (∃ t r, s = .strct t r) ∨
          (∃ t r, s = .cdata t r ∧ t ≠ .flt k)) :
    setField true (.flt k) old .whole (.sc s) = (old, some .typeError) := by
  apply flt_scalar_refused
  rcases hs with ⟨cs, rfl⟩ | ⟨bs, rfl⟩ | rfl | ⟨t, r, rfl⟩ | ⟨t, r, rfl, hne⟩ <;> try rfl
  cases t with
  | flt k' =>
    have : k' ≠ k := fun h => hne (by rw [h])
    simp [validateOne, this]
  | int k' => rfl
  | char => rfl
  | chars m => rfl

/-- **bools are accepted** (`isinstance(True, int)`): a double field holds exactly 1.0 / 0.0 afterwards -/
theorem double_accepts_bool (old : Bytes) (t : Bool) :
    setField true (.flt .f64) old .whole (.sc (.bool t)) =
      (toLE 8 (if t then 0x3ff0000000000000 else 0), none) := by
  cases t <;> simp [setField, setScalar, validateOne, toDouble, infAfter, isInf64, fmt64_inf, elemStore, encFlt, lift]

/-! ### needing one named hypothesis each -/

/-- **float32 overflow is refused** (hypothesis: a value at or beyond the float32 overflow threshold is not rounded to a
finite pattern): a finite double whose value overflows float32 raises `ValueError`, nothing stored -/
theorem float32_overflow_refused
    (ho : ∀ m e, overflowsMag fmt32 (scaled m e) = true → fmt32.infPat ≤ roundMag fmt32 m e)
    (old : Bytes) (b m : Nat) (e : Int) (hd : decodeMag fmt64 (b % 2 ^ 63) = .fin m e)
    (hov : overflowsMag fmt32 (scaled m e) = true) :
    setField true (.flt .f32) old .whole (.sc (.flt b)) = (old, some .valueError) := by
  apply flt_scalar_refused
  simp [validateOne, toDouble, overflow32_infAfter ho b m e hd hov]

/-- … at **any position of a sequence** assigned to a float32 array, whatever surrounds it (NaN neighbours included),
for any slice shape, leaving every byte of the message unchanged -/
theorem float32_overflow_refused_anywhere
    (ho : ∀ m e, overflowsMag fmt32 (scaled m e) = true → fmt32.infPat ≤ roundMag fmt32 m e)
    (msg : Bytes) (off n : Nat) (a b' c : Option Int) (kind : SeqK) (pre post : List Scalar) (b m : Nat) (e : Int)
    (hd : decodeMag fmt64 (b % 2 ^ 63) = .fin m e) (hov : overflowsMag fmt32 (scaled m e) = true) (whole : Bool) :
    ∃ err, setAt true msg off (.arr .floatArray (.flt .f32) n) (if whole then .whole else .slice a b' c)
      (.seq kind (pre ++ .flt b :: post)) = (msg, some err) :=
  float_array_kth_bad_all_or_nothing msg off .f32 n a b' c kind pre post (.flt b)
    (fun d hd' => by
      simp only [toDouble, Except.ok.injEq] at hd'; subst hd'
      exact overflow32_infAfter ho b m e hd hov) whole

/-- **an int too large for a double is refused** with `OverflowError` by float and double fields (hypothesis: a value at
or beyond the double overflow threshold is not rounded to a finite pattern) -/
theorem float_huge_int_refused
    (ho : ∀ m e, overflowsMag fmt64 (scaled m e) = true → fmt64.infPat ≤ roundMag fmt64 m e)
    (k : FK) (old : Bytes) (n : Int) (hov : overflowsMag fmt64 (scaled n.natAbs 0) = true) :
    setField true (.flt k) old .whole (.sc (.int n)) = (old, some .overflowError) := by
  apply flt_scalar_refused
  have : ofInt n = none := by
    unfold ofInt
    have := ho _ _ hov
    simp only
    split
    · rfl
    · omega
  simp [validateOne, toDouble, this]


example : setField true (.flt .f64) [0, 0, 0, 0, 0, 0, 0, 0] .whole (.sc (.flt 0x7ff0000000000000))
    = ([0, 0, 0, 0, 0, 0, 0, 0], some .valueError) := float_inf_refused .f64 _ _ (by decide)
example : (setField true (.flt .f64) [0, 0, 0, 0, 0, 0, 0, 0] .whole (.sc (.flt 0x3ff8000000000000))).1
    = [0, 0, 0, 0, 0, 0, 0xf8, 0x3f] := by rw [(double_field_exact _ _ (by decide) (by decide)).1]; decide

/-! ### non-vacuity of the soundness theorems -/

/-- an extended slice with a negative step on an `int8[3]`: hypotheses satisfiable, conclusion about a real store -/
example : SoundAt (.arr .intArray (.int .i8) 3) (.slice none none (some (-1)))
    (.seq .tuple [.int 1, .bool true, .int (-128)]) [128, 1, 1] :=
  accepted_sound_nonfloat _ (by intro k h; cases h) [9, 9, 9] _ _ _ (by decide) (by decide) (by decide) (by decide)
/-- … and what the model reads back from it -/
example : readField (.arr .intArray (.int .i8) 3) (.slice none none (some (-1))) [128, 1, 1]
    = [.int 1, .int 1, .int (-128)] := by decide
/-- a struct array element replaced through an index, a `bytes` into a byte array through a slice with step 2 -/
example : SoundAt (.arr .structArray (.strct 1 2) 2) (.idx (-1)) (.sc (.strct 1 [7, 8])) [0, 0, 7, 8] :=
  accepted_sound_nonfloat _ (by intro k h; cases h) [0, 0, 0, 0] _ _ _ (by decide) (by decide) (by decide) (by decide)
example : SoundAt (.arr .byteArray .byte 4) (.slice (some 0) none (some 2)) (.sc (.bytes [65, 66])) [65, 9, 66, 9] :=
  accepted_sound_nonfloat _ (by intro k h; cases h) [9, 9, 9, 9] _ _ _ (by decide) (by decide) (by decide) (by decide)
/-- another message's array object: copied as it is -/
example : SoundAt (.arr .intArray (.int .u16) 2) .whole (.arr .intArray (.int .u16) 2 (some [1, 2, 3, 4])) [1, 2, 3, 4] :=
  accepted_sound_nonfloat _ (by intro k h; cases h) [0, 0, 0, 0] _ _ _ (by decide) (by decide) (by decide) (by decide)
example : SoundAt .char .whole (.sc (.str [97])) [97] :=
  accepted_sound_nonfloat _ (by intro k h; cases h) [0] _ _ _ (by decide) (by decide) (by decide) (by decide)

end Pyrtma.C09
