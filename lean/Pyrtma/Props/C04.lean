import Pyrtma.Proofs.Emit
import Pyrtma.Proofs.Wire
import Pyrtma.Props.C04tables
/-!
# C04 — all language outputs describe the same wire format

* the six native-type tables of the code (regenerated from the working tree into `Gen/TypeTables.lean` on every run)
  are total and agree on width and class — kernel evaluation over the whole tables (`tables_total`, `no_stray_keys`,
  `tables_agree`, `tables_agree_all`);
* every definition the parser stores is laid out by a C compiler / ctypes without hidden padding and with the
  recorded size (`registry_layout`: M6's `no_hidden_padding`, lifted through the registry invariant to any nesting
  depth, any alias chain, field-list reuse, any item order);
* **`same_ids_and_constants`** (every registry) and **`same_structs_and_messages`** (every closure that parses, names
  distinct): the Python, C, JavaScript and MATLAB programs of the model have the same wire signature — constants,
  string constants, host / module / message ids, message hashes; per struct and message the field names in order, the
  element counts, and element types that are the same reference or compatible native types *after resolving every alias
  reference through the alias lines of the same output* (Python resolves in place, the others print one line per
  alias; C leaves what comes from `core_defs/` to `RTMA.h`).  Proofs: `Proofs/Wire.lean` on top of the scoping
  invariant of `Proofs/Scoped.lean`;
* `emit_same_fields_partial`, `native_types_compatible`: the registry-independent layer (kept).
Decided on the implementation every run: the same `wireClauses` on the four *real* outputs, gcc `offsetof/sizeof`
against ctypes against the recorded sizes, and that the real outputs are the model's statements (CORR emit.*).
-/
namespace Pyrtma.C04
open Pyrtma.Emit Pyrtma.Emit.Inst Pyrtma.Layout

/-- **`tables_total`.**  Every type name accepted by `supported_types` has an entry in the Python ctypes table, the
Python descriptor table, the C, JavaScript and MATLAB tables, and its `NativeType.name` is a key of the parser's own
ctypes table (used by the final size assert). -/
theorem tables_total : allTablesTotal = true := by decide +kernel

/-- no table has a key that the parser would not accept (JavaScript's pseudo-type `string` excepted) -/
theorem no_stray_keys : noStrayKeys = true := by decide +kernel

/-- **`tables_agree`.**  For every native type name, the byte width and class (char / signed / unsigned / float)
denoted by its entry in each of the six tables coincide with what `supported_types` records (size and struct format
letter); the JavaScript default value is a string exactly for `char`. -/
theorem tables_agree : allTablesAgree = true := by decide +kernel

instance : DecidablePred Al := fun a => by unfold Al; infer_instance

theorem tables_wf : TablesWf tables := by
  unfold TablesWf; decide +kernel

/-- **No hidden padding in any accepted closure** (C04, second sentence, model side): for the tables of the working
tree, every item list, every `auto_pad` setting — if the parse succeeds then every struct and message of the resulting
registry satisfies `DefR.layoutOk`: natural C layout = packed offsets, `sizeof` = recorded `type_size`, `_Alignof` =
recorded alignment.  (That gcc and ctypes implement the natural-alignment rule is measured by the harness.) -/
theorem registry_layout (ap : Bool) (items : List (Bool × Item)) (R : Reg)
    (h : elaborate tables ap items {} = .ok R) : R.layoutOk :=
  elaborate_layout tables_wf items {} R regWf_empty ⟨by simp, by simp⟩ h

/-- the same for arbitrary tables whose sizes are 1, 2, 4 or 8 -/
theorem registry_layout_gen {T : Tables} (hT : TablesWf T) (ap : Bool) (items : List (Bool × Item)) (R : Reg)
    (h : elaborate T ap items {} = .ok R) : R.layoutOk :=
  elaborate_layout hT items {} R regWf_empty ⟨by simp, by simp⟩ h

/-! ### the four printers walk the same field list (first, registry-independent layer; the full statements follow below) -/

/-- **`emit_same_fields_partial`.**  For every registry, tables and definition: the C, JavaScript and MATLAB
statements list exactly the definition's field names in order with exactly its lengths; the Python statement lists
the same names in order, and — wherever its descriptor lookup succeeds, for lengths ≥ 1 (the parser rejects the
others) — the same element count (`T[1]` is printed as a scalar: count 1 either way). -/
theorem emit_same_fields_partial (T : Tables) (R : Reg) (d : DefR) :
    (d.fields.map (cField T R)).map (fun f => (f.name, f.len)) = d.fields.map (fun f => (f.name, f.len)) ∧
    (d.fields.map (mField T R)).map (fun f => (f.name, f.len)) = d.fields.map (fun f => (f.name, f.len)) ∧
    (d.fields.map (jsField T R)).map (fun f => (f.name, f.len)) = d.fields.map (fun f => (f.name, f.len)) ∧
    (d.fields.map (pyField T R)).map (·.name) = d.fields.map (·.name) ∧
    (∀ f ∈ d.fields, f.len ≠ some 0 → (pyField T R f).ty ≠ .bad → (pyField T R f).len.getD 1 = f.len.getD 1) := by
  refine ⟨?_, ?_, ?_, ?_, fun f _ hl h => py_count T R f hl h⟩
  · simp [List.map_map, Function.comp_def, cField]
  · simp [List.map_map, Function.comp_def, mField]
  · simp only [List.map_map]; apply List.map_congr_left; intro f _
    simp only [Function.comp]; unfold jsField; split <;> (try split) <;> simp_all
  · simp [List.map_map, Function.comp_def, pyField]

/-- the numeric tables agree pairwise on every native key -/
def tablesCompat (T : Tables) : Bool :=
  T.natives.all (fun r =>
    match assoc T.c r.1, assoc T.m r.1, assoc T.pyDesc r.1, assoc T.pyCt r.1 with
    | some a, some b, some c, some d => a.compat b && a.compat c && a.compat d && b.compat c && a.width == r.2.2
    | _, _, _, _ => false)

theorem tables_compat : tablesCompat tables = true := by decide +kernel

/-- **`native_types_compatible`.**  With agreeing tables, a field whose type is a native name is printed by the C,
MATLAB and Python back ends as types of the same width and class, the width being the size the parser used for the
layout. -/
theorem native_types_compatible {T : Tables} (hT : tablesCompat T = true) (R : Reg) (f : FieldR) {nm sz}
    (hn : assoc T.natives f.ty = some (nm, sz)) :
    ∃ a b c, (cField T R f).ty = .nat a ∧ (mField T R f).ty = .nat b ∧ (pyField T R f).ty = .nat c ∧
      a.compat b = true ∧ a.compat c = true ∧ a.width = sz := by
  have hm := assoc_mem hn
  unfold tablesCompat at hT
  have := (List.all_eq_true.mp hT) _ hm
  simp only at this
  split at this
  · rename_i a b c d ha hb hc hd
    simp only [Bool.and_eq_true, beq_iff_eq] at this
    refine ⟨a, b, c, ?_, ?_, ?_, this.1.1.1.1, this.1.1.1.2 |> fun _ => this.1.1.1.2 |> fun _ => ?_, this.2⟩
    · simp [cField, tblTy, ha]
    · simp [mField, tblTy, hb]
    · simp [pyField, pyDescriptor, pyDescBase, hd, hc]
    · exact this.1.1.1.2
  · simp at this

/-! ### the four outputs denote the same table — every kind, every registry (`Proofs/Wire.lean`)

`wireOf nat prog` is the wire signature of a program: its constants, string constants, host / module / message ids,
message hashes and, per struct and message, the field names in order with the element type *resolved through the alias
lines of the same program* and the element count.  `natFmt` gives a JavaScript `type_map.<name>` the meaning
`supported_types` gives that name (JavaScript has no types of its own). -/

/-- what `supported_types` says each native type name is (size and struct format letter), as the `nat` of `wireOf` -/
def natFmt : List (Name × Den) := keys.filterMap (fun k => (fmtDen k).map (fun d => (idOf k, d)))

theorem tables_agree_all : TablesAgree tables (assoc natFmt) := tablesAgree_of (by decide +kernel)

theorem tables_cover : TablesTotal tables := tablesTotal_of (by decide +kernel)

/-- **`same_ids_and_constants`.**  For *every* registry: the Python, JavaScript and MATLAB outputs list exactly the
registry's constants, string constants, host ids, module ids, message ids and message hashes (in registry order), the C
header the part of each that does not come from `core_defs/`. -/
theorem same_ids_and_constants (nat : Name → Option Den) (R : Reg) :
    let py := wireOf nat (emit tables R .py); let c := wireOf nat (emit tables R .c)
    let js := wireOf nat (emit tables R .js); let m := wireOf nat (emit tables R .m)
    (py.consts = js.consts ∧ py.consts = m.consts ∧ py.strs = js.strs ∧ py.strs = m.strs ∧
     py.hosts = js.hosts ∧ py.hosts = m.hosts ∧ py.mods = js.mods ∧ py.mods = m.mods ∧
     py.mts = js.mts ∧ py.mts = m.mts ∧ py.hashes = js.hashes ∧ py.hashes = m.hashes) ∧
    (py.mts = R.msgIds.map (fun c => (c.1, c.2.1)) ∧ py.hashes = R.msgs.map (fun d => (d.name, d.hash))) ∧
    (c.consts = (noCore R.consts (·.2.2)).map (fun c => (c.1, c.2.1)) ∧ c.strs = (noCore R.strs (·.2.2)).map (fun c => (c.1, c.2.1)) ∧
     c.hosts = (noCore R.hosts (·.2.2)).map (fun c => (c.1, c.2.1)) ∧ c.mods = (noCore R.mods (·.2.2)).map (fun c => (c.1, c.2.1)) ∧
     c.mts = (noCore R.msgIds (·.2.2)).map (fun c => (c.1, c.2.1)) ∧
     c.hashes = (noCore R.msgs (·.core)).map (fun d => (d.name, d.hash))) := by
  simp only [emit]
  refine ⟨⟨?_, ?_, ?_, ?_, ?_, ?_, ?_, ?_, ?_, ?_, ?_, ?_⟩, ⟨py_mts _ _ _, py_hashes _ _ _⟩,
    ⟨c_consts _ _ _, c_strs _ _ _, c_hosts _ _ _, c_mods _ _ _, c_mts _ _ _, c_hashes _ _ _⟩⟩
  · rw [py_consts, js_consts]
  · rw [py_consts, m_consts]
  · rw [py_strs, js_strs]
  · rw [py_strs, m_strs]
  · rw [py_hosts, js_hosts]
  · rw [py_hosts, m_hosts]
  · rw [py_mods, js_mods]
  · rw [py_mods, m_mods]
  · rw [py_mts, js_mts]
  · rw [py_mts, m_mts]
  · rw [py_hashes, js_hashes]
  · rw [py_hashes, m_hashes]

/-- **`same_structs_and_messages`.**  For every closure that parses (alias / struct / message names distinct): Python,
JavaScript and MATLAB list the same structs and messages in the same order, each with the same field names in order,
the same element counts, and element types that — once every alias reference is resolved through the alias lines of the
same output — are the same struct / message reference or native types of the same width and class; the C header does so
for the definitions it prints (a reference to an alias of `core_defs/` stays a reference: `k.aliases`). -/
theorem same_structs_and_messages {ap : Bool} {items : List (Bool × Item)} {R : Reg}
    (h : elaborate tables ap items {} = .ok R) (hnd : (defNames items).Nodup) (k : Core)
    (hk : ∀ a ∈ R.aliases, a.core = true → k.aliases.contains a.name = true) :
    let nat := assoc natFmt
    listCompat WDef.compat (wireOf nat (emit tables R .py)).defs (wireOf nat (emit tables R .js)).defs = true ∧
    listCompat WDef.compat (wireOf nat (emit tables R .py)).defs (wireOf nat (emit tables R .m)).defs = true ∧
    listCompat (WDef.compatC k) (regDefs nat (emit tables R .py) (pyField tables R) (userReg R))
      (wireOf nat (emit tables R .c)).defs = true := by
  have hR := elaborate_regOK tables_cover.char items (regOK_empty tables) h
  have hD := elaborate_disj h hnd
  have hL := elaborate_lens tables_wf items regWf_empty ⟨by simp, by simp⟩ h
  have hnd' : (aliasNames R).Nodup := by
    have := elaborate_typeNames items h
    simp only [typeNames, List.map_nil, List.append_nil, List.nil_append] at this
    have h2 := this.nodup_iff.mpr hnd
    exact (List.nodup_append.mp (List.nodup_append.mp h2).1).1
  exact ⟨fields_py_js hR hD tables_cover tables_agree_all hL, fields_py_m hR hD tables_cover tables_agree_all hL,
    fields_py_c hR hD tables_cover hnd' tables_agree_all hL hk⟩

/-! ### Non-vacuity -/

/-- non-vacuity of `same_structs_and_messages`: a closure with an alias of a native type, an alias of that alias, a
core struct with an alias-typed field and a `char` array, a struct nesting it in an array, a message, a signal, a message
nesting the message — it parses with distinct names, every clause of `wireClauses` holds for its four programs, and
the signature is not trivial (4 definitions with fields, one of them resolved through two alias lines, padding made explicit) -/
example : (match elaborate tables true
      [(true, .alias 510 (idOf "int16")), (true, .alias 511 510),
       (true, .struct 500 1 (.list [(501, 511, none), (502, idOf "double", some 2), (520, idOf "char", some 4)])),
       (false, .struct 503 2 (.list [(504, 500, some 3), (505, idOf "char", some 5)])),
       (false, .message 506 1000 3 (.list [(507, 503, none)])),
       (false, .signal 508 1001 4),
       (false, .message 509 1002 5 (.list [(512, 506, some 2), (513, 511, none)]))] {} with
    | .ok R =>
      let nat := assoc natFmt
      let k : Core := { aliases := [510, 511], structs := [500] }
      (wireClauses k (wireOf nat (emit tables R .py)) (wireOf nat (emit tables R .c)) (wireOf nat (emit tables R .js))
        (wireOf nat (emit tables R .m))).all (·.2) &&
      (wireOf nat (emit tables R .py)).defs.length == 4 && (wireOf nat (emit tables R .c)).defs.length == 3 &&
      ((wireOf nat (emit tables R .m)).defs.map (fun d => d.fields.map (·.ty))).head? ==
        -- int16 (through two alias lines), 6 bytes of inserted padding, double[2], char[4], 4 bytes of trailing padding
        some [.den ⟨2, .sint⟩, .den ⟨1, .sint⟩, .den ⟨8, .flt⟩, .den ⟨1, .sint⟩, .den ⟨1, .sint⟩]
    | .error _ => false) = true := by decide +kernel

/-- `{a: uint8; b: int32}` then a message with an array of it and a `double`: accepted, padded, and laid out as recorded -/
example : (match elaborate tables true
      [(false, .struct 500 7 (.list [(501, idOf "uint8", none), (502, idOf "int32", none)])),
       (false, .message 503 1234 9 (.list [(504, 500, some 2), (505, idOf "double", none)]))] {} with
    | .ok R => R.structs.map (fun d => (d.size, d.align, d.fields.length)) == [(8, 4, 3)] &&
               R.msgs.map (fun d => (d.size, d.align, d.layoutOk)) == [(24, 8, true)]
    | .error _ => false) = true := by decide +kernel

example : tables.natives.length = 27 := by decide +kernel

end Pyrtma.C04
