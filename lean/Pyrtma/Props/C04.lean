import Pyrtma.Proofs.Emit
import Pyrtma.Props.C04tables
/-!
# C04 — all language outputs describe the same wire format

* the six native-type tables of the code (regenerated from the working tree into `Gen/TypeTables.lean` on every run)
  are total and agree on width and class — kernel evaluation over the whole tables, a proof, not a sample;
* every definition the parser stores is laid out by a C compiler / ctypes without hidden padding and with the
  recorded size (M6's `no_hidden_padding`, lifted through the registry invariant to any nesting depth, any alias
  chain, field-list reuse, any item order);
* every back end walks the same field list: same names, same order, same lengths; native element types are printed
  through tables that agree.
-/
namespace Pyrtma.C04
open Pyrtma.Emit Pyrtma.Emit.Inst Pyrtma.Layout

/-- **`tables_total`.**  Every type name accepted by `supported_types` has an entry in the Python ctypes table, the
Python descriptor table, the C, JavaScript and MATLAB tables, and its `NativeType.name` is a key of the parser's own
ctypes table (used by the final size assert). -/
theorem tables_total : allTablesTotal = true := by decide +kernel

/-- no table has a key that the parser would not accept (JavaScript's pseudo-type `string` excepted) -/
theorem no_stray_keys : noStrayKeys = true := by decide +kernel

/-- **`tables_agree`.**  For every native type name, the byte width and class (char / signed / unsigned / float)
denoted by its entry in each of the six tables coincide with what `supported_types` records (size and struct format
letter); the JavaScript default value is a string exactly for `char`. -/
theorem tables_agree : allTablesAgree = true := by decide +kernel

instance : DecidablePred Al := fun a => by unfold Al; infer_instance

theorem tables_wf : TablesWf tables := by
  unfold TablesWf; decide +kernel

/-- **No hidden padding in any accepted closure** (C04, second sentence, model side): for the tables of the working
tree, every item list, every `auto_pad` setting — if the parse succeeds then every struct and message of the resulting
registry satisfies `DefR.layoutOk`: natural C layout = packed offsets, `sizeof` = recorded `type_size`, `_Alignof` =
recorded alignment.  (That gcc and ctypes implement the natural-alignment rule is measured by the harness.) -/
theorem registry_layout (ap : Bool) (items : List (Bool × Item)) (R : Reg)
    (h : elaborate tables ap items {} = .ok R) : R.layoutOk :=
  elaborate_layout tables_wf items {} R regWf_empty ⟨by simp, by simp⟩ h

/-- the same for arbitrary tables whose sizes are 1, 2, 4 or 8 -/
theorem registry_layout_gen {T : Tables} (hT : TablesWf T) (ap : Bool) (items : List (Bool × Item)) (R : Reg)
    (h : elaborate T ap items {} = .ok R) : R.layoutOk :=
  elaborate_layout hT items {} R regWf_empty ⟨by simp, by simp⟩ h

/-! ### the four printers walk the same field list

Full statement (`emit_same_fields`): for every registry `R` and tables `T` that agree, the wire signatures
`wireOf (emit T R l)` of the four languages satisfy every clause of `wireClauses` (ids, hashes, constants, module and host
ids, per definition the field names in order with compatible resolved element types and equal lengths).
Proved below: names, order and lengths for every definition and every back end (`emit_same_fields_partial`), and
compatibility of the printed native element types (`native_types_compatible`, instantiated at the working tree's
tables by kernel evaluation).  Missing for the full statement: the resolution of alias references through the
printed alias lines (`resolveTy`) and the `filterMap` projections of ids / hashes / constants out of the
concatenated programs; both are checked on the real outputs by the harness (`wireClauses` on the implementation's
observation). -/

theorem cnt_native (l : Option Nat) (hl : l ≠ some 0) :
    (if l.getD 0 ≤ 1 then (none : Option Nat) else some (l.getD 0)).getD 1 = l.getD 1 := by
  cases l with
  | none => simp
  | some n =>
    have : n ≠ 0 := by intro h; exact hl (by rw [h])
    simp only [Option.getD_some]
    by_cases h1 : n ≤ 1
    · simp [h1]; omega
    · simp [h1]

theorem cnt_struct (l : Option Nat) (hl : l ≠ some 0) :
    (if l.getD 0 = 0 then (none : Option Nat) else some (l.getD 0)).getD 1 = l.getD 1 := by
  cases l with
  | none => simp
  | some n =>
    have : n ≠ 0 := by intro h; exact hl (by rw [h])
    simp [this]

theorem pyBase_count (T : Tables) (R : Reg) (ty : Name) (l : Option Nat) (hl : l ≠ some 0) (r : TyS × Option Nat)
    (hr : pyDescBase T R ty (l.getD 0) = some r) (hb : r.1 ≠ .bad) : r.2.getD 1 = l.getD 1 := by
  unfold pyDescBase at hr
  split at hr
  · split at hr
    · simp at hr; subst hr; exact cnt_native l hl
    · simp at hr; subst hr; simp at hb
  · split at hr
    · simp at hr; subst hr; exact cnt_struct l hl
    · split at hr
      · simp at hr; subst hr; exact cnt_struct l hl
      · simp at hr

theorem pyDesc_count (T : Tables) (R : Reg) (l : Option Nat) (hl : l ≠ some 0) :
    ∀ (fuel : Nat) (ty : Name), (pyDescriptor T R (l.getD 0) fuel ty).1 ≠ .bad →
      (pyDescriptor T R (l.getD 0) fuel ty).2.getD 1 = l.getD 1
  | 0, ty, hb => by
    unfold pyDescriptor at hb ⊢
    cases hr : pyDescBase T R ty (l.getD 0) with
    | none => simp [hr] at hb
    | some r => simp [hr] at hb ⊢; exact pyBase_count T R ty l hl r hr hb
  | n + 1, ty, hb => by
    unfold pyDescriptor at hb ⊢
    cases hr : pyDescBase T R ty (l.getD 0) with
    | some r => simp [hr] at hb ⊢; exact pyBase_count T R ty l hl r hr hb
    | none =>
      simp only [hr] at hb ⊢
      split at hb
      · exact pyDesc_count T R l hl n _ hb
      · exact absurd rfl hb

theorem py_count (T : Tables) (R : Reg) (f : FieldR) (hl : f.len ≠ some 0) (h : (pyField T R f).ty ≠ .bad) :
    (pyField T R f).len.getD 1 = f.len.getD 1 := by
  unfold pyField at h ⊢
  exact pyDesc_count T R f.len hl 2 f.ty h

/-- **`emit_same_fields_partial`.**  For every registry, tables and definition: the C, JavaScript and MATLAB
statements list exactly the definition's field names in order with exactly its lengths; the Python statement lists
the same names in order, and — wherever its descriptor lookup succeeds, for lengths ≥ 1 (the parser rejects the
others) — the same element count (`T[1]` is printed as a scalar: count 1 either way). -/
theorem emit_same_fields_partial (T : Tables) (R : Reg) (d : DefR) :
    (d.fields.map (cField T R)).map (fun f => (f.name, f.len)) = d.fields.map (fun f => (f.name, f.len)) ∧
    (d.fields.map (mField T R)).map (fun f => (f.name, f.len)) = d.fields.map (fun f => (f.name, f.len)) ∧
    (d.fields.map (jsField T R)).map (fun f => (f.name, f.len)) = d.fields.map (fun f => (f.name, f.len)) ∧
    (d.fields.map (pyField T R)).map (·.name) = d.fields.map (·.name) ∧
    (∀ f ∈ d.fields, f.len ≠ some 0 → (pyField T R f).ty ≠ .bad → (pyField T R f).len.getD 1 = f.len.getD 1) := by
  refine ⟨?_, ?_, ?_, ?_, fun f _ hl h => py_count T R f hl h⟩
  · simp [List.map_map, Function.comp_def, cField]
  · simp [List.map_map, Function.comp_def, mField]
  · simp only [List.map_map]; apply List.map_congr_left; intro f _
    simp only [Function.comp]; unfold jsField; split <;> (try split) <;> simp_all
  · simp [List.map_map, Function.comp_def, pyField]

/-- the numeric tables agree pairwise on every native key -/
def tablesCompat (T : Tables) : Bool :=
  T.natives.all (fun r =>
    match assoc T.c r.1, assoc T.m r.1, assoc T.pyDesc r.1, assoc T.pyCt r.1 with
    | some a, some b, some c, some d => a.compat b && a.compat c && a.compat d && b.compat c && a.width == r.2.2
    | _, _, _, _ => false)

theorem tables_compat : tablesCompat tables = true := by decide +kernel

/-- **`native_types_compatible`.**  With agreeing tables, a field whose type is a native name is printed by the C,
MATLAB and Python back ends as types of the same width and class, the width being the size the parser used for the
layout. -/
theorem native_types_compatible {T : Tables} (hT : tablesCompat T = true) (R : Reg) (f : FieldR) {nm sz}
    (hn : assoc T.natives f.ty = some (nm, sz)) :
    ∃ a b c, (cField T R f).ty = .nat a ∧ (mField T R f).ty = .nat b ∧ (pyField T R f).ty = .nat c ∧
      a.compat b = true ∧ a.compat c = true ∧ a.width = sz := by
  have hm := assoc_mem hn
  unfold tablesCompat at hT
  have := (List.all_eq_true.mp hT) _ hm
  simp only at this
  split at this
  · rename_i a b c d ha hb hc hd
    simp only [Bool.and_eq_true, beq_iff_eq] at this
    refine ⟨a, b, c, ?_, ?_, ?_, this.1.1.1.1, this.1.1.1.2 |> fun _ => this.1.1.1.2 |> fun _ => ?_, this.2⟩
    · simp [cField, tblTy, ha]
    · simp [mField, tblTy, hb]
    · simp [pyField, pyDescriptor, pyDescBase, hd, hc]
    · exact this.1.1.1.2
  · simp at this

/-! ### Non-vacuity -/

/-- `{a: uint8; b: int32}` then a message with an array of it and a `double`: accepted, padded, and laid out as recorded -/
example : (match elaborate tables true
      [(false, .struct 500 7 (.list [(501, idOf "uint8", none), (502, idOf "int32", none)])),
       (false, .message 503 1234 9 (.list [(504, 500, some 2), (505, idOf "double", none)]))] {} with
    | .ok R => R.structs.map (fun d => (d.size, d.align, d.fields.length)) == [(8, 4, 3)] &&
               R.msgs.map (fun d => (d.size, d.align, d.layoutOk)) == [(24, 8, true)]
    | .error _ => false) = true := by decide +kernel

example : tables.natives.length = 27 := by decide +kernel

end Pyrtma.C04
