import Pyrtma.Proofs.Manager
import Pyrtma.Proofs.ManagerOrder
import Pyrtma.Spec.Manager
import Pyrtma.Proofs.ManagerSimRun
import Pyrtma.Proofs.ManagerSimOrigin
import Pyrtma.Proofs.ManagerSimConn
import Pyrtma.Proofs.ManagerSimOwedDep
import Pyrtma.Proofs.ManagerSimOwedSeg
import Pyrtma.Proofs.ManagerSimOwedRun
import Pyrtma.Proofs.ManagerSimOwedPre
import Pyrtma.Proofs.ManagerSimDrv
import Pyrtma.Proofs.ManagerStatsRun
/-!
# C14 — undeliverable messages are reported, not silently lost

Theorems about one iteration of `forward_message`'s recipient loop (`deliverOne`), about the failure branch shared by
`forward_message`, `send_to_loggers` and `send_ack` (`trySend`) and about `send_failed_message` (`failedMsg`), for every
state, frame, writable set, set of failing sockets and every nested forward `fwd`.

Refinement link: `model_meets_spec_c14` — no C14 entry in `Spec.runSpec` on the model's own run, for every well-formed
history — `model_meets_spec_proven` (the seven properties of the `ManagerSim*` family) and `model_meets_spec`, all eight
manager properties in one statement.  The pieces:
`spec_frame_loop_adds_no_c14_on_model` (the Spec's loop over the frames of a round adds no C14 entry),
`spec_segment_adds_no_c14_on_model` (`Spec.segment` adds no C14 entry on the events of any frame the model reads in a
simulated state: the counted lower bounds of `checkData` and of `checkDepartures`, every branch; model-level cores
`undeliverable_reported_counted`, `departure_notices_counted`, `nested_departure_notices_counted`),
`spec_guard_clause_passes_on_model` (no notice about a notice, every history),
`spec_data_clauses_pass_on_model` (`Spec.checkData`, its counted C14 clause included, returns its argument on the events
of every data frame read in a simulated state; model-level core: `undeliverable_reported_counted`),
`spec_notice_origin_clause_passes_on_model` (the clause `Spec.checkNoticeOrigin` — a notice is never invented — returns
its argument on the events of every frame and of every stretch before the first read of a round, in a simulated state) and
`logger_waited_clause_passes_partial` — the clause `Spec.checkLoggerWaited` ("a logger module is waited for instead of being
skipped") adds no entry on the events of any frame the model reads in a state the Spec's abstract state simulates
(`Inv`, which holds after every history: `spec_invariant_after_any_history`, and at every frame inside a round:
`Proofs/ManagerSimRun.lean: readAll_go`).
-/
namespace Pyrtma.C14
open Pyrtma.Mgr

/-- the FAILED_MESSAGE the manager builds: names the subscriber's module id, carries the original header's type,
    source and destination, is sent from the manager (id 0) as a broadcast -/
theorem notice_shape (cfg : Cfg) (d : Int) (f : Frame) :
    (failedFrame cfg d f).body = .failed d f.mtype f.src f.dest ∧ (failedFrame cfg d f).mtype = cfg.mtFailed ∧
    (failedFrame cfg d f).src = 0 ∧ (failedFrame cfg d f).dest = 0 ∧ (failedFrame cfg d f).destHost = 0 :=
  ⟨rfl, rfl, rfl, rfl, rfl⟩

/-- **A subscriber that is not ready to accept data is reported**: for a subscriber `u` of the snapshot that is still in
the table, not in the writable set and not a logger, the loop iteration *is* `send_failed_message(u's id, header)` (after
counting the drop) — nothing is written to `u`, and when the frame's type is outside the recursion guard this publishes
the FAILED_MESSAGE through `forward_message` itself, i.e. to everyone subscribed to FAILED_MESSAGE as C01 describes. -/
theorem not_writable_is_reported (cfg : Cfg) (fwd : Fwd) (f : Frame) (s : State) (u : Nat) (m : Module)
    (hm : s.find u = some m) (hw : u ∉ s.wlist) (hl : m.isLogger = false) :
    deliverOne cfg fwd f s u =
      failedMsg cfg fwd (s.upd u (fun m => { m with drops := m.drops + 1 })) m.modId f ∧
    (inGuard cfg f.mtype = false →
      deliverOne cfg fwd f s u =
        fwd (s.upd u (fun m => { m with drops := m.drops + 1 })) (failedFrame cfg m.modId f)) := by
  have h1 : deliverOne cfg fwd f s u =
      failedMsg cfg fwd (s.upd u (fun m => { m with drops := m.drops + 1 })) m.modId f := by
    unfold deliverOne; simp [hm, hw, hl]
  refine ⟨h1, fun hg => ?_⟩
  rw [h1]; unfold failedMsg; simp [hg]

/-- **A logger module is waited for instead of being skipped**: a logger that is not in the writable set is written
to all the same. -/
theorem logger_never_skipped (cfg : Cfg) (fwd : Fwd) (f : Frame) (s : State) (u : Nat) (m : Module)
    (hm : s.find u = some m) (hw : u ∉ s.wlist) (hl : m.isLogger = true) :
    deliverOne cfg fwd f s u = trySend cfg fwd s u f := by
  unfold deliverOne; simp [hm, hw, hl]

/-- **A connection that fails during the send is reported** (and its module removed, C07): if the write to `u` raises
`ConnectionError`, what follows is exactly: remove `u`, log the error, `send_failed_message(u's id, header)`. -/
theorem write_failure_is_reported (cfg : Cfg) (fwd : Fwd) (f : Frame) (s : State) (u : Nat) (m : Module)
    (hm : s.find u = some m) (hc : m.closed = false) (hf : failOf s u ≠ none) (hcr : s.crashed = none) :
    trySend cfg fwd s u f =
      failedMsg cfg fwd (logAt cfg fwd 40 (removeModule cfg fwd (sendRaw s u f).1 u)) m.modId f := by
  have hok : (sendRaw s u f).2 = false := by
    rw [sendRaw_ok]; unfold canTake; simp [hm]
    cases h : failOf s u with
    | none => exact absurd h hf
    | some _ => simp
  have hnc : (sendRaw s u f).1.crashed.isSome = false := by
    unfold sendRaw; simp only [hm, hc, Bool.false_eq_true, if_false]
    have hfo : failOf (s.upd u fun m => { m with msgCount := m.msgCount + 1 }) u = failOf s u := rfl
    rw [hfo]
    cases h : failOf s u with
    | none => exact absurd h hf
    | some x => cases x <;> simp [State.emit, State.upd, hcr]
  unfold trySend
  simp only [hm, hok, Bool.false_eq_true, if_false, hnc]

/-- **No notice about a notice or a log message**: for a frame whose type is FAILED_MESSAGE or one of the six RTMA_LOG
types, `send_failed_message` does nothing at all — whatever made the delivery fail. -/
theorem no_notice_about_notices (cfg : Cfg) (fwd : Fwd) (s : State) (d : Int) (f : Frame)
    (hg : inGuard cfg f.mtype = true) : failedMsg cfg fwd s d f = s := by
  unfold failedMsg; simp [hg]

/-- …and outside the guard the notice is always handed to `forward_message` -/
theorem notice_is_published (cfg : Cfg) (fwd : Fwd) (s : State) (d : Int) (f : Frame)
    (hg : inGuard cfg f.mtype = false) : failedMsg cfg fwd s d f = fwd s (failedFrame cfg d f) := by
  unfold failedMsg; simp [hg]

/-- **Globally**: nothing the manager does while forwarding a frame — at any nesting depth, with any readiness and any
failures — ever writes a FAILED_MESSAGE that reports the failed delivery of a FAILED_MESSAGE or RTMA_LOG message
(unless the forwarded frame is itself such a notice). -/
theorem never_a_notice_about_a_notice (cfg : Cfg) (fuel : Nat) (s : State) (g : Frame)
    (hg : guardNotice cfg g.body = false) :
    dataSends (guardNotice cfg) (forward cfg fuel s g).out = dataSends (guardNotice cfg) s.out :=
  (forward_ok cfg (tag_guardNotice cfg) fuel s g hg).2

/-- **In no history at all**: after any sequence of rounds — any frames, readiness sets, socket failures, log level,
statistics ticks — the event log contains no FAILED_MESSAGE that reports the failed delivery of a FAILED_MESSAGE or of an
RTMA_LOG* message, on any connection.  (A failure to deliver a failure notice or a log message never produces a further
notice.) -/
theorem no_notice_about_a_notice_ever (cfg : Cfg) (rs : List Round) :
    dataSends (guardNotice cfg) (run cfg rs).out = [] :=
  run_quiet cfg (tag_guardNotice cfg) (ctl_guardNotice cfg) (fun _ => rfl) rs

/-- **The oracle clause holds on every run of the model**: the Spec clause the driver evaluates on the implementation's
event log (`Spec.checkNoNoticeAboutNotices`: no FAILED_MESSAGE about a FAILED_MESSAGE / RTMA_LOG*) never fires on the
event log of the model, for any history. -/
theorem spec_guard_clause_passes_on_model (cfg : Cfg) (rs : List Round) (a : Spec.A) :
    (Spec.checkNoNoticeAboutNotices cfg a (run cfg rs).out).errs = a.errs := by
  have h := no_notice_about_a_notice_ever cfg rs
  have hag : ∀ f : Frame, Spec.aboutNotice cfg f = guardNotice cfg f.body := by
    intro f; unfold Spec.aboutNotice guardNotice; cases f.body <;> rfl
  have key : ∀ evs : List Ev, dataSends (guardNotice cfg) evs = [] →
      (Spec.sends evs).any (fun p => Spec.aboutNotice cfg p.2.2) = false := by
    intro evs
    induction evs with
    | nil => intro _; rfl
    | cons e rest ih =>
      intro he
      have hsplit : dataSends (guardNotice cfg) (e :: rest) = dataSends (guardNotice cfg) [e] ++ dataSends (guardNotice cfg) rest :=
        dataSends_append _ [e] rest
      rw [hsplit] at he
      have h1 := (List.append_eq_nil_iff.mp he).1
      have h2 := ih (List.append_eq_nil_iff.mp he).2
      cases e with
      | send u c f =>
        have hs : Spec.sends (Ev.send u c f :: rest) = (u, c, f) :: Spec.sends rest := rfl
        rw [hs, List.any_cons, h2, Bool.or_false]
        show Spec.aboutNotice cfg f = false
        rw [hag]
        cases hg : guardNotice cfg f.body with
        | false => rfl
        | true => simp [dataSends, hg] at h1
      | _ => exact h2
  unfold Spec.checkNoNoticeAboutNotices Spec.A.chk
  rw [key _ h]; rfl

/-- the recursion guard is exactly FAILED_MESSAGE and RTMA_LOG … RTMA_LOG_DEBUG -/
theorem guard_types (cfg : Cfg) (t : Int) :
    inGuard cfg t = true ↔ (t = cfg.mtFailed ∨ (cfg.mtLog ≤ t ∧ t ≤ cfg.mtLog + 5)) := by
  unfold inGuard; simp

/-! ### Non-vacuity: module 2 subscribed but not writable, module 3 watches FAILED_MESSAGE -/
def exState : State :=
  { mods := [{ uid := 0, connected := true }, { uid := 1, modId := 10, connected := true },
             { uid := 2, modId := 11, connected := true, subs := [5000] },
             { uid := 3, modId := 12, connected := true, subs := [8] }],
    idx := [(5000, [2]), (8, [3])], wlist := [1, 3], nextUid := 3 }
def exFrame : Frame := { mtype := 5000, src := 10, dest := 0, destHost := 0, nbytes := 4, body := .data 7 }
example : (forward {} 9 exState exFrame).out = [.send 3 1 (failedFrame {} 11 exFrame)] := by decide
example : inGuard {} 8 = true ∧ inGuard {} 42 = true ∧ inGuard {} 5000 = false ∧ inGuard {} 46 = false := by decide

/-! ### The Spec's "a logger is waited for" clause on the model (partial link) -/

/-- after any well-formed history the Spec's abstract state and the model's state are in the relation the frame-by-frame
    theorems start from -/
theorem spec_invariant_after_any_history (cfg : Cfg) (ok : CfgOK cfg) (hfuel : cfg.fuel = 0) (hperm : OrdPerm cfg)
    (hmt : cfg.mtClosed ≠ cfg.allTypes) (rs : List Round) (hwf : RoundsWF rs) :
    Inv cfg ((List.zip rs (modelRounds cfg (init cfg) rs)).foldl (fun a p => Spec.round cfg a p.1 p.2) {}) (run cfg rs) :=
  (rounds_ok ok hfuel hperm hmt rs {} (init cfg) (init_sim ok hfuel hmt (ordOK_of_perm hperm)) hwf).1

/-- **PARTIAL (one clause of C14).**  The model reads a frame from connection `rd.uid` in a state `s` that the abstract
state `a` simulates (`Inv`), handles it, possibly followed by the periodic section (`q`); `evs` are the events after the
`rd` marker.  Then `Spec.checkLoggerWaited` — evaluated by `Spec.roundBody` on exactly these arguments, on a state `X`
with the table and failure environment of `a` — reports nothing: every logger that subscribes to the type of a data frame
(in range, not the ALL sentinel) and whose connection works gets its copy also when it was not writable.  (One clause of C14; the others: see the
header and the theorems below.) -/
theorem logger_waited_clause_passes_partial (cfg : Cfg) (ok : CfgOK cfg) (hfuel : cfg.fuel = 0) (hperm : OrdPerm cfg)
    {a : Spec.A} {s : State} (inv : Inv cfg a s) (rd : Read) (hu0 : rd.uid ≠ 0) (m : Module) (hm : s.find rd.uid = some m)
    (s2 : State) (q : QuietTo cfg (readOne cfg s rd) s2) (evs : List Ev) (he : s2.out = s.out ++ Ev.rd rd.uid :: evs)
    (X : Spec.A) (hXm : X.mods = a.mods) (hXf : X.fail = a.fail) : Spec.checkLoggerWaited cfg X rd evs = X :=
  loggerWaited_ok ok hfuel hperm inv rd hu0 m hm s2 q evs he X hXm hXf

/-! ### The Spec's "a notice is never invented" clause on the model -/

/-- **`Spec.checkNoticeOrigin` never fires on the model's own run.**  In a state `s` of the model that the Spec's abstract
state `a` simulates (`Inv`: after every history — `spec_invariant_after_any_history` — and at every frame inside a round —
`Proofs/ManagerSimRun.lean: readAll_go`), at both places where `Spec.roundBody` evaluates the clause:

* one frame: the model reads a frame from connection `rd.uid` and handles it, possibly followed by the periodic section
  (`q = true`, the last frame of a round); `evs` are the events after the `rd` marker;
* the stretch before the first read of a round: clock, failure environment, `accept` with its log line, the poll, and
  the periodic section when no frame is read in the round (`q = true`); the clause is judged with the table after the
  accept (`preAcc`);

every FAILED_MESSAGE written names a module of the table (or a CONNECT is being handled) and carries the type, source
and destination of the frame in flight or of a message the manager itself originates: the clause returns the state it
was given (`X`: any state with that table), i.e. adds no entry.  The model builds `failed` frames only in `failedMsg`,
from the frame it was delivering (`Proofs/ManagerSimOrigin.lean`). -/
theorem spec_notice_origin_clause_passes_on_model (cfg : Cfg) (ok : CfgOK cfg) {a : Spec.A} {s : State} (inv : Inv cfg a s) :
    (∀ (rd : Read) (q : Bool) (evs : List Ev) (X : Spec.A), rd.uid ≠ 0 → X.mods = a.mods →
        (if q then ticks cfg (readOne cfg s rd) else readOne cfg s rd).out = s.out ++ Ev.rd rd.uid :: evs →
        Spec.checkNoticeOrigin cfg X (some rd) evs = X) ∧
    (∀ (r : Round) (q : Bool) (evs : List Ev) (X : Spec.A), X.mods = (preAcc a r).mods →
        (if q then ticks cfg (preS cfg s r) else preS cfg s r).out = s.out ++ evs →
        Spec.checkNoticeOrigin cfg X none evs = X) :=
  ⟨fun rd q evs X hu hX he => noticeOrigin_frame ok inv.sim rd hu q evs he X hX,
   fun r q evs X hX he => noticeOrigin_pre ok inv.sim r q evs he X hX⟩

/-- non-vacuity: the clause is not trivially silent — a notice nobody justified is flagged (no frame in flight, no such
    module in the table), a notice about a frame the manager originates to a module of the table is not -/
example : ((Spec.checkNoticeOrigin {} {} none [.send 3 1 (failedFrame {} 11 exFrame)]).errs.map (·.1) = ["C14"]) ∧
    Spec.noticeJustified {} { mods := [{ uid := 1, modId := 11 }] } none (failedFrame {} 11 { exFrame with mtype := 32, src := 0, dest := 0 }) = true := by
  decide

/-! ### The counted lower bound: who is owed a notice gets it, as often as the Spec demands -/

/-- **Every undeliverable subscriber is reported to every FAILED_MESSAGE observer, counted** (model level, one
`forward_message` call at top level with everything nested in it).  `g` is any frame outside the recursion guard with
destination fields in range, forwarded in a crash-free state.  `o` can take a FAILED_MESSAGE at the end (`StableF`: in the
table, socket open, connection not failing, subscribed to FAILED_MESSAGE or to everything, writable or a logger).  `U` is
a duplicate-free list of connections with module id `d`, each of them either a subscriber of `g`'s type that is not
writable, is no logger and is still in the table at the end (`Owed`), or a subscriber whose connection fails, that `g`
would be written to and that hears none of the manager's own notices (`FailOwed`, at the start).  Then `o` has been
written at least `U.length` frames `failed d g.mtype g.src g.dest`. -/
theorem undeliverable_reported_counted (cfg : Cfg) (ok : CfgOK cfg) (hfuel : cfg.fuel = 0) (hperm : OrdPerm cfg)
    (s : State) (h : Top cfg s) (g : Frame) (hg : inGuard cfg g.mtype = false) (hin : oor cfg g = false)
    (ext : List Ev) (he : (fwdTop cfg s g).out = s.out ++ ext) (o : Nat) (d : Int) (U : List Nat)
    (ho : StableF cfg (fwdTop cfg s g) o) (hU : U.Nodup)
    (hOw : ∀ u ∈ U, Owed cfg g.mtype d (fwdTop cfg s g) u ∨ (FailOwed cfg g d s u ∧ u ∈ idxGet s.idx g.mtype)) :
    U.length ≤ fcnt o (.failed d g.mtype g.src g.dest) ext := by
  obtain ⟨e, oe, x⟩ := fwdTop_owed ok (OrdAll_of_perm hperm) (ordSub_of_perm hperm) hfuel h.good g hg hin
  have : e = ext := List.append_cancel_left (oe.symm.trans he)
  subst this
  exact x o d U ho hU hOw

/-- **`Spec.checkData` never fires on the model's own run** — its C01 clauses and the counted C14 clause ("every observer
of FAILED_MESSAGE that can take it gets, about every subscriber the frame cannot be handed to, at least as many notices
naming that subscriber's id and the frame's type, source and destination as there are such subscribers with that id").
The model reads a data frame (header and payload complete, not a control type) from `rd.uid` in a state `s` that the
abstract state `a` simulates (`Inv`: after every history and at every frame inside a round), handles it, possibly followed
by the periodic section (`q`); `evs` are the events after the `rd` marker.  Then `Spec.checkData`, evaluated by
`Spec.segment` on the abstract state after the payload read (`Spec.checkAcks` in between returns its argument: C19),
returns that state. -/
theorem spec_data_clauses_pass_on_model (cfg : Cfg) (ok : CfgOK cfg) (hfuel : cfg.fuel = 0) (hperm : OrdPerm cfg)
    {a : Spec.A} {s : State} (inv : Inv cfg a s) (rd : Read) (hu0 : rd.uid ≠ 0) (m : Module) (hm : s.find rd.uid = some m)
    (s2 : State) (q : QuietTo cfg (readOne cfg s rd) s2) (evs : List Ev) (he : s2.out = s.out ++ Ev.rd rd.uid :: evs)
    (hb : Spec.brokenRd cfg rd = false) (hctl : Spec.isControl cfg rd.h.mtype = false) :
    Spec.checkData cfg (Spec.afterBuf cfg a rd) rd.h evs = Spec.afterBuf cfg a rd :=
  dataClauses_ok ok hfuel hperm inv rd hu0 m hm s2 q evs he hb hctl

/-- non-vacuity: the counted clause is not trivially silent — module 1 (id 11) subscribes to type 5000 and is not
    writable, module 2 watches FAILED_MESSAGE and is writable; with no notice among the events the clause fires, with
    the notice it does not -/
def exA : Spec.A := { mods := [{ uid := 1, modId := 11, connected := true, types := [5000] },
                               { uid := 2, modId := 12, connected := true, types := [8] }], nAccepted := 2, w := [2] }
def exH : Hdr := { mtype := 5000, src := 10, dest := 0, destHost := 0, nbytes := 4, k := 7 }
example : (Spec.checkData {} exA exH []).errs.map (·.1) = ["C14"] ∧
    (Spec.checkData {} exA exH [.send 2 1 (failedFrame {} 11 exFrame)]).errs = [] := by decide

/-! ### An undeliverable CLIENT_CLOSED is owed a notice too (model level) -/

/-- **One departure, counted** (model level; linked to the Spec clause by `spec_segment_adds_no_c14_on_model`).  One
departure handled at top level — `remove_module` with everything nested in it: the CLIENT_CLOSED forward, the notices
about it, the departures of the connections that fail meanwhile and their own CLIENT_CLOSED forwards, for every nesting
depth.  `ext` are its events; `o` can take a FAILED_MESSAGE at the end (`StableF`); `U` is a duplicate-free list of
subscribers of CLIENT_CLOSED with module id `d` that are not writable, are no loggers and are still in the table at the
end (`Owed`).  Then `o` has been written at least (number of connections closed in `ext`) · `|U|` notices
`failed d CLIENT_CLOSED 0 0`: one per departure and subscriber — the count `Spec.checkDepartures` demands.
The same bound for the other top-level operations of a segment: `Proofs/ManagerSimOwedTop.lean`. -/
theorem departure_notices_counted (cfg : Cfg) (ok : CfgOK cfg) (hfuel : cfg.fuel = 0) (hperm : OrdPerm cfg)
    (s : State) (h : Top cfg s) (u : Nat) (m : Module) (hm : s.find u = some m)
    (ext : List Ev) (he : (removeModule cfg (fwdTop cfg) s u).out = s.out ++ ext) (o : Nat) (d : Int) (U : List Nat)
    (hU : U.Nodup) (ho : StableF cfg (removeModule cfg (fwdTop cfg) s u) o)
    (hOw : ∀ w ∈ U, Owed cfg cfg.mtClosed d (removeModule cfg (fwdTop cfg) s u) w) :
    closeN ext * U.length ≤ fcnt o (Bc cfg d) ext := by
  obtain ⟨e, oe, x⟩ := removeTop_counted ok (OrdAll_of_perm hperm) hfuel h u m hm o d U hU
  have : e = ext := List.append_cancel_left (oe.symm.trans he)
  subst this
  simpa using x ho hOw

/-- **The same for any top-level forward** (model level): whatever frame is forwarded from a crash-free state
(a data frame, a log line, a periodic message, …), the departures nested in it are reported to the subscribers of
CLIENT_CLOSED that cannot take the frame, counted as above; if the frame itself has the header of a CLIENT_CLOSED frame,
`|U|` more. -/
theorem nested_departure_notices_counted (cfg : Cfg) (ok : CfgOK cfg) (hfuel : cfg.fuel = 0) (hperm : OrdPerm cfg)
    (s : State) (h : Top cfg s) (g : Frame)
    (ext : List Ev) (he : (fwdTop cfg s g).out = s.out ++ ext) (o : Nat) (d : Int) (U : List Nat)
    (hU : U.Nodup) (ho : StableF cfg (fwdTop cfg s g) o) (hOw : ∀ w ∈ U, Owed cfg cfg.mtClosed d (fwdTop cfg s g) w) :
    closeN ext * U.length ≤ fcnt o (Bc cfg d) ext ∧
    (closedHdr cfg g → closeN ext * U.length + U.length ≤ fcnt o (Bc cfg d) ext) := by
  obtain ⟨e, oe, x⟩ := fwdTop_CK ok (OrdAll_of_perm hperm) hfuel o d U hU (need cfg s g) s g h.good (Nat.le_refl _)
  have : e = ext := List.append_cancel_left (oe.symm.trans he)
  subst this
  refine ⟨by simpa using x 0 0 (Or.inl rfl) (Or.inl rfl) ho hOw, fun hc => ?_⟩
  simpa using x 0 U.length (Or.inl rfl) (Or.inr ⟨rfl, hc⟩) ho hOw

/-- non-vacuity: module 1 leaves; module 2 (id 11) subscribes to CLIENT_CLOSED and is not writable; module 3 watches
    FAILED_MESSAGE and is told -/
def exDep : State :=
  { mods := [{ uid := 0, connected := true }, { uid := 1, modId := 10, connected := true },
             { uid := 2, modId := 11, connected := true, subs := [33] },
             { uid := 3, modId := 12, connected := true, subs := [8] }],
    idx := [(33, [2]), (8, [3])], wlist := [1, 3], nextUid := 3 }
example : (removeModule {} (fwdTop {}) exDep 1).out =
      [.close 1, .send 3 1 (failedFrame {} 11 (closedFrame {} { uid := 1, modId := 10 }))] ∧
    closeN (removeModule {} (fwdTop {}) exDep 1).out = 1 ∧
    fcnt 3 (Bc {} 11) (removeModule {} (fwdTop {}) exDep 1).out = 1 := by decide

/-- **The C14 clause of `Spec.checkDepartures` on the events of one frame**, for any abstract state in the right relation
to the end of the stretch.  The model reads a frame from `rd.uid` in a crash-free state `s` and handles it, possibly followed by
the periodic section (`q = true`); `evs` are the events after the `rd` marker.  `A2` is an abstract state that simulates
the model's state at the end, `X` an abstract state from which `A2` arises by applying the departures of `evs` (same
writable set and failure environment).  Then `Spec.checkDepartures cfg X md evs` adds no C14 entry (`ErrExt ["C07"]`: the
only entries it can add are C07's, which `C07.spec_departure_clauses_pass_on_model` excludes): every observer of
FAILED_MESSAGE that stays and can take it got one notice `failed d CLIENT_CLOSED 0 0` per departure and per subscriber of
CLIENT_CLOSED with id `d` that stays, is not ready to accept data and is no logger.
In the Spec's own run `A2 = Spec.segment cfg a rd evs` simulates the end state (`segment_ok`, C07 link) and in every branch
of `Spec.segment` the state `X` that `checkDepartures` is evaluated on stands in this relation to it
(`segment … = applyDepartures (… X …) evs` up to error entries); this instantiation, branch by branch, is
`spec_segment_adds_no_c14_on_model` below; what is missing is the stretch before the first read of a round. -/
theorem spec_departure_count_clause_passes_on_frame (cfg : Cfg) (ok : CfgOK cfg) (hfuel : cfg.fuel = 0) (hperm : OrdPerm cfg)
    {s : State} (h : Top cfg s) (rd : Read) (q : Bool) (evs : List Ev)
    (he : (if q then ticks cfg (readOne cfg s rd) else readOne cfg s rd).out = s.out ++ Ev.rd rd.uid :: evs)
    {A2 X : Spec.A} (hs : SimM cfg A2 (if q then ticks cfg (readOne cfg s rd) else readOne cfg s rd))
    (hXm : (Spec.applyDepartures X evs).mods = A2.mods) (hXw : X.w = A2.w) (hXf : X.fail = A2.fail) (md : Option Nat) :
    Spec.ErrExt ["C07"] X (Spec.checkDepartures cfg X md evs) := by
  refine depCount_frame ok hfuel hperm h rd ?_ evs he hs hXm hXw hXf md
  cases q
  · exact Or.inl rfl
  · exact Or.inr rfl

/-- **`Spec.segment` adds no C14 entry on the model's own run**: the model reads a frame from connection `rd.uid` in a
state `s` that the abstract state `a` simulates (`Inv`: after every history and at every frame inside a round) and handles
it, possibly followed by the periodic section (`hq`; `q` packages what the C07 link needs of that continuation);
`evs` are the events after the `rd` marker.  Then whatever branch `Spec.segment` takes, its C14 clauses pass: the
counted lower bound of `checkData` (data frames) and the counted lower bound of `checkDepartures` (every branch: an
undeliverable CLIENT_CLOSED is owed a notice, once per departure and subscriber, at every FAILED_MESSAGE observer that
stays and can take it). -/
theorem spec_segment_adds_no_c14_on_model (cfg : Cfg) (ok : CfgOK cfg) (hfuel : cfg.fuel = 0) (hperm : OrdPerm cfg)
    {a : Spec.A} {s : State} (inv : Inv cfg a s) (rd : Read) (hu0 : rd.uid ≠ 0) (m : Module) (hm : s.find rd.uid = some m)
    (s2 : State) (q : QuietTo cfg (readOne cfg s rd) s2)
    (hq : s2 = readOne cfg s rd ∨ s2 = ticks cfg (readOne cfg s rd))
    (evs : List Ev) (he : s2.out = s.out ++ Ev.rd rd.uid :: evs) (hn : Spec.NoErr "C14" a) :
    Spec.NoErr "C14" (Spec.segment cfg a rd evs) :=
  segment_c14 ok hfuel hperm inv rd hu0 m hm s2 q hq evs he hn

/-- non-vacuity of the hypotheses: the relation holds at the start of every history (`spec_invariant_after_any_history`),
    and the counted clause of `checkDepartures` is not trivially silent — one departure, one owed subscriber, one
    observer and no notice: it fires; with the notice it does not -/
example : (Spec.checkDepartures {} { exA with mods := [{ uid := 1, modId := 11, connected := true, types := [33] },
        { uid := 2, modId := 12, connected := true, types := [8] }, { uid := 3, modId := 13, connected := true }] }
      (some 3) [.close 3]).errs.map (·.1) = ["C14"] ∧
    (Spec.checkDepartures {} { exA with mods := [{ uid := 1, modId := 11, connected := true, types := [33] },
        { uid := 2, modId := 12, connected := true, types := [8] }, { uid := 3, modId := 13, connected := true }] }
      (some 3) [.close 3, .send 2 1 (failedFrame {} 11 (closedFrame {} { uid := 3, modId := 13 }))]).errs = [] := by decide

/-- **The Spec's loop over the frames of a round adds no C14 entry on the model's own run.**  `s` is the model's state when
the frames `reads` of a round start being read (after the accept branch and the poll), `a` an abstract state that
simulates it, `sQ` the state after the frames — and after the periodic section, whose events belong to the last segment —
`E` the events from `s` to `sQ`.  `Spec.roundBody.go` on `reads` and the segments of `E` (per frame: `checkNoticeOrigin`,
`checkLoggerWaited`, `segment`) adds no C14 entry.  (The stretch before the first read of a round, a whole round and a
whole run: `model_meets_spec_c14`.) -/
theorem spec_frame_loop_adds_no_c14_on_model (cfg : Cfg) (ok : CfgOK cfg) (hfuel : cfg.fuel = 0) (hperm : OrdPerm cfg)
    (hmt : cfg.mtClosed ≠ cfg.allTypes) (reads : List Read) (a : Spec.A) (s sQ : State) (E : List Ev) (fuel : Nat)
    (inv : Inv cfg a s) (hwf : ∀ rd ∈ reads, rd.uid ≠ 0) (hlen : reads.length ≤ fuel)
    (q : QuietTo cfg (readAll cfg reads s) sQ)
    (hQ : sQ = readAll cfg reads s ∨ sQ = ticks cfg (readAll cfg reads s)) (he : sQ.out = s.out ++ E)
    (hn : Spec.NoErr "C14" a) : Spec.NoErr "C14" (Spec.roundBody.go cfg a reads (Spec.splitRd E).2 fuel) :=
  readAll_go_c14 ok hfuel hperm hmt reads a s sQ E fuel inv hwf hlen q hQ he hn

/-- **Who is owed a notice in a round that accepts and reads nothing** (observed behaviour, not a finding; `defect_2` of
the r3-sim report was the Spec clause judging this by the intersection of the two polls).  Log lines of level INFO are
forwarded; connection 1 listens to them, connection 2 to CLIENT_CLOSED, logger 3 to FAILED_MESSAGE.  The last round accepts
a connection and reads nothing.  The INFO line of `accept` goes to connection 1, whose socket is broken: it is dropped, and
the CLIENT_CLOSED frame about it IS handed to connection 2 — writable at the previous poll, which is what the accept branch
goes by — so no FAILED_MESSAGE is due.  The Spec counts as surely not ready only a subscriber that neither poll reported
(`Spec.checkDeparturesAny`), and has nothing to object to. -/
def exOwed : List Round :=
  [{ accept := true }, { accept := true }, { accept := true },
   { reads := [{ uid := 3, h := { k := 1, mtype := 4, nbytes := 44 }, avail := 44,
                 pay := [1, 0, 0, 0, 0, 0, 13, 0, 7, 0, 0, 0] }], writable := [1, 2, 3] },
   { reads := [{ uid := 1, h := { k := 2, mtype := 15, nbytes := 4 }, avail := 4, pay := [44, 0, 0, 0] }], writable := [1, 2, 3] },
   { reads := [{ uid := 2, h := { k := 3, mtype := 15, nbytes := 4 }, avail := 4, pay := [33, 0, 0, 0] }], writable := [1, 2, 3] },
   { reads := [{ uid := 3, h := { k := 4, mtype := 15, nbytes := 4 }, avail := 4, pay := [8, 0, 0, 0] }], writable := [1, 2, 3] },
   { accept := true, failSet := [(1, some .hdr)], writable := [1, 2, 3, 4] }]
example : ((modelObs { logLevel := 20 } exOwed).getLast?.map (fun l => l.map (fun e => match e with
      | .send u _ f => (u, f.mtype) | .close u => (u, -1) | .wfail u => (u, -2) | _ => (0, 0)))) =
    some [(1, -2), (1, -1), (2, 33)] := by decide +kernel
example : (Spec.runSpec { logLevel := 20 } exOwed (Pyrtma.Drv.Manager.modelRun { logLevel := 20 } exOwed).1 none).errs = [] := by
  decide +kernel

/-- **The model meets the Spec for C14.**  Run the model on any well-formed history, hand the Spec the history and the
events the model wrote, round by round: the Spec's verdict contains no C14 entry.  Every clause: `checkNoticeOrigin`,
`checkLoggerWaited`, the counted lower bounds of `checkData` and `checkDepartures` (per frame:
`spec_frame_loop_adds_no_c14_on_model`; on the stretch before the first read of a round — the accept branch judged by the
previous poll, the periodic section of a round that reads nothing by the new one, `Spec.checkDeparturesAny`:
`Proofs/ManagerSimOwedPre.lean`), and the whole-log clause `spec_guard_clause_passes_on_model`. -/
theorem model_meets_spec_c14 (cfg : Cfg) (ok : CfgOK cfg) (hfuel : cfg.fuel = 0) (hperm : OrdPerm cfg)
    (hmt : cfg.mtClosed ≠ cfg.allTypes) (rs : List Round) (hwf : RoundsWF rs) :
    Spec.NoErr "C14" (Spec.runSpec cfg rs (modelObs cfg rs) none) := by
  have hord : OrdOK cfg := ordOK_of_perm hperm
  unfold Spec.runSpec
  simp only [modelObs, List.drop_succ_cons, List.drop_zero, List.length_cons, modelRounds_length, Option.isSome_none,
    Bool.or_false, beq_self_eq_true]
  have h0 : Spec.NoErr "C14" (({} : Spec.A).chk true "C03" "the manager did not play every round of the script") := by
    intro e he; cases he
  have inv0 := init_sim ok hfuel hmt hord
  obtain ⟨_, _, hflat⟩ := rounds_ok ok hfuel hperm hmt rs
    (({} : Spec.A).chk true "C03" "the manager did not play every round of the script") (init cfg) inv0 hwf
  have h1 := rounds_c14 ok hfuel hperm hmt rs
    (({} : Spec.A).chk true "C03" "the manager did not play every round of the script") (init cfg) inv0 hwf h0
  have hall : ((init cfg).out :: modelRounds cfg (init cfg) rs).flatten = (run cfg rs).out := by
    rw [List.flatten_cons]; exact hflat
  rw [hall]
  unfold Spec.NoErr
  rw [spec_guard_clause_passes_on_model]
  exact (Spec.checkC05_ext _ _ _).noErr (by simp) h1

/-- non-vacuity: the default configuration satisfies every side condition -/
example : CfgOK ({} : Cfg) ∧ ({} : Cfg).fuel = 0 ∧ ({} : Cfg).mtClosed ≠ ({} : Cfg).allTypes := by
  refine ⟨⟨by decide, by decide, by decide, fun _ _ h => h⟩, rfl, by decide⟩

/-- **The model meets the Spec, for the proved properties** of the `ManagerSim*` family: `proven` = the six the simulation
chain is stated over (`provenCore`) and C14. -/
theorem model_meets_spec_proven (cfg : Cfg) (ok : CfgOK cfg) (hfuel : cfg.fuel = 0) (hperm : OrdPerm cfg)
    (hmt : cfg.mtClosed ≠ cfg.allTypes) (rs : List Round) (hwf : RoundsWF rs) :
    ∀ p ∈ proven, (p = "C05" → IncRounds 0 rs) → Spec.NoErr p (Spec.runSpec cfg rs (modelObs cfg rs) none) := by
  intro p hp hinc
  rcases List.mem_append.mp hp with h | h
  · exact model_meets_spec_core ok hfuel hperm hmt rs hwf p h hinc
  · simp only [List.mem_singleton] at h
    subst h
    exact model_meets_spec_c14 cfg ok hfuel hperm hmt rs hwf

/-! ### All eight manager properties in one statement -/

/-- **The model meets the Spec: all eight manager properties.**  Run the model on a history, hand `Spec.runSpec` the
history and the events the model wrote: the verdict has no entry for any of C01 C03 C05 C06 C07 C14 C18 C19.  The side
conditions are those of the two proof families together (`ManagerSim*`: `CfgOK`, automatic fuel, the iteration order a
permutation, CLIENT_CLOSED is not the ALL sentinel, well-formed rounds, frames numbered in processing order — for C05;
`ManagerStats*`, C18: no manager type is the ALL sentinel, a traffic table, -1 is no manager type, fewer than 65536 manager
frames of one type in the run; its `OrderGood` and `RoundOK` follow from `OrdPerm` and `RoundsWF`). -/
theorem model_meets_spec (cfg : Cfg) (ok : CfgOK cfg) (hfuel : cfg.fuel = 0) (hperm : OrdPerm cfg)
    (hmt : cfg.mtClosed ≠ cfg.allTypes)
    (hna : MgrNotAll cfg) (hsz : 0 < cfg.trafficSize) (hneg : mgrType cfg (-1) = false)
    (rs : List Round) (hwf : RoundsWF rs) (hinc : IncRounds 0 rs) (hnw : NoWrap cfg (mrPair cfg rs).1.hist) :
    ∀ p ∈ Spec.props, (Spec.runSpec cfg rs (Pyrtma.Drv.Manager.modelRun cfg rs).1 none).errs.filter (·.1 == p) = [] := by
  intro p hp
  simp only [Spec.props, List.mem_cons, List.not_mem_nil, or_false] at hp
  have six : ∀ q ∈ provenCore,
      (Spec.runSpec cfg rs (Pyrtma.Drv.Manager.modelRun cfg rs).1 none).errs.filter (·.1 == q) = [] :=
    fun q hq => spec_passes_on_model ok hfuel hperm hmt rs hwf q hq (fun _ => hinc)
  rcases hp with rfl | rfl | rfl | rfl | rfl | rfl | rfl | rfl
  · exact six _ (by simp [provenCore])
  · exact six _ (by simp [provenCore])
  · exact six _ (by simp [provenCore])
  · exact six _ (by simp [provenCore])
  · exact six _ (by simp [provenCore])
  · rw [(modelRun_obsM cfg rs).1]
    exact (Spec.noErr_iff_filter "C14" _).mp (model_meets_spec_c14 cfg ok hfuel hperm hmt rs hwf)
  · have hord : OrderGood cfg := fun l hl => ⟨(hperm l).nodup_iff.mpr hl, fun x => (hperm l).mem_iff⟩
    exact runSpec_e18 ok hfuel hna hord hsz hneg rs (fun r hr => hwf r hr) hnw
  · exact six _ (by simp [provenCore])

/-- non-vacuity: the hypotheses of `model_meets_spec` hold together — default configuration, a history in which
    three clients connect, subscribe (2 to CLIENT_CLOSED, 3 to FAILED_MESSAGE) and publish, and client 1's socket breaks -/
def exAll : List Round :=
  [{ accept := true }, { accept := true }, { accept := true },
   { reads := [{ uid := 1, h := { k := 1, mtype := 13, src := 10 } }, { uid := 2, h := { k := 2, mtype := 13, src := 11 } },
               { uid := 3, h := { k := 3, mtype := 13, src := 12 } }], writable := [1, 2, 3] },
   { reads := [{ uid := 1, h := { k := 4, mtype := 15, nbytes := 4 }, avail := 4, pay := [136, 19, 0, 0] },
               { uid := 2, h := { k := 5, mtype := 15, nbytes := 4 }, avail := 4, pay := [33, 0, 0, 0] },
               { uid := 3, h := { k := 6, mtype := 15, nbytes := 4 }, avail := 4, pay := [8, 0, 0, 0] }], writable := [1, 2, 3] },
   { failSet := [(1, some .hdr)], reads := [{ uid := 2, h := { k := 7, mtype := 5000 } }], writable := [1, 3] }]
example : ∀ p ∈ Spec.props,
    (Spec.runSpec {} exAll (Pyrtma.Drv.Manager.modelRun {} exAll).1 none).errs.filter (·.1 == p) = [] := by
  refine model_meets_spec {} ⟨by decide, by decide, by decide, fun _ _ h => h⟩ rfl (fun l => List.Perm.refl l)
    (by decide) ?_ (by decide) (by decide) exAll (by unfold RoundsWF RoundWF; decide) ?_ ?_
  · intro t ht e
    subst e
    revert ht; decide
  · simp [IncRounds, IncFrom, lastBound, exAll]
  · intro t _
    have : (mrPair {} exAll).1.hist.length < 100 := by decide
    exact Nat.lt_of_le_of_lt List.count_le_length (by omega)

end Pyrtma.C14
