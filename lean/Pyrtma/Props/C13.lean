import Pyrtma.Proofs.HashText
/-!
# C13 — the version hash identifies the definition text

Theorems about `Model/HashText.lean` (the text `handle_message_def / handle_signal / handle_struct` feed to
SHA-256).  SHA-256 is not evaluated here: "the hash changes" is proved as "the hashed text changes"; that the
digest of the model's text is the parser's digest is established for every generated definition by the harness.

Clauses of the property and where they are decided:
* *depends only on name, id, ordered field names with type texts* — `text_function_of_identity` (theorem);
* *changes whenever any of those changes* — `rawText_injective_partial` (theorem) for definitions that list their
  fields or are signals; for the re-use form `fields: OTHER` the full statement is **false** (`reuse_form_*`
  theorems below = finding C13-F1);
* *same from every file location, import order, comments, blank lines, unrelated definitions* — the model takes
  none of these as input (true by its type); that the real parser behaves like the model is the harness's job;
* *same value in every language output; stamped into every header by `send_message`* — checked on the implementation.
-/
namespace Pyrtma.C13
open Pyrtma.HashText

/-! ## no line of the text is touched by `textwrap.dedent` -/

theorem dedentLine_of_colon {l : Str} (h : ':' ∈ l) : dedentLine l = l := by
  unfold dedentLine
  have : l.all isBlank = false := by
    rw [List.all_eq_false]; exact ⟨':', h, by decide⟩
  simp [this]

theorem dedentLine_nil : dedentLine [] = [] := by simp [dedentLine]

theorem fieldLine_has_colon (p : Str × Str) : ':' ∈ fieldLine p := by
  simp [fieldLine, cs_eq]

theorem dedent_bodyLines (fs : List (Str × Str)) : (bodyLines fs).map dedentLine = bodyLines fs := by
  cases fs with
  | nil => simp [bodyLines, dedentLine_nil]
  | cons p fs =>
    simp only [bodyLines]
    rw [List.map_map]
    conv => rhs; rw [← List.map_id (List.map fieldLine (p :: fs))]
    rw [List.map_map]
    apply List.map_congr_left
    intro q _
    simp [dedentLine_of_colon (fieldLine_has_colon q)]

def notReuse (d : Def) : Bool :=
  match d.fields with
  | .ref _ => false
  | _ => true

/-- for every definition that is a signal or lists its fields the hashed text is just the lines joined -/
theorem rawText_eq_join {d : Def} {ls : List Str} (hr : notReuse d = true) (h : rawLines d = some ls) :
    rawText d = some (joinWith ['\n'] ls) := by
  unfold rawText; rw [h]; simp only [Option.map_some, Option.some.injEq]; congr 1
  have hn : dedentLine (d.name ++ [':']) = d.name ++ [':'] := dedentLine_of_colon (by simp)
  have hi : dedentLine ("  id: ".toList ++ showInt d.id) = "  id: ".toList ++ showInt d.id :=
    dedentLine_of_colon (by simp [idP_eq])
  have hf : dedentLine "  fields:".toList = "  fields:".toList := dedentLine_of_colon (by simp [fieldsP_eq])
  have hfn : dedentLine "  fields: null".toList = "  fields: null".toList := dedentLine_of_colon (by simp [fieldsNull_eq])
  rw [idP_eq] at hi; rw [fieldsP_eq] at hf; rw [fieldsNull_eq] at hfn
  simp only [List.cons_append, List.nil_append] at hi
  unfold rawLines at h
  cases hk : d.kind <;> cases hfl : d.fields <;> simp only [hk, hfl] at h <;>
    first
    | (simp [notReuse, hfl] at hr; done)
    | (cases h; done)
    | (cases h; simp [hn, hi, hf, hfn, dedent_bodyLines, idP_eq, fieldsP_eq, fieldsNull_eq])

/-! ## the text is a function of the identity -/

/-- **The hash depends only on name, id and the ordered field names with their type texts**: two message
definitions (signals or with listed fields) of equal identity have the same hashed text — file, directory, import
order, comments, blank lines and unrelated definitions are not even inputs of `rawText`. -/
theorem text_function_of_identity (d₁ d₂ : Def) (i : Identity)
    (h₁ : d₁.identity? = some i) (h₂ : d₂.identity? = some i) : rawText d₁ = rawText d₂ := by
  have key : ∀ d : Def, d.identity? = some i →
      rawText d = rawText { kind := .message, name := i.name, id := i.id,
                            fields := if i.signal then .null else .list i.fields } := by
    intro d h
    obtain ⟨k, n, id, f⟩ := d
    cases k <;> cases f <;> simp [Def.identity?] at h <;> (subst h; rfl)
  rw [key d₁ h₁, key d₂ h₂]

/-! ## every edit changes the text -/

theorem nl_not_in_showInt (i : Int) : '\n' ∉ showInt i := by
  unfold showInt
  rw [Int.toString_eq_repr, Int.repr_eq_if]
  have hd : ∀ k : Nat, '\n' ∉ k.repr.toList := by
    intro k h
    rw [Nat.toList_repr] at h
    have := Nat.isDigit_of_mem_toDigits (by decide) (by decide) h
    revert this; decide
  split
  · exact hd _
  · rw [String.toList_append]
    intro h
    rcases List.mem_append.mp h with h | h
    · revert h; decide
    · exact hd _ h

theorem noNl_iff {s : Str} : noNl s = true ↔ '\n' ∉ s := by
  simp [noNl]

theorem fieldLine_noNl {p : Str × Str} (h : cleanField p = true) : '\n' ∉ fieldLine p := by
  simp only [cleanField, Bool.and_eq_true] at h
  have h1 := noNl_iff.mp h.1.1
  have h2 := noNl_iff.mp h.1.2
  simp only [fieldLine, sp4_eq, cs_eq, List.mem_append, not_or]
  exact ⟨⟨⟨by decide, h1⟩, by decide⟩, h2⟩

theorem bodyLines_noNl {fs : List (Str × Str)} (h : fs.all cleanField = true) : ∀ l ∈ bodyLines fs, '\n' ∉ l := by
  intro l hl
  cases fs with
  | nil => simp [bodyLines] at hl; subst hl; simp
  | cons p fs =>
    simp only [bodyLines, List.mem_map] at hl
    obtain ⟨q, hq, rfl⟩ := hl
    exact fieldLine_noNl (List.all_eq_true.mp h q hq)

/-- lines of a clean definition contain no newline, so the text splits back into them -/
theorem rawLines_noNl {d : Def} {ls : List Str} (hc : d.clean = true) (hr : notReuse d = true)
    (h : rawLines d = some ls) : ls ≠ [] ∧ ∀ l ∈ ls, '\n' ∉ l := by
  simp only [Def.clean, Bool.and_eq_true] at hc
  have hname : '\n' ∉ d.name ++ [':'] := by
    have := noNl_iff.mp hc.1; simp [this]
  have hid : '\n' ∉ "  id: ".toList ++ showInt d.id := by
    simp only [idP_eq, List.mem_append, not_or]; exact ⟨by decide, nl_not_in_showInt _⟩
  have hf : '\n' ∉ "  fields:".toList := by rw [fieldsP_eq]; decide
  have hfn : '\n' ∉ "  fields: null".toList := by rw [fieldsNull_eq]; decide
  unfold rawLines at h
  cases hk : d.kind <;> cases hfl : d.fields <;> simp only [hk, hfl] at h <;> try (simp [notReuse, hfl] at hr; done)
  all_goals first | (cases h; done) | skip
  all_goals
    cases h
    refine ⟨by simp, ?_⟩
    intro l hl
    simp only [List.mem_cons, List.mem_append, List.not_mem_nil, or_false] at hl
  · rcases hl with rfl | rfl | rfl <;> assumption
  · have hb := bodyLines_noNl (by simpa [hfl] using hc.2)
    rcases hl with (rfl | rfl | rfl) | hl
    · exact hname
    · exact hid
    · exact hf
    · exact hb l hl
  · have hb := bodyLines_noNl (by simpa [hfl] using hc.2)
    rcases hl with (rfl | rfl) | hl
    · exact hname
    · exact hf
    · exact hb l hl

theorem append_colon_inj {a b : Str} (h : a ++ [':'] = b ++ [':']) : a = b :=
  List.append_cancel_right h

theorem idLine_inj {i j : Int} (h : "  id: ".toList ++ showInt i = "  id: ".toList ++ showInt j) : i = j :=
  showInt_inj (List.append_cancel_left h)

/-- **Every single edit changes the hashed text** (`_partial`: definitions that are signals or list their
fields; names, field names and type texts without newline, field names without `": "`).  Equal texts force
equal kind, name, id and field list — hence a rename, an id change, a field rename, a type-text change, an
insertion, a deletion, a reordering or signal↔message each produce a different text.

Full-strength statement (false for the code, see `reuse_form_hides_field_edits`):
  `∀ d₁ d₂, clean → rawText d₁ = rawText d₂ → resolvedIdentity env d₁ = resolvedIdentity env d₂`
where `resolvedIdentity` expands `fields: OTHER`.  The extra hypothesis `notReuse` is exactly the complement of
the signature of finding C13-F1. -/
theorem rawText_injective_partial (d₁ d₂ : Def) (hc₁ : d₁.clean = true) (hc₂ : d₂.clean = true)
    (hr₁ : notReuse d₁ = true) (hr₂ : notReuse d₂ = true) (t : Str)
    (h₁ : rawText d₁ = some t) (h₂ : rawText d₂ = some t) :
    d₁.kind = d₂.kind ∧ d₁.name = d₂.name ∧ (d₁.kind = .message → d₁.id = d₂.id) ∧ d₁.fields = d₂.fields := by
  cases hl₁ : rawLines d₁ with
  | none => simp [rawText, hl₁] at h₁
  | some ls₁ =>
  cases hl₂ : rawLines d₂ with
  | none => simp [rawText, hl₂] at h₂
  | some ls₂ =>
  rw [rawText_eq_join hr₁ hl₁] at h₁
  rw [rawText_eq_join hr₂ hl₂] at h₂
  obtain ⟨hne₁, hnl₁⟩ := rawLines_noNl hc₁ hr₁ hl₁
  obtain ⟨hne₂, hnl₂⟩ := rawLines_noNl hc₂ hr₂ hl₂
  have hls : ls₁ = ls₂ := joinWith_inj hne₁ hne₂ hnl₁ hnl₂ (by
    simp only [Option.some.injEq] at h₁ h₂; rw [h₁, h₂])
  subst hls
  simp only [Def.clean, Bool.and_eq_true] at hc₁ hc₂
  unfold rawLines at hl₁ hl₂
  cases hk₁ : d₁.kind <;> cases hf₁ : d₁.fields <;> simp only [hk₁, hf₁] at hl₁ <;>
    try (simp [notReuse, hf₁] at hr₁; done)
  all_goals first | (cases hl₁; done) | skip
  all_goals
    cases hk₂ : d₂.kind <;> cases hf₂ : d₂.fields <;> simp only [hk₂, hf₂] at hl₂ <;>
      try (simp [notReuse, hf₂] at hr₂; done)
  all_goals first | (cases hl₂; done) | skip
  all_goals
    rw [← hl₂] at hl₁
    simp only [Option.some.injEq] at hl₁
  -- message null / message null
  · simp only [List.cons.injEq, and_true] at hl₁
    exact ⟨rfl, append_colon_inj hl₁.1, fun _ => idLine_inj hl₁.2, rfl⟩
  -- message null / message list : 3 lines against at least 4
  · have := congrArg List.length hl₁
    have hb := bodyLines_ne_nil ‹_›
    simp only [List.length_cons, List.length_append, List.length_nil] at this
    exact absurd (List.eq_nil_of_length_eq_zero (by omega)) hb
  -- message null / struct list : second line differs
  · simp only [List.cons_append, List.nil_append, List.cons.injEq] at hl₁
    have := hl₁.2.1; rw [idP_eq, fieldsP_eq] at this; simp at this
  -- message list / message null
  · have := congrArg List.length hl₁
    have hb := bodyLines_ne_nil ‹_›
    simp only [List.length_cons, List.length_append, List.length_nil] at this
    exact absurd (List.eq_nil_of_length_eq_zero (by omega)) hb
  -- message list / message list
  · simp only [List.cons_append, List.nil_append, List.cons.injEq] at hl₁
    obtain ⟨hn, hi, _, hb⟩ := hl₁
    have := bodyLines_inj (by simpa [hf₁] using hc₁.2) (by simpa [hf₂] using hc₂.2) hb
    exact ⟨rfl, append_colon_inj hn, fun _ => idLine_inj hi, by rw [this]⟩
  -- message list / struct list
  · simp only [List.cons_append, List.nil_append, List.cons.injEq] at hl₁
    have := hl₁.2.1; rw [idP_eq, fieldsP_eq] at this; simp at this
  -- struct list / message null
  · simp only [List.cons_append, List.nil_append, List.cons.injEq] at hl₁
    have := hl₁.2.1; rw [idP_eq, fieldsP_eq] at this; simp at this
  -- struct list / message list
  · simp only [List.cons_append, List.nil_append, List.cons.injEq] at hl₁
    have := hl₁.2.1; rw [idP_eq, fieldsP_eq] at this; simp at this
  -- struct list / struct list
  · simp only [List.cons_append, List.nil_append, List.cons.injEq] at hl₁
    obtain ⟨hn, _, hb⟩ := hl₁
    have := bodyLines_inj (by simpa [hf₁] using hc₁.2) (by simpa [hf₂] using hc₂.2) hb
    exact ⟨rfl, append_colon_inj hn, (fun h => by cases h), by rw [this]⟩

/-- the same, phrased on identities: two messages with different identity never share a hashed text -/
theorem edit_changes_text (d₁ d₂ : Def) (i₁ i₂ : Identity) (hc₁ : d₁.clean = true) (hc₂ : d₂.clean = true)
    (h₁ : d₁.identity? = some i₁) (h₂ : d₂.identity? = some i₂) (hne : i₁ ≠ i₂) : rawText d₁ ≠ rawText d₂ := by
  intro heq
  have hr : ∀ (d : Def) (i : Identity), d.identity? = some i → notReuse d = true ∧ d.kind = .message := by
    intro d i h
    unfold Def.identity? at h
    cases hk : d.kind <;> cases hf : d.fields <;> simp [hk, hf] at h <;> simp [notReuse, hf]
  obtain ⟨hr₁, hk₁⟩ := hr d₁ i₁ h₁
  obtain ⟨hr₂, hk₂⟩ := hr d₂ i₂ h₂
  cases ht : rawText d₁ with
  | none =>
    unfold rawText rawLines at ht
    cases hf : d₁.fields <;> simp [hk₁, hf] at ht
  | some t =>
    obtain ⟨hk, hn, hi, hf⟩ := rawText_injective_partial d₁ d₂ hc₁ hc₂ hr₁ hr₂ t ht (heq ▸ ht)
    apply hne
    have hd : d₁ = d₂ := by
      obtain ⟨k1, n1, id1, f1⟩ := d₁
      obtain ⟨k2, n2, id2, f2⟩ := d₂
      simp only at hk hn hi hf hk₁
      subst hk hn hf
      rw [hi hk₁]
    subst hd
    rw [h₁] at h₂
    cases h₂; rfl

/-! ## the re-use form: finding C13-F1, as theorems about the model of the unchanged code -/

/-- the text of `fields: OTHER` is a function of name, id and the *name* OTHER alone: whatever OTHER's fields
are (they are not an input), the text — hence the hash — is the same -/
theorem reuse_form_hides_field_edits (n o : Str) (i : Int) :
    rawText { kind := .message, name := n, id := i, fields := .ref o } =
      some (joinWith ['\n'] [n ++ [':'], "  id: ".toList ++ showInt i, "  fields:".toList, refLine o]) := by
  have hn : dedentLine (n ++ [':']) = n ++ [':'] := dedentLine_of_colon (by simp)
  have hi : dedentLine ("  id: ".toList ++ showInt i) = "  id: ".toList ++ showInt i :=
    dedentLine_of_colon (by simp [idP_eq])
  have hf : dedentLine "  fields:".toList = "  fields:".toList := dedentLine_of_colon (by simp [fieldsP_eq])
  have hmem : ':' ∈ refLine o := by
    unfold refLine; rw [refP_eq]
    exact List.mem_append_left _ (by decide)
  have hrl : dedentLine (refLine o) = refLine o := dedentLine_of_colon hmem
  simp only [rawText, rawLines, Option.map_some, List.map_cons, List.map_nil, hn, hi, hf, hrl]

/-- ... and it is literally the text of a message with the single field `fields: OTHER` -/
theorem reuse_form_collides (n o : Str) (i : Int) :
    rawText { kind := .message, name := n, id := i, fields := .ref o } =
    rawText { kind := .message, name := n, id := i, fields := .list [("fields".toList, o)] } := by
  have hl : refLine o = fieldLine ("fields".toList, o) := by
    unfold refLine fieldLine
    rw [refP_eq, sp4_eq, cs_eq, fieldsWord_eq]; rfl
  unfold rawText rawLines
  simp only [bodyLines, hl, List.map_cons, List.map_nil, List.cons_append, List.nil_append]

/-- so injectivity fails without `notReuse`: two definitions with different field lists, one text -/
theorem full_injectivity_is_false :
    ∃ d₁ d₂ : Def, d₁.clean = true ∧ d₂.clean = true ∧ d₁.fields ≠ d₂.fields ∧ rawText d₁ = rawText d₂ :=
  ⟨{ kind := .message, name := ['M'], id := 1, fields := .ref ['S'] },
   { kind := .message, name := ['M'], id := 1, fields := .list [("fields".toList, ['S'])] },
   by decide, by decide, by decide, reuse_form_collides _ _ _⟩

/-! ## non-vacuity -/

example : rawText { kind := .message, name := "M".toList, id := 12, fields := .null } =
    some "M:\n  id: 12\n  fields: null".toList := by decide
example : rawText { kind := .message, name := "M".toList, id := -3, fields := .list [("a".toList, "int32[4]".toList), ("b".toList, "S".toList)] } =
    some "M:\n  id: -3\n  fields:\n    a: int32[4]\n    b: S".toList := by decide
example : rawText { kind := .struct, name := "S".toList, fields := .list [("a".toList, "int32".toList)] } =
    some "S:\n  fields:\n    a: int32".toList := by decide
/-- the struct re-use quirk: the characters of `    fields: T` one per line, blanks emptied by dedent -/
example : rawText { kind := .struct, name := "S".toList, fields := .ref "T".toList } =
    some "S:\n  fields:\n\n\n\n\nf\ni\ne\nl\nd\ns\n:\n\nT".toList := by decide
example : ({ kind := .message, name := "M".toList, id := 12, fields := .list [("a".toList, "int32".toList)] } : Def).clean = true := by
  decide

end Pyrtma.C13
