import Pyrtma.Proofs.HashValue
import Pyrtma.Proofs.YamlDef
/-!
# C13 — the version hash identifies the definition text, everywhere the same

Theorems about `Model/HashText.lean` (the text `handle_message_def / handle_signal / handle_struct` feed to SHA-256)
and `Model/Sha256.lean` (SHA-256 itself, executable, FIPS 180-4; the published vectors are kernel-checked theorems
in `Proofs/Sha256.lean`, and on every run the model's digest is compared with hashlib's on thousands of byte
strings and on every generated definition text).  `hash32 d` is the number `int(MDF.hash[:8], 16)` that the four
back ends print and `Client.send_message` stamps into `header.version`; `digestHex d` is `MDF.hash`.

Clauses of the property and where they are decided:
* *depends only on name, id, ordered field names with type texts* — `text_function_of_identity`,
  `hash_function_of_identity` (the value, not only the text);
* *same from every file location, import order, unrelated definitions* — `stored_hash_is_own_digest`,
  `relocation_keeps_hash`: in the registration walk (any files under any paths in any order, any neighbours) every
  stored definition carries the digest of its own text; only `src` depends on the place;
* *regardless of comments, blank lines* (and quoting, hex spelling of the id, key order, indentation widths) — the
  hashed text is not a substring of the source: it is re-rendered from the values the YAML loader delivers.
  `Model/YamlDef.lean` models that loader for the block-style subset definition files use (`loadDef`: comment
  stripping, blank-line removal, block-mapping structure, implicit typing of scalars; `sourceDigest` = the hash as a
  function of the physical lines) and `comment_line_ignored`, `blank_line_ignored`, `trailing_comment_ignored`,
  `trailing_blanks_ignored`, `source_hash_function_of_identity` are theorems about it; hex / key order / quotes /
  indentation are evaluated examples.  That ruamel.yaml loads like `loadDef` is decided on the implementation:
  the real lines of every generated definition, decorated at random, go through both;
* *changes whenever any of those changes* — the text: `rawText_injective_partial`, `edit_changes_text`, and one theorem
  per edit kind of the quantifier (`rename_… id_change_… field_rename_… field_retype_… field_insert_… field_delete_…
  field_reorder_… signal_message_changes_text`); the value: `edit_changes_hash` under the explicit hypothesis
  `NoCollision t₁ t₂` (the two texts are not a collision of SHA-256 truncated to 32 bits).  The hypothesis cannot be
  dropped: `truncated_hash_collides`, `noCollision_not_universal` (pigeonhole).  The unconditional direction is
  `equal_text_equal_hash`;
* the re-use form `fields: OTHER`: the full statement is **false** (`reuse_form_hides_field_edits`,
  `reuse_form_collides`, `full_injectivity_is_false` = finding C13-F1) and the exception is characterised exactly:
  `message_text_injective_mod_reuse` (for all clean messages, re-use form included, the text is injective up to
  `fields: O` ≙ the one-field list `[("fields", O)]`; what stays hidden are edits inside the re-used definition);
* *the hash written into each language output is that same value, and the one senders place in the version field* —
  `digest_prefix_is_hash32` (what `hash[:8]` is), and on the implementation: the model's `hash32` is compared with the
  parser's value, the Python / C / JavaScript / MATLAB constants and `header.version` of frames sent by a real
  `Client` (CORR), and `Spec/HashText.lean: judgeOutputs` judges the values found (PROP).
-/
namespace Pyrtma.C13
open Pyrtma.HashText

/-! ## no line of the text is touched by `textwrap.dedent` -/

theorem dedentLine_of_colon {l : Str} (h : ':' ∈ l) : dedentLine l = l := by
  unfold dedentLine
  have : l.all isBlank = false := by
    rw [List.all_eq_false]; exact ⟨':', h, by decide⟩
  simp [this]

theorem dedentLine_nil : dedentLine [] = [] := by simp [dedentLine]

theorem fieldLine_has_colon (p : Str × Str) : ':' ∈ fieldLine p := by
  simp [fieldLine, cs_eq]

theorem dedent_bodyLines (fs : List (Str × Str)) : (bodyLines fs).map dedentLine = bodyLines fs := by
  cases fs with
  | nil => simp [bodyLines, dedentLine_nil]
  | cons p fs =>
    simp only [bodyLines]
    rw [List.map_map]
    conv => rhs; rw [← List.map_id (List.map fieldLine (p :: fs))]
    rw [List.map_map]
    apply List.map_congr_left
    intro q _
    simp [dedentLine_of_colon (fieldLine_has_colon q)]

def notReuse (d : Def) : Bool :=
  match d.fields with
  | .ref _ => false
  | _ => true

/-- for every definition that is a signal or lists its fields the hashed text is just the lines joined -/
theorem rawText_eq_join {d : Def} {ls : List Str} (hr : notReuse d = true) (h : rawLines d = some ls) :
    rawText d = some (joinWith ['\n'] ls) := by
  unfold rawText; rw [h]; simp only [Option.map_some, Option.some.injEq]; congr 1
  have hn : dedentLine (d.name ++ [':']) = d.name ++ [':'] := dedentLine_of_colon (by simp)
  have hi : dedentLine ("  id: ".toList ++ showInt d.id) = "  id: ".toList ++ showInt d.id :=
    dedentLine_of_colon (by simp [idP_eq])
  have hf : dedentLine "  fields:".toList = "  fields:".toList := dedentLine_of_colon (by simp [fieldsP_eq])
  have hfn : dedentLine "  fields: null".toList = "  fields: null".toList := dedentLine_of_colon (by simp [fieldsNull_eq])
  rw [idP_eq] at hi; rw [fieldsP_eq] at hf; rw [fieldsNull_eq] at hfn
  simp only [List.cons_append, List.nil_append] at hi
  unfold rawLines at h
  cases hk : d.kind <;> cases hfl : d.fields <;> simp only [hk, hfl] at h <;>
    first
    | (simp [notReuse, hfl] at hr; done)
    | (cases h; done)
    | (cases h; simp [hn, hi, hf, hfn, dedent_bodyLines, idP_eq, fieldsP_eq, fieldsNull_eq])

/-! ## the text is a function of the identity -/

/-- **The hash depends only on name, id and the ordered field names with their type texts**: two message
definitions (signals or with listed fields) of equal identity have the same hashed text — file, directory, import
order, comments, blank lines and unrelated definitions are not even inputs of `rawText`. -/
theorem text_function_of_identity (d₁ d₂ : Def) (i : Identity)
    (h₁ : d₁.identity? = some i) (h₂ : d₂.identity? = some i) : rawText d₁ = rawText d₂ := by
  have key : ∀ d : Def, d.identity? = some i →
      rawText d = rawText { kind := .message, name := i.name, id := i.id,
                            fields := if i.signal then .null else .list i.fields } := by
    intro d h
    obtain ⟨k, n, id, f⟩ := d
    cases k <;> cases f <;> simp [Def.identity?] at h <;> (subst h; rfl)
  rw [key d₁ h₁, key d₂ h₂]

/-! ## every edit changes the text -/

theorem nl_not_in_showInt (i : Int) : '\n' ∉ showInt i := by
  unfold showInt
  rw [Int.toString_eq_repr, Int.repr_eq_if]
  have hd : ∀ k : Nat, '\n' ∉ k.repr.toList := by
    intro k h
    rw [Nat.toList_repr] at h
    have := Nat.isDigit_of_mem_toDigits (by decide) (by decide) h
    revert this; decide
  split
  · exact hd _
  · rw [String.toList_append]
    intro h
    rcases List.mem_append.mp h with h | h
    · revert h; decide
    · exact hd _ h

theorem noNl_iff {s : Str} : noNl s = true ↔ '\n' ∉ s := by
  simp [noNl]

theorem fieldLine_noNl {p : Str × Str} (h : cleanField p = true) : '\n' ∉ fieldLine p := by
  simp only [cleanField, Bool.and_eq_true] at h
  have h1 := noNl_iff.mp h.1.1
  have h2 := noNl_iff.mp h.1.2
  simp only [fieldLine, sp4_eq, cs_eq, List.mem_append, not_or]
  exact ⟨⟨⟨by decide, h1⟩, by decide⟩, h2⟩

theorem bodyLines_noNl {fs : List (Str × Str)} (h : fs.all cleanField = true) : ∀ l ∈ bodyLines fs, '\n' ∉ l := by
  intro l hl
  cases fs with
  | nil => simp [bodyLines] at hl; subst hl; simp
  | cons p fs =>
    simp only [bodyLines, List.mem_map] at hl
    obtain ⟨q, hq, rfl⟩ := hl
    exact fieldLine_noNl (List.all_eq_true.mp h q hq)

/-- lines of a clean definition contain no newline, so the text splits back into them -/
theorem rawLines_noNl {d : Def} {ls : List Str} (hc : d.clean = true) (hr : notReuse d = true)
    (h : rawLines d = some ls) : ls ≠ [] ∧ ∀ l ∈ ls, '\n' ∉ l := by
  simp only [Def.clean, Bool.and_eq_true] at hc
  have hname : '\n' ∉ d.name ++ [':'] := by
    have := noNl_iff.mp hc.1; simp [this]
  have hid : '\n' ∉ "  id: ".toList ++ showInt d.id := by
    simp only [idP_eq, List.mem_append, not_or]; exact ⟨by decide, nl_not_in_showInt _⟩
  have hf : '\n' ∉ "  fields:".toList := by rw [fieldsP_eq]; decide
  have hfn : '\n' ∉ "  fields: null".toList := by rw [fieldsNull_eq]; decide
  unfold rawLines at h
  cases hk : d.kind <;> cases hfl : d.fields <;> simp only [hk, hfl] at h <;> try (simp [notReuse, hfl] at hr; done)
  all_goals first | (cases h; done) | skip
  all_goals
    cases h
    refine ⟨by simp, ?_⟩
    intro l hl
    simp only [List.mem_cons, List.mem_append, List.not_mem_nil, or_false] at hl
  · rcases hl with rfl | rfl | rfl <;> assumption
  · have hb := bodyLines_noNl (by simpa [hfl] using hc.2)
    rcases hl with (rfl | rfl | rfl) | hl
    · exact hname
    · exact hid
    · exact hf
    · exact hb l hl
  · have hb := bodyLines_noNl (by simpa [hfl] using hc.2)
    rcases hl with (rfl | rfl) | hl
    · exact hname
    · exact hf
    · exact hb l hl

theorem append_colon_inj {a b : Str} (h : a ++ [':'] = b ++ [':']) : a = b :=
  List.append_cancel_right h

theorem idLine_inj {i j : Int} (h : "  id: ".toList ++ showInt i = "  id: ".toList ++ showInt j) : i = j :=
  showInt_inj (List.append_cancel_left h)

/-- **Every single edit changes the hashed text** (`_partial`: definitions that are signals or list their
fields; names, field names and type texts without newline, field names without `": "`).  Equal texts force
equal kind, name, id and field list — hence a rename, an id change, a field rename, a type-text change, an
insertion, a deletion, a reordering or signal↔message each produce a different text.

Full-strength statement (false for the code, see `reuse_form_hides_field_edits`):
  `∀ d₁ d₂, clean → rawText d₁ = rawText d₂ → resolvedIdentity env d₁ = resolvedIdentity env d₂`
where `resolvedIdentity` expands `fields: OTHER`.  The extra hypothesis `notReuse` is exactly the complement of
the signature of finding C13-F1. -/
theorem rawText_injective_partial (d₁ d₂ : Def) (hc₁ : d₁.clean = true) (hc₂ : d₂.clean = true)
    (hr₁ : notReuse d₁ = true) (hr₂ : notReuse d₂ = true) (t : Str)
    (h₁ : rawText d₁ = some t) (h₂ : rawText d₂ = some t) :
    d₁.kind = d₂.kind ∧ d₁.name = d₂.name ∧ (d₁.kind = .message → d₁.id = d₂.id) ∧ d₁.fields = d₂.fields := by
  cases hl₁ : rawLines d₁ with
  | none => simp [rawText, hl₁] at h₁
  | some ls₁ =>
  cases hl₂ : rawLines d₂ with
  | none => simp [rawText, hl₂] at h₂
  | some ls₂ =>
  rw [rawText_eq_join hr₁ hl₁] at h₁
  rw [rawText_eq_join hr₂ hl₂] at h₂
  obtain ⟨hne₁, hnl₁⟩ := rawLines_noNl hc₁ hr₁ hl₁
  obtain ⟨hne₂, hnl₂⟩ := rawLines_noNl hc₂ hr₂ hl₂
  have hls : ls₁ = ls₂ := joinWith_inj hne₁ hne₂ hnl₁ hnl₂ (by
    simp only [Option.some.injEq] at h₁ h₂; rw [h₁, h₂])
  subst hls
  simp only [Def.clean, Bool.and_eq_true] at hc₁ hc₂
  unfold rawLines at hl₁ hl₂
  cases hk₁ : d₁.kind <;> cases hf₁ : d₁.fields <;> simp only [hk₁, hf₁] at hl₁ <;>
    try (simp [notReuse, hf₁] at hr₁; done)
  all_goals first | (cases hl₁; done) | skip
  all_goals
    cases hk₂ : d₂.kind <;> cases hf₂ : d₂.fields <;> simp only [hk₂, hf₂] at hl₂ <;>
      try (simp [notReuse, hf₂] at hr₂; done)
  all_goals first | (cases hl₂; done) | skip
  all_goals
    rw [← hl₂] at hl₁
    simp only [Option.some.injEq] at hl₁
  -- message null / message null
  · simp only [List.cons.injEq, and_true] at hl₁
    exact ⟨rfl, append_colon_inj hl₁.1, fun _ => idLine_inj hl₁.2, rfl⟩
  -- message null / message list : 3 lines against at least 4
  · have := congrArg List.length hl₁
    have hb := bodyLines_ne_nil ‹_›
    simp only [List.length_cons, List.length_append, List.length_nil] at this
    exact absurd (List.eq_nil_of_length_eq_zero (by omega)) hb
  -- message null / struct list : second line differs
  · simp only [List.cons_append, List.nil_append, List.cons.injEq] at hl₁
    have := hl₁.2.1; rw [idP_eq, fieldsP_eq] at this; simp at this
  -- message list / message null
  · have := congrArg List.length hl₁
    have hb := bodyLines_ne_nil ‹_›
    simp only [List.length_cons, List.length_append, List.length_nil] at this
    exact absurd (List.eq_nil_of_length_eq_zero (by omega)) hb
  -- message list / message list
  · simp only [List.cons_append, List.nil_append, List.cons.injEq] at hl₁
    obtain ⟨hn, hi, _, hb⟩ := hl₁
    have := bodyLines_inj (by simpa [hf₁] using hc₁.2) (by simpa [hf₂] using hc₂.2) hb
    exact ⟨rfl, append_colon_inj hn, fun _ => idLine_inj hi, by rw [this]⟩
  -- message list / struct list
  · simp only [List.cons_append, List.nil_append, List.cons.injEq] at hl₁
    have := hl₁.2.1; rw [idP_eq, fieldsP_eq] at this; simp at this
  -- struct list / message null
  · simp only [List.cons_append, List.nil_append, List.cons.injEq] at hl₁
    have := hl₁.2.1; rw [idP_eq, fieldsP_eq] at this; simp at this
  -- struct list / message list
  · simp only [List.cons_append, List.nil_append, List.cons.injEq] at hl₁
    have := hl₁.2.1; rw [idP_eq, fieldsP_eq] at this; simp at this
  -- struct list / struct list
  · simp only [List.cons_append, List.nil_append, List.cons.injEq] at hl₁
    obtain ⟨hn, _, hb⟩ := hl₁
    have := bodyLines_inj (by simpa [hf₁] using hc₁.2) (by simpa [hf₂] using hc₂.2) hb
    exact ⟨rfl, append_colon_inj hn, (fun h => by cases h), by rw [this]⟩

/-- the same, phrased on identities: two messages with different identity never share a hashed text -/
theorem edit_changes_text (d₁ d₂ : Def) (i₁ i₂ : Identity) (hc₁ : d₁.clean = true) (hc₂ : d₂.clean = true)
    (h₁ : d₁.identity? = some i₁) (h₂ : d₂.identity? = some i₂) (hne : i₁ ≠ i₂) : rawText d₁ ≠ rawText d₂ := by
  intro heq
  have hr : ∀ (d : Def) (i : Identity), d.identity? = some i → notReuse d = true ∧ d.kind = .message := by
    intro d i h
    unfold Def.identity? at h
    cases hk : d.kind <;> cases hf : d.fields <;> simp [hk, hf] at h <;> simp [notReuse, hf]
  obtain ⟨hr₁, hk₁⟩ := hr d₁ i₁ h₁
  obtain ⟨hr₂, hk₂⟩ := hr d₂ i₂ h₂
  cases ht : rawText d₁ with
  | none =>
    unfold rawText rawLines at ht
    cases hf : d₁.fields <;> simp [hk₁, hf] at ht
  | some t =>
    obtain ⟨hk, hn, hi, hf⟩ := rawText_injective_partial d₁ d₂ hc₁ hc₂ hr₁ hr₂ t ht (heq ▸ ht)
    apply hne
    have hd : d₁ = d₂ := by
      obtain ⟨k1, n1, id1, f1⟩ := d₁
      obtain ⟨k2, n2, id2, f2⟩ := d₂
      simp only at hk hn hi hf hk₁
      subst hk hn hf
      rw [hi hk₁]
    subst hd
    rw [h₁] at h₂
    cases h₂; rfl

/-! ## the re-use form: finding C13-F1, as theorems about the model of the unchanged code -/

/-- the text of `fields: OTHER` is a function of name, id and the *name* OTHER alone: whatever OTHER's fields
are (they are not an input), the text — hence the hash — is the same -/
theorem reuse_form_hides_field_edits (n o : Str) (i : Int) :
    rawText { kind := .message, name := n, id := i, fields := .ref o } =
      some (joinWith ['\n'] [n ++ [':'], "  id: ".toList ++ showInt i, "  fields:".toList, refLine o]) := by
  have hn : dedentLine (n ++ [':']) = n ++ [':'] := dedentLine_of_colon (by simp)
  have hi : dedentLine ("  id: ".toList ++ showInt i) = "  id: ".toList ++ showInt i :=
    dedentLine_of_colon (by simp [idP_eq])
  have hf : dedentLine "  fields:".toList = "  fields:".toList := dedentLine_of_colon (by simp [fieldsP_eq])
  have hmem : ':' ∈ refLine o := by
    unfold refLine; rw [refP_eq]
    exact List.mem_append_left _ (by decide)
  have hrl : dedentLine (refLine o) = refLine o := dedentLine_of_colon hmem
  simp only [rawText, rawLines, Option.map_some, List.map_cons, List.map_nil, hn, hi, hf, hrl]

/-- ... and it is literally the text of a message with the single field `fields: OTHER` -/
theorem reuse_form_collides (n o : Str) (i : Int) :
    rawText { kind := .message, name := n, id := i, fields := .ref o } =
    rawText { kind := .message, name := n, id := i, fields := .list [("fields".toList, o)] } := by
  have hl : refLine o = fieldLine ("fields".toList, o) := by
    unfold refLine fieldLine
    rw [refP_eq, sp4_eq, cs_eq, fieldsWord_eq]; rfl
  unfold rawText rawLines
  simp only [bodyLines, hl, List.map_cons, List.map_nil, List.cons_append, List.nil_append]

/-- so injectivity fails without `notReuse`: two definitions with different field lists, one text -/
theorem full_injectivity_is_false :
    ∃ d₁ d₂ : Def, d₁.clean = true ∧ d₂.clean = true ∧ d₁.fields ≠ d₂.fields ∧ rawText d₁ = rawText d₂ :=
  ⟨{ kind := .message, name := ['M'], id := 1, fields := .ref ['S'] },
   { kind := .message, name := ['M'], id := 1, fields := .list [("fields".toList, ['S'])] },
   by decide, by decide, by decide, reuse_form_collides _ _ _⟩


/-! ## the hash value (SHA-256 inside the model) -/

/-- the published SHA-256 vectors (FIPS 180-4 examples: empty, `abc`, the 448-bit and the 896-bit message; one-block /
two-block padding boundary at 55 / 56 bytes) hold for the model — evaluated by the kernel, no axiom -/
theorem sha256_published_vectors :
    Sha256.hexDigest [] = "e3b0c44298fc1c149afbf4c8996fb92427ae41e4649b934ca495991b7852b855".toList ∧
    Sha256.hexDigest (Sha256.utf8 "abc".toList) = "ba7816bf8f01cfea414140de5dae2223b00361a396177a9cb410ff61f20015ad".toList ∧
    Sha256.hexDigest (Sha256.utf8 "abcdbcdecdefdefgefghfghighijhijkijkljklmklmnlmnomnopnopq".toList) =
      "248d6a61d20638b8e5c026930c3e6039a33ce45964ff2167f6ecedd419db06c1".toList ∧
    Sha256.hexDigest (Sha256.utf8
      "abcdefghbcdefghicdefghijdefghijkefghijklfghijklmghijklmnhijklmnoijklmnopjklmnopqklmnopqrlmnopqrsmnopqrstnopqrstu".toList) =
      "cf5b16a778af8380036ce59e7b0492370b249b11e8f07a51afac45037afee9d1".toList ∧
    Sha256.hexDigest (List.replicate 55 0) = "02779466cdec163811d078815c633f21901413081449002f24aa3e80f0b88ef7".toList ∧
    Sha256.hexDigest (List.replicate 56 0) = "d4817aa5497628e7c77e6b606107042bbba3130888c5f47a375e6179be789fbb".toList :=
  ⟨Sha256.nist_empty, Sha256.nist_abc, Sha256.nist_448, Sha256.nist_896, Sha256.nist_55_zeros, Sha256.nist_56_zeros⟩

/-- **Unconditional half of "the hash identifies the text"**: equal text ⇒ equal digest and equal 32-bit version
hash (`hash32` and `digestHex` are functions of `rawText`). -/
theorem equal_text_equal_hash (d₁ d₂ : Def) (h : rawText d₁ = rawText d₂) :
    hash32 d₁ = hash32 d₂ ∧ digestHex d₁ = digestHex d₂ := by
  simp [hash32, digestHex, h]

/-- **The version hash depends only on name, id and the ordered field names with their type texts** — the number
the four outputs print and `send_message` stamps, not just the text. -/
theorem hash_function_of_identity (d₁ d₂ : Def) (i : Identity)
    (h₁ : d₁.identity? = some i) (h₂ : d₂.identity? = some i) :
    hash32 d₁ = hash32 d₂ ∧ digestHex d₁ = digestHex d₂ :=
  equal_text_equal_hash d₁ d₂ (text_function_of_identity d₁ d₂ i h₁ h₂)

/-- every message definition (signal, listed fields, re-use form) has a version hash, and it is a 32-bit number -/
theorem message_has_hash (d : Def) (hk : d.kind = .message) : ∃ n, hash32 d = some n ∧ n < 4294967296 := by
  have : ∃ t, rawText d = some t := by
    unfold rawText rawLines
    cases hf : d.fields <;> simp [hk]
  obtain ⟨t, ht⟩ := this
  exact ⟨text32 t, by simp [hash32, ht], Sha256.word0_lt _⟩

/-- what every back end prints, `hash[:8]`, is the hex spelling of `hash32` -/
theorem digest_prefix_is_hash32 (d : Def) (h : Str) (n : Nat) (hd : digestHex d = some h) (hn : hash32 d = some n) :
    h.take 8 = Sha256.hex8 n := by
  unfold digestHex at hd; unfold hash32 at hn
  cases ht : rawText d with
  | none => simp [ht] at hd
  | some t =>
    simp only [ht, Option.map_some, Option.some.injEq] at hd hn
    subst hd hn
    exact Sha256.hexDigest_take8 _

/-- **The explicit hypothesis under which "the text changes" becomes "the hash changes"**: these two texts are not
a collision of SHA-256 truncated to 32 bits.  It cannot be dropped: see `truncated_hash_collides`. -/
def NoCollision (t₁ t₂ : Str) : Prop := text32 t₁ = text32 t₂ → t₁ = t₂

/-- **Every edit changes the version hash — under `NoCollision` for the two texts involved** (and outside the
re-use form, C13-F1): two messages with different identity have different `hash32`. -/
theorem edit_changes_hash (d₁ d₂ : Def) (i₁ i₂ : Identity) (hc₁ : d₁.clean = true) (hc₂ : d₂.clean = true)
    (h₁ : d₁.identity? = some i₁) (h₂ : d₂.identity? = some i₂) (hne : i₁ ≠ i₂)
    (t₁ t₂ : Str) (ht₁ : rawText d₁ = some t₁) (ht₂ : rawText d₂ = some t₂) (hnc : NoCollision t₁ t₂) :
    hash32 d₁ ≠ hash32 d₂ := by
  intro heq
  have hte := edit_changes_text d₁ d₂ i₁ i₂ hc₁ hc₂ h₁ h₂ hne
  simp only [hash32, ht₁, ht₂, Option.map_some, Option.some.injEq] at heq
  exact hte (by rw [ht₁, ht₂, hnc heq])

def sigDef (i : Nat) : Def := { kind := .message, name := ['M'], id := (i : Int), fields := .null }

theorem sigDef_text (i : Nat) :
    rawText (sigDef i) = some (joinWith ['\n'] [['M', ':'], "  id: ".toList ++ showInt i, "  fields: null".toList]) := by
  have := rawText_eq_join (d := sigDef i) (ls := [['M', ':'], "  id: ".toList ++ showInt i, "  fields: null".toList])
    (by simp [notReuse, sigDef]) (by simp [rawLines, sigDef])
  exact this

/-- **SHA-256 truncated to 32 bits is not injective, so `NoCollision` is a real hypothesis**: among the signals
`M` with ids `0 … 2^32` two have the same version hash although their texts differ (pigeonhole; the pair is not
exhibited). -/
theorem truncated_hash_collides :
    ∃ i j : Nat, i ≠ j ∧ rawText (sigDef i) ≠ rawText (sigDef j) ∧ hash32 (sigDef i) = hash32 (sigDef j) := by
  let f : Nat → Nat := fun i => text32 (joinWith ['\n'] [['M', ':'], "  id: ".toList ++ showInt i, "  fields: null".toList])
  obtain ⟨i, j, hij, _, he⟩ := pigeonhole 4294967296 f (fun i _ => Sha256.word0_lt _)
  refine ⟨i, j, by omega, ?_, ?_⟩
  · have hi : (sigDef i).identity? = some ⟨true, ['M'], (i : Int), []⟩ := by simp [Def.identity?, sigDef]
    have hj : (sigDef j).identity? = some ⟨true, ['M'], (j : Int), []⟩ := by simp [Def.identity?, sigDef]
    have hcl : ∀ k, (sigDef k).clean = true := fun k => by simp [sigDef, Def.clean, noNl]
    exact edit_changes_text _ _ _ _ (hcl i) (hcl j) hi hj (by simp; omega)
  · simp only [hash32, sigDef_text, Option.map_some, Option.some.injEq]
    exact he

/-- … hence `NoCollision` does not hold for all pairs of texts -/
theorem noCollision_not_universal : ¬ ∀ t₁ t₂ : Str, NoCollision t₁ t₂ := by
  intro h
  obtain ⟨i, j, _, hne, he⟩ := truncated_hash_collides
  rw [sigDef_text, sigDef_text] at hne
  simp only [hash32, sigDef_text, Option.map_some, Option.some.injEq] at he
  exact hne (by rw [h _ _ he])

/-! ## every single edit of the quantifier, one by one (text; with `NoCollision` the hash: `edit_changes_hash`)

`msg n i fs` is a message with listed fields, `sig n i` a signal.  Each theorem takes the edited definition in the
shape the edit produces, requires the edit to be effective (new ≠ old) and the components to be clean. -/

def msg (n : Str) (i : Int) (fs : List (Str × Str)) : Def := { kind := .message, name := n, id := i, fields := .list fs }
def sig (n : Str) (i : Int) : Def := { kind := .message, name := n, id := i, fields := .null }

theorem msg_identity (n : Str) (i : Int) (fs : List (Str × Str)) : (msg n i fs).identity? = some ⟨false, n, i, fs⟩ := rfl
theorem sig_identity (n : Str) (i : Int) : (sig n i).identity? = some ⟨true, n, i, []⟩ := rfl

theorem msg_clean {n : Str} {i : Int} {fs : List (Str × Str)} :
    (msg n i fs).clean = (noNl n && fs.all cleanField) := rfl
theorem sig_clean {n : Str} {i : Int} : (sig n i).clean = noNl n := by simp [sig, Def.clean]

/-- two listed-field messages that differ in name, id or field list never share a text -/
theorem msg_text_ne {n n' : Str} {i i' : Int} {fs fs' : List (Str × Str)}
    (hc : (msg n i fs).clean = true) (hc' : (msg n' i' fs').clean = true)
    (hne : n ≠ n' ∨ i ≠ i' ∨ fs ≠ fs') : rawText (msg n i fs) ≠ rawText (msg n' i' fs') :=
  edit_changes_text _ _ _ _ hc hc' (msg_identity n i fs) (msg_identity n' i' fs') (by
    intro h; cases h; rcases hne with h | h | h <;> exact h rfl)

/-- rename -/
theorem rename_changes_text {n n' : Str} {i : Int} {fs : List (Str × Str)}
    (hc : (msg n i fs).clean = true) (hn' : noNl n' = true) (hne : n ≠ n') :
    rawText (msg n i fs) ≠ rawText (msg n' i fs) :=
  msg_text_ne hc (by rw [msg_clean] at hc ⊢; simp_all) (Or.inl hne)

/-- id change -/
theorem id_change_changes_text {n : Str} {i i' : Int} {fs : List (Str × Str)}
    (hc : (msg n i fs).clean = true) (hne : i ≠ i') : rawText (msg n i fs) ≠ rawText (msg n i' fs) :=
  msg_text_ne hc hc (Or.inr (Or.inl hne))

theorem all_set {α} {p : α → Bool} : ∀ {l : List α} {k : Nat} {a : α}, l.all p = true → p a = true → (l.set k a).all p = true
  | [], _, _, _, _ => by simp
  | x :: l, 0, a, h, ha => by simp only [List.set_cons_zero, List.all_cons, Bool.and_eq_true] at h ⊢; exact ⟨ha, h.2⟩
  | x :: l, k + 1, a, h, ha => by
    simp only [List.set_cons_succ, List.all_cons, Bool.and_eq_true] at h ⊢
    exact ⟨h.1, all_set h.2 ha⟩

theorem set_ne {α} : ∀ {l : List α} {k : Nat} {a : α} (hk : k < l.length), l[k] ≠ a → l.set k a ≠ l
  | x :: l, 0, a, _, h => by simp only [List.getElem_cons_zero] at h; simp [List.set_cons_zero]; exact fun e => h e.symm
  | x :: l, k + 1, a, hk, h => by
    simp only [List.getElem_cons_succ] at h
    simp only [List.set_cons_succ, ne_eq, List.cons.injEq, true_and]
    exact set_ne (by simpa using hk) h

/-- field rename: the field at position `k` gets another name -/
theorem field_rename_changes_text {n : Str} {i : Int} {fs : List (Str × Str)} {k : Nat} {fn : Str}
    (hc : (msg n i fs).clean = true) (hk : k < fs.length) (hcl : cleanField (fn, fs[k].2) = true) (hne : fs[k].1 ≠ fn) :
    rawText (msg n i fs) ≠ rawText (msg n i (fs.set k (fn, fs[k].2))) := by
  rw [msg_clean, Bool.and_eq_true] at hc
  refine msg_text_ne (by rw [msg_clean, Bool.and_eq_true]; exact hc)
    (by rw [msg_clean, Bool.and_eq_true]; exact ⟨hc.1, all_set hc.2 hcl⟩) (Or.inr (Or.inr (Ne.symm (set_ne hk ?_))))
  intro h; exact hne (by rw [h])

/-- field type change: the field at position `k` gets another type text -/
theorem field_retype_changes_text {n : Str} {i : Int} {fs : List (Str × Str)} {k : Nat} {ty : Str}
    (hc : (msg n i fs).clean = true) (hk : k < fs.length) (hcl : cleanField (fs[k].1, ty) = true) (hne : fs[k].2 ≠ ty) :
    rawText (msg n i fs) ≠ rawText (msg n i (fs.set k (fs[k].1, ty))) := by
  rw [msg_clean, Bool.and_eq_true] at hc
  refine msg_text_ne (by rw [msg_clean, Bool.and_eq_true]; exact hc)
    (by rw [msg_clean, Bool.and_eq_true]; exact ⟨hc.1, all_set hc.2 hcl⟩) (Or.inr (Or.inr (Ne.symm (set_ne hk ?_))))
  intro h; exact hne (by rw [h])

/-- field insertion at any position `k ≤ length` (a longer list is a different list) -/
theorem field_insert_changes_text {n : Str} {i : Int} {fs : List (Str × Str)} {k : Nat} {p : Str × Str}
    (hc : (msg n i fs).clean = true) (hk : k ≤ fs.length) (hp : cleanField p = true) :
    rawText (msg n i fs) ≠ rawText (msg n i (fs.take k ++ p :: fs.drop k)) := by
  rw [msg_clean, Bool.and_eq_true] at hc
  refine msg_text_ne (by rw [msg_clean, Bool.and_eq_true]; exact hc) ?_ (Or.inr (Or.inr ?_))
  · rw [msg_clean, Bool.and_eq_true]
    refine ⟨hc.1, ?_⟩
    rw [List.all_append, List.all_cons, Bool.and_eq_true, Bool.and_eq_true]
    have h := hc.2
    rw [← List.take_append_drop k fs, List.all_append, Bool.and_eq_true] at h
    exact ⟨h.1, hp, h.2⟩
  · intro h
    have := congrArg List.length h
    simp only [List.length_append, List.length_cons, List.length_take, List.length_drop] at this
    omega

/-- field deletion at any position `k < length` -/
theorem field_delete_changes_text {n : Str} {i : Int} {fs : List (Str × Str)} {k : Nat}
    (hc : (msg n i fs).clean = true) (hk : k < fs.length) :
    rawText (msg n i fs) ≠ rawText (msg n i (fs.take k ++ fs.drop (k + 1))) := by
  rw [msg_clean, Bool.and_eq_true] at hc
  refine msg_text_ne (by rw [msg_clean, Bool.and_eq_true]; exact hc) ?_ (Or.inr (Or.inr ?_))
  · rw [msg_clean, Bool.and_eq_true]
    refine ⟨hc.1, ?_⟩
    rw [List.all_append, Bool.and_eq_true]
    have h := hc.2
    have h1 : (fs.take k).all cleanField = true := by
      rw [← List.take_append_drop k fs, List.all_append, Bool.and_eq_true] at h; exact h.1
    have h2 : (fs.drop (k + 1)).all cleanField = true := by
      rw [← List.take_append_drop (k + 1) fs, List.all_append, Bool.and_eq_true] at h; exact h.2
    exact ⟨h1, h2⟩
  · intro h
    have := congrArg List.length h
    simp only [List.length_append, List.length_take, List.length_drop] at this
    omega

/-- reordering: any rearrangement `fs'` of the same fields that is not the same list -/
theorem field_reorder_changes_text {n : Str} {i : Int} {fs fs' : List (Str × Str)}
    (hc : (msg n i fs).clean = true) (hperm : fs'.Perm fs) (hne : fs ≠ fs') :
    rawText (msg n i fs) ≠ rawText (msg n i fs') := by
  rw [msg_clean, Bool.and_eq_true] at hc
  refine msg_text_ne (by rw [msg_clean, Bool.and_eq_true]; exact hc) ?_ (Or.inr (Or.inr hne))
  rw [msg_clean, Bool.and_eq_true]
  refine ⟨hc.1, ?_⟩
  rw [List.all_eq_true] at hc ⊢
  intro x hx
  exact hc.2 x (hperm.mem_iff.mp hx)

/-- signal ↔ message: a signal and a message with listed fields (even an empty list) never share a text,
whatever their names and ids -/
theorem signal_message_changes_text {n n' : Str} {i i' : Int} {fs : List (Str × Str)}
    (hs : (sig n i).clean = true) (hm : (msg n' i' fs).clean = true) :
    rawText (sig n i) ≠ rawText (msg n' i' fs) :=
  edit_changes_text _ _ _ _ hs hm (sig_identity n i) (msg_identity n' i' fs) (by intro h; cases h)

/-! ## the re-use form, precisely: the text is injective up to `fields: O` ≙ one field named `fields` of type `O` -/

/-- the definition whose text a re-use-form message shares (`reuse_form_collides`) -/
def normRef (d : Def) : Def :=
  match d.kind, d.fields with
  | .message, .ref o => { d with fields := .list [("fields".toList, o)] }
  | _, _ => d

theorem rawText_normRef (d : Def) : rawText (normRef d) = rawText d := by
  obtain ⟨k, n, i, f⟩ := d
  cases k <;> cases f <;> simp only [normRef]
  exact (reuse_form_collides n _ i).symm

theorem normRef_props (d : Def) (hk : d.kind = .message) (hc : d.clean = true) :
    (normRef d).clean = true ∧ notReuse (normRef d) = true ∧ (normRef d).kind = .message := by
  obtain ⟨k, n, i, f⟩ := d
  simp only at hk; subst hk
  cases f with
  | null => exact ⟨hc, rfl, rfl⟩
  | list fs => exact ⟨hc, rfl, rfl⟩
  | ref o =>
    refine ⟨?_, rfl, rfl⟩
    simp only [Def.clean, Bool.and_eq_true] at hc
    simp only [noNl_iff] at hc
    simp [normRef, Def.clean, cleanField, noNl, hasColonSpace, fieldsWord_eq]
    exact hc

/-- **The class of C13-F1, exactly**: for *all* clean message definitions — re-use form included — equal texts
force equal name, id and equal field component up to the identification of `fields: O` with the one-field list
`[("fields", O)]`.  So for a re-use-form message a rename, an id change and pointing at another definition all
change the text; the only edits it hides are edits *inside* the re-used definition (`reuse_form_hides_field_edits`:
they are not in the text at all) and the only foreign definition it collides with is the one-field message. -/
theorem message_text_injective_mod_reuse (d₁ d₂ : Def) (hk₁ : d₁.kind = .message) (hk₂ : d₂.kind = .message)
    (hc₁ : d₁.clean = true) (hc₂ : d₂.clean = true) (h : rawText d₁ = rawText d₂) : normRef d₁ = normRef d₂ := by
  obtain ⟨c₁, r₁, k₁⟩ := normRef_props d₁ hk₁ hc₁
  obtain ⟨c₂, r₂, k₂⟩ := normRef_props d₂ hk₂ hc₂
  have ht : ∃ t, rawText (normRef d₁) = some t := by
    have := message_has_hash (normRef d₁) k₁
    cases hr : rawText (normRef d₁) with
    | none => obtain ⟨_, h1, _⟩ := this; simp [hash32, hr] at h1
    | some t => exact ⟨t, rfl⟩
  obtain ⟨t, ht⟩ := ht
  have ht₂ : rawText (normRef d₂) = some t := by rw [rawText_normRef, ← h, ← rawText_normRef, ht]
  obtain ⟨hk, hn, hi, hf⟩ := rawText_injective_partial _ _ c₁ c₂ r₁ r₂ t ht ht₂
  generalize normRef d₁ = a at *
  generalize normRef d₂ = b at *
  obtain ⟨ka, na, ia, fa⟩ := a
  obtain ⟨kb, nb, ib, fb⟩ := b
  simp only at hk hn hi hf k₁
  subst hk hn hf
  rw [hi k₁]

/-! ## the location is not an input: the registration walk -/

/-- **Same hash from every file, directory, import order and whatever else is defined**: whatever the walk —
any files under any paths in any order, any other definitions before and after — every stored definition carries
the digest of its own text, computed from the loaded value alone.  (`src`, stored next to it, does change.) -/
theorem stored_hash_is_own_digest (walk : List SrcFile) (reg : List Stored) (h : registerAll walk [] = some reg)
    (s : Stored) (hs : s ∈ reg) :
    ∃ f ∈ walk, ∃ d ∈ f.defs, s.name = d.name ∧ some s.raw = rawText d ∧ some s.hash = digestHex d ∧ s.src = f.path := by
  rcases registerAll_mem h s hs with hm | ⟨f, hf, d, hd, he⟩
  · simp at hm
  · refine ⟨f, hf, d, hd, ?_⟩
    unfold storeDef at he
    cases ht : rawText d with
    | none => simp [ht] at he
    | some t =>
      simp only [ht, Option.map_some, Option.some.injEq] at he
      subst he
      simp [digestHex, ht]

/-- two compilations that both register a definition of identity `i` — in whatever file, directory and position
of whatever import graph, next to whatever other definitions — store the same hash for it -/
theorem relocation_keeps_hash (walk₁ walk₂ : List SrcFile) (reg₁ reg₂ : List Stored)
    (h₁ : registerAll walk₁ [] = some reg₁) (h₂ : registerAll walk₂ [] = some reg₂)
    (s₁ s₂ : Stored) (hs₁ : s₁ ∈ reg₁) (hs₂ : s₂ ∈ reg₂) (i : Identity)
    (hi₁ : ∀ f ∈ walk₁, ∀ d ∈ f.defs, d.name = s₁.name → d.identity? = some i)
    (hi₂ : ∀ f ∈ walk₂, ∀ d ∈ f.defs, d.name = s₂.name → d.identity? = some i) : s₁.hash = s₂.hash := by
  obtain ⟨f₁, hf₁, d₁, hd₁, hn₁, _, hh₁, _⟩ := stored_hash_is_own_digest walk₁ reg₁ h₁ s₁ hs₁
  obtain ⟨f₂, hf₂, d₂, hd₂, hn₂, _, hh₂, _⟩ := stored_hash_is_own_digest walk₂ reg₂ h₂ s₂ hs₂
  have := (hash_function_of_identity d₁ d₂ i (hi₁ f₁ hf₁ d₁ hd₁ hn₁.symm) (hi₂ f₂ hf₂ d₂ hd₂ hn₂.symm)).2
  rw [← hh₁, ← hh₂] at this
  exact Option.some.inj this

/-! ## from the source lines: what the YAML loader drops never reaches the hash (`Model/YamlDef.lean`)

`sourceDigest k ls` = the hash as a function of the physical lines of a definition block: `loadDef` (comment
stripping, blank-line removal, block-mapping structure, implicit typing of scalars) followed by `digestHex`.
The correspondence check feeds the real lines of every generated definition — decorated at random — to `loadDef`. -/

section Source
open Pyrtma.YamlDef

/-- **A comment line — at any indentation, whatever it says — changes neither the loaded value nor the hash.** -/
theorem comment_line_ignored (k : Kind) (a b : List Line) (bl c : Line) (hb : bl.all isBlank = true) :
    loadDef k (a ++ (bl ++ '#' :: c) :: b) = loadDef k (a ++ b) ∧
    sourceDigest k (a ++ (bl ++ '#' :: c) :: b) = sourceDigest k (a ++ b) := by
  have : loadDef k (a ++ (bl ++ '#' :: c) :: b) = loadDef k (a ++ b) := by
    unfold loadDef; rw [clean_insert a b _ (cleanLine_comment bl c hb)]
  exact ⟨this, by unfold sourceDigest; rw [this]⟩

/-- **A blank line (empty, or blanks only) changes neither the loaded value nor the hash.** -/
theorem blank_line_ignored (k : Kind) (a b : List Line) (bl : Line) (hb : bl.all isBlank = true) :
    loadDef k (a ++ bl :: b) = loadDef k (a ++ b) ∧ sourceDigest k (a ++ bl :: b) = sourceDigest k (a ++ b) := by
  have : loadDef k (a ++ bl :: b) = loadDef k (a ++ b) := by
    unfold loadDef; rw [clean_insert a b _ (cleanLine_blank bl hb)]
  exact ⟨this, by unfold sourceDigest; rw [this]⟩

/-- **A trailing comment on any line whose quotes are closed changes neither the loaded value nor the hash.** -/
theorem trailing_comment_ignored (k : Kind) (a b : List Line) (l bl c : Line) (hl : Complete l)
    (hb : bl.all isBlank = true) (hne : bl ≠ []) :
    loadDef k (a ++ (l ++ (bl ++ '#' :: c)) :: b) = loadDef k (a ++ l :: b) ∧
    sourceDigest k (a ++ (l ++ (bl ++ '#' :: c)) :: b) = sourceDigest k (a ++ l :: b) := by
  have : loadDef k (a ++ (l ++ (bl ++ '#' :: c)) :: b) = loadDef k (a ++ l :: b) := by
    unfold loadDef; rw [clean_replace a b l _ (cleanLine_trailing_comment l bl c hl hb hne)]
  exact ⟨this, by unfold sourceDigest; rw [this]⟩

/-- **Trailing blanks change neither the loaded value nor the hash.** -/
theorem trailing_blanks_ignored (k : Kind) (a b : List Line) (l bl : Line) (hl : Complete l) (hb : bl.all isBlank = true) :
    loadDef k (a ++ (l ++ bl) :: b) = loadDef k (a ++ l :: b) ∧
    sourceDigest k (a ++ (l ++ bl) :: b) = sourceDigest k (a ++ l :: b) := by
  have : loadDef k (a ++ (l ++ bl) :: b) = loadDef k (a ++ l :: b) := by
    unfold loadDef; rw [clean_replace a b l _ (cleanLine_trailing_blanks l bl hl hb)]
  exact ⟨this, by unfold sourceDigest; rw [this]⟩

/-- the hash of a loaded definition is the hash of its identity: the source enters only through `loadDef` -/
theorem source_hash_function_of_identity (k : Kind) (ls₁ ls₂ : List Line) (d₁ d₂ : Def) (i : Identity)
    (h₁ : loadDef k ls₁ = some d₁) (h₂ : loadDef k ls₂ = some d₂) (i₁ : d₁.identity? = some i) (i₂ : d₂.identity? = some i) :
    sourceDigest k ls₁ = sourceDigest k ls₂ := by
  simp only [sourceDigest, h₁, h₂, Option.bind_some]
  exact (hash_function_of_identity d₁ d₂ i i₁ i₂).2

private def srcPlain : List Line := ["  M:", "    id: 1006", "    fields:", "      a: int32", "      b: double[2]"].map String.toList
/-- the same definition: hex id, `fields` before `id`, quoted type texts, other indentation widths, comments with
colons / `#` / quotes, blank lines, trailing blanks -/
private def srcDecorated : List Line :=
  ["  M:   # the definition: M", "", "       fields:  ", "   # a comment line: fields: null", "            a:   'int32'  # a # b",
   "", "            b: \"double[2]\"", "#id: 99", "       id: 0x3ee # 'x' \"y\"", "     "].map String.toList

example : loadDef .message srcPlain = some (msg "M".toList 1006 [("a".toList, "int32".toList), ("b".toList, "double[2]".toList)]) := by
  decide
example : loadDef .message srcDecorated = loadDef .message srcPlain := by decide
example : sourceDigest .message srcDecorated = sourceDigest .message srcPlain := by
  have : loadDef .message srcDecorated = loadDef .message srcPlain := by decide
  simp [sourceDigest, this]
example : (sourceDigest .message srcDecorated).map (·.take 8) = some "311e4282".toList := by decide +kernel
/-- signal forms: `null`, `~`, nothing -/
example : loadDef .message (["  S:", "    id: 12", "    fields: null"].map String.toList) = some (sig "S".toList 12) := by decide
example : loadDef .message (["  S:", "    fields: ~", "    id: 12"].map String.toList) = some (sig "S".toList 12) := by decide
example : loadDef .message (["  S:", "    fields:", "    id: 0xC"].map String.toList) = some (sig "S".toList 12) := by decide
/-- outside the modelled subset the loader says so (no guess): flow style, a boolean, a missing id -/
example : loadDef .message (["  S:", "    id: 12", "    fields: {a: int32}"].map String.toList) = none := by decide
example : loadDef .message (["  S:", "    id: true", "    fields: null"].map String.toList) = none := by decide
example : loadDef .message (["  S:", "    fields: null"].map String.toList) = none := by decide
/-- hypotheses of the decoration theorems are satisfiable -/
example : Complete "      b: \"double[2]\"".toList := Or.inr (by decide)
example : Complete "    id: 5  # already a comment".toList := Or.inl (by decide)
example : ¬ Complete "      b: \"double[2]".toList := by
  intro h; rcases h with h | h <;> revert h <;> decide

end Source

/-! ## non-vacuity -/

example : rawText { kind := .message, name := "M".toList, id := 12, fields := .null } =
    some "M:\n  id: 12\n  fields: null".toList := by decide
example : rawText { kind := .message, name := "M".toList, id := -3, fields := .list [("a".toList, "int32[4]".toList), ("b".toList, "S".toList)] } =
    some "M:\n  id: -3\n  fields:\n    a: int32[4]\n    b: S".toList := by decide
example : rawText { kind := .struct, name := "S".toList, fields := .list [("a".toList, "int32".toList)] } =
    some "S:\n  fields:\n    a: int32".toList := by decide
/-- the struct re-use quirk: the characters of `    fields: T` one per line, blanks emptied by dedent -/
example : rawText { kind := .struct, name := "S".toList, fields := .ref "T".toList } =
    some "S:\n  fields:\n\n\n\n\nf\ni\ne\nl\nd\ns\n:\n\nT".toList := by decide
example : ({ kind := .message, name := "M".toList, id := 12, fields := .list [("a".toList, "int32".toList)] } : Def).clean = true := by
  decide


/-- the number itself: `MDF.hash[:8]` of the signal `M` with id 12 is `03dc6182` (hashlib agrees: `Proofs/Sha256.lean`) -/
example : hash32 (sig "M".toList 12) = some 0x03dc6182 := by decide +kernel
example : (digestHex (sig "M".toList 12)).map (·.take 8) = some "03dc6182".toList := by decide +kernel
/-- an edit that changes the text and — for this pair, checked by evaluation — the 32-bit hash: `NoCollision` holds -/
example : NoCollision "M:\n  id: 12\n  fields: null".toList "M:\n  id: 13\n  fields: null".toList :=
  fun h => absurd h (by decide +kernel)
example : hash32 (sig "M".toList 12) ≠ hash32 (sig "M".toList 13) := by decide +kernel
/-- the per-edit theorems have satisfiable hypotheses -/
example : rawText (msg "M".toList 1 [("a".toList, "int32".toList), ("b".toList, "double".toList)]) ≠
    rawText (msg "M".toList 1 ([("a".toList, "int32".toList), ("b".toList, "double".toList)].set 1 ("c".toList, "double".toList))) :=
  field_rename_changes_text (k := 1) (by decide) (by decide) (by decide) (by decide)
example : rawText (msg "M".toList 1 [("a".toList, "int32".toList), ("b".toList, "double".toList)]) ≠
    rawText (msg "M".toList 1 [("b".toList, "double".toList), ("a".toList, "int32".toList)]) :=
  field_reorder_changes_text (by decide) (List.Perm.swap _ _ _) (by decide)
example : rawText (msg "M".toList 1 [("a".toList, "int32".toList)]) ≠
    rawText (msg "M".toList 1 ([("a".toList, "int32".toList)].take 1 ++ ("z".toList, "char".toList) :: [("a".toList, "int32".toList)].drop 1)) :=
  field_insert_changes_text (by decide) (by decide) (by decide)
/-- the re-use form: a rename is visible, and `normRef` is where it lands -/
example : normRef { kind := .message, name := "M".toList, id := 1, fields := .ref "S".toList } = msg "M".toList 1 [("fields".toList, "S".toList)] := by
  decide
/-- one definition, two locations (other file, other directory, other neighbours, other position): `src` differs,
the stored hash does not -/
example :
    let d := msg "M".toList 7 [("a".toList, "int32".toList)]
    let w₁ := [SrcFile.mk "defs.yaml".toList [d]]
    let w₂ := [SrcFile.mk "inc/other.yaml".toList [sig "X".toList 1], SrcFile.mk "moved/deeper/m.yaml".toList [sig "Y".toList 2, d]]
    ((registerAll w₁ []).map (·.map (fun s => (s.name, s.src)))) = some [("M".toList, "defs.yaml".toList)] ∧
    ((registerAll w₂ []).map (·.map (fun s => (s.name, s.src)))) =
      some [("X".toList, "inc/other.yaml".toList), ("Y".toList, "moved/deeper/m.yaml".toList), ("M".toList, "moved/deeper/m.yaml".toList)] ∧
    ((registerAll w₁ []).bind (·[0]?)).map (·.hash) = ((registerAll w₂ []).bind (·[2]?)).map (·.hash) := by
  decide +kernel

end Pyrtma.C13
