import Pyrtma.Proofs.Manager
/-!
# C19 — control frames are acknowledged exactly once, in order, to their sender

`dataSends isAck out` lists `(recipient, frame)` for every ACKNOWLEDGE the manager itself wrote.  (An ACKNOWLEDGE-typed
frame *published by a client* is a data frame with body `.data k`, never `.ack`.)
-/
namespace Pyrtma.C19
open Pyrtma.Mgr

abbrev isAck : Body → Bool := fun b => b == .ack

theorem canTake_pres {s s' : State} (h : Pres s s') (v : Nat) : canTake s' v = canTake s v := by
  unfold canTake
  rw [failOf_congr h.fail]
  cases hfo : failOf s v with
  | some x => cases s'.find v <;> cases s.find v <;> simp
  | none =>
    have hk := h.keep v hfo
    cases h1 : s'.find v <;> cases h2 : s.find v <;> simp [h1, h2] at hk ⊢
    obtain ⟨hc, _, _, _⟩ := core_fields hk
    simp [hc]

theorem toLoggers_ok (cfg : Cfg) {B} (hB : Tag cfg B) (f : Frame) : ∀ (ls : List Nat) (s : State),
    Pres s (toLoggers cfg f ls s) ∧
    dataSends B (toLoggers cfg f ls s).out =
      dataSends B s.out ++ (if B f.body = true then (ls.filter (canTake s)).map (fun u => (u, f)) else [])
  | [], s => ⟨Pres.refl s, by simp [toLoggers]⟩
  | u :: rest, s => by
    unfold toLoggers
    have hstep : Pres s (loggerOne cfg f s u) ∧ dataSends B (loggerOne cfg f s u).out =
          dataSends B s.out ++ (if canTake s u = true ∧ B f.body = true then [(u, f)] else []) := by
      unfold loggerOne
      cases hfind : s.find u with
      | none => simp [canTake, hfind]; exact Pres.refl s
      | some m => exact trySend_ok cfg hB (fwdTop_ok cfg hB) s u f
    obtain ⟨hp, hd⟩ := hstep
    have ih := toLoggers_ok cfg hB f rest (loggerOne cfg f s u)
    refine ⟨hp.trans ih.1, ?_⟩
    rw [ih.2, hd, List.filter_cons]
    have he : rest.filter (canTake (loggerOne cfg f s u)) = rest.filter (canTake s) := by
      congr 1; funext v; exact canTake_pres hp v
    rw [he]
    by_cases hb : B f.body = true <;> by_cases hc : canTake s u = true <;> simp [hb, hc]

/-- **Exactly one ACKNOWLEDGE to the sender, one copy per logger.**  `send_ack` for module `u` (holding id `m.modId`)
writes: one ACKNOWLEDGE addressed to `m.modId` (source: the manager, id 0) on `u`'s own connection — provided that
connection can take it — followed by one identical copy to every module that is in the logger set at that moment and
whose connection can take it; nothing else in the step is an ACKNOWLEDGE, whatever the nested failure handling does. -/
theorem ack_exactly_once (cfg : Cfg) (s : State) (u : Nat) (m : Module) (hm : s.find u = some m) :
    dataSends isAck (sendAck cfg s u).out =
      dataSends isAck s.out ++ (if canTake s u = true then [(u, ackFrame cfg m.modId)] else []) ++
        (((cfg.order (trySend cfg (fwdTop cfg) s u (ackFrame cfg m.modId)).loggers).filter (canTake s)).map
          (fun l => (l, ackFrame cfg m.modId))) := by
  unfold sendAck
  simp only [hm]
  have h1 := trySend_ok cfg (tag_ack cfg) (fwdTop_ok cfg (tag_ack cfg)) s u (ackFrame cfg m.modId)
  have h2 := toLoggers_ok cfg (tag_ack cfg) (ackFrame cfg m.modId)
    (cfg.order (trySend cfg (fwdTop cfg) s u (ackFrame cfg m.modId)).loggers)
    (trySend cfg (fwdTop cfg) s u (ackFrame cfg m.modId))
  rw [h2.2, h1.2]
  have he : (cfg.order (trySend cfg (fwdTop cfg) s u (ackFrame cfg m.modId)).loggers).filter
      (canTake (trySend cfg (fwdTop cfg) s u (ackFrame cfg m.modId))) =
      (cfg.order (trySend cfg (fwdTop cfg) s u (ackFrame cfg m.modId)).loggers).filter (canTake s) := by
    congr 1; funext v; exact canTake_pres h1.1 v
  rw [he]
  have hb : (fun b => b == Body.ack) (ackFrame cfg m.modId).body = true := rfl
  simp [hb]

/-- the acknowledgement is addressed to the sending module, from the manager, with no payload -/
theorem ack_shape (cfg : Cfg) (d : Int) :
    (ackFrame cfg d).dest = d ∧ (ackFrame cfg d).src = 0 ∧ (ackFrame cfg d).nbytes = 0 ∧
    (ackFrame cfg d).mtype = cfg.mtAck := ⟨rfl, rfl, rfl, rfl⟩

/-- the loggers that get a copy are loggers of the state before the step (nothing is ever added to that set by the
    failure handling), so "one copy per logger module" is exact -/
theorem ack_copies_only_to_loggers (cfg : Cfg) (s : State) (u : Nat) (f : Frame) (l : Nat)
    (h : l ∈ (trySend cfg (fwdTop cfg) s u f).loggers) : l ∈ s.loggers :=
  (trySend_ok cfg (tag_ack cfg) (fwdTop_ok cfg (tag_ack cfg)) s u f).1.loggers l h

/-- **Data frames are never acknowledged**: forwarding anything — a client's data frame or a manager message —
writes no ACKNOWLEDGE on any connection. -/
theorem forward_never_acks (cfg : Cfg) (s : State) (g : Frame) (hg : g.body ≠ .ack) :
    dataSends isAck (fwdTop cfg s g).out = dataSends isAck s.out :=
  (fwdTop_ok cfg (tag_ack cfg) s g (by simpa [isAck] using hg)).2

/-- removing a module (DISCONNECT, broken frame, refused connect) writes no ACKNOWLEDGE -/
theorem remove_never_acks (cfg : Cfg) (s : State) (u : Nat) :
    dataSends isAck (removeModule cfg (fwdTop cfg) s u).out = dataSends isAck s.out :=
  removeModule_quiet cfg (tag_ack cfg) (fwdTop_ok cfg (tag_ack cfg)) s u

theorem log_never_acks (cfg : Cfg) (lvl : Nat) (s : State) :
    dataSends isAck (logAt cfg (fwdTop cfg) lvl s).out = dataSends isAck s.out :=
  (logAt_ok cfg (tag_ack cfg) (fwdTop_ok cfg (tag_ack cfg)) lvl s).2

/-- the type ids that `process_message` tests before the four subscription requests differ from them
    (instantiated at the ids of the source tree in `Gen/Consts.lean`) -/
structure DistinctIds (cfg : Cfg) : Prop where
  s1 : cfg.mtSubscribe ≠ cfg.mtConnect
  s2 : cfg.mtSubscribe ≠ cfg.mtConnectV2
  s3 : cfg.mtSubscribe ≠ cfg.mtDisconnect
  r1 : cfg.mtResume ≠ cfg.mtConnect
  r2 : cfg.mtResume ≠ cfg.mtConnectV2
  r3 : cfg.mtResume ≠ cfg.mtDisconnect
  u1 : cfg.mtUnsubscribe ≠ cfg.mtConnect
  u2 : cfg.mtUnsubscribe ≠ cfg.mtConnectV2
  u3 : cfg.mtUnsubscribe ≠ cfg.mtDisconnect
  u4 : cfg.mtUnsubscribe ≠ cfg.mtSubscribe
  u5 : cfg.mtUnsubscribe ≠ cfg.mtResume
  p1 : cfg.mtPause ≠ cfg.mtConnect
  p2 : cfg.mtPause ≠ cfg.mtConnectV2
  p3 : cfg.mtPause ≠ cfg.mtDisconnect
  p4 : cfg.mtPause ≠ cfg.mtSubscribe
  p5 : cfg.mtPause ≠ cfg.mtResume

theorem info_never_acks (cfg : Cfg) (s : State) (m : Module) :
    dataSends isAck (infoOf cfg s m).out = dataSends isAck s.out := by
  unfold infoOf
  rw [forward_never_acks _ _ _ (by simp [infoFrame, mgrFrame]), log_never_acks]

/-- **Never acknowledged**: a data frame (any type id that is not one of the nine control types), MODULE_READY,
CLIENT_SET_NAME and DISCONNECT produce no ACKNOWLEDGE on any connection. -/
theorem never_acked (cfg : Cfg) (s : State) (u : Nat) (h : Hdr)
    (ht : h.mtype ≠ cfg.mtConnect ∧ h.mtype ≠ cfg.mtConnectV2 ∧ h.mtype ≠ cfg.mtSubscribe ∧ h.mtype ≠ cfg.mtResume ∧
          h.mtype ≠ cfg.mtUnsubscribe ∧ h.mtype ≠ cfg.mtPause) :
    dataSends isAck (processMessage cfg s u h).out = dataSends isAck s.out := by
  obtain ⟨h1, h2, h3, h4, h5, h6⟩ := ht
  have e1 : (h.mtype == cfg.mtConnect) = false := by simpa using h1
  have e2 : (h.mtype == cfg.mtConnectV2) = false := by simpa using h2
  have e3 : (h.mtype == cfg.mtSubscribe) = false := by simpa using h3
  have e4 : (h.mtype == cfg.mtResume) = false := by simpa using h4
  have e5 : (h.mtype == cfg.mtUnsubscribe) = false := by simpa using h5
  have e6 : (h.mtype == cfg.mtPause) = false := by simpa using h6
  unfold processMessage
  simp only [e1, e2, e3, e4, e5, e6, Bool.or_self, Bool.false_eq_true, if_false]
  split
  · rw [log_never_acks, remove_never_acks]
  · split
    · split
      · rw [remove_never_acks, log_never_acks]
      · rw [info_never_acks, log_never_acks]; rfl
    · split
      · unfold sendInfo; split
        · rfl
        · rw [info_never_acks]; rfl
      · rw [forward_never_acks _ _ _ (by simp), log_never_acks]

/-- **SUBSCRIBE / RESUME / UNSUBSCRIBE / PAUSE are always acknowledged**, whether or not the request changed anything:
processing such a frame *is* the table update followed by `send_ack` to the sender. -/
theorem control_frames_acked (cfg : Cfg) (hd : DistinctIds cfg) (s : State) (u : Nat) (h : Hdr) :
    ((h.mtype = cfg.mtSubscribe ∨ h.mtype = cfg.mtResume) →
      processMessage cfg s u h = sendAck cfg (addSub cfg s u (bufI32 s.buf 0)) u) ∧
    ((h.mtype = cfg.mtUnsubscribe ∨ h.mtype = cfg.mtPause) →
      processMessage cfg s u h = sendAck cfg (removeSub cfg s u (bufI32 s.buf 0)) u) := by
  have f (a b : Int) (hne : a ≠ b) : (a == b) = false := by simpa using hne
  constructor <;> intro ht <;> unfold processMessage <;> rcases ht with ht | ht <;> rw [ht]
  · simp only [f _ _ hd.s1, f _ _ hd.s2, f _ _ hd.s3, beq_self_eq_true, Bool.or_self, Bool.true_or,
      Bool.false_eq_true, if_false, if_true]
  · simp only [f _ _ hd.r1, f _ _ hd.r2, f _ _ hd.r3, beq_self_eq_true, Bool.or_self, Bool.or_true,
      Bool.false_eq_true, if_false, if_true]
  · simp only [f _ _ hd.u1, f _ _ hd.u2, f _ _ hd.u3, f _ _ hd.u4, f _ _ hd.u5, beq_self_eq_true, Bool.or_self,
      Bool.true_or, Bool.false_eq_true, if_false, if_true]
  · simp only [f _ _ hd.p1, f _ _ hd.p2, f _ _ hd.p3, f _ _ hd.p4, f _ _ hd.p5, beq_self_eq_true, Bool.or_self,
      Bool.or_true, Bool.false_eq_true, if_false, if_true]

/-! ### Non-vacuity -/
def exState : State :=
  { mods := [{ uid := 0, connected := true }, { uid := 1, modId := 10, connected := true },
             { uid := 2, modId := 11, connected := true, isLogger := true },
             { uid := 3, modId := 12, connected := true, isLogger := true }],
    loggers := [2, 3], wlist := [1, 2], nextUid := 3, buf := [136, 19, 0, 0], fail := [(3, .hdr)] }

/-- module 1 subscribes: one ACK to 1, one copy to logger 2; logger 3's socket is broken: it gets nothing (and is dropped) -/
example : dataSends isAck (processMessage {} exState 1 { mtype := 15 }).out =
    [(1, ackFrame {} 10), (2, ackFrame {} 10)] := by decide
example : DistinctIds {} := by constructor <;> decide

end Pyrtma.C19
