import Pyrtma.Spec.Manager
namespace Pyrtma.C19
open Pyrtma.Mgr

/-- placeholder while the proofs are being written (replaced below) -/
theorem wip : True := trivial

end Pyrtma.C19
