import Pyrtma.Proofs.ManagerSimDrv
/-!
# C19 — control frames are acknowledged exactly once, in order, to their sender

`dataSends isAck out` lists `(recipient, frame)` for every ACKNOWLEDGE the manager itself wrote.  (An ACKNOWLEDGE-typed
frame *published by a client* is a data frame with body `.data k`, never `.ack`.)

Per operation (any state): `ack_exactly_once`, `ack_shape`, `ack_copies_only_to_loggers`, `forward_never_acks`,
`remove_never_acks`, `never_acked`, `control_frames_acked`.

For every history (the refinement link, `Proofs/ManagerSim*.lean`): `spec_ack_clause_passes_on_model` — run the model on
any well-formed history and give the history-based Spec (`Spec.runSpec`, the function the driver evaluates on what the
real `MessageManager` did) the events the model itself wrote, round by round: the Spec's verdict contains **no C19
entry**.  The proof replays the Spec's abstract table against the model's tables through a simulation relation
(`SimM`, preserved by every round: `round_ok`) and shows frame by frame that `Spec.checkAcks` — addressed to the sender's
module id, exactly once to the sender (twice if it is itself a logger), one copy per connected logger whose connection
works, none to anybody else, none for frames that must not be acknowledged — adds nothing.  So: whenever the
implementation's events agree with the model's on a history (the CORR tie), the C19 verdict of the Spec on the
implementation is `ok`, for *all* histories, not only the generated ones.
-/
namespace Pyrtma.C19
open Pyrtma.Mgr

abbrev isAck : Body → Bool := fun b => b == .ack

theorem canTake_pres {s s' : State} (h : Pres s s') (v : Nat) : canTake s' v = canTake s v := by
  unfold canTake
  rw [failOf_congr h.fail]
  cases hfo : failOf s v with
  | some x => cases s'.find v <;> cases s.find v <;> simp
  | none =>
    have hk := h.keep v hfo
    cases h1 : s'.find v <;> cases h2 : s.find v <;> simp [h1, h2] at hk ⊢
    obtain ⟨hc, _, _, _⟩ := core_fields hk
    simp [hc]

theorem toLoggers_ok (cfg : Cfg) {B} (hB : Tag cfg B) (f : Frame) : ∀ (ls : List Nat) (s : State),
    Pres s (toLoggers cfg f ls s) ∧
    dataSends B (toLoggers cfg f ls s).out =
      dataSends B s.out ++ (if B f.body = true then (ls.filter (canTake s)).map (fun u => (u, f)) else [])
  | [], s => ⟨Pres.refl s, by simp [toLoggers]⟩
  | u :: rest, s => by
    unfold toLoggers
    have hstep : Pres s (loggerOne cfg f s u) ∧ dataSends B (loggerOne cfg f s u).out =
          dataSends B s.out ++ (if canTake s u = true ∧ B f.body = true then [(u, f)] else []) := by
      unfold loggerOne
      cases hfind : s.find u with
      | none => simp [canTake, hfind]; exact Pres.refl s
      | some m => exact trySend_ok cfg hB (fwdTop_ok cfg hB) s u f
    obtain ⟨hp, hd⟩ := hstep
    have ih := toLoggers_ok cfg hB f rest (loggerOne cfg f s u)
    refine ⟨hp.trans ih.1, ?_⟩
    rw [ih.2, hd, List.filter_cons]
    have he : rest.filter (canTake (loggerOne cfg f s u)) = rest.filter (canTake s) := by
      congr 1; funext v; exact canTake_pres hp v
    rw [he]
    by_cases hb : B f.body = true <;> by_cases hc : canTake s u = true <;> simp [hb, hc]

/-- **Exactly one ACKNOWLEDGE to the sender, one copy per logger.**  `send_ack` for module `u` (holding id `m.modId`)
writes: one ACKNOWLEDGE addressed to `m.modId` (source: the manager, id 0) on `u`'s own connection — provided that
connection can take it — followed by one identical copy to every module that is in the logger set at that moment and
whose connection can take it; nothing else in the step is an ACKNOWLEDGE, whatever the nested failure handling does. -/
theorem ack_exactly_once (cfg : Cfg) (s : State) (u : Nat) (m : Module) (hm : s.find u = some m) :
    dataSends isAck (sendAck cfg s u).out =
      dataSends isAck s.out ++ (if canTake s u = true then [(u, ackFrame cfg m.modId)] else []) ++
        (((cfg.order (trySend cfg (fwdTop cfg) s u (ackFrame cfg m.modId)).loggers).filter (canTake s)).map
          (fun l => (l, ackFrame cfg m.modId))) := by
  unfold sendAck
  simp only [hm]
  have h1 := trySend_ok cfg (tag_ack cfg) (fwdTop_ok cfg (tag_ack cfg)) s u (ackFrame cfg m.modId)
  have h2 := toLoggers_ok cfg (tag_ack cfg) (ackFrame cfg m.modId)
    (cfg.order (trySend cfg (fwdTop cfg) s u (ackFrame cfg m.modId)).loggers)
    (trySend cfg (fwdTop cfg) s u (ackFrame cfg m.modId))
  rw [h2.2, h1.2]
  have he : (cfg.order (trySend cfg (fwdTop cfg) s u (ackFrame cfg m.modId)).loggers).filter
      (canTake (trySend cfg (fwdTop cfg) s u (ackFrame cfg m.modId))) =
      (cfg.order (trySend cfg (fwdTop cfg) s u (ackFrame cfg m.modId)).loggers).filter (canTake s) := by
    congr 1; funext v; exact canTake_pres h1.1 v
  rw [he]
  have hb : (fun b => b == Body.ack) (ackFrame cfg m.modId).body = true := rfl
  simp [hb]

/-- the acknowledgement is addressed to the sending module, from the manager, with no payload -/
theorem ack_shape (cfg : Cfg) (d : Int) :
    (ackFrame cfg d).dest = d ∧ (ackFrame cfg d).src = 0 ∧ (ackFrame cfg d).nbytes = 0 ∧
    (ackFrame cfg d).mtype = cfg.mtAck := ⟨rfl, rfl, rfl, rfl⟩

/-- the loggers that get a copy are loggers of the state before the step (nothing is ever added to that set by the
    failure handling), so "one copy per logger module" is exact -/
theorem ack_copies_only_to_loggers (cfg : Cfg) (s : State) (u : Nat) (f : Frame) (l : Nat)
    (h : l ∈ (trySend cfg (fwdTop cfg) s u f).loggers) : l ∈ s.loggers :=
  (trySend_ok cfg (tag_ack cfg) (fwdTop_ok cfg (tag_ack cfg)) s u f).1.loggers l h

/-- **Data frames are never acknowledged**: forwarding anything — a client's data frame or a manager message —
writes no ACKNOWLEDGE on any connection. -/
theorem forward_never_acks (cfg : Cfg) (s : State) (g : Frame) (hg : g.body ≠ .ack) :
    dataSends isAck (fwdTop cfg s g).out = dataSends isAck s.out :=
  (fwdTop_ok cfg (tag_ack cfg) s g (by simpa [isAck] using hg)).2

/-- removing a module (DISCONNECT, broken frame, refused connect) writes no ACKNOWLEDGE -/
theorem remove_never_acks (cfg : Cfg) (s : State) (u : Nat) :
    dataSends isAck (removeModule cfg (fwdTop cfg) s u).out = dataSends isAck s.out :=
  removeModule_quiet cfg (tag_ack cfg) (fwdTop_ok cfg (tag_ack cfg)) s u

theorem log_never_acks (cfg : Cfg) (lvl : Nat) (s : State) :
    dataSends isAck (logAt cfg (fwdTop cfg) lvl s).out = dataSends isAck s.out :=
  (logAt_ok cfg (tag_ack cfg) (fwdTop_ok cfg (tag_ack cfg)) lvl s).2

/-- the type ids that `process_message` tests before the four subscription requests differ from them
    (instantiated at the ids of the source tree in `Gen/Consts.lean`) -/
structure DistinctIds (cfg : Cfg) : Prop where
  s1 : cfg.mtSubscribe ≠ cfg.mtConnect
  s2 : cfg.mtSubscribe ≠ cfg.mtConnectV2
  s3 : cfg.mtSubscribe ≠ cfg.mtDisconnect
  r1 : cfg.mtResume ≠ cfg.mtConnect
  r2 : cfg.mtResume ≠ cfg.mtConnectV2
  r3 : cfg.mtResume ≠ cfg.mtDisconnect
  u1 : cfg.mtUnsubscribe ≠ cfg.mtConnect
  u2 : cfg.mtUnsubscribe ≠ cfg.mtConnectV2
  u3 : cfg.mtUnsubscribe ≠ cfg.mtDisconnect
  u4 : cfg.mtUnsubscribe ≠ cfg.mtSubscribe
  u5 : cfg.mtUnsubscribe ≠ cfg.mtResume
  p1 : cfg.mtPause ≠ cfg.mtConnect
  p2 : cfg.mtPause ≠ cfg.mtConnectV2
  p3 : cfg.mtPause ≠ cfg.mtDisconnect
  p4 : cfg.mtPause ≠ cfg.mtSubscribe
  p5 : cfg.mtPause ≠ cfg.mtResume

theorem info_never_acks (cfg : Cfg) (s : State) (m : Module) :
    dataSends isAck (infoOf cfg s m).out = dataSends isAck s.out := by
  unfold infoOf
  rw [forward_never_acks _ _ _ (by simp [infoFrame, mgrFrame]), log_never_acks]

/-- **Never acknowledged**: a data frame (any type id that is not one of the nine control types), MODULE_READY,
CLIENT_SET_NAME and DISCONNECT produce no ACKNOWLEDGE on any connection. -/
theorem never_acked (cfg : Cfg) (s : State) (u : Nat) (h : Hdr)
    (ht : h.mtype ≠ cfg.mtConnect ∧ h.mtype ≠ cfg.mtConnectV2 ∧ h.mtype ≠ cfg.mtSubscribe ∧ h.mtype ≠ cfg.mtResume ∧
          h.mtype ≠ cfg.mtUnsubscribe ∧ h.mtype ≠ cfg.mtPause) :
    dataSends isAck (processMessage cfg s u h).out = dataSends isAck s.out := by
  obtain ⟨h1, h2, h3, h4, h5, h6⟩ := ht
  have e1 : (h.mtype == cfg.mtConnect) = false := by simpa using h1
  have e2 : (h.mtype == cfg.mtConnectV2) = false := by simpa using h2
  have e3 : (h.mtype == cfg.mtSubscribe) = false := by simpa using h3
  have e4 : (h.mtype == cfg.mtResume) = false := by simpa using h4
  have e5 : (h.mtype == cfg.mtUnsubscribe) = false := by simpa using h5
  have e6 : (h.mtype == cfg.mtPause) = false := by simpa using h6
  unfold processMessage
  simp only [e1, e2, e3, e4, e5, e6, Bool.or_self, Bool.false_eq_true, if_false]
  split
  · rw [log_never_acks, remove_never_acks]
  · split
    · split
      · rw [remove_never_acks, log_never_acks]
      · rw [info_never_acks, log_never_acks]; rfl
    · split
      · unfold sendInfo; split
        · rfl
        · rw [info_never_acks]; rfl
      · rw [forward_never_acks _ _ _ (by simp), log_never_acks]

/-- **SUBSCRIBE / RESUME / UNSUBSCRIBE / PAUSE are always acknowledged**, whether or not the request changed anything:
processing such a frame *is* the table update followed by `send_ack` to the sender. -/
theorem control_frames_acked (cfg : Cfg) (hd : DistinctIds cfg) (s : State) (u : Nat) (h : Hdr) :
    ((h.mtype = cfg.mtSubscribe ∨ h.mtype = cfg.mtResume) →
      processMessage cfg s u h = sendAck cfg (addSub cfg s u (bufI32 s.buf 0)) u) ∧
    ((h.mtype = cfg.mtUnsubscribe ∨ h.mtype = cfg.mtPause) →
      processMessage cfg s u h = sendAck cfg (removeSub cfg s u (bufI32 s.buf 0)) u) := by
  have f (a b : Int) (hne : a ≠ b) : (a == b) = false := by simpa using hne
  constructor <;> intro ht <;> unfold processMessage <;> rcases ht with ht | ht <;> rw [ht]
  · simp only [f _ _ hd.s1, f _ _ hd.s2, f _ _ hd.s3, beq_self_eq_true, Bool.or_self, Bool.true_or,
      Bool.false_eq_true, if_false, if_true]
  · simp only [f _ _ hd.r1, f _ _ hd.r2, f _ _ hd.r3, beq_self_eq_true, Bool.or_self, Bool.or_true,
      Bool.false_eq_true, if_false, if_true]
  · simp only [f _ _ hd.u1, f _ _ hd.u2, f _ _ hd.u3, f _ _ hd.u4, f _ _ hd.u5, beq_self_eq_true, Bool.or_self,
      Bool.true_or, Bool.false_eq_true, if_false, if_true]
  · simp only [f _ _ hd.p1, f _ _ hd.p2, f _ _ hd.p3, f _ _ hd.p4, f _ _ hd.p5, beq_self_eq_true, Bool.or_self,
      Bool.or_true, Bool.false_eq_true, if_false, if_true]

/-! ### The Spec's C19 clauses on every run of the model -/

/-- **The Spec's acknowledgement clauses hold on every run of the model** (and with them the whole of property C19 as
the Spec decides it, the crash clause being void for a run that does not crash — `model_never_crashes`).  For every
configuration meeting the side conditions (`CfgOK`: instantiated at the constants of the source tree; automatic fuel;
CLIENT_CLOSED is not the ALL_MESSAGE_TYPES sentinel;
`OrdPerm`: a Python `set` is iterated in some order, every element once — the driver uses insertion order and its
reverse) and every history whose frames are read from connections (never from the manager's own table entry, uid 0 —
every generated history is such), the verdict `Spec.runSpec` computes from the history and the model's own events has no
C19 entry. -/
theorem spec_ack_clause_passes_on_model (cfg : Cfg) (ok : CfgOK cfg) (hfuel : cfg.fuel = 0) (hperm : OrdPerm cfg)
    (hmt : cfg.mtClosed ≠ cfg.allTypes) (rs : List Round) (hwf : RoundsWF rs) :
    (Spec.runSpec cfg rs (Pyrtma.Drv.Manager.modelRun cfg rs).1 none).errs.filter (·.1 == "C19") = [] :=
  spec_passes_on_model ok hfuel hperm hmt rs hwf "C19" (by simp [provenCore]) (fun h => absurd h (by decide))

/-- …and the abstract table the Spec ends with describes the model's final tables: same live connections, same module
    ids, flags, names, pids and subscriptions, same failure environment -/
theorem spec_table_simulates_model (cfg : Cfg) (ok : CfgOK cfg) (hfuel : cfg.fuel = 0) (hperm : OrdPerm cfg)
    (hmt : cfg.mtClosed ≠ cfg.allTypes) (rs : List Round) (hwf : RoundsWF rs) :
    SimM cfg ((List.zip rs (modelRounds cfg (init cfg) rs)).foldl (fun a p => Spec.round cfg a p.1 p.2) {}) (run cfg rs) :=
  (rounds_ok ok hfuel hperm hmt rs {} (init cfg) (init_sim ok hfuel hmt (ordOK_of_perm hperm)) hwf).1.sim

/-! ### Non-vacuity -/
def exState : State :=
  { mods := [{ uid := 0, connected := true }, { uid := 1, modId := 10, connected := true },
             { uid := 2, modId := 11, connected := true, isLogger := true },
             { uid := 3, modId := 12, connected := true, isLogger := true }],
    loggers := [2, 3], wlist := [1, 2], nextUid := 3, buf := [136, 19, 0, 0], fail := [(3, .hdr)] }

/-- module 1 subscribes: one ACK to 1, one copy to logger 2; logger 3's socket is broken: it gets nothing (and is dropped) -/
example : dataSends isAck (processMessage {} exState 1 { mtype := 15 }).out =
    [(1, ackFrame {} 10), (2, ackFrame {} 10)] := by decide
example : DistinctIds {} := by constructor <;> decide

/-- the side conditions of the refinement theorem hold for the default configuration with either iteration order -/
example : OrdPerm ({} : Cfg) ∧ OrdPerm ({ order := List.reverse } : Cfg) :=
  ⟨fun l => List.Perm.refl l, fun l => List.reverse_perm l⟩

/-- two connections, both connect (the second as a logger), the first subscribes: a well-formed history on which the
    model acknowledges (three ACKNOWLEDGE frames to connection 1 … ) and the Spec has nothing to object to -/
def exHist : List Round :=
  [{ accept := true }, { accept := true },
   { reads := [{ uid := 2, h := { k := 1, mtype := 4, nbytes := 44 }, avail := 44,
                 pay := [1, 0, 0, 0, 0, 0, 11, 0, 7, 0, 0, 0] }], writable := [1, 2] },
   { reads := [{ uid := 1, h := { k := 2, mtype := 13, src := 10 } }], writable := [1, 2] },
   { reads := [{ uid := 1, h := { k := 3, mtype := 15, nbytes := 4 }, avail := 4, pay := [136, 19, 0, 0] }],
     writable := [1, 2] }]

example : RoundsWF exHist := by
  intro r hr rd hrd
  simp only [exHist, List.mem_cons, List.mem_singleton, List.not_mem_nil, or_false] at hr
  rcases hr with rfl | rfl | rfl | rfl | rfl <;> simp at hrd <;> subst hrd <;> decide

/-- (connection, module id addressed) of the ACKNOWLEDGE frames of that run: connection 2 is a logger, and so is
    connection 1 — its version-1 CONNECT has no payload, the logger flag is read from the bytes the previous frame left in
    the receive buffer -/
example : (Spec.ackSends (modelObs {} exHist).flatten).map (fun p => (p.1, p.2.2.dest)) =
    [(2, 11), (2, 11), (1, 10), (2, 10), (1, 10), (1, 10), (2, 10), (1, 10)] := by decide +kernel

example : (Spec.runSpec {} exHist (Pyrtma.Drv.Manager.modelRun {} exHist).1 none).errs = [] := by decide +kernel


end Pyrtma.C19
