import Pyrtma.Proofs.Layout
/-!
# C11 — accepted layouts are naturally aligned with only explicit padding

Theorems about `Model/Layout.lean` (the model of `Parser.check_alignment` / `validate_msg_def`), for
**every** field list whose members have alignment 1, 2, 4 or 8 dividing their element size
(`wfInput`; that is what native types and validated nested structs provide — see `nested_wf`,
which closes the induction over nesting depth), every array length, both `auto_pad` settings.

Round 3 (mutation sweep): `accepted_size_is_natural` (the accepted size is the size a C compiler gives the user's own
member list: padding is only what natural alignment needs), `size_error_justified` / `oversize_never_accepted` (the size
limit in both directions, stated on the natural size: exactly 65535 bytes is accepted, the driver's `size_error_unjustified`
clause is now this exact statement instead of a generous bound).
-/
namespace Pyrtma.C11
open Pyrtma.Layout

/-- facts shared by all clauses: what an accepted result looks like -/
theorem accepted_facts {ap : Bool} {fs : List Fld} {o : Out} (hw : wfInput fs = true)
    (h : validate ap fs = .ok o) :
    fs ≠ [] ∧ (∀ q ∈ o.fields, Al q.1.align) ∧ allAligned o.fields = true ∧ packed o.fields 0 = true ∧
    o.size = sumSizes o.fields ∧ o.align = strictest o.fields ∧ o.size % S o.fields = 0 ∧
    userFields o.fields = fs ∧ padsAreChar o.fields = true ∧ o.size ≤ 65535 ∧ o.fields ≠ [] := by
  unfold validate at h
  split at h; · simp at h
  rename_i hne
  have hne : fs ≠ [] := by intro h0; simp [h0] at hne
  split at h; · simp at h
  rename_i o' hc
  split at h; · simp at h
  rename_i hsz
  simp at h; subst h
  cases hl : lead ap fs 0 with
  | error e => simp [checkAlignment, hl] at hc
  | ok v =>
    obtain ⟨lf, ptr⟩ := v
    have L := lead_ok ap fs 0 lf ptr hw hl
    have hS := S_al lf L.als
    have hend : ptr = sumSizes lf := by have := L.endp; omega
    have hlne : lf ≠ [] := by
      intro h; have := L.user; rw [h] at this; simp [userFields] at this; exact hne this
    rw [check_closed ap fs hw hne hl] at hc
    unfold closed at hc
    simp only at hc
    split at hc
    · rename_i hg
      simp at hc; subst hc
      have := gap_mod ptr hS; rw [hg] at this
      exact ⟨hne, L.als, L.aligned, L.packed, rfl, rfl, by simpa [hend] using this, L.user, L.pads,
             by simpa using hsz, hlne⟩
    · rename_i hg
      split at hc; · simp at hc
      simp at hc; subst hc
      have hpos : 0 < gap ptr (S lf) := by omega
      refine ⟨hne, ?_, ?_, ?_, rfl, rfl, ?_, ?_, ?_, by simpa using hsz, by simp⟩
      · intro q hq; simp at hq; rcases hq with hq | rfl
        · exact L.als q hq
        · simp [trailPad, Al]
      · rw [allAligned_append, L.aligned]; simp [allAligned, trailPad]; omega
      · rw [packed_append, L.packed]; simp [packed, hend]
      · rw [S_append_pad, sumSizes_append, sumSizes_cons]; simp only [trailPad_size hpos]
        have h0 : sumSizes ([] : List (Fld × Nat)) = 0 := rfl
        have := gap_mod ptr hS; rw [h0]; rw [← hend]; simpa using this
      · have := L.user; simp [userFields, trailPad] at this ⊢; exact this
      · have := L.pads; simp [padsAreChar, trailPad] at this ⊢; exact this

theorem S_eq_strictest {r : List (Fld × Nat)} (hne : r ≠ []) (hal : ∀ q ∈ r, Al q.1.align) :
    S r = strictest r := by
  cases r with
  | nil => exact absurd rfl hne
  | cons q r => have := al_pos (hal q (by simp)); unfold S; rw [strictest_cons]; omega

/-- **Accepted ⇒ Spec.**  Every clause of `Spec/Layout.lean` (`offsets_aligned`, `packed_no_gaps`,
`size_is_sum`, `size_multiple_of_strictest`, `align_is_strictest`, `user_fields_preserved`,
`pads_are_char`, `size_limit`) holds of whatever `validate_msg_def` accepts. -/
theorem accepted_sound {ap : Bool} {fs : List Fld} {o : Out} (hw : wfInput fs = true)
    (h : validate ap fs = .ok o) : Accepted fs o := by
  obtain ⟨_, hal, hof, hpk, hsz, hat, hmod, hus, hpd, hlim, hone⟩ := accepted_facts hw h
  have hSs := S_eq_strictest hone hal
  intro c hc
  simp only [acceptedClauses, List.mem_cons, List.mem_nil_iff, or_false] at hc
  rcases hc with rfl | rfl | rfl | rfl | rfl | rfl | rfl | rfl
  · exact hof
  · exact hpk
  · simp [hsz]
  · simp [← hSs, hmod]
  · simp [hat]
  · simp [hus]
  · exact hpd
  · simp [hlim]

/-- **No hidden padding.**  The natural-alignment layout a C compiler (or ctypes) computes for the accepted
member list has exactly the recorded offsets, `sizeof` equal to the recorded size (= the sum of the declared
fields) and `_Alignof` equal to the recorded alignment. -/
theorem no_hidden_padding {ap : Bool} {fs : List Fld} {o : Out} (hw : wfInput fs = true)
    (h : validate ap fs = .ok o) :
    cOffsets (o.fields.map (·.1)) 0 = (o.fields.map (·.2), o.size) ∧
    cSizeof (o.fields.map (·.1)) = o.size ∧ cAlignof (o.fields.map (·.1)) = o.align := by
  obtain ⟨_, hal, hof, hpk, hsz, hat, hmod, _, _, _, hone⟩ := accepted_facts hw h
  have hc := cOffsets_packed o.fields 0 hal hof hpk
  have hS := S_al o.fields hal
  refine ⟨by rw [hc, hsz]; simp, ?_, by rw [cAlignof_eq, hat, S_eq_strictest hone hal]⟩
  unfold cSizeof; rw [hc, cAlignof_eq]; simp only [Nat.zero_add, ← hsz]
  exact roundUp_of_mod (al_pos hS) hmod

/-- An accepted struct is itself a well-formed member (alignment 1/2/4/8 dividing its size), for every array
length: the hypothesis `wfInput` therefore holds at every nesting depth. -/
theorem nested_wf {ap : Bool} {fs : List Fld} {o : Out} (hw : wfInput fs = true)
    (h : validate ap fs = .ok o) (len : Option Nat) :
    Fld.wf { align := o.align, esize := o.size, len := len } = true := by
  obtain ⟨_, hal, _, _, _, hat, hmod, _, _, _, hone⟩ := accepted_facts hw h
  have hS := S_al o.fields hal
  rw [S_eq_strictest hone hal, ← hat] at hS hmod
  unfold Fld.wf; unfold Al at hS
  simp only [Bool.and_eq_true, Bool.or_eq_true, beq_iff_eq, Bool.not_eq_true']
  exact ⟨⟨by omega, hmod⟩, trivial⟩

/-- **Auto-padding is total**: with `auto_pad` on, `check_alignment` never raises (no `AlignmentError`, no
internal error); the only possible rejection of a non-empty definition is the size limit. -/
theorem autopad_total {fs : List Fld} (hw : wfInput fs = true) (hne : fs ≠ []) :
    ∃ o, checkAlignment true fs = .ok o := by
  obtain ⟨lf, ptr, hl⟩ := lead_total fs 0
  rw [check_closed true fs hw hne hl]
  by_cases hg : gap ptr (S lf) = 0 <;> simp [closed, hg]

theorem lead_error_is_alignment (ap : Bool) : ∀ (fs : List Fld) (p : Nat) (e : Err),
    lead ap fs p = .error e → e = .alignment
  | [], p, e, h => by simp [lead] at h
  | f :: fs, p, e, h => by
    unfold lead at h
    split at h
    · split at h; · simp at h
      rename_i e' he; simp at h; subst h; exact lead_error_is_alignment ap fs _ _ he
    · split at h; · simp at h; exact h.symm
      dsimp only at h
      split at h; · simp at h
      rename_i e' he; simp at h; subst h; exact lead_error_is_alignment ap fs _ _ he

/-- No input reaches the `assert`/`RuntimeError` paths: the ctypes size check inside `check_alignment`
can never fail and the trailing-padding search always terminates (≤ 7 steps). -/
theorem never_internal (ap : Bool) {fs : List Fld} (hw : wfInput fs = true) :
    validate ap fs ≠ .error .internal := by
  by_cases hne : fs = []
  · subst hne; simp [validate]
  have hemp : fs.isEmpty = false := by cases fs <;> simp_all
  unfold validate; simp only [hemp]
  cases hl : lead ap fs 0 with
  | error e =>
    have := lead_error_is_alignment ap fs 0 e hl
    simp [checkAlignment, hl, this]
  | ok v =>
    obtain ⟨lf, ptr⟩ := v
    rw [check_closed ap fs hw hne hl]
    by_cases hg : gap ptr (S lf) = 0 <;> cases ap <;> simp [closed, hg] <;> split <;> simp

/-- **Size limit**, both directions. -/
theorem size_limit (ap : Bool) (fs : List Fld) (o : Out) (hc : checkAlignment ap fs = .ok o) (hne : fs ≠ []) :
    (o.size ≤ 65535 → validate ap fs = .ok o) ∧ (o.size > 65535 → validate ap fs = .error .tooLarge) := by
  have : fs.isEmpty = false := by cases fs <;> simp_all
  unfold validate; simp only [this, hc]
  constructor <;> intro h <;> simp <;> omega

/-- **Padding is only what a C compiler needs**: the size of whatever `check_alignment` accepts — padding fields written by
the user, inserted automatically, or none — is the size a C compiler gives the user's own member list under natural
alignment (`Spec.naturalSize`). -/
theorem accepted_size_is_natural {ap : Bool} {fs : List Fld} {o : Out} (hw : wfInput fs = true)
    (h : validate ap fs = .ok o) : o.size = naturalSize fs := by
  obtain ⟨hne, _⟩ := accepted_facts hw h
  have hemp : fs.isEmpty = false := by cases fs <;> simp_all
  cases hc : checkAlignment ap fs with
  | error e => simp [validate, hemp, hc] at h
  | ok o' =>
    simp only [validate, hemp, hc] at h
    by_cases hs : 65535 < o'.size <;> simp [hs] at h
    subst h
    exact checked_size_natural hw hne hc

/-- **The size limit in the other direction**: a definition is rejected as too large only if its naturally aligned size
exceeds 65535 bytes (`Spec.sizeErrorJustified`) — a definition of exactly 65535 bytes is not. -/
theorem size_error_justified (ap : Bool) {fs : List Fld} (hw : wfInput fs = true)
    (h : validate ap fs = .error .tooLarge) : sizeErrorJustified fs = true := by
  by_cases hne : fs = []
  · subst hne; simp [validate] at h
  have hemp : fs.isEmpty = false := by cases fs <;> simp_all
  cases hc : checkAlignment ap fs with
  | error e =>
    simp [validate, hemp, hc] at h; subst h
    exfalso
    cases hl : lead ap fs 0 with
    | error e =>
      have := lead_error_is_alignment ap fs 0 e hl
      simp [checkAlignment, hl, this] at hc
    | ok v =>
      obtain ⟨lf, ptr⟩ := v
      rw [check_closed ap fs hw hne hl] at hc
      unfold closed at hc
      by_cases hg : gap ptr (S lf) = 0 <;> cases ap <;> simp [hg] at hc
  | ok o' =>
    simp only [validate, hemp, hc] at h
    by_cases hs : 65535 < o'.size <;> simp [hs] at h
    have := checked_size_natural hw hne hc
    simp [sizeErrorJustified, naturalSize]; omega

/-- …and conversely a definition whose natural size exceeds the limit is never accepted. -/
theorem oversize_never_accepted (ap : Bool) {fs : List Fld} {o : Out} (hw : wfInput fs = true)
    (h : validate ap fs = .ok o) : sizeErrorJustified fs = false := by
  have hs := accepted_size_is_natural hw h
  obtain ⟨_, _, _, _, _, _, _, _, _, hlim, _⟩ := accepted_facts hw h
  simp [sizeErrorJustified]; omega

/-- a result that contains an appended trailing pad does not have the input as its member list -/
theorem pad_appended_ne {fs : List Fld} {lf : List (Fld × Nat)} {ptr : Nat} (hw : wfInput fs = true)
    (hlt : lead true fs 0 = .ok (lf, ptr)) (x : Fld × Nat) : (lf ++ [x]).map (·.1) ≠ fs := by
  intro hmap
  have hlen := congrArg List.length hmap
  have L := lead_ok true fs 0 lf ptr hw hlt
  have hu := congrArg List.length L.user
  simp [userFields] at hlen hu
  have := List.length_filter_le (fun p : Fld × Nat => !p.1.isPad) lf
  omega

/-- **With automatic padding switched off, a definition is accepted exactly when it needs none**: the
no-padding run accepts `fs` iff the padding run accepts it *without inserting anything*, and then both give the
same result. -/
theorem nopad_iff_needs_none {fs : List Fld} (hw : wfInput fs = true) (o : Out) :
    validate false fs = .ok o ↔ (validate true fs = .ok o ∧ o.fields.map (·.1) = fs) := by
  by_cases hne : fs = []
  · subst hne; simp [validate]
  have hemp : fs.isEmpty = false := by cases fs <;> simp_all
  obtain ⟨lf, ptr, hlt⟩ := lead_total fs 0
  have hct := check_closed true fs hw hne hlt
  constructor
  · intro h
    unfold validate at h; simp only [hemp] at h
    cases hlf : lead false fs 0 with
    | error e => simp [checkAlignment, hlf] at h
    | ok v =>
      obtain ⟨lf', ptr'⟩ := v
      obtain ⟨hlt', hmap⟩ := (lead_false_iff fs 0 lf' ptr' hw).mp hlf
      rw [hlt] at hlt'; simp at hlt'; obtain ⟨rfl, rfl⟩ := hlt'
      rw [check_closed false fs hw hne hlf] at h
      unfold validate; simp only [hemp, hct]
      by_cases hg : gap ptr (S lf) = 0
      · simp only [closed, hg, if_true] at h ⊢
        refine ⟨h, ?_⟩
        by_cases hs : 65535 < sumSizes lf <;> simp [hs] at h
        subst h; exact hmap
      · simp [closed, hg] at h
  · intro ⟨h, hmap⟩
    unfold validate at h ⊢; simp only [hemp, hct] at h
    by_cases hg : gap ptr (S lf) = 0
    · simp only [closed, hg, if_true] at h
      have hlf : lead false fs 0 = .ok (lf, ptr) := by
        refine (lead_false_iff fs 0 lf ptr hw).mpr ⟨hlt, ?_⟩
        by_cases hs : 65535 < sumSizes lf <;> simp [hs] at h
        subst h; exact hmap
      simp only [hemp, check_closed false fs hw hne hlf, closed, hg, if_true]; exact h
    · exfalso
      simp [closed, hg] at h
      split at h; · simp at h
      simp at h; subst h
      exact pad_appended_ne hw hlt _ hmap

/-! ### Non-vacuity: concrete definitions that meet the hypotheses and exercise every branch -/

/-- `{char; int32; double[2]; int16}` needs leading padding twice and trailing padding once. -/
example : validate true [⟨1,1,none,false⟩, ⟨4,4,none,false⟩, ⟨8,8,some 2,false⟩, ⟨2,2,none,false⟩] =
    .ok { fields := [(⟨1,1,none,false⟩,0), (padFld 3,1), (⟨4,4,none,false⟩,4), (⟨8,8,some 2,false⟩,8),
                     (⟨2,2,none,false⟩,24), (trailPad 6,26)], align := 8, size := 32 } := by rfl
example : wfInput [⟨1,1,none,false⟩, ⟨4,4,none,false⟩, ⟨8,8,some 2,false⟩, ⟨2,2,none,false⟩] = true := by decide
example : validate false [⟨1,1,none,false⟩, ⟨4,4,none,false⟩] = .error .alignment := by rfl
example : validate false [⟨4,4,none,false⟩, ⟨2,2,some 2,false⟩] = .ok ⟨[(⟨4,4,none,false⟩,0), (⟨2,2,some 2,false⟩,4)], 4, 8⟩ := by rfl
example : validate true [⟨8,8,some 8192,false⟩] = .error .tooLarge := by rfl
/-- `size_error_justified` / `accepted_size_is_natural` are not vacuous: 65535 single bytes are accepted at exactly the
limit, 65536 are rejected with a justified size error, and `{char; int32}` (5 declared bytes) is accepted with 8 -/
example : sizeErrorJustified [⟨1,1,some 65535,false⟩] = false ∧ sizeErrorJustified [⟨1,1,some 65536,false⟩] = true := by decide
example : naturalSize [⟨1,1,none,false⟩, ⟨4,4,none,false⟩] = 8 := by decide
example : (validate true [⟨1,1,none,false⟩, ⟨4,4,none,false⟩]).toOption.map (·.size) = some 8 := by rfl

end Pyrtma.C11
