import Pyrtma.Proofs.Manager
import Pyrtma.Proofs.ManagerId
import Pyrtma.Proofs.ManagerSimDrv
/-!
# C06 — module identity: unique ids, sound dynamic ids

Theorems about `assignLoop` (the model of `assign_module_id`) for every table of used ids, every cursor position and
every size of the dynamic range, and about `connectModule` / everything else for the identity invariant `IdInv`.

For every history (the refinement link, `Proofs/ManagerSim*.lean`): `spec_connect_clause_passes_on_model` — run the model
on any well-formed history and give the history-based Spec (`Spec.runSpec`, the function the driver evaluates on what the
real `MessageManager` did) the events the model itself wrote: the verdict contains **no C06 entry**.  The C06 clauses of
the Spec are `checkConnect` (a request with a non-zero id that must be refused — id out of range, id held by a connected
module when either side is unique, name held by a unique module — is not acknowledged; a request that is not
acknowledged may be refused — the former reasons, or the name of the manager's own entry, or a unique newcomer
reusing a name; a dynamic id that is acknowledged lies in `[DYN_MOD_ID_START, MAX_MODULES)` and is held by no live
module; a dynamic-id request is refused only when every dynamic id is held by a live module) and `checkInfos` (every
CLIENT_INFO frame — after CONNECT, CLIENT_SET_NAME, MODULE_READY, and the ones `send_active_clients` writes in the
periodic section — reports id, logger flag, uniqueness, name and pid as the connect request / later frames set them).
The proof carries the simulation relation `SimM` (with the model invariants the decision rests on: distinct uids, the
manager's own entry, "a module that is not connected holds no id", the dynamic-id cursor in range) through every round
and compares `connect_module`'s clash loop and `assign_module_id` with the Spec's `mustRefuse` / `mayRefuse` /
`dynFull` over the Spec's own abstract table.
-/
namespace Pyrtma.C06
open Pyrtma.Mgr

/-- the cursor after one probe -/
def next (md off : Nat) : Nat := if off + 1 == md then 0 else off + 1

theorem next_lt {md off : Nat} (h : off < md) : next md off < md := by
  unfold next
  by_cases h1 : off + 1 = md
  · simp [h1]; omega
  · simp [h1]; omega

/-- **A dynamic id is fresh and in range**: whatever `assign_module_id` returns is `DYN_MOD_ID_START + i` for some
`i < MAX_MODULES - DYN_MOD_ID_START`, is held by no module in the table, and the cursor stays inside the range. -/
theorem assign_fresh (ds : Int) (md : Nat) (used : List Int) :
    ∀ (n off : Nat) (id : Int) (off' : Nat), off < md → assignLoop ds md used n off = some (id, off') →
      id ∉ used ∧ (∃ i, i < md ∧ id = ds + (i : Int)) ∧ off' < md
  | 0, off, id, off', _, h => by simp [assignLoop] at h
  | n + 1, off, id, off', hlt, h => by
    unfold assignLoop at h
    dsimp only at h
    split at h
    · exact assign_fresh ds md used n _ id off' (next_lt hlt) h
    · rename_i hu
      simp only [Option.some.injEq, Prod.mk.injEq] at h
      obtain ⟨rfl, rfl⟩ := h
      refine ⟨by simpa using hu, ⟨off, hlt, rfl⟩, next_lt hlt⟩

/-- the loop fails only after probing `n` consecutive (cyclic) candidates that are all taken -/
theorem assign_none_probed (ds : Int) (md : Nat) (used : List Int) :
    ∀ (n off : Nat), off < md → assignLoop ds md used n off = none →
      ∀ j, j < n → (ds + (((off + j) % md : Nat) : Int)) ∈ used
  | 0, _, _, _ => fun j hj => by omega
  | n + 1, off, hlt, h => by
    unfold assignLoop at h
    dsimp only at h
    split at h
    · rename_i hu
      have ih := assign_none_probed ds md used n _ (next_lt hlt) h
      intro j hj
      cases j with
      | zero => simp [Nat.mod_eq_of_lt hlt]; simpa using hu
      | succ j =>
        have := ih j (by omega)
        have e : (next md off + j) % md = (off + (j + 1)) % md := by
          unfold next; split
          · rename_i h1; have : off + 1 = md := by simpa using h1
            rw [Nat.zero_add, show off + (j + 1) = j + md by omega, Nat.add_mod_right]
          · congr 1; omega
        rw [e] at this; exact this
    · simp at h

/-- **A request for a dynamic id is refused only when the whole dynamic range is in use.** -/
theorem assign_none_iff_full (ds : Int) (md : Nat) (used : List Int) (off : Nat) (hlt : off < md)
    (h : assignLoop ds md used md off = none) : ∀ i, i < md → (ds + (i : Int)) ∈ used := by
  intro i hi
  have hp := assign_none_probed ds md used md off hlt h
  by_cases hio : off ≤ i
  · have := hp (i - off) (by omega)
    rw [show off + (i - off) = i by omega, Nat.mod_eq_of_lt hi] at this; exact this
  · have := hp (i + md - off) (by omega)
    rw [show off + (i + md - off) = i + md by omega, Nat.add_mod_right, Nat.mod_eq_of_lt hi] at this; exact this

/-- …and conversely: if some id of the range is free, the loop (with its full budget) finds one. -/
theorem assign_some_of_free (ds : Int) (md : Nat) (used : List Int) (off : Nat) (hlt : off < md)
    (i : Nat) (hi : i < md) (hfree : (ds + (i : Int)) ∉ used) : ∃ r, assignLoop ds md used md off = some r := by
  cases h : assignLoop ds md used md off with
  | some r => exact ⟨r, rfl⟩
  | none => exact absurd (assign_none_iff_full ds md used off hlt h i hi) hfree

/-! ## the identity invariant -/

/-! `IdInv`, `UidsDistinct`, `find_of_mem`, `mem_of_find` are defined in `Proofs/ManagerId.lean`. -/

/-- **The invariant survives everything the manager does on its own** (forwarding any frame with all nested failure
handling, logging, removing modules): such activity only drops modules or un-connects them, it never changes an id, a
uniqueness flag, or connects anything. -/
theorem idInv_of_pres {s s' : State} (hp : Pres s s') (hd : UidsDistinct s') (h : IdInv s) : IdInv s' := by
  intro a b ha hb hne hac hbc hid hnz
  obtain ⟨a0, ha0, hia, hca⟩ := hp.sub a.uid a (find_of_mem hd ha)
  obtain ⟨b0, hb0, hib, hcb⟩ := hp.sub b.uid b (find_of_mem hd hb)
  unfold Module.ident at hia hib
  simp only [Prod.mk.injEq] at hia hib
  have := h a0 b0 (mem_of_find ha0) (mem_of_find hb0) (by rw [← hia.1, ← hib.1]; exact hne) (hca hac) (hcb hbc)
    (by rw [← hia.2.1, ← hib.2.1]; exact hid) (by rw [← hia.2.1]; exact hnz)
  rw [hia.2.2.1, hib.2.2.1]; exact this

/-- forwarding (any frame, any fuel) preserves the identity invariant -/
theorem forward_idInv (cfg : Cfg) (fuel : Nat) (s : State) (g : Frame) (hg : ∀ k, g.body ≠ .data k)
    (hd : UidsDistinct (forward cfg fuel s g)) (h : IdInv s) : IdInv (forward cfg fuel s g) :=
  idInv_of_pres (forward_ok cfg (tag_data cfg 0) fuel s g (by simpa using hg 0)).1 hd h

/-- **Accepting a connect keeps ids unique.**  Marking `u` connected with id `r` and flag `uq` preserves `IdInv`
whenever no *other* module clashes with it in the sense of `connect_module`'s loop (`clash`), i.e. exactly under the
condition the code checks before it accepts. -/
theorem accept_preserves (s : State) (u : Nat) (me : Module) (hme : me.uid = u)
    (hno : ((s.mods.filter (·.uid != u)).any (clash me)) = false) (h : IdInv s) :
    IdInv (s.upd u (fun _ => { me with connected := true })) := by
  intro a b ha hb hne hac hbc hid hnz
  unfold State.upd at ha hb
  simp only [List.mem_map] at ha hb
  obtain ⟨a0, ha0, rfl⟩ := ha
  obtain ⟨b0, hb0, rfl⟩ := hb
  have hcl : ∀ o ∈ s.mods, o.uid ≠ u → clash me o = false := by
    intro o ho hou
    have := List.any_eq_false.mp hno o (List.mem_filter.mpr ⟨ho, by simpa using hou⟩)
    simpa using this
  by_cases hau : a0.uid = u <;> by_cases hbu : b0.uid = u
  · simp [hau, hbu, hme] at hne
  · simp only [hau, beq_self_eq_true, if_true] at hac hid hnz ⊢
    have hbu' : (b0.uid == u) = false := by simpa using hbu
    simp only [hbu', Bool.false_eq_true, if_false] at hbc hid ⊢
    have := clash_false_id (hcl b0 hb0 hbu) hid.symm
    exact ⟨this.2, this.1⟩
  · have hau' : (a0.uid == u) = false := by simpa using hau
    simp only [hau', Bool.false_eq_true, if_false] at hac hid hnz ⊢
    simp only [hbu, beq_self_eq_true, if_true] at hbc hid ⊢
    exact clash_false_id (hcl a0 ha0 hau) hid
  · have hau' : (a0.uid == u) = false := by simpa using hau
    have hbu' : (b0.uid == u) = false := by simpa using hbu
    simp only [hau', hbu', Bool.false_eq_true, if_false] at *
    exact h a0 b0 ha0 hb0 hne hac hbc hid hnz

/-! ## Globally: for every history -/

/-- **At every moment no two connected modules hold the same module id unless both declared that multiple instances are
allowed** — in the state reached by any sequence of rounds: any accepts, any CONNECT / CONNECT_V2 frames with any id,
flag and name bytes, any disconnects and failures, any log level (including the DEBUG line inside `connect_module`'s
loop, whose forwarding can drop modules while the loop runs over its snapshot), any number of dynamic connects. -/
theorem ids_unique_always (cfg : Cfg) (rs : List Round) : IdInv (run cfg rs) := (run_K cfg rs).ids

/-- the table never lists a connection twice, and every uid in it has been handed out by an accept -/
theorem uids_distinct_always (cfg : Cfg) (rs : List Round) :
    UidsDistinct (run cfg rs) ∧ ∀ m ∈ (run cfg rs).mods, m.uid ≤ (run cfg rs).nextUid :=
  ⟨(run_K cfg rs).distinct, (run_K cfg rs).bound⟩

/-- **A refused or failed request does not disturb the incumbent**: whatever a CONNECT frame from connection `u` leads to
(accepted, refused for any reason, or the requester dying in the middle), every *other* module that is still in the table
afterwards has the id and uniqueness flag it had, and none has become connected. -/
theorem connect_leaves_others (cfg : Cfg) (s : State) (u : Nat) (hd : Hdr) (v : Nat) (hv : v ≠ u) (m' : Module)
    (h : (connectModule cfg s u hd).1.find v = some m') :
    ∃ m, s.find v = some m ∧ m'.modId = m.modId ∧ m'.unique = m.unique ∧ (m'.connected = true → m.connected = true) := by
  -- every step of `connect_module` is an update of `u`'s own record or an `R` step
  have key : ∀ (s0 s1 : State), (∀ w, w ≠ u → s0.find w = s.find w) → R s0 s1 → ∀ m1, s1.find v = some m1 →
      ∃ m, s.find v = some m ∧ m1.modId = m.modId ∧ m1.unique = m.unique ∧ (m1.connected = true → m.connected = true) := by
    intro s0 s1 h0 r m1 h1
    obtain ⟨m, hm, a, b, c⟩ := r.shr v m1 h1
    exact ⟨m, by rw [← h0 v hv]; exact hm, a, b, c⟩
  have updOther : ∀ (s0 : State) (f : Module → Module), (∀ m, (f m).uid = m.uid) → ∀ w, w ≠ u →
      (s0.upd u f).find w = s0.find w := by
    intro s0 f hf w hw
    rw [find_upd s0 u w f hf]
    cases h0 : s0.find w with
    | none => rfl
    | some m0 =>
      have := find_uid h0
      simp only [Option.map_some, this]
      have : (w == u) = false := by simpa using hw
      simp [this]
  unfold connectModule at h
  dsimp only at h
  split at h
  · exact ⟨m', h, rfl, rfl, id⟩
  · split at h
    · exact key _ _ (updOther s _ (fun m => (setReq_fields cfg _ _ m).1)) ((logAt_R cfg 40 _).trans (removeModule_R cfg _ u)) m' h
    · rename_i nm _
      have h0 := updOther s (setAll cfg s.buf hd nm) (fun m => (setAll_fields cfg _ _ _ m).1)
      split at h
      · split at h
        · exact key _ _ h0 ((logAt_R cfg 40 _).trans (removeModule_R cfg _ u)) m' h
        · obtain ⟨rl, _⟩ := clashLoop_R cfg (setAll cfg s.buf hd nm (lookupMod s u))
            ((s.upd u (setAll cfg s.buf hd nm)).mods.filter (·.uid != u)) (s.upd u (setAll cfg s.buf hd nm))
          generalize clashLoop cfg (setAll cfg s.buf hd nm (lookupMod s u))
            ((s.upd u (setAll cfg s.buf hd nm)).mods.filter (·.uid != u)) (s.upd u (setAll cfg s.buf hd nm)) = r at rl h
          obtain ⟨s2, cl⟩ := r
          dsimp only at rl h
          split at h
          · exact key _ _ h0 ((rl.trans (logAt_R cfg 40 _)).trans (removeModule_R cfg _ u)) m' h
          · have h' : (s2.upd u (fun m => { m with connected := true })).find v = some m' := h
            rw [updOther s2 (fun m => { m with connected := true }) (fun _ => rfl) v hv] at h'
            exact key _ _ h0 rl m' h'
      · split at h
        · exact key _ _ h0 ((logAt_R cfg 40 _).trans (removeModule_R cfg _ u)) m' h
        · rename_i id off _
          have h' : (State.upd ({ (s.upd u (setAll cfg s.buf hd nm)) with nextDyn := off } : State) u
              (fun m => { m with modId := id, connected := true })).find v = some m' := h
          rw [updOther _ (fun m => { m with modId := id, connected := true }) (fun _ => rfl) v hv] at h'
          exact ⟨m', by rw [← h0 v hv]; exact h', rfl, rfl, fun x => x⟩

/-! ## The decision, stated outright -/

/-- the clash loop stops with "clash" exactly when some module of the snapshot clashes (whatever the DEBUG log lines
in between did to the table) -/
theorem clashLoop_decision (cfg : Cfg) (me : Module) : ∀ (os : List Module) (s : State),
    (clashLoop cfg me os s).2 = os.any (clash me)
  | [], _ => rfl
  | o :: rest, s => by
    unfold clashLoop
    cases hc : clash me o with
    | true => simp [hc]
    | false => simp only [Bool.false_eq_true, if_false, List.any_cons, hc, Bool.false_or]; exact clashLoop_decision cfg me rest _

/-- **When a connection request is accepted and when it is refused.**  For a requester that is not connected yet and whose
name decodes (`nm`), with `me` the record the request describes: it is accepted iff — for an explicit id — the id is in
`1 … DYN_MOD_ID_START` and no *other* module of the table clashes with it (same id while either side is unique, or same
non-empty name while either side is unique), and — for id 0 — the dynamic range still has a free id.  Everything else is
refused. -/
theorem connect_decision (cfg : Cfg) (s : State) (u : Nat) (hd : Hdr) (nm : List Nat)
    (hnc : (lookupMod s u).connected = false)
    (hname : (if hd.mtype == cfg.mtConnectV2 then cstr s.buf 12 32 else some (lookupMod s u).name) = some nm)
    (me : Module) (hme : me = setAll cfg s.buf hd nm (lookupMod s u)) :
    (connectModule cfg s u hd).2 =
      if me.modId != 0 then
        !(me.modId < 1 || me.modId > cfg.dynStart) && !((s.upd u (setAll cfg s.buf hd nm)).mods.filter (·.uid != u)).any (clash me)
      else (assignId cfg (s.upd u (setAll cfg s.buf hd nm))).isSome := by
  subst hme
  unfold connectModule
  simp only [hnc, Bool.false_eq_true, if_false, hname]
  by_cases h0 : ((setAll cfg s.buf hd nm (lookupMod s u)).modId != 0) = true
  · simp only [h0, if_true]
    by_cases hr : (decide ((setAll cfg s.buf hd nm (lookupMod s u)).modId < 1) ||
        decide ((setAll cfg s.buf hd nm (lookupMod s u)).modId > cfg.dynStart)) = true
    · simp only [hr, if_true, Bool.not_true, Bool.false_and]
    · have hr' : (decide ((setAll cfg s.buf hd nm (lookupMod s u)).modId < 1) ||
          decide ((setAll cfg s.buf hd nm (lookupMod s u)).modId > cfg.dynStart)) = false := by simpa using hr
      simp only [hr', Bool.false_eq_true, if_false, Bool.not_false, Bool.true_and]
      have hd' := clashLoop_decision cfg (setAll cfg s.buf hd nm (lookupMod s u))
        ((s.upd u (setAll cfg s.buf hd nm)).mods.filter (·.uid != u)) (s.upd u (setAll cfg s.buf hd nm))
      generalize clashLoop cfg (setAll cfg s.buf hd nm (lookupMod s u))
        ((s.upd u (setAll cfg s.buf hd nm)).mods.filter (·.uid != u)) (s.upd u (setAll cfg s.buf hd nm)) = r at hd'
      obtain ⟨s2, cl⟩ := r
      simp only at hd' ⊢
      rw [← hd']
      cases cl <;> simp
  · have h0' : ((setAll cfg s.buf hd nm (lookupMod s u)).modId != 0) = false := by simpa using h0
    simp only [h0', Bool.false_eq_true, if_false]
    cases assignId cfg (s.upd u (setAll cfg s.buf hd nm)) with
    | none => simp
    | some p => obtain ⟨id, off⟩ := p; simp

/-! ### The Spec's C06 clauses on every run of the model -/

/-- **The Spec's connect-decision and CLIENT_INFO clauses hold on every run of the model.**  For every configuration
meeting the side conditions (`CfgOK`, automatic fuel, CLIENT_CLOSED is not the ALL_MESSAGE_TYPES sentinel;
`OrdPerm`: the iteration order of a Python `set` visits every
element once — insertion order and its reverse, which the driver uses, are instances) and every history whose frames
are read from connections (never from the manager's own table entry, uid 0 — true of every generated history), the
verdict `Spec.runSpec` computes from the history and the model's own events has no C06 entry. -/
theorem spec_connect_clause_passes_on_model (cfg : Cfg) (ok : CfgOK cfg) (hfuel : cfg.fuel = 0) (hperm : OrdPerm cfg)
    (hmt : cfg.mtClosed ≠ cfg.allTypes) (rs : List Round) (hwf : RoundsWF rs) :
    (Spec.runSpec cfg rs (Pyrtma.Drv.Manager.modelRun cfg rs).1 none).errs.filter (·.1 == "C06") = [] :=
  spec_passes_on_model ok hfuel hperm hmt rs hwf "C06" (by simp [provenCore]) (fun h => absurd h (by decide))

/-! ### Non-vacuity -/
/-- two clients ask for id 10: the second is refused and closed, the first keeps it -/
def exRounds : List Round :=
  [{ accept := true }, { accept := true },
   { reads := [{ uid := 1, h := { mtype := 13, src := 10, nbytes := 4 }, avail := 4, pay := [0, 0, 0, 0] }], writable := [1, 2] },
   { reads := [{ uid := 2, h := { mtype := 13, src := 10, nbytes := 4 }, avail := 4, pay := [0, 0, 0, 0] }], writable := [1, 2] }]
example : ((run {} exRounds).mods.map (fun m => (m.uid, m.modId, m.connected))) = [(0, 0, true), (1, 10, true)] := by decide

example : assignLoop 100 100 [0, 100, 101, 0] 100 0 = some (102, 3) := by decide
example : assignLoop 100 3 [100, 101, 102] 3 1 = none := by decide
example : assignLoop 100 3 [100, 102] 3 2 = some (101, 2) := by decide     -- wraps: probes 102, 100, 101

/-- a history: three connections; the first takes id 10, the second asks for the same id and is refused (no
    ACKNOWLEDGE, connection closed), the third asks for a dynamic id and gets 100 -/
def exHist : List Round :=
  [{ accept := true }, { accept := true }, { accept := true },
   { reads := [{ uid := 1, h := { k := 1, mtype := 13, src := 10 } }], writable := [1, 2, 3] },
   { reads := [{ uid := 2, h := { k := 2, mtype := 13, src := 10 } }], writable := [1, 2, 3] },
   { reads := [{ uid := 3, h := { k := 3, mtype := 13, src := 0 } }], writable := [1, 2, 3] }]

example : RoundsWF exHist := by
  intro r hr rd hrd
  simp only [exHist, List.mem_cons, List.not_mem_nil, or_false] at hr
  rcases hr with rfl | rfl | rfl | rfl | rfl | rfl <;> simp at hrd <;> subst hrd <;> decide

example : ((run {} exHist).mods.map (fun m => (m.uid, m.modId, m.connected))) =
    [(0, 0, true), (1, 10, true), (3, 100, true)] := by decide +kernel

example : (Spec.runSpec {} exHist (Pyrtma.Drv.Manager.modelRun {} exHist).1 none).errs = [] := by decide +kernel

end Pyrtma.C06
