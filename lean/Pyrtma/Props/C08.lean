import Pyrtma.Proofs.ClientRead
import Pyrtma.Proofs.ClientReadLife
/-!
# C08 — the client read path is faithful, filtered and self-resynchronising

**First layer** — theorems about `Model/ClientRead.lean` (the byte-level model of `Client.read_message` /
`_read_message` with the C08 fixes applied), for **every** header size ≥ 48, every local definition table, every
queue of whole frames `fs` (any mix of good / unknown-type / wrong-size / wrong-version / zero-length / unsubscribed
frames, any length), every incomplete remainder `tail` (the peer closing at any byte offset), every ending (idle /
FIN / RST), every subscription state and every argument combination (`timeout` class, `ack`, `sync_check`):
`read_meets_spec`, `read_consumes_one_frame`, `read_decided`, `read_faithful`, `read_filtered`, `kind_cases`,
`next_call_returns_following_frame`, `eof_is_connection_lost`, `dead_socket_is_lost`, `disconnected_refuses`,
`advance_tracks_model`, `history_meets_spec` (histories with subscription changes *and changes of the local definition
table* between reads: every read is judged against the table of its time; `read_after_defs_change`, `wf_ignores_defs`),
`fuel_irrelevant` — one session, subscription state injected.

**Second layer, several sessions of one client object** — theorems about `Model/ClientReadLife.lean`: the
constructor, `connect()` *with the wait for the ACK on the new connection's byte stream* (`waitAck`: the nested loop
of `_wait_for_acknowledgement` over `read_message(ack=True)`, run with whatever subscription state the object has
at that moment), `disconnect()`, sends on a dead connection, subscription changes, reads — any history:
* `never_connected_refuses`, `lost_then_refuses` — `NotConnectedError` before any connect and after a lost connection;
* `connect_resets_iff_joined` — what `connect()` resets and what it keeps, exactly (joined ⇒ connected, empty sets;
  lost / timeout / decode error ⇒ disconnected, socket closed, sets as they were — fix 5d9f32d, finding C02-F4);
* `handshake_ignores_stale_subscriptions` (from `waitAck_eq_ref`) — on every well-formed stream the wait for the ACK
  is the frame-level reference of ONE `read_message(timeout>0, ack=True)` of a client subscribed to nothing: stale
  sets cannot influence the handshake;
* `fresh_session_filters_by_empty_state`, `stale_type_frame_is_consumed_and_skipped` — a fresh session filters by
  the *new* (empty) state; a queued frame of a type the old session had subscribed to is consumed and skipped (the
  class of the seeded regression C08d);
* `life_history_meets_spec`, `life_from_constructor_meets_spec` — the Spec over sessions (`Spec/ClientReadLife.lean`)
  holds of the model for every history in which every new connection carries a well-formed stream.
Not in the model: the bytes the client *writes* (CONNECT_V2 / CONNECT / DISCONNECT: C06 entry model, M2 life
cycle), a `connect()` that fails before the handshake (`MessageManagerNotFound`, `SocketOptionError`), and the
clock (`AcknowledgementTimeout` = the new connection has nothing readable and no ACK has arrived).
-/
namespace Pyrtma.C08
open Pyrtma.ClientRead

/-- the model's observation of one call from pre-state `p` -/
def obsOf (cfg : Cfg) (p : Pre) (a : Args) : Obs := (readMessage cfg a.tmo a.ack a.sync p.st).1

theorem pre_total (p : Pre) : p.st.sock.data.length = p.total := by
  simp [Pre.st, Pre.sock, Pre.total, streamOf_length]

/-- On a connected client the socket-level loop is the frame-level reference, and one of the `Outcome` cases
holds. -/
theorem read_outcome (cfg : Cfg) (p : Pre) (a : Args) (hw : p.wf cfg = true) (hc : p.connected = true) :
    ∃ r : Res × Sock, Outcome cfg p.sub a p.tail p.e p.fs r ∧
      readMessage cfg a.tmo a.ack a.sync p.st =
        (⟨r.1, p.total - r.2.data.length, r.1 != .lost⟩, { p.st with sock := r.2, connected := r.1 != .lost }) := by
  have hw' := hw
  simp only [Pre.wf, Bool.and_eq_true, decide_eq_true_eq, Bool.not_eq_true'] at hw'
  obtain ⟨⟨⟨hs, hwf⟩, hi⟩, hb⟩ := hw'
  refine ⟨ref cfg p.sub a p.tail p.e p.fs, ref_outcome cfg p.sub a p.tail p.e hi hb p.fs, ?_⟩
  have hfuel := readLoop_fuel cfg p.sub a p.tail p.e hs hi hb p.fs hwf
  unfold readMessage
  simp only [Pre.st, hc, Bool.not_true, Bool.false_eq_true, if_false, Pre.sock, hfuel]
  simp [Pre.total, streamOf_length]

/-- **Main theorem: the model meets every clause of the Spec**, for every input (see the header of this file).
`specOk` is the conjunction of the nine named clauses of `Spec/ClientRead.lean`; the theorems below restate the
clauses one by one. -/
theorem read_meets_spec (cfg : Cfg) (p : Pre) (a : Args) (hw : p.wf cfg = true) :
    specOk cfg p a (obsOf cfg p a) = true := by
  by_cases hc : p.connected = true
  · obtain ⟨r, ho, heq⟩ := read_outcome cfg p a hw hc
    simp only [obsOf, heq]
    generalize hfs : p.fs = fs at ho
    cases ho with
    | decided init f rest h1 h2 _ => exact spec_decided cfg p a hw hc init f rest hfs h1 h2
    | zeroSkip f rest _ h2 =>
      have hn : (Res.none != Res.lost) = true := by decide
      rw [hn]
      exact spec_zeroSkip cfg p a hw hc f rest hfs h2
    | atTail _ _ h1 hz ht => exact spec_atTail cfg p a hw hc _ (hfs ▸ h1) (hfs ▸ hz) ht
  · have hc' : p.connected = false := by simpa using hc
    simp [obsOf, readMessage, Pre.st, hc', specOk, clauses, Res.isNormal, Res.isDecided]


/-! ### The clauses, one by one, in directly readable form -/

/-- **Resynchronisation (single frame).**  `_read_message` on a stream that starts with a whole frame consumes
exactly that frame and leaves exactly the rest — whether it returns the message, raises `UnknownMessageType`,
or raises `InvalidMessageDefinition` (by size or by version): the drain reads `num_data_bytes`, no more, no less. -/
theorem read_consumes_one_frame (cfg : Cfg) (tmo : Tmo) (sync : Bool) (f : Frame) (rest : Bytes) (e : End)
    (hs : 48 ≤ cfg.hsize) (hw : f.wf cfg = true) :
    readRaw cfg tmo sync ⟨f.bytes ++ rest, e⟩ = (resOfFrame cfg sync f, ⟨rest, e⟩) := by
  have := readRaw_frame cfg tmo sync f rest e hs hw
  simpa [Frame.bytes] using this

/-- **The first frame that is not silently discardable decides the call.**  If the queue is `init ++ f :: rest`
where every frame of `init` is decodable and of an unwanted type, and `f` is not, then `read_message` returns /
raises exactly what `f`'s kind dictates (`resOfFrame`: the message with `f`'s header and payload, or the
documented error), has consumed exactly `init` and `f`, stays connected, and the next call starts at `rest`.
(`timeout == 0` looks at one frame only, hence `init = []` there.) -/
theorem read_decided (cfg : Cfg) (p : Pre) (a : Args) (hw : p.wf cfg = true) (hc : p.connected = true)
    (init : List Frame) (f : Frame) (rest : List Frame) (hfs : p.fs = init ++ f :: rest)
    (h1 : init.all (skipF cfg p.sub a) = true) (h2 : skipF cfg p.sub a f = false)
    (hz : a.tmo = .zero → init = []) :
    readMessage cfg a.tmo a.ack a.sync p.st =
      (⟨resOfFrame cfg a.sync f, framesLen init + f.len, true⟩, ({ p with fs := rest } : Pre).st) := by
  have hw' := hw
  simp only [Pre.wf, Bool.and_eq_true, decide_eq_true_eq, Bool.not_eq_true'] at hw'
  obtain ⟨⟨⟨hs, hwf⟩, hi⟩, hb⟩ := hw'
  have hfuel := readLoop_fuel cfg p.sub a p.tail p.e hs hi hb p.fs hwf
  have hl : (resOfFrame cfg a.sync f != Res.lost) = true := by
    have := (resOfFrame_facts cfg a.sync f).2.2.2.1; simpa using this
  unfold readMessage
  simp only [Pre.st, hc, Bool.not_true, Bool.false_eq_true, if_false, Pre.sock, hfuel]
  rw [hfs, ref_decided cfg p.sub a p.tail p.e init f rest h1 h2 hz]
  simp only [hl, streamOf_length, framesLen_append, framesLen]
  congr 2
  omega

/-- **Faithful.**  A returned message is a frame of the queue, header and payload byte for byte, preceded only
by discarded (decodable, unwanted) frames; the call consumed exactly up to its end. -/
theorem read_faithful (cfg : Cfg) (p : Pre) (a : Args) (hw : p.wf cfg = true) (h pl : Bytes)
    (hr : (obsOf cfg p a).res = .msg h pl) :
    ∃ init f rest, p.fs = init ++ f :: rest ∧ h = f.hdr ∧ pl = f.payload ∧
      init.all (skipF cfg p.sub a) = true ∧ (obsOf cfg p a).consumed = framesLen init + f.len := by
  by_cases hc : p.connected = true
  · obtain ⟨r, ho, heq⟩ := read_outcome cfg p a hw hc
    simp only [obsOf, heq] at hr ⊢
    generalize hfs : p.fs = fs at ho
    cases ho with
    | decided init f rest h1 h2 hz =>
      obtain ⟨_, rfl, rfl⟩ := resOfFrame_msg hr
      refine ⟨init, f, rest, rfl, rfl, rfl, h1, ?_⟩
      simp only [Pre.total, hfs, streamOf_length, framesLen_append, framesLen]; omega
    | zeroSkip f rest _ h2 => simp at hr
    | atTail _ _ h1 hz ht => exact absurd hr (tail_not_msg ht _ _)
  · have hc' : p.connected = false := by simpa using hc
    simp [obsOf, readMessage, Pre.st, hc'] at hr

/-- **Filtered.**  `read_message` never returns a message of a type the client is not currently subscribed to,
unless it is subscribed to all types (or the type is ACK and the caller asked for ACKs) — whatever is queued. -/
theorem read_filtered (cfg : Cfg) (p : Pre) (a : Args) (hw : p.wf cfg = true) (h pl : Bytes)
    (hr : (obsOf cfg p a).res = .msg h pl) :
    p.sub.subAll = true ∨ hType h ∈ p.sub.subs ∨ (a.ack = true ∧ hType h = cfg.ack) := by
  have := read_meets_spec cfg p a hw
  simp only [specOk, clauses, List.all_cons, Bool.and_eq_true] at this
  have h4 := this.2.2.2.1
  simp only [hr, wanted, Bool.or_eq_true, Bool.and_eq_true, beq_iff_eq, List.contains_iff_mem] at h4
  rcases h4 with (h4 | h4) | h4
  · exact .inl h4
  · exact .inr (.inl h4)
  · exact .inr (.inr h4)

/-- **Errors as documented**: which header is undecodable, and how. -/
theorem kind_cases (cfg : Cfg) (sync : Bool) (h : Bytes) :
    (kind cfg sync h = .unknown ↔ cfg.lookup (hType h) = none) ∧
    (kind cfg sync h = .wrongSize ↔ ∃ d, cfg.lookup (hType h) = some d ∧ (d.size : Int) ≠ hLen h) ∧
    (kind cfg sync h = .wrongVersion ↔ ∃ d, cfg.lookup (hType h) = some d ∧ (d.size : Int) = hLen h ∧
        sync = true ∧ hVer h ≠ 0 ∧ hVer h ≠ d.hash) := by
  unfold kind
  cases hl : cfg.lookup (hType h) with
  | none => simp
  | some d =>
    by_cases h1 : (d.size : Int) = hLen h
    · by_cases h2 : (sync && hVer h != 0 && hVer h != d.hash) = true
      · have h2' := h2
        simp only [Bool.and_eq_true, bne_iff_ne, ne_eq] at h2'
        simp [h1, h2'.1.1, h2'.1.2, h2'.2]
      · have h2' := h2
        simp only [Bool.and_eq_true, bne_iff_ne, ne_eq, not_and] at h2'
        simp [h1, h2]
        intro hs hv
        simpa using h2' ⟨hs, hv⟩
    · simp [h1]

/-- **Resynchronisation (two calls).**  After an undecodable frame `bad` has raised its error, the next call
returns the following frame `good` intact (given `good` is decodable and wanted). -/
theorem next_call_returns_following_frame (cfg : Cfg) (p : Pre) (a a' : Args) (hw : p.wf cfg = true)
    (hc : p.connected = true) (bad good : Frame) (rest : List Frame) (hfs : p.fs = bad :: good :: rest)
    (hbad : kind cfg a.sync bad.hdr ≠ .good) (hgood : kind cfg a'.sync good.hdr = .good)
    (hwant : wanted cfg p.sub a'.ack (hType good.hdr) = true) :
    let r1 := readMessage cfg a.tmo a.ack a.sync p.st
    let r2 := readMessage cfg a'.tmo a'.ack a'.sync r1.2
    r1.1 = ⟨resOfFrame cfg a.sync bad, bad.len, true⟩ ∧ (∀ h pl, r1.1.res ≠ .msg h pl) ∧
    r2.1 = ⟨.msg good.hdr good.payload, good.len, true⟩ := by
  have hsb : skipF cfg p.sub a bad = false := by simp [skipF, hbad]
  have hsg : skipF cfg p.sub a' good = false := by simp [skipF, hgood, hwant]
  have h1 := read_decided cfg p a hw hc [] bad (good :: rest) (by simpa using hfs) (by simp) hsb (fun _ => rfl)
  have hw2 : ({ p with fs := good :: rest } : Pre).wf cfg = true := by
    simp only [Pre.wf, hfs, List.all_cons, Bool.and_eq_true] at hw ⊢
    exact ⟨⟨⟨hw.1.1.1, hw.1.1.2.2⟩, hw.1.2⟩, hw.2⟩
  have h2 := read_decided cfg { p with fs := good :: rest } a' hw2 hc [] good rest rfl (by simp) hsg
    (fun _ => rfl)
  simp only [h1, h2, framesLen, Nat.zero_add]
  refine ⟨trivial, ?_, ?_⟩
  · intro h pl hr
    exact hbad (resOfFrame_msg hr).1
  · simp [resOfFrame, hgood]

/-- **Loss of the connection.**  When everything queued is discardable and the peer has closed (FIN) or reset
(RST) — at a frame boundary or at *any* byte offset inside a frame (`tail`) — the call raises `ConnectionLost`,
has taken every byte, and leaves the client disconnected.  The single exception (DESIGN C08-F2, kept from the
code): FIN inside the payload being *drained* for an undecodable header raises that header's decode error; the
socket is then at EOF and the next call reports the loss (`dead_socket_is_lost`). -/
theorem eof_is_connection_lost (cfg : Cfg) (p : Pre) (a : Args) (hw : p.wf cfg = true) (hc : p.connected = true)
    (he : p.e ≠ .idle) (hsk : p.fs.all (skipF cfg p.sub a) = true) (hz : a.tmo = .zero → p.fs = []) :
    let r := readMessage cfg a.tmo a.ack a.sync p.st
    (r.1 = ⟨.lost, p.total, false⟩ ∧ r.2.connected = false) ∨
    (p.e = .fin ∧ tailHasHeader cfg p.tail = true ∧ kind cfg a.sync (p.tail.take cfg.hsize) ≠ .good ∧
      r.1.res.isDecided = true ∧ (∀ h pl, r.1.res ≠ .msg h pl) ∧ r.1.consumed = p.total ∧
      r.2 = ⟨Sock.dead, true, p.sub⟩) := by
  have hw' := hw
  simp only [Pre.wf, Bool.and_eq_true, decide_eq_true_eq, Bool.not_eq_true'] at hw'
  obtain ⟨⟨⟨hs, hwf⟩, hi⟩, hb⟩ := hw'
  have hfuel := readLoop_fuel cfg p.sub a p.tail p.e hs hi hb p.fs hwf
  have href : ref cfg p.sub a p.tail p.e p.fs = readRaw cfg a.tmo a.sync ⟨p.tail, p.e⟩ := by
    by_cases h : a.tmo = .zero
    · rw [hz h]; rfl
    · have := ref_skip_prefix cfg p.sub a p.tail p.e h p.fs [] hsk
      simpa [ref] using this
  have ht := readRaw_tail cfg a p.tail p.e hi hb
  intro r
  have hr : r = readMessage cfg a.tmo a.ack a.sync p.st := rfl
  unfold readMessage at hr
  simp only [Pre.st, hc, Bool.not_true, Bool.false_eq_true, if_false, Pre.sock, hfuel, href] at hr
  generalize readRaw cfg a.tmo a.sync ⟨p.tail, p.e⟩ = q at ht hr
  cases ht with
  | none _ h _ => exact absurd h he
  | blocked _ h _ => exact absurd h he
  | lost _ =>
    left
    simp [hr, Sock.dead, streamOf_length, Pre.total]
  | drainErr res hfin hh hd hnm hm =>
    right
    have hnl : (res != Res.lost) = true := by
      cases res <;> simp_all [Res.isDecided]
    refine ⟨hfin, hh, ?_, ?_, ?_, ?_, ?_⟩
    · intro hk; rw [hk] at hm; cases res <;> simp_all [resMatchesKind]
    · simp [hr, hd]
    · simpa [hr] using hnm
    · simp [hr, Sock.dead, streamOf_length, Pre.total]
    · simp [hr, hnl]

/-- A client whose socket is at EOF reports the loss at the very next read and ends disconnected. -/
theorem dead_socket_is_lost (cfg : Cfg) (tmo : Tmo) (ack sync : Bool) (sub : Sub) (hs : 0 < cfg.hsize) :
    readMessage cfg tmo ack sync ⟨Sock.dead, true, sub⟩ = (⟨.lost, 0, false⟩, ⟨Sock.dead, false, sub⟩) := by
  have hr : readRaw cfg tmo sync Sock.dead = (.lost, Sock.dead) := by
    have hn : ¬ cfg.hsize ≤ 0 := by omega
    cases tmo <;> simp [readRaw, readable, Sock.dead, recv, hn]
  simp [readMessage, Sock.dead, readLoop] at hr ⊢
  simp [hr]

/-- Once disconnected the client refuses to read (`NotConnectedError`) and touches nothing. -/
theorem disconnected_refuses (cfg : Cfg) (tmo : Tmo) (ack sync : Bool) (st : St) (h : st.connected = false) :
    readMessage cfg tmo ack sync st = (⟨.notConnected, 0, false⟩, st) := by
  simp [readMessage, h]


/-! ### Histories -/

/-- The Spec's bookkeeping of "what is still on the wire" (`Pre.advance`, computed from the *observation* only)
agrees with the model's socket: the pre-state of the next call is again a well-formed input and describes
exactly the model's state. -/
theorem advance_tracks_model (cfg : Cfg) (p : Pre) (a : Args) (hw : p.wf cfg = true)
    (hnb : (obsOf cfg p a).res ≠ .blocked) :
    ∃ p', p.advance (obsOf cfg p a) = some p' ∧ p'.wf cfg = true ∧
      p'.st = (readMessage cfg a.tmo a.ack a.sync p.st).2 ∧ p'.sub = p.sub := by
  obtain ⟨hs, hwf, hi, hb⟩ := wf_parts hw
  by_cases hc : p.connected = true
  · obtain ⟨r, ho, heq⟩ := read_outcome cfg p a hw hc
    simp only [obsOf, heq] at hnb ⊢
    generalize hfs : p.fs = fs at ho
    have hsub : ∀ (p' : Pre) (s : Sock) (c : Bool), p'.st = ⟨s, c, p.sub⟩ → p'.sub = p.sub := by
      intro p' s c h; simpa [Pre.st] using congrArg St.sub h
    cases ho with
    | decided init f rest h1 h2 _ =>
      have hl := (resOfFrame_facts cfg a.sync f).2.2.2.1
      obtain ⟨p', h1, h2, h3⟩ := advance_frames cfg p hw (init ++ [f]) rest (by simp [hfs]) _
        (resOfFrame cfg a.sync f != .lost) hl
      exact ⟨p', h1, h2, by simpa [Pre.st] using h3, hsub _ _ _ h3⟩
    | zeroSkip f rest _ _ =>
      obtain ⟨p', h1, h2, h3⟩ := advance_frames cfg p hw [f] rest (by simp [hfs]) .none
        (Res.none != .lost) (by simp)
      exact ⟨p', h1, h2, by simpa [Pre.st] using h3, hsub _ _ _ h3⟩
    | atTail _ _ _ _ ht =>
      cases ht with
      | none htl _ _ =>
        obtain ⟨p', h1, h2, h3⟩ := advance_frames cfg p hw p.fs [] (by simp) .none (Res.none != .lost) (by simp)
        have hst : streamOf [] p.tail = p.tail := by simp [streamOf, framesBytes]
        rw [hst] at h1 h3
        exact ⟨p', h1, h2, by simpa [Pre.st] using h3, hsub _ _ _ h3⟩
      | blocked _ _ _ => simp at hnb
      | lost _ =>
        obtain ⟨p', h1, h2, h3⟩ := advance_dead cfg p hw .lost (Res.lost != .lost) (.inl rfl)
        refine ⟨p', by simpa [Sock.dead] using h1, h2, by simpa [Pre.st] using h3, hsub _ _ _ h3⟩
      | drainErr res _ hh _ _ _ =>
        have hle : cfg.hsize ≤ p.tail.length := by simpa [tailHasHeader] using hh
        obtain ⟨p', h1, h2, h3⟩ := advance_dead cfg p hw res (res != .lost) (.inr (by omega))
        refine ⟨p', by simpa [Sock.dead] using h1, h2, by simpa [Pre.st] using h3, hsub _ _ _ h3⟩
  · have hc' : p.connected = false := by simpa using hc
    have hpos := allPos_of_wf hs hwf
    simp only [obsOf, readMessage, Pre.st, hc', Bool.not_false, if_true]
    obtain ⟨p', h1, h2, h3⟩ := advance_frames cfg p hw [] p.fs (by simp) .notConnected false (by simp)
    have h0 : p.total - (streamOf p.fs p.tail).length = 0 := by simp [Pre.total, streamOf_length]
    rw [h0] at h1
    exact ⟨p', h1, h2, by simpa [Pre.st, Pre.sock] using h3, by simpa [Pre.st] using congrArg St.sub h3⟩

/-- being a well-formed input does not depend on the local definitions (only on the header size) -/
theorem wf_ignores_defs (cfg : Cfg) (defs : List Def) (p : Pre) : p.wf { cfg with defs := defs } = p.wf cfg := by
  have hf : Frame.wf { cfg with defs := defs } = Frame.wf cfg := by funext f; simp [Frame.wf]
  simp [Pre.wf, hf, tailIncomplete, tailHasHeader, tailBadLen]

/-- **the table at the time of the read**: a read after a change of the local definition table is the read of a
client whose table was the new one all along - nothing of the earlier table is remembered -/
theorem read_after_defs_change (cfg : Cfg) (defs : List Def) (cs : List Call) (st : St) :
    runCalls cfg (.setDefs defs :: cs) st = runCalls { cfg with defs := defs } cs st := rfl

/-- **Every history.**  For every queue, every ending and every sequence of reads with arbitrary subscription
changes and arbitrary changes of the local definition table in between, each read of the history meets the Spec — stated
against the table as it is at the time of that read — in the pre-state the earlier calls left behind
(the resynchronisation and filtering clauses therefore hold "even when such messages were already queued" and
"the next call returns the following frame intact", at any depth). -/
theorem history_meets_spec : ∀ (cfg : Cfg) (calls : List Call) (p : Pre), p.wf cfg = true →
    histOk cfg p calls (runCalls cfg calls p.st) = true
  | _, [], _, _ => by simp [histOk]
  | cfg, .setSub sub :: cs, p, hw => by
    have hw' : ({ p with sub := sub } : Pre).wf cfg = true := by simpa [Pre.wf] using hw
    have := history_meets_spec cfg cs { p with sub := sub } hw'
    simpa [histOk, runCalls, Pre.st, Pre.sock] using this
  | cfg, .setDefs defs :: cs, p, hw => by
    have hw' : p.wf { cfg with defs := defs } = true := by rw [wf_ignores_defs]; exact hw
    simpa [histOk, runCalls] using history_meets_spec { cfg with defs := defs } cs p hw'
  | cfg, .read tmo ack sync :: cs, p, hw => by
    have hspec := read_meets_spec cfg p ⟨tmo, ack, sync⟩ hw
    simp only [runCalls, histOk, Bool.and_eq_true, Bool.or_eq_true, beq_iff_eq]
    refine ⟨hspec, ?_⟩
    by_cases hb : (obsOf cfg p ⟨tmo, ack, sync⟩).res = .blocked
    · exact .inl hb
    · right
      obtain ⟨p', h1, h2, h3, _⟩ := advance_tracks_model cfg p ⟨tmo, ack, sync⟩ hw hb
      simp only [obsOf] at h1
      rw [h1]
      simp only
      rw [← h3]
      exact history_meets_spec cfg cs p' h2


/-! ## Several sessions of one client object (`Model/ClientReadLife.lean`)

`connect()` (with the wait for the ACK on the new connection's byte stream, read with whatever subscription state
the object has at that moment), `disconnect()`, sends that hit a dead connection, subscription changes, and reads —
in any order, from the constructor on. -/

/-- **Before any `connect()` every read is refused** (`NotConnectedError`), nothing is touched. -/
theorem never_connected_refuses (cfg : Cfg) (tmo : Tmo) (ack sync : Bool) :
    readMessage cfg tmo ack sync St.fresh = (⟨.notConnected, 0, false⟩, St.fresh) :=
  disconnected_refuses cfg tmo ack sync St.fresh rfl

/-- **After a lost connection every read is refused until the next `connect()`**: a read that raised
`ConnectionLost`, a send that hit a dead connection, a `connect()` that did not return (peer gone, no ACK in time,
an undecodable frame in front of the ACK), and `disconnect()` all leave `connected = False`. -/
theorem lost_then_refuses (cfg : Cfg) (tmo : Tmo) (ack sync : Bool) (st : St) (new : Sock) :
    (st.connected = true → (sendFailCall st).1 = ⟨.lost, 0, false⟩ ∧ (sendFailCall st).2.connected = false) ∧
    ((connectCall cfg st new).1.res ≠ .joined → (connectCall cfg st new).2.connected = false) ∧
    (disconnectCall st).connected = false ∧
    (∀ st' : St, st'.connected = false →
      readMessage cfg tmo ack sync st' = (⟨.notConnected, 0, false⟩, st')) := by
  refine ⟨fun h => by simp [sendFailCall, h], ?_, rfl, fun st' h => disconnected_refuses cfg tmo ack sync st' h⟩
  unfold connectCall
  generalize waitAck cfg (subAtHandshake st) (new.data.length + 1) new = r
  obtain ⟨res, s'⟩ := r
  cases res <;> simp [connectOut, CRes.ofRes]

/-- **What `connect()` resets and what it keeps**, exactly: an accepted one (it returned) leaves the client
connected and subscribed to nothing; any other way out (`ConnectionLost`, `AcknowledgementTimeout`, a decode error
escaping from the wait) leaves it disconnected from a closed socket (fix 5d9f32d, finding C02-F4) with the
subscription state it had (empty if `connect()` had to disconnect first) — which the next accepted connect resets. -/
theorem connect_resets_iff_joined (cfg : Cfg) (st : St) (new : Sock) :
    ((connectCall cfg st new).1.res = .joined →
      (connectCall cfg st new).2.connected = true ∧ (connectCall cfg st new).2.sub = ⟨false, []⟩) ∧
    ((connectCall cfg st new).1.res ≠ .joined →
      (connectCall cfg st new).2.connected = false ∧ (connectCall cfg st new).1.connected = false ∧
      (connectCall cfg st new).2.sub = if st.connected then ⟨false, []⟩ else st.sub) := by
  unfold connectCall
  generalize waitAck cfg (subAtHandshake st) (new.data.length + 1) new = r
  obtain ⟨res, s'⟩ := r
  cases res <;> simp [connectOut, CRes.ofRes, subAtHandshake]

/-- **The handshake does not depend on what the client believes to be subscribed to**: on a well-formed stream
`_wait_for_acknowledgement` ends the same way and at the same byte whether the sets are stale, reset, or
subscribed-to-all (stale sets can therefore not make `connect()` take a queued message for the ACK or skip it). -/
theorem handshake_ignores_stale_subscriptions (cfg : Cfg) (sub sub' : Sub) (w : Wire) (hw : w.pre.wf cfg = true) :
    waitAck cfg sub (w.sock.data.length + 1) w.sock = waitAck cfg sub' (w.sock.data.length + 1) w.sock :=
  waitAck_sub_irrelevant cfg sub sub' w hw

/-- **A fresh session filters by the new, empty subscription state**: after an accepted `connect()` — whatever the
object had subscribed to before, however the earlier session ended — `read_message` returns nothing but an ACK, and
that only on request, until the application subscribes again. -/
theorem fresh_session_filters_by_empty_state (cfg : Cfg) (st : St) (w : Wire)
    (hj : (connectCall cfg st w.sock).1.res = .joined) (p : Pre) (hp : p.wf cfg = true)
    (hst : p.st = (connectCall cfg st w.sock).2) (a : Args) (h pl : Bytes)
    (hr : (obsOf cfg p a).res = .msg h pl) : a.ack = true ∧ hType h = cfg.ack := by
  have hsub : p.sub = ⟨false, []⟩ := by
    have := ((connect_resets_iff_joined cfg st w.sock).1 hj).2
    rw [← hst] at this
    simpa [Pre.st] using this
  rcases read_filtered cfg p a hp h pl hr with h1 | h1 | h1
  · simp [hsub] at h1
  · simp [hsub] at h1
  · exact h1

/-- **A frame of a type the old session had subscribed to, queued on the new connection, is consumed and skipped**:
for a client subscribed to nothing, a decodable frame `f` (not an ACK the caller asked for) in front of the queue is
taken off the wire and the call goes on with the rest of the queue (`timeout == 0`: it returns `None` after `f`). -/
theorem stale_type_frame_is_consumed_and_skipped (cfg : Cfg) (p : Pre) (a : Args) (hw : p.wf cfg = true)
    (hc : p.connected = true) (hsub : p.sub = ⟨false, []⟩) (f : Frame) (rest : List Frame) (hfs : p.fs = f :: rest)
    (hgood : kind cfg a.sync f.hdr = .good) (hnack : ¬ (a.ack = true ∧ hType f.hdr = cfg.ack)) :
    (a.tmo = .zero → obsOf cfg p a = ⟨.none, f.len, true⟩) ∧
    (a.tmo ≠ .zero →
      (obsOf cfg p a).res = (obsOf cfg { p with fs := rest } a).res ∧
      (obsOf cfg p a).consumed = f.len + (obsOf cfg { p with fs := rest } a).consumed ∧
      (readMessage cfg a.tmo a.ack a.sync p.st).2 = (readMessage cfg a.tmo a.ack a.sync ({ p with fs := rest } : Pre).st).2) := by
  obtain ⟨hs, hwf, hi, hb⟩ := wf_parts hw
  have hwf' : f.wf cfg = true ∧ rest.all (Frame.wf cfg) = true := by simpa [hfs] using hwf
  have hskip : skipF cfg p.sub a f = true := by
    simp only [skipF, hgood, beq_self_eq_true, Bool.true_and, hsub, wanted, Bool.false_or, List.contains_nil,
      Bool.not_eq_true', Bool.and_eq_false_iff]
    by_cases hk : a.ack = true
    · right
      have : hType f.hdr ≠ cfg.ack := fun h => hnack ⟨hk, h⟩
      simpa using this
    · left; simpa using hk
  have hw' : ({ p with fs := rest } : Pre).wf cfg = true := by
    simp only [Pre.wf, Bool.and_eq_true, decide_eq_true_eq, Bool.not_eq_true']
    exact ⟨⟨⟨hs, hwf'.2⟩, hi⟩, hb⟩
  have e1 := readMessage_ref cfg p a hw hc
  have e2 := readMessage_ref cfg { p with fs := rest } a hw' hc
  have hflen : 0 < f.len := wf_len_pos hs hwf'.1
  have hF : framesLen p.fs = f.len + framesLen rest := by rw [hfs]; rfl
  constructor
  · intro hz
    have href : ref cfg p.sub a p.tail p.e p.fs = (.none, ⟨streamOf rest p.tail, p.e⟩) := by
      rw [hfs]
      conv => lhs; unfold ref
      simp [hskip, hz]
    simp only [obsOf, e1, href, Pre.total, streamOf_length, hF]
    have : (Res.none != Res.lost) = true := by decide
    simp only [this]
    congr 1
    omega
  · intro hz
    have href : ref cfg p.sub a p.tail p.e p.fs = ref cfg p.sub a p.tail p.e rest := by
      rw [hfs]; exact ref_skip_prefix cfg p.sub a p.tail p.e hz [f] rest (by simp [hskip])
    have hrem := ref_shrinks cfg p.sub a p.tail p.e hi hb rest
    simp only [obsOf, e1, e2, href, true_and, and_true]
    simp only [Pre.total, streamOf_length, hF] at hrem ⊢
    omega

/-- `advance` looks at the observation only through "was it ConnectionLost", the byte count and `connected` -/
theorem advance_congr (p : Pre) (o o' : Obs) (h1 : (o.res == .lost) = (o'.res == .lost))
    (h2 : o.consumed = o'.consumed) (h3 : o.connected = o'.connected) : p.advance o = p.advance o' := by
  unfold Pre.advance
  simp only [h1, h2, h3]

theorem closed_wf (cfg : Cfg) (p : Pre) (sub : Sub) (hw : p.wf cfg = true) : (p.closed sub).wf cfg = true := by
  obtain ⟨hs, _, _, _⟩ := wf_parts hw
  simp [Pre.closed, Pre.wf, hs, wf_empty_tail hs]

/-- **Every history over any number of sessions meets the Spec** (`Spec/ClientReadLife.lean`, the oracle the driver
evaluates on the implementation): every read is judged by the nine clauses of `Spec/ClientRead.lean` in the
pre-state the *observations* of the earlier calls determine — position in the current connection's stream,
`connected`, and the currently subscribed set, which an accepted `connect()` makes empty —, every `connect()` by
`connClauses`, every send on a dead connection by `sendFailOk`. -/
theorem life_history_meets_spec (cfg : Cfg) : ∀ (calls : List SCall) (p : Pre), p.wf cfg = true →
    callsWf cfg calls = true → lifeHistOk cfg p calls (runLife cfg (calls.map SCall.toL) p.st) = true
  | [], _, _, _ => by simp [lifeHistOk]
  | .read tmo ack sync :: cs, p, hw, hcw => by
    have hspec := read_meets_spec cfg p ⟨tmo, ack, sync⟩ hw
    simp only [List.map_cons, SCall.toL, runLife, lifeStep, lifeHistOk, Bool.and_eq_true, Bool.or_eq_true, beq_iff_eq]
    refine ⟨hspec, ?_⟩
    by_cases hb : (obsOf cfg p ⟨tmo, ack, sync⟩).res = .blocked
    · exact .inl hb
    · right
      obtain ⟨p', h1, h2, h3, _⟩ := advance_tracks_model cfg p ⟨tmo, ack, sync⟩ hw hb
      simp only [obsOf] at h1
      rw [h1]
      simp only
      rw [← h3]
      exact life_history_meets_spec cfg cs p' h2 (by simpa [callsWf] using hcw)
  | .setSub sub :: cs, p, hw, hcw => by
    simp only [List.map_cons, SCall.toL, runLife, lifeStep, lifeHistOk]
    have hst : (if p.st.connected = true then { p.st with sub := sub } else p.st) =
        (if p.connected = true then { p with sub := sub } else p : Pre).st := by
      by_cases hc : p.connected = true <;> simp [Pre.st, Pre.sock, hc]
    have hw' : (if p.connected = true then { p with sub := sub } else p : Pre).wf cfg = true := by
      by_cases hc : p.connected = true
      · simpa [hc, Pre.wf] using hw
      · simpa [hc] using hw
    rw [hst]
    exact life_history_meets_spec cfg cs _ hw' (by simpa [callsWf] using hcw)
  | .connect w :: cs, p, hw, hcw => by
    have hww : w.pre.wf cfg = true := by
      simp only [callsWf, Bool.and_eq_true] at hcw; exact hcw.1
    have hcs : callsWf cfg cs = true := by
      simp only [callsWf, Bool.and_eq_true] at hcw; exact hcw.2
    have hspec := read_meets_spec cfg w.pre hsArgs hww
    have hok := connOk_of_specOk cfg w _ hspec
    have heq := connectCall_eq cfg p.st w hww
    simp only [List.map_cons, SCall.toL, runLife, lifeStep, lifeHistOk, heq, Bool.and_eq_true]
    refine ⟨hok, ?_⟩
    -- the observation of the equivalent read
    have hobs : obsOf cfg w.pre hsArgs = (readMessage cfg .pos true false w.pre.st).1 := rfl
    generalize hO : (readMessage cfg .pos true false w.pre.st).1 = o at *
    have hconn2 : (readMessage cfg .pos true false w.pre.st).2.connected = o.connected := by
      rw [← hO]; exact readMessage_connected cfg .pos true false w.pre.st
    have hsub2 : (readMessage cfg .pos true false w.pre.st).2.sub = ⟨false, []⟩ :=
      readMessage_sub cfg .pos true false w.pre.st
    have hclosed : ∀ sub, (⟨Sock.dead, false, sub⟩ : St) = (w.pre.closed sub).st := fun _ => rfl
    have hsubAt : subAtHandshake p.st = (if p.connected = true then ⟨false, []⟩ else p.sub) := rfl
    cases hres : o.res with
    | msg h pl =>
      have hnb : (obsOf cfg w.pre hsArgs).res ≠ .blocked := by rw [hobs, hres]; simp
      obtain ⟨p', h1, h2, h3, _⟩ := advance_tracks_model cfg w.pre hsArgs hww hnb
      rw [hobs] at h1
      have hm1 : (Res.msg h pl == Res.lost) = false := by rw [beq_eq_false_iff_ne]; intro hh; cases hh
      have hcon : o.connected = true := by
        have hsp := hspec
        rw [hobs] at hsp
        simp only [specOk, clauses, List.all_cons, List.all_nil, Bool.and_true, Bool.and_eq_true] at hsp
        obtain ⟨_, _, _, _, _, _, hl, _, _⟩ := hsp
        simpa [hres, hm1, Res.isNormal, Wire.pre] using hl
      have hadv : w.pre.advance ⟨.none, o.consumed, true⟩ = some p' := by
        rw [← h1]; exact advance_congr _ _ _ (by rw [hres, hm1]; rfl) rfl hcon.symm
      have h3' : p'.st = (readMessage cfg .pos true false w.pre.st).2 := h3
      have hc2 : (readMessage cfg .pos true false w.pre.st).2.connected = true := by rw [hconn2]; exact hcon
      have hst : p'.st = ⟨(readMessage cfg .pos true false w.pre.st).2.sock, true, noSub⟩ := by
        rw [h3']
        generalize (readMessage cfg .pos true false w.pre.st).2 = R at hc2 hsub2 ⊢
        obtain ⟨rs, rc, rsub⟩ := R
        simp only at hc2 hsub2
        rw [hc2, hsub2]; rfl
      simp only [connNext, CRes.ofRes, beq_self_eq_true, if_true, Res.isMsg, hadv]
      rw [← hst]
      exact life_history_meets_spec cfg cs p' h2 hcs
    | lost =>
      simp only [connNext, CRes.ofRes, Res.isMsg, Bool.false_eq_true, if_false, hclosed, hsubAt]
      exact life_history_meets_spec cfg cs _ (closed_wf cfg w.pre _ hww) hcs
    | none =>
      simp only [connNext, CRes.ofRes, Res.isMsg, Bool.false_eq_true, if_false, hclosed, hsubAt]
      exact life_history_meets_spec cfg cs _ (closed_wf cfg w.pre _ hww) hcs
    | unknownType h r =>
      simp only [connNext, CRes.ofRes, Res.isMsg, Bool.false_eq_true, if_false, hclosed, hsubAt]
      exact life_history_meets_spec cfg cs _ (closed_wf cfg w.pre _ hww) hcs
    | invalidDef =>
      simp only [connNext, CRes.ofRes, Res.isMsg, Bool.false_eq_true, if_false, hclosed, hsubAt]
      exact life_history_meets_spec cfg cs _ (closed_wf cfg w.pre _ hww) hcs
    | notConnected => simp [connNext, CRes.ofRes, CRes.isNormal]
    | blocked => simp [connNext, CRes.ofRes, CRes.isNormal]
    | crash => simp [connNext, CRes.ofRes, CRes.isNormal]
  | .disconnect :: cs, p, hw, hcw => by
    simp only [List.map_cons, SCall.toL, runLife, lifeStep, lifeHistOk]
    have hst : disconnectCall p.st = (p.closed ⟨false, []⟩).st := rfl
    rw [hst]
    exact life_history_meets_spec cfg cs _ (closed_wf cfg p _ hw) (by simpa [callsWf] using hcw)
  | .sendFail :: cs, p, hw, hcw => by
    simp only [List.map_cons, SCall.toL, runLife, lifeStep, lifeHistOk, Bool.and_eq_true]
    by_cases hc : p.connected = true
    · have hc' : p.st.connected = true := hc
      have hst : ({ p.st with sock := Sock.dead, connected := false } : St) = (p.closed p.sub).st := rfl
      simp only [sendFailCall, hc', if_true, hc, hst]
      refine ⟨by simp [sendFailOk, hc], ?_⟩
      exact life_history_meets_spec cfg cs _ (closed_wf cfg p _ hw) (by simpa [callsWf] using hcw)
    · have hc' : p.st.connected = false := by simpa [Pre.st] using hc
      have hcf : p.connected = false := by simpa using hc
      simp only [sendFailCall, hc', Bool.false_eq_true, if_false, hcf]
      refine ⟨by simp [sendFailOk, hcf], ?_⟩
      exact life_history_meets_spec cfg cs p hw (by simpa [callsWf] using hcw)

/-- … in particular for a client object from its constructor on -/
theorem life_from_constructor_meets_spec (cfg : Cfg) (hs : 48 ≤ cfg.hsize) (calls : List SCall)
    (hcw : callsWf cfg calls = true) :
    lifeHistOk cfg Pre.never calls (runLife cfg (calls.map SCall.toL) St.fresh) = true := by
  have hw : Pre.never.wf cfg = true := by simp [Pre.never, Pre.wf, hs, wf_empty_tail hs]
  exact life_history_meets_spec cfg calls Pre.never hw hcw


/-- The fuel of `readLoop` is a device for structural recursion only: any amount above the number of queued
frames gives the same answer (so the model never stops for lack of fuel). -/
theorem fuel_irrelevant (cfg : Cfg) (p : Pre) (a : Args) (hw : p.wf cfg = true) (n m : Nat)
    (hn : p.fs.length < n) (hm : p.fs.length < m) :
    readLoop cfg p.sub a.tmo a.ack a.sync n p.sock = readLoop cfg p.sub a.tmo a.ack a.sync m p.sock := by
  obtain ⟨hs, hwf, hi, hb⟩ := wf_parts hw
  simp only [Pre.sock]
  rw [readLoop_eq_ref cfg p.sub a p.tail p.e hs hi hb p.fs n hwf hn,
      readLoop_eq_ref cfg p.sub a p.tail p.e hs hi hb p.fs m hwf hm]

/-! ### Non-vacuity: concrete queues that meet the hypotheses and reach every outcome -/

section Examples

def le32 (n : Nat) : Bytes := [UInt8.ofNat n, UInt8.ofNat (n / 256), UInt8.ofNat (n / 65536), UInt8.ofNat (n / 16777216)]
/-- a 48-byte header: msg_type @0, num_data_bytes @32, version @44, everything else 7 -/
def mkHdr (ty len ver : Nat) : Bytes :=
  le32 ty ++ List.replicate 28 7 ++ le32 len ++ List.replicate 8 7 ++ le32 ver

def exCfg : Cfg := { hsize := 48, defs := [⟨10, 2, 99⟩, ⟨11, 0, 5⟩, ⟨12, 1, 6⟩], ack := 2 }
def fGood : Frame := ⟨mkHdr 10 2 99, [1, 2]⟩           -- subscribed, right size, right version
def fUnsub : Frame := ⟨mkHdr 12 1 6, [9]⟩              -- decodable, not subscribed
def fUnknown : Frame := ⟨mkHdr 77 3 0, [4, 5, 6]⟩      -- no definition
def fSize : Frame := ⟨mkHdr 10 3 99, [1, 2, 3]⟩        -- size differs from the definition
def fVer : Frame := ⟨mkHdr 10 2 98, [1, 2]⟩            -- version differs (only with sync_check)
def fSignal : Frame := ⟨mkHdr 11 0 0, []⟩              -- zero-length, version not filled in
def exPre (fs : List Frame) (tail : Bytes) (e : End) : Pre :=
  { fs := fs, tail := tail, e := e, connected := true, sub := ⟨false, [10, 11]⟩ }
def exArgs : Args := ⟨.neg, false, true⟩

example : (exPre [fUnsub, fUnknown, fSize, fVer, fSignal, fGood] ((mkHdr 10 2 99).take 20) .fin).wf exCfg = true := by
  decide +kernel
/-- unsubscribed frame skipped, then the unknown type raises, consuming 48+1+48+3 bytes -/
example : obsOf exCfg (exPre [fUnsub, fUnknown, fGood] [] .idle) exArgs =
    ⟨.unknownType fUnknown.hdr [4, 5, 6], 100, true⟩ := by decide +kernel
example : (obsOf exCfg (exPre [fSize, fGood] [] .idle) exArgs).res = .invalidDef := by decide +kernel
example : (obsOf exCfg (exPre [fVer, fGood] [] .idle) exArgs).res = .invalidDef := by decide +kernel
/-- without sync_check the same frame is delivered -/
example : (obsOf exCfg (exPre [fVer, fGood] [] .idle) ⟨.neg, false, false⟩).res = .msg fVer.hdr [1, 2] := by decide +kernel
example : obsOf exCfg (exPre [fSignal] [] .idle) exArgs = ⟨.msg fSignal.hdr [], 48, true⟩ := by decide +kernel
/-- timeout 0 discards one unsubscribed frame and reports "no message" -/
example : obsOf exCfg (exPre [fUnsub, fGood] [] .idle) ⟨.zero, false, true⟩ = ⟨.none, 49, true⟩ := by decide +kernel
/-- FIN 20 bytes into a header: ConnectionLost, disconnected -/
example : obsOf exCfg (exPre [fUnsub] ((mkHdr 10 2 99).take 20) .fin) exArgs = ⟨.lost, 69, false⟩ := by decide +kernel
/-- RST one byte into the payload being drained for an unknown type: ConnectionLost -/
example : obsOf exCfg (exPre [] (mkHdr 77 3 0 ++ [4]) .rst) exArgs = ⟨.lost, 49, false⟩ := by decide +kernel
/-- the tolerated quirk: FIN there raises the decode error; the next read reports the loss -/
example : (obsOf exCfg (exPre [] (mkHdr 77 3 0 ++ [4]) .fin) exArgs).res = .unknownType (mkHdr 77 3 0) [4] := by
  decide +kernel
/-- a history: error, resynchronised read, subscription change filtering an already queued message, loss -/
example : (runCalls exCfg [.read .pos false true, .read .pos false true, .setSub ⟨false, [11]⟩,
      .read .pos false true, .read .pos false true, .read .pos false true]
    (exPre [fSize, fGood, fGood, fSignal] [] .fin).st).map (·.res) =
    [.invalidDef, .msg fGood.hdr [1, 2], .msg fSignal.hdr [], .lost, .notConnected] := by decide +kernel

/-- the local definition table changes between reads (type 10 registered again with 3 bytes, type 77 defined, type 12
removed): the frame that matched the old layout is now refused and consumed whole, the one that matches the new layout
is returned, the formerly unknown type is decoded, the removed one is unknown — each read uses the table of its time -/
example : (runCalls exCfg [.read .pos false true, .setDefs [⟨10, 3, 99⟩, ⟨11, 0, 5⟩, ⟨77, 3, 1⟩], .setSub ⟨true, []⟩,
      .read .pos false true, .read .pos false true, .read .pos false true, .read .pos false true]
    (exPre [fGood, fGood, fSize, fUnknown, fUnsub] [] .idle).st).map (·.res) =
    [.msg fGood.hdr [1, 2], .invalidDef, .msg fSize.hdr [1, 2, 3], .msg fUnknown.hdr [4, 5, 6],
     .unknownType fUnsub.hdr [9]] := by decide +kernel
example : histOk exCfg (exPre [fGood, fGood, fSize] [] .idle)
    [.read .pos false true, .setDefs [⟨10, 3, 99⟩], .read .pos false true, .read .pos false true]
    [⟨.msg fGood.hdr [1, 2], 50, true⟩, ⟨.msg fGood.hdr [1, 2], 50, true⟩, ⟨.invalidDef, 51, true⟩] = false := by
  decide +kernel      -- a client that keeps decoding with the stale definition (the seeded change C08h) fails the Spec

/-! several sessions -/

/-- `exCfg` plus the definition of ACKNOWLEDGE (type 2, no payload) -/
def exCfgA : Cfg := { exCfg with defs := exCfg.defs ++ [⟨2, 0, 7⟩] }
def fAck : Frame := ⟨mkHdr 2 0 0, []⟩
def wireOf (fs : List Frame) (e : End) : Wire := ⟨fs, [], e⟩

/-- a session subscribed to type 10 loses its connection under a send; the next connection carries two ACKs and
then a frame of type 10: `connect()` takes the first ACK, the read skips the second ACK *and* the frame (98 bytes) -/
example : runLife exCfgA ([.connect (wireOf [fAck] .idle), .setSub ⟨false, [10]⟩, .sendFail, .read .pos false true,
      .connect (wireOf [fAck, fAck, fGood] .idle), .read .pos false true].map SCall.toL) St.fresh =
    [.conn ⟨.joined, 48, true⟩, .unit, .conn ⟨.lost, 0, false⟩, .read ⟨.notConnected, 0, false⟩,
     .conn ⟨.joined, 48, true⟩, .read ⟨.none, 98, true⟩] := by decide +kernel
/-- the same with an old subscribe-to-all, and with a frame queued *before* the ACK: dropped by the wait -/
example : runLife exCfgA ([.connect (wireOf [fAck] .idle), .setSub ⟨true, [2147483647]⟩, .sendFail,
      .connect (wireOf [fGood, fAck, fGood] .idle), .read .zero false true].map SCall.toL) St.fresh =
    [.conn ⟨.joined, 48, true⟩, .unit, .conn ⟨.lost, 0, false⟩, .conn ⟨.joined, 98, true⟩, .read ⟨.none, 50, true⟩] := by
  decide +kernel
/-- before any connect; a handshake that never sees an ACK (timeout: disconnected, socket closed, sets kept); one
whose peer closes; an undecodable frame before the ACK escapes from `connect()` -/
example : runLife exCfgA [.read .neg true true, .sendFail, .disconnect] St.fresh =
    [.read ⟨.notConnected, 0, false⟩, .conn ⟨.notConnected, 0, false⟩, .unit] := by decide +kernel
example : (connectCall exCfgA ⟨Sock.dead, false, ⟨false, [10]⟩⟩ (wireOf [fGood] .idle).sock) =
    (⟨.ackTimeout, 50, false⟩, ⟨Sock.dead, false, ⟨false, [10]⟩⟩) := by decide +kernel
example : (connectCall exCfgA St.fresh (wireOf [fGood] .fin).sock).1 = ⟨.lost, 50, false⟩ := by decide +kernel
example : (connectCall exCfgA St.fresh (wireOf [fUnknown, fAck] .idle).sock).1 = ⟨.unknownType, 51, false⟩ := by
  decide +kernel
/-- the hypotheses of `life_history_meets_spec` are satisfiable, the oracle accepts the model's trace, and it is
not trivially true: a second session that hands out the frame of the old type fails `returned_type_subscribed` -/
def exCalls : List SCall :=
  [.connect (wireOf [fAck] .idle), .setSub ⟨false, [10]⟩, .sendFail, .connect (wireOf [fAck, fAck, fGood] .idle),
   .read .pos false true]
example : callsWf exCfgA exCalls = true := by decide +kernel
example : lifeHistOk exCfgA Pre.never exCalls (runLife exCfgA (exCalls.map SCall.toL) St.fresh) = true := by
  decide +kernel
example : lifeHistOk exCfgA Pre.never exCalls
    [.conn ⟨.joined, 48, true⟩, .unit, .conn ⟨.lost, 0, false⟩, .conn ⟨.joined, 48, true⟩,
     .read ⟨.msg fGood.hdr fGood.payload, 98, true⟩] = false := by decide +kernel

end Examples

end Pyrtma.C08
