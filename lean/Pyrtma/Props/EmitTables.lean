import Pyrtma.Spec.Denote
import Pyrtma.Spec.Emit
import Pyrtma.Gen.TypeTables
import Pyrtma.Gen.CoreYaml
/-!
# The regenerated native-type tables as the `Tables` parameter of M9

`Gen/TypeTables.lean` holds the six dict literals of the code as strings; `Spec/Denote.lean` gives the type names
a meaning; identifiers are numbered by `Gen/CoreYaml.names` (the interning the translator used).
-/
namespace Pyrtma.Emit.Inst
open Pyrtma.Emit Pyrtma.Gen

/-- number of an identifier (position in `CoreYaml.names`, 1-based; 0 = not interned) -/
def idOf (s : String) : Name :=
  match CoreYaml.names.findIdx? (· == s) with
  | some i => i + 1
  | none => 0

def denRows (rows : List (String × String)) (tbl : List (String × Den)) : List (Name × Den) :=
  rows.filterMap (fun r => (Denote.look tbl r.2).map (fun d => (idOf r.1, d)))

/-- the tables of the working tree -/
def tables : Tables :=
  { natives := TypeTables.supported.map (fun r => (idOf r.1, idOf r.2.1, r.2.2.1))
    parserCt := TypeTables.parserCtypes.map (fun r => idOf r.1)
    pyCt := denRows TypeTables.pyCtypes Denote.ofCtypes
    pyDesc := denRows TypeTables.pyDesc Denote.ofPyDesc
    c := denRows TypeTables.c99 Denote.ofC
    js := (TypeTables.js.filter (fun r => r.1 != "string")).map (fun r => (idOf r.1, r.2 == "\"\""))
    m := denRows TypeTables.matlab Denote.ofMatlab
    charName := idOf "char"
    hdrName := idOf "RTMA_MSG_HEADER"
    maxMsgId := TypeTables.maxMessageTypes }

/-- what `supported_types` itself says a native key is: size and struct format letter -/
def fmtDen (key : String) : Option Den :=
  match TypeTables.supported.find? (fun r => r.1 == key) with
  | some r => Denote.look Denote.ofFormat r.2.2.2
  | none => none

def keys : List String := TypeTables.supported.map (·.1)

def lookS (rows : List (String × String)) (k : String) : Option String := (rows.find? (fun r => r.1 == k)).map (·.2)

end Pyrtma.Emit.Inst
