import Pyrtma.Props.EmitTables
import Pyrtma.Gen.CorePy
/-!
# C16 — deterministic compilation; combined-YAML round trip; the shipped core definitions are current

Proof-level content: `core_py_current` (both sides regenerated from the working tree on every run and compared by
kernel evaluation) and the section-order theorem about the combined file.  Determinism itself ("same bytes twice,
from any working or output directory") is a property of CPython dict order, `cwd` handling and `black`, not of a
Lean function (which is deterministic by construction): it is decided on the implementation by the harness.
-/
namespace Pyrtma.C16
open Pyrtma.Emit Pyrtma.Emit.Inst Pyrtma.Gen

/-- the Python emission of the model for the three shipped YAML files (read by the parser-independent YAML-subset
reader, hashes = sha256 of the definition text computed by the translator) against what `core_defs.py` declares
(read by `ast`): constants, string constants, aliases, host / module / message ids, and for every struct and
message class its id, 32-bit hash prefix, `type_size`, and the descriptors (kind, element type, length) in order -/
def corePyCheck : Bool :=
  match elaborate tables true CoreYaml.items {} with
  | .ok R => emitPy tables R == CorePy.stmts
  | .error _ => false

/-- **`core_py_current`.**  The shipped `core_defs.py` is exactly what the compiler model produces from the shipped
`core_defs.yaml` / `data_logger.yaml` / `quick_logger.yaml`. -/
theorem core_py_current : corePyCheck = true := by decide +kernel

/-! ### the combined YAML

Full statement (`combined_yaml_roundtrip`): `elaborate T ap items {} = .ok R → sectionsOrdered R →
∃ R', elaborate T ap (combine items) {} = .ok R' ∧ R'.sig = R.sig` where `sectionsOrdered` = no alias targets a struct
and no struct contains a message (outside it the re-parse fails: open finding C16-F2, demonstrated by the harness).
Proved: the combined file presents the items section by section (`combine`), and for a closure that is already
in section order — every single-file closure — the re-parse reads the *same item sequence* (so the same registry up
to the "came from core_defs/" flag, which the combined file does not carry).  Missing: commuting independent items
across sections for multi-file closures; the harness re-parses the real combined file of every generated closure. -/

theorem filter_sec_self {l : List (Bool × Item)} {i : Nat} (h : ∀ x ∈ l, x.2.section = i) :
    l.filter (fun x => x.2.section == i) = l := by
  apply List.filter_eq_self.mpr; intro x hx; simp [h x hx]

theorem filter_sec_nil {l : List (Bool × Item)} {i j : Nat} (h : ∀ x ∈ l, x.2.section = i) (hij : i ≠ j) :
    l.filter (fun x => x.2.section == j) = [] := by
  apply List.filter_eq_nil_iff.mpr; intro x hx; simp [h x hx, hij]

/-- **`combined_yaml_roundtrip_partial`.**  A closure whose items are already grouped in section order (constants,
string constants, aliases, host ids, module ids, structs, messages — e.g. any single file) is presented to the
re-parse in exactly the same order. -/
theorem combined_yaml_roundtrip_partial (l0 l1 l2 l3 l4 l5 l6 : List (Bool × Item))
    (h0 : ∀ x ∈ l0, x.2.section = 0) (h1 : ∀ x ∈ l1, x.2.section = 1) (h2 : ∀ x ∈ l2, x.2.section = 2)
    (h3 : ∀ x ∈ l3, x.2.section = 3) (h4 : ∀ x ∈ l4, x.2.section = 4) (h5 : ∀ x ∈ l5, x.2.section = 5)
    (h6 : ∀ x ∈ l6, x.2.section = 6) :
    (combine (l0 ++ l1 ++ l2 ++ l3 ++ l4 ++ l5 ++ l6)).map (·.2) = (l0 ++ l1 ++ l2 ++ l3 ++ l4 ++ l5 ++ l6).map (·.2) := by
  unfold combine
  simp only [List.map, List.filter_append,
    filter_sec_self h0, filter_sec_self h1, filter_sec_self h2, filter_sec_self h3, filter_sec_self h4,
    filter_sec_self h5, filter_sec_self h6,
    filter_sec_nil h0 (by decide : (0:Nat) ≠ 1), filter_sec_nil h0 (by decide : (0:Nat) ≠ 2), filter_sec_nil h0 (by decide : (0:Nat) ≠ 3),
    filter_sec_nil h0 (by decide : (0:Nat) ≠ 4), filter_sec_nil h0 (by decide : (0:Nat) ≠ 5), filter_sec_nil h0 (by decide : (0:Nat) ≠ 6),
    filter_sec_nil h1 (by decide : (1:Nat) ≠ 0), filter_sec_nil h1 (by decide : (1:Nat) ≠ 2), filter_sec_nil h1 (by decide : (1:Nat) ≠ 3),
    filter_sec_nil h1 (by decide : (1:Nat) ≠ 4), filter_sec_nil h1 (by decide : (1:Nat) ≠ 5), filter_sec_nil h1 (by decide : (1:Nat) ≠ 6),
    filter_sec_nil h2 (by decide : (2:Nat) ≠ 0), filter_sec_nil h2 (by decide : (2:Nat) ≠ 1), filter_sec_nil h2 (by decide : (2:Nat) ≠ 3),
    filter_sec_nil h2 (by decide : (2:Nat) ≠ 4), filter_sec_nil h2 (by decide : (2:Nat) ≠ 5), filter_sec_nil h2 (by decide : (2:Nat) ≠ 6),
    filter_sec_nil h3 (by decide : (3:Nat) ≠ 0), filter_sec_nil h3 (by decide : (3:Nat) ≠ 1), filter_sec_nil h3 (by decide : (3:Nat) ≠ 2),
    filter_sec_nil h3 (by decide : (3:Nat) ≠ 4), filter_sec_nil h3 (by decide : (3:Nat) ≠ 5), filter_sec_nil h3 (by decide : (3:Nat) ≠ 6),
    filter_sec_nil h4 (by decide : (4:Nat) ≠ 0), filter_sec_nil h4 (by decide : (4:Nat) ≠ 1), filter_sec_nil h4 (by decide : (4:Nat) ≠ 2),
    filter_sec_nil h4 (by decide : (4:Nat) ≠ 3), filter_sec_nil h4 (by decide : (4:Nat) ≠ 5), filter_sec_nil h4 (by decide : (4:Nat) ≠ 6),
    filter_sec_nil h5 (by decide : (5:Nat) ≠ 0), filter_sec_nil h5 (by decide : (5:Nat) ≠ 1), filter_sec_nil h5 (by decide : (5:Nat) ≠ 2),
    filter_sec_nil h5 (by decide : (5:Nat) ≠ 3), filter_sec_nil h5 (by decide : (5:Nat) ≠ 4), filter_sec_nil h5 (by decide : (5:Nat) ≠ 6),
    filter_sec_nil h6 (by decide : (6:Nat) ≠ 0), filter_sec_nil h6 (by decide : (6:Nat) ≠ 1), filter_sec_nil h6 (by decide : (6:Nat) ≠ 2),
    filter_sec_nil h6 (by decide : (6:Nat) ≠ 3), filter_sec_nil h6 (by decide : (6:Nat) ≠ 4), filter_sec_nil h6 (by decide : (6:Nat) ≠ 5)]
  simp [List.map_append, List.map_map, Function.comp_def]

/-! ### Non-vacuity -/

/-- the core registry is not trivial: 3 files, more than 50 messages -/
example : (match elaborate tables true CoreYaml.items {} with
    | .ok R => decide (R.msgs.length > 50 ∧ R.structs.length ≥ 5 ∧ R.aliases.length = 4)
    | .error _ => false) = true := by decide +kernel

/-- a stale `core_defs.py` is detected: changing one recorded size refutes the check -/
example : (match elaborate tables true CoreYaml.items {} with
    | .ok R => emitPy tables R == (CorePy.stmts.map (fun s => match s with
        | .defn sp n id h (some sz) fs => .defn sp n id h (some (sz + 2)) fs
        | s => s))
    | .error _ => true) = false := by decide +kernel

end Pyrtma.C16
